(* C09 / tables_replay: replaying the output of the operand-table decoder (ToArgs.found_index,
   additional_args) through the encoder (FromArgs.add, to_tuple) gives back every operand
   index and the table, duplicate keys included; characterisation of the overrides. *)
From Coq Require Import ZArith List Bool Lia ZifyBool FinFun Sorted.
From PCD Require Import Base.PyBase Base.Cfg Model.Flags Model.Args Model.Data Model.LineTable
  Model.Blocks.
Import ListNotations. Open Scope Z_scope.
Ltac Zify.zify_post_hook ::= Z.to_euclidean_division_equations.

(* ------------------------------------------------------------------ *)
(** * Insertion ordered dictionaries *)

Section ODictLemmas.
  Context {V : Type}.
  Implicit Types d : odict V.

  Lemma oget_oset d k v k' :
    oget (oset d k v) k' = if k =? k' then Some v else oget d k'.
  Proof.
    induction d as [|[k0 v0] r IH]; cbn [oset oget].
    - reflexivity.
    - destruct (k0 =? k) eqn:E0; cbn [oget].
      + destruct (k =? k') eqn:E1; destruct (k0 =? k') eqn:E2; try reflexivity; lia.
      + rewrite IH. destruct (k0 =? k') eqn:E2; destruct (k =? k') eqn:E1; try reflexivity; lia.
  Qed.

  Lemma omem_oset d k v k' : omem (oset d k v) k' = (k =? k') || omem d k'.
  Proof. unfold omem. rewrite oget_oset. destruct (k =? k'); reflexivity. Qed.

  Lemma okeys_oset d k v :
    okeys (oset d k v) = if omem d k then okeys d else okeys d ++ [k].
  Proof.
    unfold omem, okeys. induction d as [|[k0 v0] r IH]; cbn [oset oget map fst app].
    - reflexivity.
    - destruct (k0 =? k) eqn:E0; cbn [map fst].
      + f_equal. lia.
      + rewrite IH. destruct (oget r k); reflexivity.
  Qed.

  Lemma zlen_oset d k v :
    zlen (oset d k v) = if omem d k then zlen d else zlen d + 1.
  Proof.
    unfold zlen. rewrite <- (map_length fst (oset d k v)), <- (map_length fst d).
    fold (okeys (oset d k v)). fold (okeys d). rewrite okeys_oset.
    destruct (omem d k); [reflexivity|]. rewrite app_length. cbn [length]. lia.
  Qed.

  Lemma omem_In d k : omem d k = true <-> In k (okeys d).
  Proof.
    unfold omem, okeys. induction d as [|[k0 v0] r IH]; cbn [oget map fst In].
    - split; [discriminate | tauto].
    - destruct (k0 =? k) eqn:E0.
      + split; [intros _; left; lia | reflexivity].
      + rewrite IH. split; [tauto | intros [H|H]; [lia | exact H]].
  Qed.

  Lemma omem_oget d k : omem d k = true -> exists v, oget d k = Some v.
  Proof. unfold omem. destruct (oget d k); [eauto | discriminate]. Qed.
End ODictLemmas.

Definition zrange (n : nat) : list Z := map Z.of_nat (seq 0 n).

Lemma in_zrange n i : In i (zrange n) <-> 0 <= i < Z.of_nat n.
Proof.
  unfold zrange. rewrite in_map_iff. split.
  - intros (k & <- & Hk). apply in_seq in Hk. lia.
  - intros H. exists (Z.to_nat i). split; [lia | apply in_seq; lia].
Qed.

Lemma NoDup_zrange n : NoDup (zrange n).
Proof.
  unfold zrange. apply Injective_map_NoDup; [|apply seq_NoDup].
  intros a b H. lia.
Qed.

Lemma zrange_length n : length (zrange n) = n.
Proof. unfold zrange. now rewrite map_length, seq_length. Qed.

Lemma NoDup_app_snoc {A} (l : list A) x : NoDup l -> ~ In x l -> NoDup (l ++ [x]).
Proof.
  intros Hl Hx. apply NoDup_rev in Hl. rewrite <- (rev_involutive (l ++ [x])).
  apply NoDup_rev. rewrite rev_app_distr. cbn. constructor; [|exact Hl].
  now rewrite <- in_rev.
Qed.

Lemma zrange_sorted n : StronglySorted Z.lt (zrange n).
Proof.
  unfold zrange. generalize 0%nat as s. induction n as [|n IH]; intros s; cbn [seq map].
  - constructor.
  - constructor; [apply IH|]. apply Forall_forall. intros x Hx.
    apply in_map_iff in Hx as (k & <- & Hk). apply in_seq in Hk. lia.
Qed.

Lemma filter_sorted (f : Z -> bool) l : StronglySorted Z.lt l -> StronglySorted Z.lt (filter f l).
Proof.
  induction 1 as [|x l Hs IH Hf]; cbn [filter]; [constructor|].
  destruct (f x); [|exact IH]. constructor; [exact IH|].
  apply Forall_forall. intros y Hy. apply filter_In in Hy as [Hy _].
  rewrite Forall_forall in Hf. now apply Hf.
Qed.

Lemma filter_nil {A} (f : A -> bool) l : (forall x, In x l -> f x = false) -> filter f l = [].
Proof.
  induction l as [|x l IH]; intros H; cbn [filter]; [reflexivity|].
  rewrite (H x) by now left. apply IH. intros y Hy. apply H. now right.
Qed.

Lemma zrange_S n : zrange (S n) = zrange n ++ [Z.of_nat n].
Proof. unfold zrange. rewrite seq_S, map_app. reflexivity. Qed.

(* ------------------------------------------------------------------ *)
(** * Key tables *)

Section Keys.
  Context {T : Type} (keq : T -> T -> bool).
  Hypothesis keq_refl : forall x, keq x x = true.
  Hypothesis keq_sym : forall x y, keq x y = keq y x.
  Hypothesis keq_trans : forall x y z, keq x y = true -> keq y z = true -> keq x z = true.

  Lemma keq_cong x y z : keq x y = true -> keq x z = keq y z.
  Proof.
    intros H. destruct (keq y z) eqn:E.
    - eapply keq_trans; eauto.
    - destruct (keq x z) eqn:E'; [|reflexivity].
      rewrite <- E. symmetry. eapply keq_trans; [|exact E']. now rewrite keq_sym.
  Qed.

  Lemma keq_cong_r x y z : keq x y = true -> keq z x = keq z y.
  Proof. intros H. rewrite (keq_sym z x), (keq_sym z y). now apply keq_cong. Qed.

  Lemma key_lookup_ext ks k1 k2 :
    keq k1 k2 = true -> key_lookup keq ks k1 = key_lookup keq ks k2.
  Proof.
    intros H. induction ks as [|[k' i] r IH]; cbn [key_lookup]; [reflexivity|].
    rewrite (keq_cong _ _ k' H), IH. reflexivity.
  Qed.

  Lemma key_lookup_key_set ks a i k :
    key_lookup keq (key_set keq ks a i) k = if keq k a then Some i else key_lookup keq ks k.
  Proof.
    induction ks as [|[k' j] r IH]; cbn [key_set key_lookup].
    - reflexivity.
    - destruct (keq a k') eqn:E1; cbn [key_lookup].
      + destruct (keq k a) eqn:E2.
        * rewrite (keq_cong _ _ k' E2), E1. reflexivity.
        * destruct (keq k k') eqn:E3; [|reflexivity].
          exfalso. rewrite (keq_cong_r _ _ k E1) in E2. rewrite keq_sym in E2. congruence.
      + rewrite IH. destruct (keq k k') eqn:E3; [|reflexivity].
        destruct (keq k a) eqn:E2; [|reflexivity].
        exfalso. rewrite <- (keq_cong _ _ k' E2) in E1. congruence.
  Qed.

  Lemma key_lookup_snoc ks a i k :
    key_lookup keq (ks ++ [(a, i)]) k =
    match key_lookup keq ks k with
    | Some f => Some f
    | None => if keq k a then Some i else None
    end.
  Proof.
    induction ks as [|[k' j] r IH]; cbn [app key_lookup]; [reflexivity|].
    destruct (keq k k'); [reflexivity | exact IH].
  Qed.

  Lemma key_mem_ext ds k1 k2 : keq k1 k2 = true -> key_mem keq ds k1 = key_mem keq ds k2.
  Proof.
    intros H. unfold key_mem. induction ds as [|d r IH]; cbn [existsb]; [reflexivity|].
    rewrite (keq_cong _ _ d H), IH. reflexivity.
  Qed.

  Lemma key_mem_cons ds a k : key_mem keq (a :: ds) k = keq k a || key_mem keq ds k.
  Proof. reflexivity. Qed.
End Keys.

(* ------------------------------------------------------------------ *)
(** * python indexing *)

Lemma py_index_nonneg {A} (l : list A) i :
  0 <= i -> py_index l i = nth_error l (Z.to_nat i).
Proof.
  intros H. unfold py_index, znth. destruct (i <? 0) eqn:E; [lia | reflexivity].
Qed.

Lemma py_index_inrange {A} (l : list A) i :
  0 <= i < zlen l -> exists a, py_index l i = Some a.
Proof.
  intros H. rewrite py_index_nonneg by lia.
  destruct (nth_error l (Z.to_nat i)) eqn:E; [eauto|].
  apply nth_error_None in E. unfold zlen in H. lia.
Qed.

(* ------------------------------------------------------------------ *)
(** * Decoder / encoder runs *)

Section Replay.
  Context {T : Type} (keq : T -> T -> bool).
  Hypothesis keq_refl : forall x, keq x x = true.
  Hypothesis keq_sym : forall x y, keq x y = keq y x.
  Hypothesis keq_trans : forall x y z, keq x y = true -> keq y z = true -> keq x z = true.

  (* decoder: thread found_index over the operand indices of the instructions *)
  Fixpoint found_all (st : toargs T) (idxs : list Z) : res (list (T * option Z) * toargs T) :=
    match idxs with
    | [] => OK ([], st)
    | i :: r => match found_index keq st i with
                | Err e => Err e
                | OK (a, ov, st1) => match found_all st1 r with
                                     | OK (l, st2) => OK ((a, ov) :: l, st2) | Err e => Err e end
                end
    end.
  (* encoder: thread fa_add *)
  Fixpoint add_all (st : fromargs T) (l : list (T * option Z)) : res (list Z * fromargs T) :=
    match l with
    | [] => OK ([], st)
    | (a, ov) :: r => match fa_add keq st a ov with
                      | Err e => Err e
                      | OK (i, st1) => match add_all st1 r with
                                       | OK (is, st2) => OK (i :: is, st2) | Err e => Err e end
                      end
    end.
  (* encoder preset (enc_init): for i, k in enumerate(l): t[i] = k *)
  Fixpoint set_all (l : list T) (i : Z) (t : fromargs T) : res (fromargs T) :=
    match l with
    | [] => OK t
    | k :: r => match fa_setitem keq t i k with OK t' => set_all r (i + 1) t' | Err e => Err e end
    end.

  Lemma found_index_spec ts idx a ov ts1 :
    found_index keq ts idx = OK (a, ov, ts1) ->
    py_index (ta_args ts) idx = Some a /\
    ta_args ts1 = ta_args ts /\
    ta_order ts1 = (if omem (ta_order ts) idx then ta_order ts
                    else oset (ta_order ts) idx (zlen (ta_order ts))) /\
    ov = (if negb (match oget (ta_order ts1) idx with Some o => o =? idx | None => false end)
             || key_mem keq (ta_dups ts1) a then Some idx else None) /\
    ( (omem (ta_order ts) idx = true /\ ts1 = ts) \/
      (omem (ta_order ts) idx = false /\
       exists first, key_lookup keq (ta_keys ts) a = Some first /\
         ta_keys ts1 = ta_keys ts /\
         ta_dups ts1 = (if first =? idx then ta_dups ts
                        else if key_mem keq (ta_dups ts) a then ta_dups ts else a :: ta_dups ts)) \/
      (omem (ta_order ts) idx = false /\ key_lookup keq (ta_keys ts) a = None /\
       ta_keys ts1 = ta_keys ts ++ [(a, idx)] /\ ta_dups ts1 = ta_dups ts)).
  Proof.
    unfold found_index. destruct (py_index (ta_args ts) idx) as [a0|] eqn:Ea; [|discriminate].
    destruct (omem (ta_order ts) idx) eqn:Em.
    - intros H. inversion H; subst. repeat split; auto.
    - destruct (key_lookup keq (ta_keys ts) a0) as [first|] eqn:Ek;
        intros H; inversion H; subst; cbn [ta_args ta_order ta_keys ta_dups].
      + repeat split; auto. right; left. split; auto. exists first. auto.
      + repeat split; auto. right; right. auto.
  Qed.

  Lemma found_index_ok ts idx :
    (exists a, py_index (ta_args ts) idx = Some a) -> exists r, found_index keq ts idx = OK r.
  Proof. intros [a Ha]. unfold found_index. rewrite Ha. eauto. Qed.

  (* ---------------------------------------------------------------- *)
  (** ** Invariants *)
  Section WithTable.
  Variable tbl : list T.
  Notation val := (py_index tbl).

  (* decoder state *)
  Record DI (ts : toargs T) : Prop := {
    D_args : ta_args ts = tbl;
    D_range : forall i, omem (ta_order ts) i = true -> 0 <= i < zlen tbl;
    D_keys : forall k f, key_lookup keq (ta_keys ts) k = Some f ->
        omem (ta_order ts) f = true /\ exists b, val f = Some b /\ keq k b = true;
    (* a found index is registered under its key, or its key is unique in the table *)
    D_reg : forall i a, omem (ta_order ts) i = true -> val i = Some a ->
        (exists f, key_lookup keq (ta_keys ts) a = Some f) \/
        (forall j b, 0 <= j < zlen tbl -> j <> i -> val j = Some b -> keq a b = false);
    D_dups : forall i j a b, omem (ta_order ts) i = true -> omem (ta_order ts) j = true ->
        i <> j -> val i = Some a -> val j = Some b -> keq a b = true ->
        key_mem keq (ta_dups ts) a = true;
    D_dupk : forall k, key_mem keq (ta_dups ts) k = true ->
        exists f, key_lookup keq (ta_keys ts) k = Some f
  }.

  (* effect of one decoder step *)
  Record Step (ts : toargs T) (idx : Z) (a : T) (ts1 : toargs T) : Prop := {
    S_val : val idx = Some a;
    S_mem : forall i, omem (ta_order ts1) i = (idx =? i) || omem (ta_order ts) i;
    S_len : zlen (ta_order ts1) =
            if omem (ta_order ts) idx then zlen (ta_order ts) else zlen (ta_order ts) + 1;
    S_dmono : forall k, key_mem keq (ta_dups ts) k = true -> key_mem keq (ta_dups ts1) k = true;
    S_dnew : forall k, key_mem keq (ta_dups ts1) k = true ->
             key_mem keq (ta_dups ts) k = true \/ keq k a = true
  }.

  Lemma dec_step ts idx a ov ts1 :
    DI ts -> 0 <= idx < zlen tbl -> found_index keq ts idx = OK (a, ov, ts1) ->
    DI ts1 /\ Step ts idx a ts1.
  Proof.
    intros HD Hr H. apply found_index_spec in H.
    destruct H as (Ha & Hargs & Hord & _ & Hc).
    rewrite (D_args _ HD) in Ha.
    destruct Hc as [[Em ->] | [(Em & first & Ek & Hk & Hd) | (Em & Ek & Hk & Hd)]].
    - split; [exact HD|]. constructor; auto.
      + intros i. destruct (idx =? i) eqn:E; [|reflexivity]. assert (idx = i) by lia. subst.
        now rewrite Em.
      + now rewrite Em.
    - (* key already registered: duplicate *)
      rewrite Em in Hord.
      destruct (D_keys _ HD _ _ Ek) as (Hf & b & Hb & Hab).
      assert (Hne : first <> idx) by (intros ->; congruence).
      destruct (first =? idx) eqn:Efi; [lia|]. clear Efi.
      assert (Hmem : forall i, omem (ta_order ts1) i = (idx =? i) || omem (ta_order ts) i).
      { intros i. rewrite Hord. apply omem_oset. }
      assert (Hdm : forall k, key_mem keq (ta_dups ts) k = true -> key_mem keq (ta_dups ts1) k = true).
      { intros k Hk'. rewrite Hd. destruct (key_mem keq (ta_dups ts) a); [exact Hk'|].
        rewrite key_mem_cons, Hk'. apply orb_true_r. }
      assert (Hda : key_mem keq (ta_dups ts1) a = true).
      { rewrite Hd. destruct (key_mem keq (ta_dups ts) a) eqn:E; [exact E|].
        rewrite key_mem_cons, keq_refl. reflexivity. }
      assert (Hdn : forall k, key_mem keq (ta_dups ts1) k = true ->
                              key_mem keq (ta_dups ts) k = true \/ keq k a = true).
      { intros k. rewrite Hd. destruct (key_mem keq (ta_dups ts) a); [auto|].
        rewrite key_mem_cons. intros Hk'. apply orb_true_iff in Hk'. tauto. }
      split.
      + constructor.
        * now rewrite Hargs, (D_args _ HD).
        * intros i. rewrite Hmem. intros Hi. apply orb_true_iff in Hi as [Hi|Hi].
          -- assert (idx = i) by lia. now subst.
          -- now apply (D_range _ HD).
        * intros k f. rewrite Hk. intros Hkf. destruct (D_keys _ HD _ _ Hkf) as (H1 & H2).
          split; [|exact H2]. rewrite Hmem, H1. apply orb_true_r.
        * intros i ai. rewrite Hmem, Hk. intros Hi Hai.
          destruct (idx =? i) eqn:E.
          -- assert (idx = i) by lia; subst i. left. exists first. congruence.
          -- cbn [orb] in Hi. apply (D_reg _ HD); assumption.
        * intros i j ai bj. rewrite !Hmem. intros Hi Hj Hij Hai Hbj Hkk.
          destruct (idx =? i) eqn:Ei; [|destruct (idx =? j) eqn:Ej].
          -- assert (idx = i) by lia; subst i. assert (ai = a) by congruence. now subst.
          -- assert (idx = j) by lia; subst j. assert (bj = a) by congruence. subst.
             rewrite (key_mem_ext keq keq_sym keq_trans _ _ _ Hkk). exact Hda.
          -- cbn [orb] in Hi, Hj. apply Hdm. eapply (D_dups _ HD i j); eassumption.
        * intros k Hk'. rewrite Hk. destruct (Hdn _ Hk') as [H1|H1].
          -- now apply (D_dupk _ HD).
          -- exists first. now rewrite (key_lookup_ext keq keq_sym keq_trans _ _ _ H1).
      + constructor; auto.
        rewrite Hord, zlen_oset, Em. reflexivity.
    - (* fresh key *)
      rewrite Em in Hord.
      assert (Hmem : forall i, omem (ta_order ts1) i = (idx =? i) || omem (ta_order ts) i).
      { intros i. rewrite Hord. apply omem_oset. }
      assert (Hfresh : forall j b, omem (ta_order ts) j = true -> val j = Some b -> keq a b = false).
      { intros j b Hj Hb. destruct (D_reg _ HD _ _ Hj Hb) as [[f Hf] | Hu].
        - destruct (keq a b) eqn:E; [|reflexivity].
          rewrite <- (key_lookup_ext keq keq_sym keq_trans _ _ _ E) in Hf. congruence.
        - rewrite keq_sym. apply (Hu idx a); auto. intros ->. congruence. }
      split.
      + constructor.
        * now rewrite Hargs, (D_args _ HD).
        * intros i. rewrite Hmem. intros Hi. apply orb_true_iff in Hi as [Hi|Hi].
          -- assert (idx = i) by lia. now subst.
          -- now apply (D_range _ HD).
        * intros k f. rewrite Hk, key_lookup_snoc. rewrite Hmem.
          destruct (key_lookup keq (ta_keys ts) k) as [f'|] eqn:Ekk.
          -- intros Hf; inversion Hf; subst f'. destruct (D_keys _ HD _ _ Ekk) as (H1 & H2).
             split; [|exact H2]. rewrite H1. apply orb_true_r.
          -- destruct (keq k a) eqn:Eka; [|discriminate]. intros Hf; inversion Hf; subst f.
             rewrite Z.eqb_refl. split; [reflexivity|]. exists a. auto.
        * intros i ai. rewrite Hmem, Hk. intros Hi Hai.
          destruct (idx =? i) eqn:E.
          -- assert (idx = i) by lia; subst i. left. exists idx.
             assert (ai = a) by congruence; subst.
             now rewrite key_lookup_snoc, Ek, keq_refl.
          -- cbn [orb] in Hi. destruct (D_reg _ HD _ _ Hi Hai) as [[f Hf]|Hu]; [|now right].
             left. exists f. now rewrite key_lookup_snoc, Hf.
        * intros i j ai bj. rewrite !Hmem, Hd. intros Hi Hj Hij Hai Hbj Hkk.
          destruct (idx =? i) eqn:Ei; [|destruct (idx =? j) eqn:Ej].
          -- assert (idx = i) by lia; subst i. assert (ai = a) by congruence. subst.
             assert (Ej : idx =? j = false) by lia. rewrite Ej in Hj. cbn [orb] in Hj.
             rewrite (Hfresh _ _ Hj Hbj) in Hkk. discriminate.
          -- assert (idx = j) by lia; subst j. assert (bj = a) by congruence. subst.
             cbn [orb] in Hi. rewrite keq_sym, (Hfresh _ _ Hi Hai) in Hkk. discriminate.
          -- cbn [orb] in Hi, Hj. eapply (D_dups _ HD i j); eassumption.
        * intros k. rewrite Hd, Hk. intros Hk'. destruct (D_dupk _ HD _ Hk') as [f Hf].
          exists f. now rewrite key_lookup_snoc, Hf.
      + constructor; auto.
        * rewrite Hord, zlen_oset, Em. reflexivity.
        * intros k. now rewrite Hd.
        * intros k. rewrite Hd. auto.
  Qed.

  (* encoder state, relative to the decoder state *)
  Record EI (ts : toargs T) (fs : fromargs T) : Prop := {
    E_items : forall i, oget (fa_items fs) i = if omem (ta_order ts) i then val i else None;
    E_len : zlen (fa_items fs) = zlen (ta_order ts);
    E_nodup : NoDup (okeys (fa_items fs));
    E_idx : forall k j, key_lookup keq (fa_index fs) k = Some j ->
        omem (ta_order ts) j = true /\ exists b, val j = Some b /\ keq k b = true;
    E_idx1 : forall i a, omem (ta_order ts) i = true -> val i = Some a ->
        key_mem keq (ta_dups ts) a = false -> key_lookup keq (fa_index fs) a = Some i;
    E_idx0 : forall i a, omem (ta_order ts) i = true -> val i = Some a ->
        exists j, key_lookup keq (fa_index fs) a = Some j
  }.

  Lemma setitem_step ts fs idx a ts1 :
    DI ts1 -> EI ts fs -> Step ts idx a ts1 ->
    exists fs1, fa_setitem keq fs idx a = OK fs1 /\ EI ts1 fs1 /\
      fa_items fs1 = oset (fa_items fs) idx a /\ fa_index fs1 = key_set keq (fa_index fs) a idx.
  Proof.
    intros HD1 HE HS. unfold fa_setitem.
    assert (Hclash : match oget (fa_items fs) idx with
                     | Some old => negb (keq old a) | None => false end = false).
    { rewrite (E_items _ _ HE). destruct (omem (ta_order ts) idx); [|reflexivity].
      rewrite (S_val _ _ _ _ HS), keq_refl. reflexivity. }
    rewrite Hclash. eexists. split; [reflexivity|]. split; [|split; reflexivity].
    assert (Hom : omem (fa_items fs) idx = omem (ta_order ts) idx).
    { unfold omem at 1. rewrite (E_items _ _ HE). destruct (omem (ta_order ts) idx); [|reflexivity].
      now rewrite (S_val _ _ _ _ HS). }
    constructor; cbn [fa_items fa_index].
    - intros i. rewrite oget_oset, (S_mem _ _ _ _ HS), (E_items _ _ HE).
      destruct (idx =? i) eqn:E; [|reflexivity]. assert (idx = i) by lia; subst i.
      cbn [orb]. symmetry. apply (S_val _ _ _ _ HS).
    - rewrite zlen_oset, Hom, (S_len _ _ _ _ HS), (E_len _ _ HE). reflexivity.
    - rewrite okeys_oset. destruct (omem (fa_items fs) idx) eqn:Eo; [apply (E_nodup _ _ HE)|].
      apply NoDup_app_snoc; [apply (E_nodup _ _ HE)|].
      intros Hin. apply omem_In in Hin. congruence.
    - intros k j. rewrite key_lookup_key_set by assumption. rewrite (S_mem _ _ _ _ HS).
      destruct (keq k a) eqn:Eka.
      + intros Hj; inversion Hj; subst j. rewrite Z.eqb_refl. split; [reflexivity|].
        exists a. split; [apply (S_val _ _ _ _ HS) | exact Eka].
      + intros Hj. destruct (E_idx _ _ HE _ _ Hj) as (H1 & H2). split; [|exact H2].
        rewrite H1. apply orb_true_r.
    - intros i ai Hi Hai Hnd. rewrite key_lookup_key_set by assumption.
      destruct (keq ai a) eqn:Eka.
      + destruct (Z.eq_dec i idx) as [->|Hne]; [reflexivity|]. exfalso.
        assert (Hidx : omem (ta_order ts1) idx = true).
        { rewrite (S_mem _ _ _ _ HS), Z.eqb_refl. reflexivity. }
        rewrite (D_dups _ HD1 i idx ai a Hi Hidx Hne Hai (S_val _ _ _ _ HS) Eka) in Hnd.
        discriminate.
      + rewrite (S_mem _ _ _ _ HS) in Hi. destruct (idx =? i) eqn:E.
        * assert (idx = i) by lia; subst i. rewrite (S_val _ _ _ _ HS) in Hai.
          inversion Hai; subst. rewrite keq_refl in Eka. discriminate.
        * cbn [orb] in Hi. apply (E_idx1 _ _ HE); auto.
          destruct (key_mem keq (ta_dups ts) ai) eqn:Ed; [|reflexivity].
          rewrite (S_dmono _ _ _ _ HS _ Ed) in Hnd. discriminate.
    - intros i ai Hi Hai. rewrite key_lookup_key_set by assumption.
      destruct (keq ai a) eqn:Eka; [eauto|].
      rewrite (S_mem _ _ _ _ HS) in Hi. destruct (idx =? i) eqn:E.
      + assert (idx = i) by lia; subst i. rewrite (S_val _ _ _ _ HS) in Hai.
        inversion Hai; subst. rewrite keq_refl in Eka. discriminate.
      + cbn [orb] in Hi. apply (E_idx0 _ _ HE i); auto.
  Qed.

  (* the None case on an index that is already found *)
  Lemma EI_same ts fs ts1 :
    EI ts fs -> ta_order ts1 = ta_order ts -> ta_dups ts1 = ta_dups ts -> EI ts1 fs.
  Proof.
    intros HE Ho Hd. destruct HE. constructor; rewrite ?Ho, ?Hd; auto.
  Qed.

  (* one decoder step followed by the corresponding encoder step *)
  Lemma replay_step ts fs idx a ov ts1 :
    DI ts -> EI ts fs -> 0 <= idx < zlen tbl ->
    found_index keq ts idx = OK (a, ov, ts1) ->
    exists fs1, fa_add keq fs a ov = OK (idx, fs1) /\ DI ts1 /\ EI ts1 fs1.
  Proof.
    intros HD HE Hr H.
    destruct (dec_step _ _ _ _ _ HD Hr H) as (HD1 & HS).
    apply found_index_spec in H. destruct H as (Ha & Hargs & Hord & Hov & Hc).
    destruct ov as [i|].
    - (* override *)
      assert (i = idx).
      { destruct (_ || _) in Hov; congruence. }
      subst i. cbn [fa_add].
      destruct (setitem_step _ _ _ _ _ HD1 HE HS) as (fs1 & -> & HE1 & _). eauto.
    - (* no override *)
      destruct (negb _ || _) eqn:Ew in Hov; [discriminate|]. clear Hov.
      apply orb_false_iff in Ew as [Erank Edup].
      apply negb_false_iff in Erank.
      cbn [fa_add].
      destruct (omem (ta_order ts) idx) eqn:Em.
      + (* already found: the key still points to idx *)
        assert (ts1 = ts).
        { destruct Hc as [[_ ->] | [(Em' & _) | (Em' & _)]]; congruence. }
        subst ts1.
        rewrite (E_idx1 _ _ HE idx a Em (S_val _ _ _ _ HS) Edup). eauto.
      + (* first use: rank = idx and the key is new, so the value is appended at idx *)
        assert (Hlen : zlen (ta_order ts) = idx).
        { rewrite Hord, oget_oset, Z.eqb_refl in Erank. lia. }
        assert (Hnone : key_lookup keq (fa_index fs) a = None).
        { destruct (key_lookup keq (fa_index fs) a) as [j|] eqn:Ej; [|reflexivity]. exfalso.
          destruct (E_idx _ _ HE _ _ Ej) as (Hj & b & Hb & Hab).
          assert (Hne : idx <> j) by (intros ->; congruence).
          assert (Hidx : omem (ta_order ts1) idx = true).
          { rewrite (S_mem _ _ _ _ HS), Z.eqb_refl. reflexivity. }
          assert (Hj1 : omem (ta_order ts1) j = true).
          { rewrite (S_mem _ _ _ _ HS), Hj. apply orb_true_r. }
          rewrite (D_dups _ HD1 idx j a b Hidx Hj1 Hne (S_val _ _ _ _ HS) Hb Hab) in Edup.
          discriminate. }
        rewrite Hnone, (E_len _ _ HE), Hlen.
        destruct (setitem_step _ _ _ _ _ HD1 HE HS) as (fs1 & -> & HE1 & _). eauto.
  Qed.

  Lemma replay_found_all : forall idxs ts fs uses ts',
    DI ts -> EI ts fs -> Forall (fun i => 0 <= i < zlen tbl) idxs ->
    found_all ts idxs = OK (uses, ts') ->
    exists fs', add_all fs uses = OK (idxs, fs') /\ DI ts' /\ EI ts' fs'.
  Proof.
    induction idxs as [|i r IH]; intros ts fs uses ts' HD HE HF H; cbn [found_all] in H.
    - inversion H; subst. cbn [add_all]. eauto.
    - inversion HF as [|? ? Hi HF']; subst.
      destruct (found_index keq ts i) as [[[a ov] ts1]|] eqn:Ef; [|discriminate].
      destruct (found_all ts1 r) as [[l ts2]|] eqn:Er; [|discriminate].
      inversion H; subst.
      destruct (replay_step _ _ _ _ _ _ HD HE Hi Ef) as (fs1 & Hadd & HD1 & HE1).
      destruct (IH _ _ _ _ HD1 HE1 HF' Er) as (fs' & Hall & HD' & HE').
      cbn [add_all]. rewrite Hadd, Hall. eauto.
  Qed.

  (* ---------------------------------------------------------------- *)
  (** ** Initial states *)

  Lemma omem_init q i :
    omem (ta_order (toargs_init tbl q)) i = (0 <=? i) && (i <? q).
  Proof.
    apply eq_true_iff_eq. rewrite omem_In. cbn [toargs_init ta_order]. unfold okeys.
    rewrite map_map. cbn [fst]. rewrite map_id. fold (zrange (Z.to_nat q)). rewrite in_zrange. lia.
  Qed.

  Lemma zlen_init q : 0 <= q -> zlen (ta_order (toargs_init tbl q)) = q.
  Proof.
    intros H. cbn [toargs_init ta_order]. unfold zlen. rewrite !map_length, seq_length. lia.
  Qed.

  (* the preset entries have a key that no other entry of the table has *)
  Definition preset_unique (p : Z) : Prop :=
    forall i j a b, 0 <= i < p -> 0 <= j < zlen tbl -> j <> i ->
                    val i = Some a -> val j = Some b -> keq a b = false.

  Lemma DI_init p : 0 <= p <= zlen tbl -> preset_unique p -> DI (toargs_init tbl p).
  Proof.
    intros Hp Hu. constructor.
    - reflexivity.
    - intros i. rewrite omem_init. lia.
    - cbn. discriminate.
    - intros i a. rewrite omem_init. intros Hi Ha. right. intros j b Hj Hne Hb.
      apply (Hu i j); auto. lia.
    - intros i j a b. rewrite !omem_init. intros Hi Hj Hne Ha Hb Hk.
      assert (keq a b = false) by (apply (Hu i j); auto; lia). congruence.
    - cbn. discriminate.
  Qed.

  Lemma preset_unique_le p q : q <= p -> preset_unique p -> preset_unique q.
  Proof. intros Hq Hu i j a b Hi. apply Hu. lia. Qed.

  Lemma EI_empty : EI (toargs_init tbl 0) fromargs_empty.
  Proof.
    constructor; cbn; try discriminate; auto using NoDup_nil.
  Qed.

  Lemma skipn_nth {A} (l : list A) k x :
    nth_error l k = Some x -> skipn k l = x :: skipn (S k) l.
  Proof.
    revert l. induction k as [|k IH]; intros [|y l] H; cbn in H; try discriminate.
    - inversion H. reflexivity.
    - cbn [skipn]. rewrite (IH _ H). reflexivity.
  Qed.

  Lemma EI_preset p : preset_unique p ->
    forall n q fs, 0 <= q -> q + Z.of_nat n <= p -> p <= zlen tbl ->
    EI (toargs_init tbl q) fs ->
    exists fs', set_all (firstn n (skipn (Z.to_nat q) tbl)) q fs = OK fs' /\
                EI (toargs_init tbl (q + Z.of_nat n)) fs'.
  Proof.
    intros Hu. induction n as [|n IH]; intros q fs Hq Hqn Hp HE.
    - cbn [firstn set_all]. replace (q + Z.of_nat 0) with q by lia. eauto.
    - destruct (py_index_inrange tbl q) as [a Ha]; [lia|].
      assert (Hn : nth_error tbl (Z.to_nat q) = Some a) by (rewrite <- py_index_nonneg; auto).
      rewrite (skipn_nth _ _ _ Hn). cbn [firstn set_all].
      assert (HS : Step (toargs_init tbl q) q a (toargs_init tbl (q + 1))).
      { constructor; auto.
        - intros i. rewrite !omem_init.
          destruct (q =? i) eqn:E1; destruct (0 <=? i) eqn:E2; destruct (i <? q + 1) eqn:E3;
            destruct (i <? q) eqn:E4; try reflexivity; lia.
        - rewrite !zlen_init by lia. rewrite omem_init.
          destruct (0 <=? q) eqn:E2; destruct (q <? q) eqn:E4; try reflexivity; lia. }
      assert (HD1 : DI (toargs_init tbl (q + 1))).
      { apply DI_init; [lia|]. eapply preset_unique_le; [|exact Hu]. lia. }
      destruct (setitem_step _ _ _ _ _ HD1 HE HS) as (fs1 & -> & HE1 & _).
      replace (Z.to_nat q + 1)%nat with (Z.to_nat (q + 1)) by lia.
      replace (S (Z.to_nat q)) with (Z.to_nat (q + 1)) by lia.
      destruct (IH (q + 1) fs1) as (fs' & Hs & HE'); auto; try lia.
      exists fs'. split; [exact Hs|]. replace (q + Z.of_nat (S n)) with (q + 1 + Z.of_nat n) by lia.
      exact HE'.
  Qed.

  Lemma EI_preset0 p : 0 <= p <= zlen tbl -> preset_unique p ->
    exists fs0, set_all (take p tbl) 0 fromargs_empty = OK fs0 /\ EI (toargs_init tbl p) fs0.
  Proof.
    intros Hp Hu. destruct (EI_preset p Hu (Z.to_nat p) 0 fromargs_empty) as (fs0 & Hs & HE);
      try lia; [apply EI_empty|].
    exists fs0. split.
    - exact Hs.
    - replace (0 + Z.of_nat (Z.to_nat p)) with p in HE by lia. exact HE.
  Qed.

  (* ---------------------------------------------------------------- *)
  (** ** additional_args is found_all on the indices that are not found *)

  Definition missing (ts : toargs T) (l : list Z) : list Z :=
    filter (fun i => negb (omem (ta_order ts) i)) l.

  Lemma additional_args_from_found_all : forall l ts, NoDup l ->
    additional_args_from keq ts l =
    match found_all ts (missing ts l) with OK (adds, _) => OK adds | Err e => Err e end.
  Proof.
    induction l as [|i r IH]; intros ts Hnd; cbn [additional_args_from missing filter found_all].
    - reflexivity.
    - inversion Hnd as [|? ? Hni Hnd']; subst. fold (missing ts r).
      destruct (omem (ta_order ts) i) eqn:Em; cbn [negb].
      + apply IH; auto.
      + cbn [found_all].
        destruct (found_index keq ts i) as [[[a ov] ts1]|] eqn:Ef; [|reflexivity].
        rewrite IH by auto.
        assert (Hm : missing ts1 r = missing ts r).
        { unfold missing. apply filter_ext_in. intros j Hj.
          apply found_index_spec in Ef. destruct Ef as (_ & _ & Hord & _). rewrite Em in Hord.
          rewrite Hord, omem_oset. destruct (i =? j) eqn:E; [|reflexivity].
          assert (i = j) by lia. subst. contradiction. }
        rewrite Hm. destruct (found_all ts1 (missing ts r)) as [[l' ts2]|]; reflexivity.
  Qed.

  Lemma found_all_mem : forall l ts u ts', found_all ts l = OK (u, ts') ->
    forall i, omem (ta_order ts') i = true <-> (omem (ta_order ts) i = true \/ In i l).
  Proof.
    induction l as [|j r IH]; intros ts u ts' H i; cbn [found_all] in H.
    - inversion H; subst. cbn [In]. tauto.
    - destruct (found_index keq ts j) as [[[a ov] ts1]|] eqn:Ef; [|discriminate].
      destruct (found_all ts1 r) as [[l' ts2]|] eqn:Er; [|discriminate].
      inversion H; subst. rewrite (IH _ _ _ Er i).
      apply found_index_spec in Ef. destruct Ef as (_ & _ & Hord & _).
      rewrite Hord. cbn [In]. destruct (omem (ta_order ts) j) eqn:Em.
      + split; [tauto|]. intros [H1|[H1|H1]]; auto. subst. auto.
      + rewrite omem_oset, orb_true_iff. split.
        * intros [[H1|H1]|H1]; auto. right. left. lia.
        * intros [H1|[H1|H1]]; auto. left. left. lia.
  Qed.

  Lemma found_all_ok : forall l ts, ta_args ts = tbl ->
    Forall (fun i => 0 <= i < zlen tbl) l -> exists r, found_all ts l = OK r.
  Proof.
    induction l as [|i r IH]; intros ts Ha HF; cbn [found_all]; [eauto|].
    inversion_clear HF as [|? ? Hi HF'].
    destruct (found_index_ok ts i) as [[[a ov] ts1] Hf].
    { rewrite Ha. now apply py_index_inrange. }
    rewrite Hf. apply found_index_spec in Hf. destruct Hf as (_ & Hargs & _).
    destruct (IH ts1) as [[l' ts2] Hr]; [congruence | auto |]. rewrite Hr. eauto.
  Qed.

  (* ---------------------------------------------------------------- *)
  (** ** to_tuple *)

  Lemma collect_spec (d : odict T) : forall l i,
    (forall k a, nth_error l k = Some a -> oget d (i + Z.of_nat k) = Some a) ->
    collect d (length l) i = Some l.
  Proof.
    induction l as [|x l IH]; intros i H; cbn [length collect]; [reflexivity|].
    assert (H0 := H O x eq_refl). replace (i + Z.of_nat 0) with i in H0 by lia. rewrite H0.
    rewrite IH; [reflexivity|].
    intros k a Hk. replace (i + 1 + Z.of_nat k) with (i + Z.of_nat (S k)) by lia. now apply H.
  Qed.

  Lemma to_tuple_full ts fs :
    DI ts -> EI ts fs -> (forall i, 0 <= i < zlen tbl -> omem (ta_order ts) i = true) ->
    fa_to_tuple fs = OK tbl.
  Proof.
    intros HD HE Hall. unfold fa_to_tuple.
    assert (Hin : forall i, In i (okeys (fa_items fs)) <-> In i (zrange (length tbl))).
    { intros i. rewrite <- omem_In, in_zrange. unfold omem. rewrite (E_items _ _ HE).
      fold (zlen tbl). destruct (omem (ta_order ts) i) eqn:Em.
      - assert (Hr := D_range _ HD _ Em). destruct (py_index_inrange tbl i Hr) as [a ->]. tauto.
      - split; [discriminate|]. intros Hr. rewrite (Hall _ Hr) in Em. discriminate. }
    assert (Hlen : length (fa_items fs) = length tbl).
    { rewrite <- (map_length fst). fold (okeys (fa_items fs)).
      rewrite <- (zrange_length (length tbl)). apply Nat.le_antisymm.
      - apply NoDup_incl_length; [apply (E_nodup _ _ HE)|]. intros i. apply Hin.
      - apply NoDup_incl_length; [apply NoDup_zrange|]. intros i. apply Hin. }
    rewrite Hlen, collect_spec; [reflexivity|].
    intros k a Hk. rewrite (E_items _ _ HE).
    assert (Hr : 0 <= 0 + Z.of_nat k < zlen tbl).
    { unfold zlen. assert (k < length tbl)%nat by (apply nth_error_Some; congruence). lia. }
    rewrite (Hall _ Hr), py_index_nonneg by lia.
    replace (Z.to_nat (0 + Z.of_nat k)) with k by lia. exact Hk.
  Qed.

  (* ---------------------------------------------------------------- *)
  (** ** Replay *)

  Definition in_range (i : Z) : Prop := 0 <= i < zlen tbl.

  Lemma found_all_args : forall l ts u ts', found_all ts l = OK (u, ts') -> ta_args ts' = ta_args ts.
  Proof.
    induction l as [|j r IH]; intros ts u ts' H; cbn [found_all] in H.
    - now inversion H.
    - destruct (found_index keq ts j) as [[[a ov] ts1]|] eqn:Ef; [|discriminate].
      destruct (found_all ts1 r) as [[l' ts2]|] eqn:Er; [|discriminate].
      inversion H; subst. rewrite (IH _ _ _ Er).
      apply found_index_spec in Ef. tauto.
  Qed.

  Lemma missing_in_range ts : ta_args ts = tbl ->
    Forall in_range (missing ts (zrange (length (ta_args ts)))).
  Proof.
    intros Ha. apply Forall_forall. intros i Hi. apply filter_In in Hi as [Hi _].
    apply in_zrange in Hi. rewrite Ha in Hi. exact Hi.
  Qed.

  Lemma additional_args_found_all ts adds :
    additional_args keq ts = OK adds ->
    exists ts', found_all ts (missing ts (zrange (length (ta_args ts)))) = OK (adds, ts').
  Proof.
    unfold additional_args. fold (zrange (length (ta_args ts))).
    rewrite additional_args_from_found_all by apply NoDup_zrange.
    destruct (found_all ts _) as [[adds' ts']|]; [|discriminate].
    intros H; inversion H; subst. eauto.
  Qed.

  (* the decoder never fails on in-range operands *)
  Theorem decoder_total p idxs :
    Forall in_range idxs ->
    exists uses st adds,
      found_all (toargs_init tbl p) idxs = OK (uses, st) /\ additional_args keq st = OK adds.
  Proof.
    intros HF. destruct (found_all_ok idxs (toargs_init tbl p) eq_refl HF) as [[uses st] H].
    exists uses, st. assert (Ha := found_all_args _ _ _ _ H). cbn [toargs_init ta_args] in Ha.
    destruct (found_all_ok _ st Ha (missing_in_range st Ha)) as [[adds st'] H'].
    exists adds. split; [exact H|].
    unfold additional_args. fold (zrange (length (ta_args st))).
    rewrite additional_args_from_found_all by apply NoDup_zrange. now rewrite H'.
  Qed.

  (* everything the later sections need about a complete run *)
  Lemma replay_core p idxs uses st adds :
    0 <= p <= zlen tbl -> preset_unique p -> Forall in_range idxs ->
    found_all (toargs_init tbl p) idxs = OK (uses, st) ->
    additional_args keq st = OK adds ->
    exists st' fs0 fs1 fs2,
      found_all st (missing st (zrange (length tbl))) = OK (adds, st') /\
      set_all (take p tbl) 0 fromargs_empty = OK fs0 /\
      DI (toargs_init tbl p) /\ EI (toargs_init tbl p) fs0 /\
      add_all fs0 uses = OK (idxs, fs1) /\ DI st /\ EI st fs1 /\
      add_all fs1 adds = OK (missing st (zrange (length tbl)), fs2) /\ DI st' /\ EI st' fs2 /\
      (forall i, in_range i -> omem (ta_order st') i = true).
  Proof.
    intros Hp Hu HF Hf Hadd.
    assert (HD0 := DI_init p Hp Hu).
    destruct (EI_preset0 p Hp Hu) as (fs0 & Hs & HE0).
    destruct (replay_found_all _ _ _ _ _ HD0 HE0 HF Hf) as (fs1 & Hadd1 & HD1 & HE1).
    destruct (additional_args_found_all _ _ Hadd) as (st' & Hf').
    assert (Ha := D_args _ HD1). assert (HFm := missing_in_range st Ha). rewrite Ha in Hf', HFm.
    destruct (replay_found_all _ _ _ _ _ HD1 HE1 HFm Hf') as (fs2 & Hadd2 & HD2 & HE2).
    exists st', fs0, fs1, fs2. repeat (split; [assumption|]).
    intros i Hi. apply (found_all_mem _ _ _ _ Hf').
    destruct (omem (ta_order st) i) eqn:Em; [now left|]. right.
    apply filter_In. split; [now apply in_zrange | now rewrite Em].
  Qed.

  (* tables with a preset prefix whose keys occur nowhere else in the table *)
  Theorem tables_replay_preset_unique p idxs uses st adds :
    0 <= p <= zlen tbl -> preset_unique p -> Forall in_range idxs ->
    found_all (toargs_init tbl p) idxs = OK (uses, st) ->
    additional_args keq st = OK adds ->
    exists st0 st1 st2 is2,
      set_all (take p tbl) 0 fromargs_empty = OK st0 /\
      add_all st0 uses = OK (idxs, st1) /\
      add_all st1 adds = OK (is2, st2) /\
      fa_to_tuple st2 = OK tbl.
  Proof.
    intros Hp Hu HF Hf Hadd.
    destruct (replay_core _ _ _ _ _ Hp Hu HF Hf Hadd)
      as (st' & fs0 & fs1 & fs2 & _ & Hs & _ & _ & H1 & _ & _ & H2 & HD2 & HE2 & Hall).
    exists fs0, fs1, fs2, (missing st (zrange (length tbl))). repeat (split; [assumption|]).
    eapply to_tuple_full; eassumption.
  Qed.

  Definition dup_free : Prop :=
    forall i j a b, in_range i -> in_range j -> i <> j -> val i = Some a -> val j = Some b ->
                    keq a b = false.

  Lemma dup_free_preset_unique p : p <= zlen tbl -> dup_free -> preset_unique p.
  Proof.
    intros Hp Hdf i j a b Hi Hj Hne Ha Hb. apply (Hdf i j); auto. unfold in_range. lia.
  Qed.

  (* ---------------------------------------------------------------- *)
  (** ** The order of first use and the overrides *)

  (* distinct indices in the order in which they are first found *)
  Definition order_step (seen : list Z) (i : Z) : list Z :=
    if zmem i seen then seen else seen ++ [i].
  Fixpoint order_acc (seen : list Z) (l : list Z) : list Z :=
    match l with [] => seen | i :: r => order_acc (order_step seen i) r end.
  (* the preset indices 0..p-1 count as found, in place *)
  Definition first_order (p : Z) (l : list Z) : list Z := order_acc (zrange (Z.to_nat p)) l.
  (* rank of first use = position in that list *)
  Definition rank_of (order : list Z) (i : Z) : option Z := index_of Z.eqb i order.
  (* the override that the rank alone calls for *)
  Definition ov_spec (order : list Z) (i : Z) : option Z :=
    match rank_of order i with
    | Some r => if r =? i then None else Some i
    | None => Some i
    end.

  Fixpoint enum_from (k : Z) (l : list Z) : odict Z :=
    match l with [] => [] | i :: r => (i, k) :: enum_from (k + 1) r end.

  Lemma oget_enum_from : forall l k i,
    oget (enum_from k l) i =
    match index_of Z.eqb i l with Some r => Some (k + r) | None => None end.
  Proof.
    induction l as [|x l IH]; intros k i; cbn [enum_from oget index_of]; [reflexivity|].
    destruct (x =? i) eqn:E1; destruct (i =? x) eqn:E2; try lia.
    - f_equal. lia.
    - rewrite IH. destruct (index_of Z.eqb i l); [|reflexivity]. f_equal. lia.
  Qed.

  Lemma zmem_index_of i l : zmem i l = match index_of Z.eqb i l with Some _ => true | None => false end.
  Proof.
    unfold zmem. induction l as [|x l IH]; cbn [existsb index_of]; [reflexivity|].
    destruct (i =? x); [reflexivity|]. cbn [orb]. rewrite IH.
    destruct (index_of Z.eqb i l); reflexivity.
  Qed.

  Lemma zmem_In i l : zmem i l = true <-> In i l.
  Proof.
    unfold zmem. rewrite existsb_exists. split.
    - intros (x & Hx & E). assert (i = x) by lia. now subst.
    - intros H. exists i. split; [exact H | lia].
  Qed.

  Lemma omem_enum_from l k i : omem (enum_from k l) i = zmem i l.
  Proof.
    unfold omem. rewrite oget_enum_from, zmem_index_of.
    destruct (index_of Z.eqb i l); reflexivity.
  Qed.

  Lemma zlen_enum_from : forall l k, zlen (enum_from k l) = zlen l.
  Proof.
    unfold zlen. induction l as [|x l IH]; intros k; cbn [enum_from length]; [reflexivity|].
    specialize (IH (k + 1)). lia.
  Qed.

  Lemma oset_enum_from : forall l k i, zmem i l = false ->
    oset (enum_from k l) i (k + zlen l) = enum_from k (l ++ [i]).
  Proof.
    induction l as [|x l IH]; intros k i Hm; cbn [enum_from oset app].
    - unfold zlen; cbn. now rewrite Z.add_0_r.
    - unfold zmem in Hm. cbn [existsb] in Hm. apply orb_false_iff in Hm as [E Hm].
      destruct (x =? i) eqn:E1; [lia|]. f_equal.
      rewrite <- IH by exact Hm. f_equal. unfold zlen. cbn [length]. lia.
  Qed.

  Lemma init_order q : ta_order (toargs_init tbl q) = enum_from 0 (zrange (Z.to_nat q)).
  Proof.
    cbn [toargs_init ta_order]. unfold zrange. generalize (Z.to_nat q) as n.
    assert (H : forall n s, map (fun i : Z => (i, i)) (map Z.of_nat (seq s n)) =
                            enum_from (Z.of_nat s) (map Z.of_nat (seq s n))).
    { induction n as [|n IH]; intros s; cbn [seq map enum_from]; [reflexivity|].
      f_equal. rewrite IH. f_equal. lia. }
    intros n. apply (H n O).
  Qed.

  Lemma index_of_app_in i l m :
    zmem i l = true -> index_of Z.eqb i (l ++ m) = index_of Z.eqb i l.
  Proof.
    unfold zmem. induction l as [|x l IH]; cbn [existsb app index_of]; [discriminate|].
    destruct (i =? x); [reflexivity|]. cbn [orb]. intros H. now rewrite IH.
  Qed.

  Lemma order_acc_prefix : forall l seen, exists m, order_acc seen l = seen ++ m.
  Proof.
    induction l as [|i r IH]; intros seen; cbn [order_acc].
    - exists []. now rewrite app_nil_r.
    - destruct (IH (order_step seen i)) as [m Hm]. rewrite Hm. unfold order_step.
      destruct (zmem i seen); [eauto|]. exists ([i] ++ m). now rewrite app_assoc.
  Qed.

  Lemma rank_stable i seen l :
    zmem i seen = true -> rank_of (order_acc seen l) i = rank_of seen i.
  Proof.
    intros H. destruct (order_acc_prefix l seen) as [m ->]. now apply index_of_app_in.
  Qed.

  Lemma zmem_order_step seen i j : zmem j (order_step seen i) = (i =? j) || zmem j seen.
  Proof.
    unfold order_step. destruct (zmem i seen) eqn:E.
    - destruct (i =? j) eqn:E1; [|reflexivity]. assert (i = j) by lia. subst. now rewrite E.
    - unfold zmem. rewrite existsb_app. cbn [existsb]. rewrite orb_false_r, orb_comm.
      f_equal. apply Z.eqb_sym.
  Qed.

  Lemma in_order_acc : forall l seen j, In j (order_acc seen l) <-> In j seen \/ In j l.
  Proof.
    induction l as [|i r IH]; intros seen j; cbn [order_acc In]; [tauto|].
    rewrite IH, <- !zmem_In, zmem_order_step, orb_true_iff, zmem_In. intuition lia.
  Qed.

  Lemma NoDup_order_acc : forall l seen, NoDup seen -> NoDup (order_acc seen l).
  Proof.
    induction l as [|i r IH]; intros seen H; cbn [order_acc]; [exact H|].
    apply IH. unfold order_step. destruct (zmem i seen) eqn:E; [exact H|].
    apply NoDup_app_snoc; [exact H|]. rewrite <- zmem_In. congruence.
  Qed.

  Lemma in_first_order p l j : In j (first_order p l) <-> 0 <= j < p \/ In j l.
  Proof. unfold first_order. rewrite in_order_acc, in_zrange. intuition lia. Qed.

  Lemma NoDup_first_order p l : NoDup (first_order p l).
  Proof. apply NoDup_order_acc, NoDup_zrange. Qed.

  (* one decoder step, in terms of the order list *)
  Lemma found_index_order ts idx a ov ts1 seen :
    ta_order ts = enum_from 0 seen ->
    found_index keq ts idx = OK (a, ov, ts1) ->
    ta_order ts1 = enum_from 0 (order_step seen idx) /\
    py_index (ta_args ts) idx = Some a /\
    ov = (if key_mem keq (ta_dups ts1) a then Some idx else ov_spec (order_step seen idx) idx).
  Proof.
    intros Ho H. apply found_index_spec in H. destruct H as (Ha & _ & Hord & Hov & _).
    assert (Ho1 : ta_order ts1 = enum_from 0 (order_step seen idx)).
    { rewrite Hord, Ho, omem_enum_from. unfold order_step.
      destruct (zmem idx seen) eqn:E; [reflexivity|].
      rewrite zlen_enum_from. now apply (oset_enum_from seen 0). }
    split; [exact Ho1|]. split; [exact Ha|].
    rewrite Hov, Ho1, oget_enum_from. unfold ov_spec, rank_of.
    destruct (index_of Z.eqb idx (order_step seen idx)) as [r|]; cbn [negb orb Z.add].
    - change (0 + r) with r. destruct (r =? idx); cbn [negb orb];
        destruct (key_mem keq (ta_dups ts1) a); reflexivity.
    - destruct (key_mem keq (ta_dups ts1) a); reflexivity.
  Qed.

  Lemma rank_order_step_final seen idx l :
    ov_spec (order_acc (order_step seen idx) l) idx = ov_spec (order_step seen idx) idx.
  Proof.
    unfold ov_spec. rewrite rank_stable; [reflexivity|].
    rewrite zmem_order_step, Z.eqb_refl. reflexivity.
  Qed.

  (* general form: an element is (tbl[i], o) where o is the rank-based override or Some i *)
  Lemma found_all_order : forall l ts seen u ts',
    ta_order ts = enum_from 0 seen -> ta_args ts = tbl ->
    found_all ts l = OK (u, ts') ->
    ta_order ts' = enum_from 0 (order_acc seen l) /\
    Forall2 (fun i x => val i = Some (fst x) /\
                        (snd x = ov_spec (order_acc seen l) i \/ snd x = Some i)) l u.
  Proof.
    induction l as [|i r IH]; intros ts seen u ts' Ho Ha H; cbn [found_all] in H.
    - inversion H; subst. cbn [order_acc]. auto.
    - destruct (found_index keq ts i) as [[[a ov] ts1]|] eqn:Ef; [|discriminate].
      destruct (found_all ts1 r) as [[l' ts2]|] eqn:Er; [|discriminate].
      inversion H; subst u ts2. clear H.
      destruct (found_index_order _ _ _ _ _ _ Ho Ef) as (Ho1 & Hv & Hov).
      assert (Ha1 : ta_args ts1 = tbl).
      { apply found_index_spec in Ef. destruct Ef as (_ & -> & _). exact Ha. }
      destruct (IH _ _ _ _ Ho1 Ha1 Er) as (Ho' & HF).
      cbn [order_acc]. split; [exact Ho'|]. constructor; [|exact HF].
      cbn [fst snd]. split; [now rewrite <- Ha|].
      rewrite rank_order_step_final, Hov. destruct (key_mem keq (ta_dups ts1) a); auto.
  Qed.

  (* duplicate-free tables: no duplicate key is ever recorded *)
  Lemma dup_free_step ts idx a ov ts1 :
    dup_free -> DI ts -> in_range idx -> found_index keq ts idx = OK (a, ov, ts1) ->
    ta_dups ts = [] -> ta_dups ts1 = [].
  Proof.
    intros Hdf HD Hr H Hd. apply found_index_spec in H.
    destruct H as (Ha & _ & _ & _ & Hc). rewrite (D_args _ HD) in Ha.
    destruct Hc as [[_ ->] | [(Em & first & Ek & _ & _) | (_ & _ & _ & ->)]]; auto.
    exfalso. destruct (D_keys _ HD _ _ Ek) as (Hf & b & Hb & Hab).
    assert (Hne : idx <> first) by (intros ->; congruence).
    rewrite (Hdf idx first a b Hr (D_range _ HD _ Hf) Hne Ha Hb) in Hab. discriminate.
  Qed.

  Lemma found_all_order_df : forall l ts seen u ts',
    dup_free -> DI ts -> ta_dups ts = [] -> ta_order ts = enum_from 0 seen ->
    Forall in_range l -> found_all ts l = OK (u, ts') ->
    ta_dups ts' = [] /\
    Forall2 (fun i x => val i = Some (fst x) /\ snd x = ov_spec (order_acc seen l) i) l u.
  Proof.
    induction l as [|i r IH]; intros ts seen u ts' Hdf HD Hd Ho HF H; cbn [found_all] in H.
    - inversion H; subst. auto.
    - inversion_clear HF as [|? ? Hi HF'].
      destruct (found_index keq ts i) as [[[a ov] ts1]|] eqn:Ef; [|discriminate].
      destruct (found_all ts1 r) as [[l' ts2]|] eqn:Er; [|discriminate].
      inversion H; subst u ts2. clear H.
      destruct (found_index_order _ _ _ _ _ _ Ho Ef) as (Ho1 & Hv & Hov).
      assert (Hd1 := dup_free_step _ _ _ _ _ Hdf HD Hi Ef Hd).
      destruct (dec_step _ _ _ _ _ HD Hi Ef) as (HD1 & _).
      destruct (IH _ _ _ _ Hdf HD1 Hd1 Ho1 HF' Er) as (Hd' & HF2).
      split; [exact Hd'|]. cbn [order_acc]. constructor; [|exact HF2].
      cbn [fst snd]. split; [now rewrite <- (D_args _ HD)|].
      rewrite rank_order_step_final, Hov, Hd1. reflexivity.
  Qed.

  (* the entries that no operand uses (and that are not preset) *)
  Definition unused (p : Z) (idxs : list Z) : list Z :=
    filter (fun i => negb (zmem i (first_order p idxs))) (zrange (length tbl)).

  Lemma in_unused p idxs i :
    In i (unused p idxs) <-> in_range i /\ ~ (0 <= i < p) /\ ~ In i idxs.
  Proof.
    unfold unused, in_range, zlen. rewrite filter_In, in_zrange, negb_true_iff.
    rewrite <- not_true_iff_false, zmem_In, in_first_order. tauto.
  Qed.

  Lemma unused_sorted p idxs : StronglySorted Z.lt (unused p idxs).
  Proof. apply filter_sorted, zrange_sorted. Qed.

  Lemma unused_NoDup p idxs : NoDup (unused p idxs).
  Proof. apply NoDup_filter, NoDup_zrange. Qed.

  Lemma order_acc_fresh : forall l seen,
    NoDup l -> (forall i, In i l -> ~ In i seen) -> order_acc seen l = seen ++ l.
  Proof.
    induction l as [|i r IH]; intros seen Hnd Hf; cbn [order_acc].
    - now rewrite app_nil_r.
    - inversion_clear Hnd as [|? ? Hni Hnd']. unfold order_step.
      destruct (zmem i seen) eqn:E.
      + apply zmem_In in E. exfalso. apply (Hf i); [now left | exact E].
      + rewrite IH; auto.
        * now rewrite <- app_assoc.
        * intros j Hj Hin. apply in_app_iff in Hin as [Hin|[->|[]]]; [|contradiction].
          apply (Hf j); [now right | exact Hin].
  Qed.

  Lemma first_order_unused p idxs :
    order_acc (first_order p idxs) (unused p idxs) = first_order p idxs ++ unused p idxs.
  Proof.
    apply order_acc_fresh; [apply unused_NoDup|].
    intros i Hi. apply filter_In in Hi as [_ Hi]. rewrite negb_true_iff in Hi.
    rewrite <- zmem_In. congruence.
  Qed.

  Lemma ov_spec_cases order i : ov_spec order i = None \/ ov_spec order i = Some i.
  Proof. unfold ov_spec. destruct (rank_of order i) as [r|]; [destruct (r =? i)|]; auto. Qed.

  (* an override is called for exactly when the rank of first use differs from the index *)
  Lemma ov_spec_None order i : ov_spec order i = None <-> rank_of order i = Some i.
  Proof.
    unfold ov_spec. destruct (rank_of order i) as [r|].
    - destruct (r =? i) eqn:E; split; intros H; try discriminate; try reflexivity.
      + f_equal; lia.
      + inversion H; lia.
    - split; discriminate.
  Qed.

  Lemma ov_spec_Some order i : ov_spec order i = Some i <-> rank_of order i <> Some i.
  Proof.
    rewrite <- ov_spec_None. destruct (ov_spec_cases order i) as [-> | ->];
      split; try congruence; try discriminate.
  Qed.

  Lemma missing_unused p idxs uses st :
    found_all (toargs_init tbl p) idxs = OK (uses, st) ->
    missing st (zrange (length tbl)) = unused p idxs.
  Proof.
    intros Hf. destruct (found_all_order _ _ _ _ _ (init_order p) eq_refl Hf) as (Ho & _).
    unfold missing, unused. apply filter_ext. intros i.
    now rewrite Ho, omem_enum_from.
  Qed.

  (* (ii): the additional args are the unused entries, in increasing order, and replaying them
     gives those indices back *)
  Theorem adds_exact p idxs uses st adds :
    found_all (toargs_init tbl p) idxs = OK (uses, st) ->
    additional_args keq st = OK adds ->
    Forall2 (fun i x => val i = Some (fst x) /\
               (snd x = ov_spec (first_order p idxs ++ unused p idxs) i \/ snd x = Some i))
            (unused p idxs) adds /\
    exists st', found_all st (unused p idxs) = OK (adds, st').
  Proof.
    intros Hf Hadd.
    destruct (found_all_order _ _ _ _ _ (init_order p) eq_refl Hf) as (Ho & _).
    assert (Ha := found_all_args _ _ _ _ Hf). cbn [toargs_init ta_args] in Ha.
    destruct (additional_args_found_all _ _ Hadd) as (st' & Hf'). rewrite Ha in Hf'.
    rewrite (missing_unused _ _ _ _ Hf) in Hf'.
    destruct (found_all_order _ _ _ _ _ Ho Ha Hf') as (_ & HF).
    fold (first_order p idxs) in HF. rewrite first_order_unused in HF. eauto.
  Qed.

  (* (i): duplicate-free tables: every override is the rank-based one *)
  Theorem overrides_rank p idxs uses st adds :
    0 <= p <= zlen tbl -> dup_free -> Forall in_range idxs ->
    found_all (toargs_init tbl p) idxs = OK (uses, st) ->
    additional_args keq st = OK adds ->
    Forall2 (fun i x => val i = Some (fst x) /\ snd x = ov_spec (first_order p idxs) i) idxs uses /\
    Forall2 (fun i x => val i = Some (fst x) /\
                        snd x = ov_spec (first_order p idxs ++ unused p idxs) i)
            (unused p idxs) adds.
  Proof.
    intros Hp Hdf HF Hf Hadd.
    assert (Hu := dup_free_preset_unique p (proj2 Hp) Hdf).
    assert (HD0 := DI_init p Hp Hu).
    destruct (found_all_order_df _ _ _ _ _ Hdf HD0 eq_refl (init_order p) HF Hf) as (Hd & HF1).
    split; [exact HF1|].
    destruct (found_all_order _ _ _ _ _ (init_order p) eq_refl Hf) as (Ho & _).
    destruct (adds_exact _ _ _ _ _ Hf Hadd) as (_ & st' & Hf').
    destruct (replay_core _ _ _ _ _ Hp Hu HF Hf Hadd)
      as (_ & _ & _ & _ & _ & _ & _ & _ & _ & HD1 & _).
    assert (HFu : Forall in_range (unused p idxs)).
    { apply Forall_forall. intros i Hi. now apply in_unused in Hi. }
    destruct (found_all_order_df _ _ _ _ _ Hdf HD1 Hd Ho HFu Hf') as (_ & HF2).
    fold (first_order p idxs) in HF2. rewrite first_order_unused in HF2. exact HF2.
  Qed.

  Lemma index_of_zrange_gen n i : 0 <= i < Z.of_nat n -> index_of Z.eqb i (zrange n) = Some i.
  Proof.
    intros Hi. unfold zrange.
    assert (H : forall n s, Z.of_nat s <= i < Z.of_nat s + Z.of_nat n ->
              index_of Z.eqb i (map Z.of_nat (seq s n)) = Some (i - Z.of_nat s)).
    { clear n Hi. induction n as [|n IH]; intros s Hs; [lia|]. cbn [seq map index_of].
      destruct (i =? Z.of_nat s) eqn:E.
      - f_equal. lia.
      - rewrite IH by lia. f_equal. lia. }
    rewrite (H n O) by lia. f_equal. lia.
  Qed.

  Lemma index_of_zrange n i : in_range i -> n = length tbl -> rank_of (zrange n) i = Some i.
  Proof. intros Hi ->. apply index_of_zrange_gen. exact Hi. Qed.

  (* (iii): first-use order 0,1,..,n-1 on a duplicate-free table: no override, no additional arg *)
  Theorem canonical_no_override p idxs uses st adds :
    0 <= p <= zlen tbl -> dup_free -> Forall in_range idxs ->
    first_order p idxs = zrange (length tbl) ->
    found_all (toargs_init tbl p) idxs = OK (uses, st) ->
    additional_args keq st = OK adds ->
    Forall (fun x => snd x = None) uses /\ adds = [].
  Proof.
    intros Hp Hdf HF Hfo Hf Hadd.
    destruct (overrides_rank _ _ _ _ _ Hp Hdf HF Hf Hadd) as (H1 & H2).
    assert (Hun : unused p idxs = []).
    { unfold unused. rewrite Hfo. apply filter_nil.
      intros i Hi. apply zmem_In in Hi. now rewrite Hi. }
    split.
    - rewrite Hfo in H1. clear H2 Hf Hun Hfo. induction H1 as [|i x l u (_ & Hx) _ IH]; constructor.
      + rewrite Hx. apply ov_spec_None. apply index_of_zrange; [|reflexivity].
        now inversion HF.
      + apply IH. now inversion HF.
    - rewrite Hun in H2. now inversion H2.
  Qed.

  (* ---------------------------------------------------------------- *)
  (** ** (iv) Every override is necessary *)

  (* history invariant: [u] is the list of elements emitted so far *)
  Record HI (ts : toargs T) (fs : fromargs T) (u : list (T * option Z)) : Prop := {
    H_rank : forall i, omem (ta_order ts) i = true -> oget (ta_order ts) i <> Some i ->
             exists a, In (a, Some i) u;
    H_ptr : forall i a, omem (ta_order ts) i = true -> val i = Some a ->
            key_mem keq (ta_dups ts) a = true -> (forall b, ~ In (b, Some i) u) ->
            key_lookup keq (fa_index fs) a <> Some i
  }.

  Lemma HI_init p fs : HI (toargs_init tbl p) fs [].
  Proof.
    constructor.
    - intros i Hi Hne. exfalso. apply Hne. rewrite omem_init in Hi.
      rewrite init_order, oget_enum_from, index_of_zrange_gen by lia. reflexivity.
    - cbn. discriminate.
  Qed.

  Lemma fa_add_cases fs a ov j fs1 :
    fa_add keq fs a ov = OK (j, fs1) ->
    (ov = None /\ fs1 = fs /\ key_lookup keq (fa_index fs) a = Some j) \/
    (fa_index fs1 = key_set keq (fa_index fs) a j /\
     (ov = Some j \/
      (ov = None /\ key_lookup keq (fa_index fs) a = None /\ j = zlen (fa_items fs)))).
  Proof.
    unfold fa_add, fa_setitem. destruct ov as [i|].
    - destruct (match oget (fa_items fs) i with Some old => negb (keq old a) | None => false end);
        [discriminate|].
      intros H; inversion H; subst. right. cbn [fa_index]. auto.
    - destruct (key_lookup keq (fa_index fs) a) as [i|] eqn:Ek.
      + intros H; inversion H; subst. left. auto.
      + destruct (match oget (fa_items fs) (zlen (fa_items fs)) with
                  | Some old => negb (keq old a) | None => false end); [discriminate|].
        intros H; inversion H; subst. right. cbn [fa_index]. auto.
  Qed.

  Lemma nec_step ts fs u idx a ov ts1 fs1 :
    DI ts -> EI ts fs -> HI ts fs u -> in_range idx ->
    found_index keq ts idx = OK (a, ov, ts1) ->
    fa_add keq fs a ov = OK (idx, fs1) ->
    HI ts1 fs1 (u ++ [(a, ov)]) /\
    (ov = Some idx -> (forall b, ~ In (b, Some idx) u) ->
     forall j fs', fa_add keq fs a None = OK (j, fs') -> j <> idx).
  Proof.
    intros HD HE HH Hr Hf Hfa.
    destruct (dec_step _ _ _ _ _ HD Hr Hf) as (HD1 & HS).
    apply found_index_spec in Hf. destruct Hf as (Ha & Hargs & Hord & Hov & Hc).
    assert (Hval := S_val _ _ _ _ HS).
    split.
    - constructor.
      + intros i Hi Hne. destruct (Z.eq_dec i idx) as [->|Hni].
        * exists a. apply in_or_app. right. left. f_equal.
          destruct (omem_oget _ _ Hi) as [r Hr']. rewrite Hr' in Hov, Hne.
          assert (r <> idx) by congruence.
          destruct (r =? idx) eqn:E; [lia|]. exact Hov.
        * rewrite (S_mem _ _ _ _ HS) in Hi. destruct (idx =? i) eqn:E; [lia|]. cbn [orb] in Hi.
          assert (Hog : oget (ta_order ts1) i = oget (ta_order ts) i).
          { rewrite Hord. destruct (omem (ta_order ts) idx); [reflexivity|].
            now rewrite oget_oset, E. }
          rewrite Hog in Hne. destruct (H_rank _ _ _ HH i Hi Hne) as [a' Ha'].
          exists a'. apply in_or_app. now left.
      + intros i ai Hi Hai Hdup Hno.
        destruct (keq ai a) eqn:Eka.
        * (* same key as the current element: it carries an override *)
          assert (Hda : key_mem keq (ta_dups ts1) a = true).
          { now rewrite <- (key_mem_ext keq keq_sym keq_trans _ _ _ Eka). }
          assert (Hov' : ov = Some idx).
          { rewrite Hov, Hda, orb_true_r. reflexivity. }
          destruct (fa_add_cases _ _ _ _ _ Hfa) as [(Hn & _) | (Hidx & _)]; [congruence|].
          rewrite Hidx, key_lookup_key_set, Eka by assumption.
          intros Hc'. inversion Hc'; subst i.
          apply (Hno a). apply in_or_app. right. left. now rewrite Hov'.
        * assert (Hni : idx <> i).
          { intros ->. rewrite Hval in Hai. inversion Hai; subst. now rewrite keq_refl in Eka. }
          assert (Hlk : key_lookup keq (fa_index fs1) ai = key_lookup keq (fa_index fs) ai).
          { destruct (fa_add_cases _ _ _ _ _ Hfa) as [(_ & -> & _) | (Hidx & _)]; [reflexivity|].
            now rewrite Hidx, key_lookup_key_set, Eka by assumption. }
          rewrite Hlk. rewrite (S_mem _ _ _ _ HS) in Hi.
          destruct (idx =? i) eqn:E; [lia|]. cbn [orb] in Hi.
          apply (H_ptr _ _ _ HH i ai Hi Hai).
          -- destruct (S_dnew _ _ _ _ HS _ Hdup) as [H1|H1]; [exact H1 | congruence].
          -- intros b Hb. apply (Hno b). apply in_or_app. now left.
    - intros Hovs Hno j fs' Hadd. cbn [fa_add] in Hadd.
      destruct (key_lookup keq (fa_index fs) a) as [j'|] eqn:Ej.
      + inversion Hadd; subst j' fs'. destruct (E_idx _ _ HE _ _ Ej) as (Hj & _).
        intros ->.
        assert (ts1 = ts).
        { destruct Hc as [[_ ->] | [(Em' & _) | (Em' & _)]]; congruence. }
        subst ts1. destruct (omem_oget _ _ Hj) as [r Hr'].
        destruct (Z.eq_dec r idx) as [->|Hne].
        * rewrite Hr', Z.eqb_refl in Hov. cbn [negb orb] in Hov.
          destruct (key_mem keq (ta_dups ts) a) eqn:Ed; [|congruence].
          apply (H_ptr _ _ _ HH idx a Hj Hval Ed Hno Ej).
        * destruct (H_rank _ _ _ HH idx Hj) as [a' Ha']; [congruence|].
          apply (Hno a' Ha').
      + destruct (fa_setitem keq fs (zlen (fa_items fs)) a) as [fs''|]; [|discriminate].
        inversion Hadd; subst j fs'. rewrite (E_len _ _ HE). intros Hlen.
        destruct Hc as [[Em _] | [(Em & first & Ek & _ & _) | (Em & Ek & _ & Hd)]].
        * destruct (E_idx0 _ _ HE idx a Em Hval) as [j' Hj']. congruence.
        * destruct (D_keys _ HD _ _ Ek) as (Hfi & b & Hb & Hab).
          destruct (E_idx0 _ _ HE first b Hfi Hb) as [j' Hj'].
          rewrite <- (key_lookup_ext keq keq_sym keq_trans _ _ _ Hab) in Hj'. congruence.
        * rewrite Em in Hord. rewrite Hord, oget_oset, Z.eqb_refl, Hlen, Z.eqb_refl, Hd in Hov.
          cbn [negb orb] in Hov.
          destruct (key_mem keq (ta_dups ts) a) eqn:Ed; [|congruence].
          destruct (D_dupk _ HD _ Ed) as [f Hf']. congruence.
  Qed.

  Lemma nec_run : forall l ts fs u0 us ts',
    DI ts -> EI ts fs -> HI ts fs u0 -> Forall in_range l ->
    found_all ts l = OK (us, ts') ->
    forall u1 a i u2, us = u1 ++ (a, Some i) :: u2 ->
    (forall b, ~ In (b, Some i) (u0 ++ u1)) ->
    exists l1 fs1, add_all fs u1 = OK (l1, fs1) /\
      forall j fs', fa_add keq fs1 a None = OK (j, fs') -> j <> i.
  Proof.
    induction l as [|idx r IH]; intros ts fs u0 us ts' HD HE HH HF H u1 a i u2 Hus Hno;
      cbn [found_all] in H.
    - inversion H; subst. destruct u1; discriminate.
    - inversion_clear HF as [|? ? Hi HF'].
      destruct (found_index keq ts idx) as [[[a0 ov] ts1]|] eqn:Ef; [|discriminate].
      destruct (found_all ts1 r) as [[l' ts2]|] eqn:Er; [|discriminate].
      injection H as Hus' Hts. subst ts2. rewrite <- Hus' in Hus. clear Hus'.
      destruct (replay_step _ _ _ _ _ _ HD HE Hi Ef) as (fs1 & Hadd & HD1 & HE1).
      destruct (nec_step _ _ _ _ _ _ _ _ HD HE HH Hi Ef Hadd) as (HH1 & Hnec).
      destruct u1 as [|x u1'].
      + cbn [app] in Hus. inversion Hus; subst a0 ov l'.
        assert (i = idx).
        { cbn [fa_add] in Hadd. destruct (fa_setitem keq fs i a); [|discriminate].
          now inversion Hadd. }
        subst i. exists [], fs. cbn [add_all]. split; [reflexivity|].
        apply Hnec; [reflexivity|]. now rewrite app_nil_r in Hno.
      + cbn [app] in Hus. inversion Hus; subst x l'.
        destruct (IH _ _ (u0 ++ [(a0, ov)]) _ _ HD1 HE1 HH1 HF' Er u1' a i u2 eq_refl)
          as (l1 & fs1' & Hall & Hn).
        { intros b. rewrite <- app_assoc. apply Hno. }
        exists (idx :: l1), fs1'. cbn [add_all]. rewrite Hadd, Hall. auto.
  Qed.

  Lemma found_all_app : forall l1 l2 ts u1 ts1 u2 ts2,
    found_all ts l1 = OK (u1, ts1) -> found_all ts1 l2 = OK (u2, ts2) ->
    found_all ts (l1 ++ l2) = OK (u1 ++ u2, ts2).
  Proof.
    induction l1 as [|i r IH]; intros l2 ts u1 ts1 u2 ts2 H1 H2; cbn [found_all app] in *.
    - inversion H1; subst. exact H2.
    - destruct (found_index keq ts i) as [[[a ov] ts']|]; [|discriminate].
      destruct (found_all ts' r) as [[l' ts'']|] eqn:Er; [|discriminate].
      inversion H1; subst. rewrite (IH _ _ _ _ _ _ Er H2). reflexivity.
  Qed.

  Lemma add_all_app : forall u1 u2 fs,
    add_all fs (u1 ++ u2) =
    match add_all fs u1 with
    | OK (l1, fs1) => match add_all fs1 u2 with
                      | OK (l2, fs2) => OK (l1 ++ l2, fs2) | Err e => Err e end
    | Err e => Err e
    end.
  Proof.
    induction u1 as [|[a ov] r IH]; intros u2 fs; cbn [add_all app].
    - destruct (add_all fs u2) as [[l2 fs2]|]; reflexivity.
    - destruct (fa_add keq fs a ov) as [[i fs1]|]; [|reflexivity].
      rewrite IH. destruct (add_all fs1 r) as [[l1 fs1']|]; [|reflexivity].
      destruct (add_all fs1' u2) as [[l2 fs2]|]; reflexivity.
  Qed.

  (* at the first element that carries [Some i], the encoder without the override either fails
     or returns an index different from [i] *)
  Theorem override_necessary p idxs uses st adds st0 u1 a i u2 :
    0 <= p <= zlen tbl -> preset_unique p -> Forall in_range idxs ->
    found_all (toargs_init tbl p) idxs = OK (uses, st) ->
    additional_args keq st = OK adds ->
    set_all (take p tbl) 0 fromargs_empty = OK st0 ->
    uses ++ adds = u1 ++ (a, Some i) :: u2 ->
    (forall b, ~ In (b, Some i) u1) ->
    exists l1 fs1, add_all st0 u1 = OK (l1, fs1) /\
      forall j fs', fa_add keq fs1 a None = OK (j, fs') -> j <> i.
  Proof.
    intros Hp Hu HF Hf Hadd Hs Hus Hno.
    destruct (replay_core _ _ _ _ _ Hp Hu HF Hf Hadd)
      as (st' & fs0 & fs1 & fs2 & Hf' & Hs' & HD0 & HE0 & _ & HD1 & _).
    assert (fs0 = st0) by congruence. subst fs0.
    assert (Hall := found_all_app _ _ _ _ _ _ _ Hf Hf').
    assert (HFall : Forall in_range (idxs ++ missing st (zrange (length tbl)))).
    { apply Forall_app. split; [exact HF|].
      rewrite <- (D_args _ HD1). apply missing_in_range. apply (D_args _ HD1). }
    exact (nec_run _ _ _ [] _ _ HD0 HE0 (HI_init p st0) HFall Hall u1 a i u2 Hus Hno).
  Qed.

  (* replace the override by None in ALL uses of index i *)
  Definition strip (i : Z) (us : list (T * option Z)) : list (T * option Z) :=
    map (fun x => match snd x with
                  | Some j => if j =? i then (fst x, None) else x
                  | None => x
                  end) us.

  Lemma first_some i : forall (l : list (T * option Z)) a, In (a, Some i) l ->
    exists u1 a' u2, l = u1 ++ (a', Some i) :: u2 /\ forall b, ~ In (b, Some i) u1.
  Proof.
    induction l as [|[b ov] l IH]; intros a H; [destruct H|].
    destruct ov as [j|]; [destruct (Z.eq_dec j i) as [->|Hne]|].
    - exists [], b, l. split; [reflexivity|]. intros c [].
    - destruct H as [H|H]; [inversion H; lia|].
      destruct (IH _ H) as (u1 & a' & u2 & -> & Hno).
      exists ((b, Some j) :: u1), a', u2. split; [reflexivity|].
      intros c [Hc|Hc]; [inversion Hc; lia | eapply Hno; eauto].
    - destruct H as [H|H]; [discriminate|].
      destruct (IH _ H) as (u1 & a' & u2 & -> & Hno).
      exists ((b, None) :: u1), a', u2. split; [reflexivity|].
      intros c [Hc|Hc]; [discriminate | eapply Hno; eauto].
  Qed.

  Lemma strip_id i u : (forall b, ~ In (b, Some i) u) -> strip i u = u.
  Proof.
    intros H. unfold strip. rewrite <- (map_id u) at 2. apply map_ext_in.
    intros [b ov] Hin. cbn [fst snd]. destruct ov as [j|]; [|reflexivity].
    destruct (j =? i) eqn:E; [|reflexivity]. assert (j = i) by lia; subst.
    exfalso. eapply H; eauto.
  Qed.

  (* dropping the override of index i everywhere makes the replay produce other operands
     (or fail) *)
  Theorem strip_differs p idxs uses st adds st0 a i :
    0 <= p <= zlen tbl -> preset_unique p -> Forall in_range idxs ->
    found_all (toargs_init tbl p) idxs = OK (uses, st) ->
    additional_args keq st = OK adds ->
    set_all (take p tbl) 0 fromargs_empty = OK st0 ->
    In (a, Some i) (uses ++ adds) ->
    forall is' st', add_all st0 (strip i (uses ++ adds)) = OK (is', st') ->
                    is' <> idxs ++ unused p idxs.
  Proof.
    intros Hp Hu HF Hf Hadd Hs Hin is' st' Hm.
    destruct (first_some _ _ _ Hin) as (u1 & a' & u2 & Hus & Hno).
    destruct (override_necessary _ _ _ _ _ _ _ _ _ _ Hp Hu HF Hf Hadd Hs Hus Hno)
      as (l1 & fs1 & Hall & Hn).
    destruct (replay_core _ _ _ _ _ Hp Hu HF Hf Hadd)
      as (st2 & fs0 & fs1' & fs2 & _ & Hs' & _ & _ & H1 & _ & _ & H2 & _).
    assert (fs0 = st0) by congruence. subst fs0.
    rewrite (missing_unused _ _ _ _ Hf) in H2.
    assert (Horig : add_all st0 (uses ++ adds) = OK (idxs ++ unused p idxs, fs2)).
    { now rewrite add_all_app, H1, H2. }
    rewrite Hus, add_all_app, Hall in Horig. cbn [add_all] in Horig.
    destruct (fa_add keq fs1 a' (Some i)) as [[i' fsx]|] eqn:Efa; [|discriminate].
    assert (i' = i).
    { cbn [fa_add] in Efa. destruct (fa_setitem keq fs1 i a'); [|discriminate].
      now inversion Efa. }
    subst i'. destruct (add_all fsx u2) as [[l2 fsy]|]; [|discriminate].
    injection Horig as Horig _.
    rewrite Hus in Hm. unfold strip in Hm. rewrite map_app in Hm. fold (strip i u1) in Hm.
    rewrite (strip_id _ _ Hno) in Hm. cbn [map fst snd] in Hm. rewrite Z.eqb_refl in Hm.
    rewrite add_all_app, Hall in Hm. cbn [add_all] in Hm.
    destruct (fa_add keq fs1 a' None) as [[j fsj]|] eqn:Ej; [|discriminate].
    destruct (add_all fsj _) as [[l2' fsz]|]; [|discriminate].
    injection Hm as Hm _. intros Heq. rewrite <- Hm, <- Horig in Heq.
    apply app_inv_head in Heq. inversion Heq. eapply Hn; eauto.
  Qed.

  End WithTable.
End Replay.

(* ------------------------------------------------------------------ *)
(** * Checked instances (duplicate keys simulated by parity) *)

Module Examples.
  Definition k2 (x y : Z) : bool := (x mod 2 =? y mod 2).

  Definition replay (tbl : list Z) (p : Z) (idxs : list Z) :=
    match found_all k2 (toargs_init tbl p) idxs with
    | Err e => Err e
    | OK (uses, st) =>
      match additional_args k2 st with
      | Err e => Err e
      | OK adds =>
        match set_all k2 (take p tbl) 0 fromargs_empty with
        | Err e => Err e
        | OK f0 =>
          match add_all k2 f0 uses with
          | Err e => Err e
          | OK (is1, st1) =>
            match add_all k2 st1 adds with
            | Err e => Err e
            | OK (is2, st2) =>
                match fa_to_tuple st2 with
                | OK t => OK (uses, adds, is1, is2, t)
                | Err e => Err e
                end
            end
          end
        end
      end
    end.

  (* duplicate keys, no preset: indices and table come back *)
  Example replay_dups :
    replay [10; 12; 11; 13; 14] 0 [0; 1; 0; 3; 2; 1] =
    OK ([(10, None); (12, Some 1); (10, Some 0); (13, Some 3); (11, Some 2); (12, Some 1)],
        [(14, Some 4)], [0; 1; 0; 3; 2; 1], [4], [10; 12; 11; 13; 14]).
  Proof. vm_compute. reflexivity. Qed.

  (* COUNTEREXAMPLE for the preset version without a uniqueness hypothesis: entry 2 has the key
     of the preset entry 0, whose key the decoder never registers; the additional arg
     (12, None) is merged into index 0 and the rebuilt table is [10; 11]. *)
  Example preset_needs_unique_keys :
    replay [10; 11; 12] 1 [1; 0; 1] =
    OK ([(11, None); (10, None); (11, None)], [(12, None)], [1; 0; 1], [0], [10; 11]).
  Proof. vm_compute. reflexivity. Qed.

  (* why (iv) speaks of ALL uses / the FIRST use that carries the override: dropping only a
     later override of index 1 leaves the replay unchanged *)
  Example later_override_alone_is_droppable :
    match add_all k2 fromargs_empty [(10, None); (12, Some 1); (12, None)] with
    | OK (is, _) => is = [0; 1; 1]
    | Err _ => False
    end.
  Proof. vm_compute. reflexivity. Qed.

  (* ... whereas dropping all of them changes the operands *)
  Example all_overrides_dropped :
    match add_all k2 fromargs_empty [(10, None); (12, None); (12, None)] with
    | OK (is, _) => is = [0; 0; 0]
    | Err _ => False
    end.
  Proof. vm_compute. reflexivity. Qed.

  (* without the override the encoder may also fail (index 0 used second: rank 1 <> 0) *)
  Example dropped_override_may_fail :
    add_all k2 fromargs_empty [(11, Some 1); (10, None)] = Err ValueError.
  Proof. vm_compute. reflexivity. Qed.
End Examples.

(* ------------------------------------------------------------------ *)
(** * Main statements *)

Section Main.
  Context {T : Type} (keq : T -> T -> bool).
  Hypothesis keq_refl : forall x, keq x x = true.
  Hypothesis keq_sym : forall x y, keq x y = keq y x.
  Hypothesis keq_trans : forall x y z, keq x y = true -> keq y z = true -> keq x z = true.

  (* the decoder never fails on in-range operands *)
  Theorem tables_decoder_total : forall (tbl : list T) p idxs,
    Forall (fun i => 0 <= i < zlen tbl) idxs ->
    exists uses st adds,
      found_all keq (toargs_init tbl p) idxs = OK (uses, st) /\
      additional_args keq st = OK adds.
  Proof. intros tbl p idxs HF. now apply decoder_total. Qed.

  (* any table, duplicate keys included *)
  Theorem tables_replay : forall (tbl : list T) (idxs : list Z) uses st adds,
    Forall (fun i => 0 <= i < zlen tbl) idxs ->
    found_all keq (toargs_init tbl 0) idxs = OK (uses, st) ->
    additional_args keq st = OK adds ->
    exists st1 st2 is2,
      add_all keq fromargs_empty uses = OK (idxs, st1) /\
      add_all keq st1 adds = OK (is2, st2) /\
      fa_to_tuple st2 = OK tbl.
  Proof.
    intros tbl idxs uses st adds HF Hf Hadd.
    destruct (tables_replay_preset_unique keq keq_refl keq_sym keq_trans tbl 0 idxs uses st adds)
      as (st0 & st1 & st2 & is2 & Hs & H1 & H2 & H3); auto.
    - unfold zlen. lia.
    - intros i j a b Hi. lia.
    - cbn in Hs. inversion Hs; subst st0. exists st1, st2, is2. auto.
  Qed.

  (* preset prefix (co_varnames): the preset entries must have keys that occur nowhere else *)
  Theorem tables_replay_preset_unique_keys : forall (tbl : list T) p idxs uses st adds,
    0 <= p <= zlen tbl ->
    (forall i j a b, 0 <= i < p -> 0 <= j < zlen tbl -> j <> i ->
                     py_index tbl i = Some a -> py_index tbl j = Some b -> keq a b = false) ->
    Forall (fun i => 0 <= i < zlen tbl) idxs ->
    found_all keq (toargs_init tbl p) idxs = OK (uses, st) ->
    additional_args keq st = OK adds ->
    exists st0 st1 st2 is2,
      set_all keq (take p tbl) 0 fromargs_empty = OK st0 /\
      add_all keq st0 uses = OK (idxs, st1) /\
      add_all keq st1 adds = OK (is2, st2) /\
      fa_to_tuple st2 = OK tbl.
  Proof. intros. eapply tables_replay_preset_unique; eauto. Qed.

  (* ... in particular duplicate-free tables *)
  Theorem tables_replay_preset : forall (tbl : list T) p idxs uses st adds,
    (forall i j a b, 0 <= i < zlen tbl -> 0 <= j < zlen tbl -> i <> j ->
                     py_index tbl i = Some a -> py_index tbl j = Some b -> keq a b = false) ->
    0 <= p <= zlen tbl ->
    Forall (fun i => 0 <= i < zlen tbl) idxs ->
    found_all keq (toargs_init tbl p) idxs = OK (uses, st) ->
    additional_args keq st = OK adds ->
    exists st0 st1 st2 is2,
      set_all keq (take p tbl) 0 fromargs_empty = OK st0 /\
      add_all keq st0 uses = OK (idxs, st1) /\
      add_all keq st1 adds = OK (is2, st2) /\
      fa_to_tuple st2 = OK tbl.
  Proof.
    intros tbl p idxs uses st adds Hdf Hp. apply tables_replay_preset_unique; auto.
    apply dup_free_preset_unique; auto; lia.
  Qed.

  (* (ii), encoder side: replaying the additional args yields exactly the unused indices *)
  Theorem adds_replay_indices : forall (tbl : list T) p idxs uses st adds st0 st1 st2 is1 is2,
    0 <= p <= zlen tbl -> preset_unique keq tbl p ->
    Forall (fun i => 0 <= i < zlen tbl) idxs ->
    found_all keq (toargs_init tbl p) idxs = OK (uses, st) ->
    additional_args keq st = OK adds ->
    set_all keq (take p tbl) 0 fromargs_empty = OK st0 ->
    add_all keq st0 uses = OK (is1, st1) ->
    add_all keq st1 adds = OK (is2, st2) ->
    is1 = idxs /\ is2 = unused tbl p idxs /\ StronglySorted Z.lt is2 /\
    (forall i, In i is2 <-> 0 <= i < zlen tbl /\ ~ 0 <= i < p /\ ~ In i idxs).
  Proof.
    intros tbl p idxs uses st adds st0 st1 st2 is1 is2 Hp Hu HF Hf Hadd Hs H1 H2.
    destruct (replay_core keq keq_refl keq_sym keq_trans tbl p idxs uses st adds Hp Hu HF Hf Hadd)
      as (st' & fs0 & fs1 & fs2 & _ & Hs' & _ & _ & H1' & _ & _ & H2' & _).
    assert (fs0 = st0) by congruence. subst fs0.
    rewrite H1 in H1'. inversion H1'; subst is1 fs1.
    rewrite H2 in H2'. inversion H2'; subst is2 fs2.
    rewrite (missing_unused keq tbl p idxs uses st Hf).
    split; [reflexivity|]. split; [reflexivity|]. split; [apply unused_sorted|].
    intros i. apply in_unused.
  Qed.
End Main.

Print Assumptions tables_decoder_total.
Print Assumptions tables_replay.
Print Assumptions tables_replay_preset_unique_keys.
Print Assumptions tables_replay_preset.
Print Assumptions adds_exact.
Print Assumptions adds_replay_indices.
Print Assumptions overrides_rank.
Print Assumptions canonical_no_override.
Print Assumptions override_necessary.
Print Assumptions strip_differs.
