(* Every document produced by code_data_to_json validates against the published JSON_SCHEMA
   (Gen/SrcSchema.v, generated from the library source) under the validator of Spec/JsonSchema.v. *)
From Coq Require Import ZArith List Bool Lia String.
From PCD Require Import Base.PyBase Base.Cfg Model.Flags Model.Args Model.Data Model.Consts Model.Json
  Spec.JsonSchema Proofs.ConstsProofs Proofs.C07_Statements.
From PCD Require Gen.SrcSchema.
Import ListNotations. Open Scope Z_scope. Open Scope list_scope.

Ltac vmr := vm_compute; reflexivity.

(* ------------------------------------------------------------------ *)
(* 1. the validator through the seven keywords it reads                 *)

Definition sget (sch : json) (k : string) : option json :=
  match sch with JObj s => jget s (lit k) | _ => None end.

Record snf := mkNF { n_ref : option json; n_anyof : option json; n_type : option json;
                     n_enum : option json; n_req : option json; n_props : option json;
                     n_items : option json }.

Definition nf (sch : json) : option snf :=
  match sch with
  | JObj _ => Some (mkNF (sget sch "$ref") (sget sch "anyOf") (sget sch "type") (sget sch "enum")
                         (sget sch "required") (sget sch "properties") (sget sch "items"))
  | _ => None
  end.

Definition req_ok (req : list json) (fields : list (str * json)) : bool :=
  forallb (fun k => match k with
                    | JStr name => match jget fields name with Some _ => true | None => false end
                    | _ => false
                    end) req.
Definition props_ok (f : nat) (root : json) (props fields : list (str * json)) : bool :=
  forallb (fun kp : str * json =>
             match jget fields (fst kp) with
             | Some x => validate f root (snd kp) x
             | None => true
             end) props.
Definition enum_ok (es : list json) (x : str) : bool :=
  existsb (fun e => match e with JStr y => str_eqb x y | _ => false end) es.

Definition v_ref (f : nat) (root : json) (o : option json) (v : json) : bool :=
  match o with
  | Some (JStr r) =>
      match strip_prefix ref_prefix r, root with
      | Some name, JObj rs =>
          match jget rs (lit "definitions") with
          | Some (JObj defs) =>
              match jget defs name with Some d => validate f root d v | None => false end
          | _ => false
          end
      | _, _ => false
      end
  | Some _ => false
  | None => true
  end.
Definition v_anyof (f : nat) (root : json) (o : option json) (v : json) : bool :=
  match o with
  | Some (JList alts) => existsb (fun a => validate f root a v) alts
  | Some _ => false
  | None => true
  end.
Definition v_type (o : option json) (v : json) : bool :=
  match o with Some (JStr t) => jtype_ok t v | Some _ => false | None => true end.
Definition v_enum (o : option json) (v : json) : bool :=
  match o with
  | Some (JList es) => match v with JStr x => enum_ok es x | _ => false end
  | Some _ => false
  | None => true
  end.
Definition v_obj (f : nat) (root : json) (oreq oprops : option json) (v : json) : bool :=
  match v with
  | JObj fields =>
      (match oreq with Some (JList req) => req_ok req fields | Some _ => false | None => true end)
      && (match oprops with Some (JObj props) => props_ok f root props fields | Some _ => false | None => true end)
  | _ => true
  end.
Definition v_items (f : nat) (root : json) (o : option json) (v : json) : bool :=
  match v with
  | JList xs => match o with Some it => forallb (fun x => validate f root it x) xs | None => true end
  | _ => true
  end.

Definition vnf (f : nat) (root : json) (n : option snf) (v : json) : bool :=
  match n with
  | None => false
  | Some n =>
      v_ref f root (n_ref n) v && v_anyof f root (n_anyof n) v && v_type (n_type n) v
      && v_enum (n_enum n) v && v_obj f root (n_req n) (n_props n) v && v_items f root (n_items n) v
  end.

Lemma validate_nf f root sch v : validate (S f) root sch v = vnf f root (nf sch) v.
Proof. destruct sch; reflexivity. Qed.

(* ------------------------------------------------------------------ *)
(* 2. more fuel never hurts                                             *)

Lemma forallb_impl {A} (p q : A -> bool) l :
  (forall x, p x = true -> q x = true) -> forallb p l = true -> forallb q l = true.
Proof. intros H. rewrite !forallb_forall. auto. Qed.
Lemma existsb_impl {A} (p q : A -> bool) l :
  (forall x, p x = true -> q x = true) -> existsb p l = true -> existsb q l = true.
Proof. intros H. rewrite !existsb_exists. intros (x & I & P). eauto. Qed.

Lemma validate_mono : forall f f' root sch v,
  (f <= f')%nat -> validate f root sch v = true -> validate f' root sch v = true.
Proof.
  induction f as [|f IH]; intros f' root sch v L H; [discriminate H|].
  destruct f' as [|f']; [lia|]. assert (L' : (f <= f')%nat) by lia.
  rewrite validate_nf in *. destruct (nf sch) as [n|]; [|discriminate H].
  cbn [vnf] in *. rewrite !andb_true_iff in *.
  destruct H as [[[[[H1 H2] H3] H4] H5] H6]. repeat split; auto.
  - unfold v_ref in *. destruct (n_ref n) as [[ | | | |r| | ]|]; auto.
    destruct (strip_prefix ref_prefix r) as [nm|]; auto. destruct root as [ | | | | | |rs]; auto.
    destruct (jget rs (lit "definitions")) as [[ | | | | | |dl]|]; auto.
    destruct (jget dl nm); auto.
  - unfold v_anyof in *. destruct (n_anyof n) as [[]|]; auto.
    eapply existsb_impl; [|exact H2]. cbv beta. eauto.
  - unfold v_obj in *. destruct v; auto. rewrite !andb_true_iff in *. destruct H5 as [H5 H7].
    split; auto. destruct (n_props n) as [[]|]; auto.
    unfold props_ok in *. eapply forallb_impl; [|exact H7]. cbv beta.
    intros kp. destruct (jget f0 (fst kp)); eauto.
  - unfold v_items in *. destruct v; auto. destruct (n_items n); auto.
    eapply forallb_impl; [|exact H6]. cbv beta. eauto.
Qed.

(* ------------------------------------------------------------------ *)
(* 3. the published schema, by name                                     *)

Definition ROOT : json := SrcSchema.JSON_SCHEMA.
Definition defs : list (str * json) :=
  match SrcSchema.schema_definitions with JObj l => l | _ => [] end.
Definition has_def (N : string) : bool :=
  match jget defs (lit N) with Some _ => true | None => false end.
Definition sdef (N : string) : json :=
  match jget defs (lit N) with Some s => s | None => JNull end.

Definition sprops (sch : json) : list (str * json) :=
  match sget sch "properties" with Some (JObj p) => p | _ => [] end.
Definition sreq (sch : json) : list json :=
  match sget sch "required" with Some (JList r) => r | _ => [] end.
Definition sitems (sch : json) : json :=
  match sget sch "items" with Some it => it | None => JNull end.
Definition salts (sch : json) : list json :=
  match sget sch "anyOf" with Some (JList a) => a | _ => [] end.
Definition salt (sch : json) (i : nat) : json := nth i (salts sch) JNull.
Definition senum (sch : json) : list json :=
  match sget sch "enum" with Some (JList e) => e | _ => [] end.
Definition pfilter (sch : json) (k : str) : list (str * json) :=
  filter (fun kp => str_eqb k (fst kp)) (sprops sch).
Definition sprop (sch : json) (n : string) : json :=
  match pfilter sch (lit n) with kp :: _ => snd kp | [] => JNull end.
Definition uniq_prop (sch : json) (n : string) : bool :=
  match pfilter sch (lit n) with [_] => true | _ => false end.
Definition no_prop (sch : json) (n : string) : bool :=
  match pfilter sch (lit n) with [] => true | _ => false end.

(* shapes of schemas: exactly the listed keywords are present *)
Definition is_ref (sch : json) (N : string) : bool :=
  match nf sch with
  | Some (mkNF (Some (JStr r)) None None None None None None) =>
      str_eqb r (ref_prefix ++ lit N) && has_def N
  | _ => false
  end.
Definition is_anyof (sch : json) : bool :=
  match nf sch with
  | Some (mkNF None (Some (JList _)) None None None None None) => true
  | _ => false
  end.
Definition is_type (sch : json) (t : string) : bool :=
  match nf sch with
  | Some (mkNF None None (Some (JStr t')) None None None None) => str_eqb t' (lit t)
  | _ => false
  end.
Definition is_enum (sch : json) : bool :=
  match nf sch with
  | Some (mkNF None None (Some (JStr t')) (Some (JList _)) None None None) => str_eqb t' (lit "string")
  | _ => false
  end.
Definition is_array (sch : json) : bool :=
  match nf sch with
  | Some (mkNF None None (Some (JStr t')) None None None (Some _)) => str_eqb t' (lit "array")
  | _ => false
  end.
Definition is_obj (sch : json) : bool :=
  match nf sch with
  | Some (mkNF None None (Some (JStr t')) None None (Some (JObj _)) None) => str_eqb t' (lit "object")
  | Some (mkNF None None (Some (JStr t')) None (Some (JList _)) (Some (JObj _)) None) => str_eqb t' (lit "object")
  | _ => false
  end.

Lemma root_shape : exists rs, ROOT = JObj rs /\ jget rs (lit "definitions") = Some (JObj defs).
Proof. eexists. split; [reflexivity | vmr]. Qed.

Lemma strip_prefix_app p s : strip_prefix p (p ++ s) = Some s.
Proof. induction p as [|a p IH]; [now destruct s|]. cbn. now rewrite Z.eqb_refl. Qed.

Ltac kill H := cbn [nf] in H; cbv beta iota in H; try discriminate H.

Lemma step_ref N f sch v :
  is_ref sch N = true -> validate (S f) ROOT sch v = validate f ROOT (sdef N) v.
Proof.
  intros H. rewrite validate_nf. unfold is_ref in H.
  destruct (nf sch) as [[r a t e q p i]|]; kill H.
  destruct r as [[]|]; kill H. destruct a; kill H. destruct t; kill H. destruct e; kill H.
  destruct q; kill H. destruct p; kill H. destruct i; kill H.
  apply andb_true_iff in H as [H1 H2]. apply str_eqb_spec in H1.
  subst s.
  cbn [vnf n_ref n_anyof n_type n_enum n_req n_props n_items v_ref v_anyof v_type v_enum].
  rewrite strip_prefix_app. destruct root_shape as (rs & E & G).
  unfold sdef. unfold has_def in H2.
  replace (v_obj f ROOT None None v) with true by now destruct v.
  replace (v_items f ROOT None v) with true by now destruct v.
  rewrite !andb_true_r. rewrite E at 1. rewrite G.
  destruct (jget defs (lit N)); [reflexivity | discriminate H2].
Qed.

Lemma step_anyof f root sch v :
  is_anyof sch = true ->
  validate (S f) root sch v = existsb (fun a => validate f root a v) (salts sch).
Proof.
  intros H. rewrite validate_nf. unfold is_anyof in H. unfold salts.
  destruct sch; kill H. cbn [nf] in *.
  destruct (sget (JObj f0) "$ref"); kill H.
  destruct (sget (JObj f0) "anyOf") as [[]|]; kill H.
  destruct (sget (JObj f0) "type"); kill H. destruct (sget (JObj f0) "enum"); kill H.
  destruct (sget (JObj f0) "required"); kill H. destruct (sget (JObj f0) "properties"); kill H.
  destruct (sget (JObj f0) "items"); kill H.
  cbn [vnf n_ref n_anyof n_type n_enum n_req n_props n_items v_ref v_anyof v_type v_enum].
  replace (v_obj f root None None v) with true by now destruct v.
  replace (v_items f root None v) with true by now destruct v.
  now rewrite !andb_true_r.
Qed.

Lemma step_type t f root sch v :
  is_type sch t = true -> validate (S f) root sch v = jtype_ok (lit t) v.
Proof.
  intros H. rewrite validate_nf. unfold is_type in H.
  destruct (nf sch) as [[r a t' e q p i]|]; kill H.
  destruct r; kill H. destruct a; kill H. destruct t' as [[]|]; kill H. destruct e; kill H.
  destruct q; kill H. destruct p; kill H. destruct i; kill H.
  apply str_eqb_spec in H. subst s.
  cbn [vnf n_ref n_anyof n_type n_enum n_req n_props n_items v_ref v_anyof v_type v_enum].
  replace (v_obj f root None None v) with true by now destruct v.
  replace (v_items f root None v) with true by now destruct v.
  now rewrite !andb_true_r.
Qed.

Lemma step_enum f root sch x :
  is_enum sch = true -> validate (S f) root sch (JStr x) = enum_ok (senum sch) x.
Proof.
  intros H. rewrite validate_nf. unfold is_enum in H. unfold senum.
  destruct sch; kill H. cbn [nf] in *.
  destruct (sget (JObj f0) "$ref"); kill H.
  destruct (sget (JObj f0) "anyOf"); kill H.
  destruct (sget (JObj f0) "type") as [[]|]; kill H.
  destruct (sget (JObj f0) "enum") as [[]|]; kill H.
  destruct (sget (JObj f0) "required"); kill H. destruct (sget (JObj f0) "properties"); kill H.
  destruct (sget (JObj f0) "items"); kill H.
  apply str_eqb_spec in H. subst s. reflexivity.
Qed.

Lemma step_array f root sch xs :
  is_array sch = true ->
  validate (S f) root sch (JList xs) = forallb (fun x => validate f root (sitems sch) x) xs.
Proof.
  intros H. rewrite validate_nf. unfold is_array in H. unfold sitems.
  destruct sch; kill H. cbn [nf] in *.
  destruct (sget (JObj f0) "$ref"); kill H.
  destruct (sget (JObj f0) "anyOf"); kill H.
  destruct (sget (JObj f0) "type") as [[]|]; kill H.
  destruct (sget (JObj f0) "enum"); kill H.
  destruct (sget (JObj f0) "required"); kill H. destruct (sget (JObj f0) "properties"); kill H.
  destruct (sget (JObj f0) "items"); kill H.
  apply str_eqb_spec in H. subst s. reflexivity.
Qed.

Lemma step_obj f root sch flds :
  is_obj sch = true ->
  validate (S f) root sch (JObj flds) = req_ok (sreq sch) flds && props_ok f root (sprops sch) flds.
Proof.
  intros H. rewrite validate_nf. unfold is_obj in H. unfold sreq, sprops.
  destruct sch; kill H. cbn [nf] in *.
  destruct (sget (JObj f0) "$ref"); kill H.
  destruct (sget (JObj f0) "anyOf"); kill H.
  destruct (sget (JObj f0) "type") as [[]|]; kill H.
  destruct (sget (JObj f0) "enum"); kill H.
  destruct (sget (JObj f0) "required") as [[]|]; kill H;
    destruct (sget (JObj f0) "properties") as [[]|]; kill H;
    destruct (sget (JObj f0) "items"); kill H;
    apply str_eqb_spec in H; subst s; reflexivity.
Qed.
