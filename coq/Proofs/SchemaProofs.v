(* Every document produced by code_data_to_json validates against the published JSON_SCHEMA
   (Gen/SrcSchema.v, generated from the library source) under the validator of Spec/JsonSchema.v. *)
From Coq Require Import ZArith List Bool Lia String.
From PCD Require Import Base.PyBase Base.Cfg Model.Flags Model.Args Model.Data Model.Consts Model.Json
  Spec.JsonSchema Proofs.ConstsProofs Proofs.C07_Statements.
From PCD Require Gen.SrcSchema.
Import ListNotations. Open Scope Z_scope. Open Scope list_scope.

Ltac vmr := vm_compute; reflexivity.

(* ------------------------------------------------------------------ *)
(* 1. the validator through the seven keywords it reads                 *)

Definition sget (sch : json) (k : string) : option json :=
  match sch with JObj s => jget s (lit k) | _ => None end.

Record snf := mkNF { n_ref : option json; n_anyof : option json; n_type : option json;
                     n_enum : option json; n_req : option json; n_props : option json;
                     n_items : option json }.

Definition nf (sch : json) : option snf :=
  match sch with
  | JObj _ => Some (mkNF (sget sch "$ref") (sget sch "anyOf") (sget sch "type") (sget sch "enum")
                         (sget sch "required") (sget sch "properties") (sget sch "items"))
  | _ => None
  end.

Definition req_ok (req : list json) (fields : list (str * json)) : bool :=
  forallb (fun k => match k with
                    | JStr name => match jget fields name with Some _ => true | None => false end
                    | _ => false
                    end) req.
Definition props_ok (f : nat) (root : json) (props fields : list (str * json)) : bool :=
  forallb (fun kp : str * json =>
             match jget fields (fst kp) with
             | Some x => validate f root (snd kp) x
             | None => true
             end) props.
Definition enum_ok (es : list json) (x : str) : bool :=
  existsb (fun e => match e with JStr y => str_eqb x y | _ => false end) es.

Definition v_ref (f : nat) (root : json) (o : option json) (v : json) : bool :=
  match o with
  | Some (JStr r) =>
      match strip_prefix ref_prefix r, root with
      | Some name, JObj rs =>
          match jget rs (lit "definitions") with
          | Some (JObj defs) =>
              match jget defs name with Some d => validate f root d v | None => false end
          | _ => false
          end
      | _, _ => false
      end
  | Some _ => false
  | None => true
  end.
Definition v_anyof (f : nat) (root : json) (o : option json) (v : json) : bool :=
  match o with
  | Some (JList alts) => existsb (fun a => validate f root a v) alts
  | Some _ => false
  | None => true
  end.
Definition v_type (o : option json) (v : json) : bool :=
  match o with Some (JStr t) => jtype_ok t v | Some _ => false | None => true end.
Definition v_enum (o : option json) (v : json) : bool :=
  match o with
  | Some (JList es) => match v with JStr x => enum_ok es x | _ => false end
  | Some _ => false
  | None => true
  end.
Definition v_obj (f : nat) (root : json) (oreq oprops : option json) (v : json) : bool :=
  match v with
  | JObj fields =>
      (match oreq with Some (JList req) => req_ok req fields | Some _ => false | None => true end)
      && (match oprops with Some (JObj props) => props_ok f root props fields | Some _ => false | None => true end)
  | _ => true
  end.
Definition v_items (f : nat) (root : json) (o : option json) (v : json) : bool :=
  match v with
  | JList xs => match o with Some it => forallb (fun x => validate f root it x) xs | None => true end
  | _ => true
  end.

Definition vnf (f : nat) (root : json) (n : option snf) (v : json) : bool :=
  match n with
  | None => false
  | Some n =>
      v_ref f root (n_ref n) v && v_anyof f root (n_anyof n) v && v_type (n_type n) v
      && v_enum (n_enum n) v && v_obj f root (n_req n) (n_props n) v && v_items f root (n_items n) v
  end.

Lemma validate_nf f root sch v : validate (S f) root sch v = vnf f root (nf sch) v.
Proof. destruct sch; reflexivity. Qed.

(* ------------------------------------------------------------------ *)
(* 2. more fuel never hurts                                             *)

Lemma forallb_impl {A} (p q : A -> bool) l :
  (forall x, p x = true -> q x = true) -> forallb p l = true -> forallb q l = true.
Proof. intros H. rewrite !forallb_forall. auto. Qed.
Lemma existsb_impl {A} (p q : A -> bool) l :
  (forall x, p x = true -> q x = true) -> existsb p l = true -> existsb q l = true.
Proof. intros H. rewrite !existsb_exists. intros (x & I & P). eauto. Qed.

Lemma validate_mono : forall f f' root sch v,
  (f <= f')%nat -> validate f root sch v = true -> validate f' root sch v = true.
Proof.
  induction f as [|f IH]; intros f' root sch v L H; [discriminate H|].
  destruct f' as [|f']; [lia|]. assert (L' : (f <= f')%nat) by lia.
  rewrite validate_nf in *. destruct (nf sch) as [n|]; [|discriminate H].
  cbn [vnf] in *. rewrite !andb_true_iff in *.
  destruct H as [[[[[H1 H2] H3] H4] H5] H6]. repeat split; auto.
  - unfold v_ref in *. destruct (n_ref n) as [[ | | | |r| | ]|]; auto.
    destruct (strip_prefix ref_prefix r) as [nm|]; auto. destruct root as [ | | | | | |rs]; auto.
    destruct (jget rs (lit "definitions")) as [[ | | | | | |dl]|]; auto.
    destruct (jget dl nm); auto.
  - unfold v_anyof in *. destruct (n_anyof n) as [[]|]; auto.
    eapply existsb_impl; [|exact H2]. cbv beta. eauto.
  - unfold v_obj in *. destruct v; auto. rewrite !andb_true_iff in *. destruct H5 as [H5 H7].
    split; auto. destruct (n_props n) as [[]|]; auto.
    unfold props_ok in *. eapply forallb_impl; [|exact H7]. cbv beta.
    intros kp. destruct (jget f0 (fst kp)); eauto.
  - unfold v_items in *. destruct v; auto. destruct (n_items n); auto.
    eapply forallb_impl; [|exact H6]. cbv beta. eauto.
Qed.

(* ------------------------------------------------------------------ *)
(* 3. the published schema, by name                                     *)

Definition ROOT : json := SrcSchema.JSON_SCHEMA.
Definition defs : list (str * json) :=
  match SrcSchema.schema_definitions with JObj l => l | _ => [] end.
Definition has_def (N : string) : bool :=
  match jget defs (lit N) with Some _ => true | None => false end.
Definition sdef (N : string) : json :=
  match jget defs (lit N) with Some s => s | None => JNull end.

Definition sprops (sch : json) : list (str * json) :=
  match sget sch "properties" with Some (JObj p) => p | _ => [] end.
Definition sreq (sch : json) : list json :=
  match sget sch "required" with Some (JList r) => r | _ => [] end.
Definition sitems (sch : json) : json :=
  match sget sch "items" with Some it => it | None => JNull end.
Definition salts (sch : json) : list json :=
  match sget sch "anyOf" with Some (JList a) => a | _ => [] end.
Definition salt (sch : json) (i : nat) : json := nth i (salts sch) JNull.
Definition senum (sch : json) : list json :=
  match sget sch "enum" with Some (JList e) => e | _ => [] end.
Definition pfilter (sch : json) (k : str) : list (str * json) :=
  filter (fun kp => str_eqb k (fst kp)) (sprops sch).
Definition sprop (sch : json) (n : string) : json :=
  match pfilter sch (lit n) with kp :: _ => snd kp | [] => JNull end.
Definition uniq_prop (sch : json) (n : string) : bool :=
  match pfilter sch (lit n) with [_] => true | _ => false end.
Definition no_prop (sch : json) (n : string) : bool :=
  match pfilter sch (lit n) with [] => true | _ => false end.

(* shapes of schemas: exactly the listed keywords are present *)
Definition is_ref (sch : json) (N : string) : bool :=
  match nf sch with
  | Some (mkNF (Some (JStr r)) None None None None None None) =>
      str_eqb r (ref_prefix ++ lit N) && has_def N
  | _ => false
  end.
Definition is_anyof (sch : json) : bool :=
  match nf sch with
  | Some (mkNF None (Some (JList _)) None None None None None) => true
  | _ => false
  end.
Definition is_type (sch : json) (t : string) : bool :=
  match nf sch with
  | Some (mkNF None None (Some (JStr t')) None None None None) => str_eqb t' (lit t)
  | _ => false
  end.
Definition is_enum (sch : json) : bool :=
  match nf sch with
  | Some (mkNF None None (Some (JStr t')) (Some (JList _)) None None None) => str_eqb t' (lit "string")
  | _ => false
  end.
Definition is_array (sch : json) : bool :=
  match nf sch with
  | Some (mkNF None None (Some (JStr t')) None None None (Some _)) => str_eqb t' (lit "array")
  | _ => false
  end.
Definition is_obj (sch : json) : bool :=
  match nf sch with
  | Some (mkNF None None (Some (JStr t')) None None (Some (JObj _)) None) => str_eqb t' (lit "object")
  | Some (mkNF None None (Some (JStr t')) None (Some (JList _)) (Some (JObj _)) None) => str_eqb t' (lit "object")
  | _ => false
  end.

Lemma root_shape : exists rs, ROOT = JObj rs /\ jget rs (lit "definitions") = Some (JObj defs).
Proof. eexists. split; [reflexivity | vmr]. Qed.

Lemma strip_prefix_app p s : strip_prefix p (p ++ s) = Some s.
Proof. induction p as [|a p IH]; [now destruct s|]. cbn. now rewrite Z.eqb_refl. Qed.

Ltac kill H := cbn [nf] in H; cbv beta iota in H; try discriminate H.

Lemma step_ref N f sch v :
  is_ref sch N = true -> validate (S f) ROOT sch v = validate f ROOT (sdef N) v.
Proof.
  intros H. rewrite validate_nf. unfold is_ref in H.
  destruct (nf sch) as [[r a t e q p i]|]; kill H.
  destruct r as [[]|]; kill H. destruct a; kill H. destruct t; kill H. destruct e; kill H.
  destruct q; kill H. destruct p; kill H. destruct i; kill H.
  apply andb_true_iff in H as [H1 H2]. apply str_eqb_spec in H1.
  subst s.
  cbn [vnf n_ref n_anyof n_type n_enum n_req n_props n_items v_ref v_anyof v_type v_enum].
  rewrite strip_prefix_app. destruct root_shape as (rs & E & G).
  unfold sdef. unfold has_def in H2.
  replace (v_obj f ROOT None None v) with true by now destruct v.
  replace (v_items f ROOT None v) with true by now destruct v.
  rewrite !andb_true_r. rewrite E at 1. rewrite G.
  destruct (jget defs (lit N)); [reflexivity | discriminate H2].
Qed.

Lemma step_anyof f root sch v :
  is_anyof sch = true ->
  validate (S f) root sch v = existsb (fun a => validate f root a v) (salts sch).
Proof.
  intros H. rewrite validate_nf. unfold is_anyof in H. unfold salts.
  destruct sch; kill H. cbn [nf] in *.
  destruct (sget (JObj f0) "$ref"); kill H.
  destruct (sget (JObj f0) "anyOf") as [[]|]; kill H.
  destruct (sget (JObj f0) "type"); kill H. destruct (sget (JObj f0) "enum"); kill H.
  destruct (sget (JObj f0) "required"); kill H. destruct (sget (JObj f0) "properties"); kill H.
  destruct (sget (JObj f0) "items"); kill H.
  cbn [vnf n_ref n_anyof n_type n_enum n_req n_props n_items v_ref v_anyof v_type v_enum].
  replace (v_obj f root None None v) with true by now destruct v.
  replace (v_items f root None v) with true by now destruct v.
  now rewrite !andb_true_r.
Qed.

Lemma step_type t f root sch v :
  is_type sch t = true -> validate (S f) root sch v = jtype_ok (lit t) v.
Proof.
  intros H. rewrite validate_nf. unfold is_type in H.
  destruct (nf sch) as [[r a t' e q p i]|]; kill H.
  destruct r; kill H. destruct a; kill H. destruct t' as [[]|]; kill H. destruct e; kill H.
  destruct q; kill H. destruct p; kill H. destruct i; kill H.
  apply str_eqb_spec in H. subst s.
  cbn [vnf n_ref n_anyof n_type n_enum n_req n_props n_items v_ref v_anyof v_type v_enum].
  replace (v_obj f root None None v) with true by now destruct v.
  replace (v_items f root None v) with true by now destruct v.
  now rewrite !andb_true_r.
Qed.

Lemma step_enum f root sch x :
  is_enum sch = true -> validate (S f) root sch (JStr x) = enum_ok (senum sch) x.
Proof.
  intros H. rewrite validate_nf. unfold is_enum in H. unfold senum.
  destruct sch; kill H. cbn [nf] in *.
  destruct (sget (JObj f0) "$ref"); kill H.
  destruct (sget (JObj f0) "anyOf"); kill H.
  destruct (sget (JObj f0) "type") as [[]|]; kill H.
  destruct (sget (JObj f0) "enum") as [[]|]; kill H.
  destruct (sget (JObj f0) "required"); kill H. destruct (sget (JObj f0) "properties"); kill H.
  destruct (sget (JObj f0) "items"); kill H.
  apply str_eqb_spec in H. subst s.
  cbn [vnf n_ref n_anyof n_type n_enum n_req n_props n_items v_ref v_anyof v_type v_enum v_obj v_items andb].
  change (jtype_ok (lit "string") (JStr x)) with true. now rewrite !andb_true_r.
Qed.

Lemma step_array f root sch xs :
  is_array sch = true ->
  validate (S f) root sch (JList xs) = forallb (fun x => validate f root (sitems sch) x) xs.
Proof.
  intros H. rewrite validate_nf. unfold is_array in H. unfold sitems.
  destruct sch; kill H. cbn [nf] in *.
  destruct (sget (JObj f0) "$ref"); kill H.
  destruct (sget (JObj f0) "anyOf"); kill H.
  destruct (sget (JObj f0) "type") as [[]|]; kill H.
  destruct (sget (JObj f0) "enum"); kill H.
  destruct (sget (JObj f0) "required"); kill H. destruct (sget (JObj f0) "properties"); kill H.
  destruct (sget (JObj f0) "items"); kill H.
  apply str_eqb_spec in H. subst s.
  cbn [vnf n_ref n_anyof n_type n_enum n_req n_props n_items v_ref v_anyof v_type v_enum v_obj v_items andb].
  change (jtype_ok (lit "array") (JList xs)) with true. reflexivity.
Qed.

Lemma step_obj f root sch flds :
  is_obj sch = true ->
  validate (S f) root sch (JObj flds) = req_ok (sreq sch) flds && props_ok f root (sprops sch) flds.
Proof.
  intros H. rewrite validate_nf. unfold is_obj in H. unfold sreq, sprops.
  destruct sch; kill H. cbn [nf] in *.
  destruct (sget (JObj f0) "$ref"); kill H.
  destruct (sget (JObj f0) "anyOf"); kill H.
  destruct (sget (JObj f0) "type") as [[]|]; kill H.
  destruct (sget (JObj f0) "enum"); kill H.
  destruct (sget (JObj f0) "required") as [[]|]; kill H;
    destruct (sget (JObj f0) "properties") as [[]|]; kill H;
    destruct (sget (JObj f0) "items"); kill H;
    apply str_eqb_spec in H; subst s;
    cbn [vnf n_ref n_anyof n_type n_enum n_req n_props n_items v_ref v_anyof v_type v_enum v_obj v_items andb];
    change (jtype_ok (lit "object") (JObj flds)) with true; rewrite ?andb_true_r; reflexivity.
Qed.

(* ------------------------------------------------------------------ *)
(* 4. validity with at least n units of fuel                            *)

Definition Vge (n : nat) (sch v : json) : Prop :=
  forall f, (n <= f)%nat -> validate f ROOT sch v = true.

Lemma Vge_mono n m sch v : (n <= m)%nat -> Vge n sch v -> Vge m sch v.
Proof. intros L H f Hf. apply H. lia. Qed.

Lemma Vge_ref N n sch v : is_ref sch N = true -> Vge n (sdef N) v -> Vge (S n) sch v.
Proof.
  intros R H f Hf. destruct f as [|f]; [lia|]. rewrite (step_ref N) by exact R. apply H. lia.
Qed.

Lemma Vge_anyof i n sch v :
  is_anyof sch = true -> (i <? length (salts sch))%nat = true -> Vge n (salt sch i) v ->
  Vge (S n) sch v.
Proof.
  intros A L H f Hf. destruct f as [|f]; [lia|]. rewrite step_anyof by exact A.
  apply existsb_exists. exists (salt sch i). split.
  - unfold salt. apply nth_In. now apply Nat.ltb_lt.
  - apply H. lia.
Qed.

Lemma Vge_type t n sch v : is_type sch t = true -> jtype_ok (lit t) v = true -> Vge (S n) sch v.
Proof.
  intros T J f Hf. destruct f as [|f]; [lia|]. now rewrite (step_type t) by exact T.
Qed.

Lemma Vge_enum n sch x : is_enum sch = true -> enum_ok (senum sch) x = true -> Vge (S n) sch (JStr x).
Proof.
  intros T J f Hf. destruct f as [|f]; [lia|]. now rewrite step_enum by exact T.
Qed.

Lemma Vge_array n sch xs :
  is_array sch = true -> Forall (Vge n (sitems sch)) xs -> Vge (S n) sch (JList xs).
Proof.
  intros A H f Hf. destruct f as [|f]; [lia|]. rewrite step_array by exact A.
  apply forallb_forall. intros x Hx. rewrite Forall_forall in H. apply H; [exact Hx | lia].
Qed.

Lemma Vge_array_map {A} n sch (g : A -> json) l :
  is_array sch = true -> Forall (fun x => Vge n (sitems sch) (g x)) l ->
  Vge (S n) sch (JList (map g l)).
Proof.
  intros Ar H. apply Vge_array; [exact Ar|]. apply Forall_forall. intros j Hj.
  apply in_map_iff in Hj as (x & <- & Hx). rewrite Forall_forall in H. now apply H.
Qed.

(* objects: every field that is present obeys the property schemas of its key *)
Definition field_ok (f : nat) (root : json) (props : list (str * json)) (k : str) (x : json) : bool :=
  forallb (fun kp : str * json => if str_eqb k (fst kp) then validate f root (snd kp) x else true) props.

Lemma jget_In flds : forall k x, jget flds k = Some x ->
  exists k', In (k', x) flds /\ str_eqb k' k = true.
Proof.
  induction flds as [|[k0 v0] r IH]; intros k x H; [discriminate H|]. cbn [jget] in H.
  destruct (str_eqb k0 k) eqn:E.
  - injection H as <-. exists k0. split; [now left | exact E].
  - destruct (IH _ _ H) as (k' & I & E'). exists k'. split; [now right | exact E'].
Qed.

Lemma props_ok_fields f root props flds :
  Forall (fun kx => field_ok f root props (fst kx) (snd kx) = true) flds ->
  props_ok f root props flds = true.
Proof.
  intros H. rewrite Forall_forall in H. apply forallb_forall. intros kp Hkp.
  destruct (jget flds (fst kp)) as [x|] eqn:E; [|reflexivity].
  destruct (jget_In _ _ _ E) as (k' & I & E').
  specialize (H _ I). cbn [fst snd] in H. unfold field_ok in H. rewrite forallb_forall in H.
  specialize (H _ Hkp). cbv beta in H. now rewrite E' in H.
Qed.

Lemma field_ok_filter f root props k x :
  field_ok f root props k x =
  forallb (fun kp => validate f root (snd kp) x) (filter (fun kp => str_eqb k (fst kp)) props).
Proof.
  unfold field_ok. induction props as [|kp r IH]; [reflexivity|]. cbn [forallb filter].
  destruct (str_eqb k (fst kp)); cbn [forallb]; now rewrite IH.
Qed.

Definition Fge (n : nat) (sch : json) (kx : str * json) : Prop :=
  forall f, (n <= f)%nat -> field_ok f ROOT (sprops sch) (fst kx) (snd kx) = true.

Lemma Fge_prop nm n sch x : uniq_prop sch nm = true -> Vge n (sprop sch nm) x -> Fge n sch (lit nm, x).
Proof.
  intros U H f Hf. cbn [fst snd]. rewrite field_ok_filter. unfold uniq_prop, sprop, pfilter in *.
  destruct (filter _ (sprops sch)) as [|kp [|? ?]]; try discriminate U.
  cbn [forallb]. rewrite andb_true_r. now apply H.
Qed.

Lemma Fge_none nm n sch x : no_prop sch nm = true -> Fge n sch (lit nm, x).
Proof.
  intros U f Hf. cbn [fst snd]. rewrite field_ok_filter. unfold no_prop, pfilter in *.
  destruct (filter _ (sprops sch)); [reflexivity | discriminate U].
Qed.

Definition req_keys (req : list json) (keys : list str) : bool :=
  forallb (fun k => match k with JStr nm => existsb (fun k' => str_eqb k' nm) keys | _ => false end) req.

Lemma jget_key flds nm :
  existsb (fun k' => str_eqb k' nm) (map fst flds) = true -> jget flds nm <> None.
Proof.
  induction flds as [|[k v] r IH]; cbn [map fst existsb jget]; [discriminate|].
  destruct (str_eqb k nm); [discriminate | exact IH].
Qed.

Lemma req_ok_pre req pre rest : req_keys req (map fst pre) = true -> req_ok req (pre ++ rest) = true.
Proof.
  unfold req_keys, req_ok. apply forallb_impl. intros [ | | | |nm| | ]; try discriminate.
  intros E. assert (K : jget (pre ++ rest) nm <> None).
  { apply jget_key. rewrite map_app, existsb_app, E. reflexivity. }
  now destruct (jget (pre ++ rest) nm).
Qed.

Lemma Vge_obj n sch flds :
  is_obj sch = true -> req_ok (sreq sch) flds = true -> Forall (Fge n sch) flds ->
  Vge (S n) sch (JObj flds).
Proof.
  intros O R H f Hf. destruct f as [|f]; [lia|]. rewrite step_obj by exact O. rewrite R.
  apply props_ok_fields. eapply Forall_impl; [|exact H]. intros kx K. apply K. lia.
Qed.

(* hidden-default fields *)
Lemma Forall_opt_field {A} (P : str * json -> Prop) n (g : A -> json) o :
  (forall x, o = Some x -> P (lit n, g x)) -> Forall P (opt_field n g o).
Proof. intros H. destruct o; cbn; auto. Qed.
Lemma Forall_list_field {A} (P : str * json -> Prop) n (g : A -> json) l :
  P (lit n, JList (map g l)) -> Forall P (list_field n g l).
Proof. intros H. destruct l; [constructor|]. unfold list_field. auto. Qed.
Lemma Forall_bool_field (P : str * json -> Prop) n b :
  P (lit n, JBool true) -> Forall P (bool_field n b).
Proof. intros H. destruct b; cbn; auto. Qed.
Lemma Forall_one {A} (P : A -> Prop) x : P x -> Forall P [x].
Proof. auto. Qed.

(* ------------------------------------------------------------------ *)
(* 5. leaves                                                            *)

Lemma int_small z : small z = true -> int_to_json z = JInt z.
Proof.
  unfold small, int_to_json. intros H. apply andb_true_iff in H as [H1 H2].
  apply Z.leb_le in H1, H2.
  replace (z <? MIN_INTEGER) with false by (symmetry; apply Z.ltb_ge; exact H1).
  replace (z >? MAX_INTEGER) with false; [reflexivity|].
  symmetry. rewrite Z.gtb_ltb. apply Z.ltb_ge. exact H2.
Qed.

Lemma V_int n sch z :
  is_type sch "integer" = true -> small z = true -> Vge (S n) sch (int_to_json z).
Proof. intros T W. rewrite int_small by exact W. now apply (Vge_type "integer"). Qed.

Lemma V_ints n sch (l : list Z) :
  is_array sch = true -> is_type (sitems sch) "integer" = true -> forallb small l = true ->
  Vge (S (S n)) sch (JList (map int_to_json l)).
Proof.
  intros Ar T W. apply Vge_array_map; [exact Ar|]. apply Forall_forall. intros z Hz.
  rewrite forallb_forall in W. apply V_int; auto.
Qed.

Notation CS := (sdef "ConstantString").
Notation CN := (sdef "ConstantNumber").
Notation CV := (sdef "ConstantValue").

Lemma V_CS s n : (3 <= n)%nat -> Vge n CS (str_to_json s).
Proof.
  intros L. apply (Vge_mono 3); [exact L|]. unfold str_to_json. destruct (has_surrogate s).
  - apply (Vge_anyof 1); [vmr|vmr|].
    apply Vge_obj; [vmr | apply (req_ok_pre _ [_] []); cbn [map fst]; vmr |].
    apply Forall_one. apply (Fge_prop "string"); [vmr|]. now apply (Vge_type "string"); [vmr|].
  - apply (Vge_anyof 0); [vmr|vmr|]. now apply (Vge_type "string"); [vmr|].
Qed.

Lemma V_str s n sch : is_ref sch "ConstantString" = true -> (4 <= n)%nat -> Vge n sch (str_to_json s).
Proof.
  intros R L. apply (Vge_mono 4); [exact L|]. apply (Vge_ref "ConstantString"); [exact R|].
  now apply V_CS.
Qed.

Lemma V_strs n sch (l : list str) :
  is_array sch = true -> is_ref (sitems sch) "ConstantString" = true -> (5 <= n)%nat ->
  Vge n sch (JList (map str_to_json l)).
Proof.
  intros Ar R L. apply (Vge_mono 5); [exact L|]. apply Vge_array_map; [exact Ar|].
  apply Forall_forall. intros s _. now apply V_str.
Qed.

Lemma V_CN_float b n : (3 <= n)%nat -> Vge n CN (float_to_json b).
Proof.
  intros L. apply (Vge_mono 3); [exact L|]. unfold float_to_json.
  destruct (float_is_inf b); [|destruct (float_is_nan b)].
  - apply (Vge_anyof 0); [vmr|vmr|].
    apply Vge_obj; [vmr | apply (req_ok_pre _ [_] []); cbn [map fst]; vmr |].
    apply Forall_one. apply (Fge_prop "float"); [vmr|].
    apply Vge_enum; [vmr|]. destruct (b =? 9218868437227405312); vmr.
  - apply (Vge_anyof 0); [vmr|vmr|].
    apply Vge_obj; [vmr | apply (req_ok_pre _ [_] []); cbn [map fst]; vmr |].
    apply Forall_one. apply (Fge_prop "float"); [vmr|].
    apply Vge_enum; [vmr|]. vmr.
  - apply (Vge_anyof 2); [vmr|vmr|]. now apply (Vge_type "number"); [vmr|].
Qed.

Lemma V_CN_int z n : (3 <= n)%nat -> Vge n CN (int_to_json z).
Proof.
  intros L. apply (Vge_mono 3); [exact L|]. unfold int_to_json. destruct (_ || _).
  - apply (Vge_anyof 1); [vmr|vmr|].
    apply Vge_obj; [vmr | apply (req_ok_pre _ [_] []); cbn [map fst]; vmr |].
    apply Forall_one. apply (Fge_prop "int"); [vmr|]. now apply (Vge_type "string"); [vmr|].
  - apply (Vge_anyof 2); [vmr|vmr|]. now apply (Vge_type "number"); [vmr|].
Qed.

(* ------------------------------------------------------------------ *)
(* 6. inner constants                                                   *)

Fixpoint idepth (k : iconst) : nat :=
  match k with
  | ITuple l | IFrozenset l => S (list_max (map idepth l))
  | _ => 0
  end.

Lemma list_max_In {A} (g : A -> nat) l x : In x l -> (g x <= list_max (map g l))%nat.
Proof.
  intros H. assert (F : Forall (fun k => (k <= list_max (map g l))%nat) (map g l))
    by now apply list_max_le.
  rewrite Forall_forall in F. apply F. now apply in_map.
Qed.

Theorem iconst_schema_valid : forall k, Vge (5 * idepth k + 8) CV (iconst_to_json k).
Proof.
  induction k as [ |b|z|f|r i|s|b| |l IH|l IH] using iconst_ind'; cbn [iconst_to_json idepth].
  - apply (Vge_mono 2); [lia|]. apply (Vge_anyof 1); [vmr|vmr|]. now apply (Vge_type "null"); [vmr|].
  - apply (Vge_mono 2); [lia|]. apply (Vge_anyof 0); [vmr|vmr|]. now apply (Vge_type "boolean"); [vmr|].
  - apply (Vge_mono 5); [lia|]. apply (Vge_anyof 3); [vmr|vmr|].
    apply (Vge_ref "ConstantNumber"); [vmr|]. now apply V_CN_int.
  - apply (Vge_mono 5); [lia|]. apply (Vge_anyof 3); [vmr|vmr|].
    apply (Vge_ref "ConstantNumber"); [vmr|]. now apply V_CN_float.
  - apply (Vge_mono 7); [lia|]. apply (Vge_anyof 5); [vmr|vmr|].
    apply (Vge_ref "ConstantComplex"); [vmr|].
    apply Vge_obj; [vmr | apply (req_ok_pre _ [_; _] []); cbn [map fst]; vmr |].
    repeat apply Forall_cons; [| |constructor].
    + apply (Fge_prop "real"); [vmr|]. apply (Vge_ref "ConstantNumber"); [vmr|]. now apply V_CN_float.
    + apply (Fge_prop "imag"); [vmr|]. apply (Vge_ref "ConstantNumber"); [vmr|]. now apply V_CN_float.
  - apply (Vge_mono 5); [lia|]. apply (Vge_anyof 2); [vmr|vmr|]. now apply V_str; [vmr|].
  - apply (Vge_mono 4); [lia|]. apply (Vge_anyof 8); [vmr|vmr|].
    apply (Vge_ref "ConstantBytes"); [vmr|].
    apply Vge_obj; [vmr | apply (req_ok_pre _ [_] []); cbn [map fst]; vmr |].
    apply Forall_one. apply (Fge_prop "bytes"); [vmr|]. now apply (Vge_type "string"); [vmr|].
  - apply (Vge_mono 4); [lia|]. apply (Vge_anyof 4); [vmr|vmr|].
    apply (Vge_ref "ConstantEllipsis"); [vmr|].
    apply Vge_obj; [vmr | apply (req_ok_pre _ [_] []); cbn [map fst]; vmr |].
    apply Forall_one. apply (Fge_prop "type"); [vmr|]. apply Vge_enum; [vmr|]. vmr.
  - apply (Vge_mono (4 + (5 * list_max (map idepth l) + 8))); [lia|].
    apply (Vge_anyof 7); [vmr|vmr|]. apply (Vge_ref "ConstantTuple"); [vmr|].
    apply Vge_array_map; [vmr|]. apply Forall_forall. intros x Hx.
    apply (Vge_ref "ConstantValue"); [vmr|]. rewrite Forall_forall in IH.
    eapply Vge_mono; [|apply IH; exact Hx]. pose proof (list_max_In idepth l x Hx). lia.
  - apply (Vge_mono (5 + (5 * list_max (map idepth l) + 8))); [lia|].
    apply (Vge_anyof 6); [vmr|vmr|]. apply (Vge_ref "ConstantFrozenset"); [vmr|].
    apply Vge_obj; [vmr | apply (req_ok_pre _ [_] []); cbn [map fst]; vmr |].
    apply Forall_one. apply (Fge_prop "frozenset"); [vmr|].
    apply Vge_array_map; [vmr|]. apply Forall_forall. intros x Hx.
    apply (Vge_ref "ConstantValue"); [vmr|]. rewrite Forall_forall in IH.
    eapply Vge_mono; [|apply IH; exact Hx]. pose proof (list_max_In idepth l x Hx). lia.
Qed.

Corollary iconst_schema_valid_fuel k :
  validate (5 * idepth k + 8) ROOT CV (iconst_to_json k) = true.
Proof. now apply iconst_schema_valid. Qed.

(* ------------------------------------------------------------------ *)
(* 7. fields of the data classes                                        *)

Lemma Fge_mono n m sch kx : (n <= m)%nat -> Fge n sch kx -> Fge m sch kx.
Proof. intros L H f Hf. apply H. lia. Qed.

Lemma Fge_int nm n sch z :
  uniq_prop sch nm = true -> is_type (sprop sch nm) "integer" = true -> small z = true ->
  (1 <= n)%nat -> Fge n sch (lit nm, int_to_json z).
Proof.
  intros U T W L. apply (Fge_mono 1); [exact L|]. apply (Fge_prop nm); [exact U|]. now apply V_int.
Qed.

Lemma Fge_opt_int nm n sch o :
  uniq_prop sch nm = true -> is_type (sprop sch nm) "integer" = true -> small_opt o = true ->
  (1 <= n)%nat -> Forall (Fge n sch) (opt_field nm int_to_json o).
Proof.
  intros U T W L. apply Forall_opt_field. intros x ->. now apply Fge_int.
Qed.

Lemma Fge_ints nm n sch l :
  uniq_prop sch nm = true -> is_array (sprop sch nm) = true ->
  is_type (sitems (sprop sch nm)) "integer" = true -> forallb small l = true ->
  (2 <= n)%nat -> Forall (Fge n sch) (list_field nm int_to_json l).
Proof.
  intros U A T W L. apply Forall_list_field. apply (Fge_mono 2); [exact L|].
  apply (Fge_prop nm); [exact U|]. now apply V_ints.
Qed.

Lemma Fge_str nm n sch s :
  uniq_prop sch nm = true -> is_ref (sprop sch nm) "ConstantString" = true ->
  (4 <= n)%nat -> Fge n sch (lit nm, str_to_json s).
Proof. intros U R L. apply (Fge_prop nm); [exact U|]. now apply V_str. Qed.

Lemma Fge_opt_str nm n sch o :
  uniq_prop sch nm = true -> is_ref (sprop sch nm) "ConstantString" = true ->
  (4 <= n)%nat -> Forall (Fge n sch) (opt_field nm str_to_json o).
Proof. intros U R L. apply Forall_opt_field. intros x _. now apply Fge_str. Qed.

Lemma Fge_strs nm n sch l :
  uniq_prop sch nm = true -> is_array (sprop sch nm) = true ->
  is_ref (sitems (sprop sch nm)) "ConstantString" = true ->
  (5 <= n)%nat -> Forall (Fge n sch) (list_field nm str_to_json l).
Proof.
  intros U A R L. apply Forall_list_field. apply (Fge_prop nm); [exact U|]. now apply V_strs.
Qed.

Lemma Fge_bool nm n sch :
  uniq_prop sch nm = true -> is_type (sprop sch nm) "boolean" = true ->
  (1 <= n)%nat -> Fge n sch (lit nm, JBool true).
Proof.
  intros U T L. apply (Fge_mono 1); [exact L|]. apply (Fge_prop nm); [exact U|].
  now apply (Vge_type "boolean").
Qed.

(* ------------------------------------------------------------------ *)
(* 8. Args, Function, AdditionalLine                                    *)

Lemma V_Args a n : (6 <= n)%nat -> Vge n (sdef "Args") (args_to_json a).
Proof.
  intros L. apply (Vge_mono 6); [exact L|]. unfold args_to_json.
  apply Vge_obj; [vmr | apply (req_ok_pre _ [] _); cbn [map fst]; vmr |].
  repeat (apply Forall_app; split).
  - apply (Fge_strs "positional_only"); [vmr|vmr|vmr|lia].
  - apply (Fge_strs "positional_or_keyword"); [vmr|vmr|vmr|lia].
  - apply (Fge_opt_str "var_positional"); [vmr|vmr|lia].
  - apply (Fge_strs "keyword_only"); [vmr|vmr|vmr|lia].
  - apply (Fge_opt_str "var_keyword"); [vmr|vmr|lia].
Qed.

Lemma V_Function fn n : (8 <= n)%nat -> Vge n (sdef "Function") (function_to_json fn).
Proof.
  intros L. apply (Vge_mono 8); [exact L|]. unfold function_to_json.
  apply Vge_obj; [vmr | apply (req_ok_pre _ [] _); cbn [map fst]; vmr |].
  repeat (apply Forall_app; split).
  - destruct (args_is_default (fn_args fn)); [constructor|]. apply Forall_one.
    apply (Fge_prop "args"); [vmr|]. apply (Vge_ref "Args"); [vmr|]. now apply V_Args.
  - apply (Fge_opt_str "docstring"); [vmr|vmr|lia].
  - apply Forall_opt_field. intros t _. apply (Fge_prop "type"); [vmr|].
    apply Vge_enum; [vmr|]. destruct t; vmr.
Qed.

Lemma V_AdditionalLine al n :
  small_opt (al_line al) = true -> forallb small (al_offs al) = true ->
  (3 <= n)%nat -> Vge n (sdef "AdditionalLine") (addline_to_json al).
Proof.
  intros W1 W2 L. apply (Vge_mono 3); [exact L|]. unfold addline_to_json.
  apply Vge_obj; [vmr | apply (req_ok_pre _ [] _); cbn [map fst]; vmr |].
  apply Forall_cons.
  - apply (Fge_prop "line"); [vmr|]. destruct (al_line al) as [l|].
    + cbn [small_opt] in W1. apply (Vge_anyof 0); [vmr|vmr|]. apply V_int; [vmr|exact W1].
    + apply (Vge_anyof 1); [vmr|vmr|]. now apply (Vge_type "null"); [vmr|].
  - apply (Fge_ints "additional_offsets"); [vmr|vmr|vmr|exact W2|lia].
Qed.

(* ------------------------------------------------------------------ *)
(* 9. nesting depth                                                     *)

Definition arg_depth {C} (cd : C -> nat) (a : arg_ C) : nat :=
  match a with AConst c _ => cd c | _ => 0%nat end.
Definition cd_depth_with {C} (cd : C -> nat) (d : code_data_ C) : nat :=
  Nat.max (list_max (map (fun b => list_max (map (fun i => arg_depth cd (i_arg i)) b)) (cd_blocks d)))
          (list_max (map (arg_depth cd) (cd_addargs d))).
Fixpoint cdepth (k : const) : nat :=
  match k with
  | KInner i => idepth i
  | KCode d => S (cd_depth_with cdepth d)
  end.
Definition cd_depth : code_data -> nat := cd_depth_with cdepth.

Definition schema_wf (d : code_data) : bool := wfj_cd d.
Definition schema_fuel (d : code_data) : nat := 12 * cd_depth d + 20.

(* ------------------------------------------------------------------ *)
(* 10. the argument classes                                             *)

Lemma V_Jump t r n :
  small t = true -> (2 <= n)%nat ->
  Vge n (sdef "Jump") (JObj ((lit "target", int_to_json t) :: bool_field "relative" r)).
Proof.
  intros W L. apply (Vge_mono 2); [exact L|].
  apply Vge_obj; [vmr | apply (req_ok_pre _ [_] _); cbn [map fst]; vmr |].
  apply Forall_cons.
  - apply (Fge_int "target"); [vmr|vmr|exact W|lia].
  - apply Forall_bool_field. apply (Fge_bool "relative"); [vmr|vmr|lia].
Qed.

Lemma V_Name s ov n :
  small_opt ov = true -> (5 <= n)%nat ->
  Vge n (sdef "Name") (JObj ((lit "name", str_to_json s) :: opt_field "_index_override" int_to_json ov)).
Proof.
  intros W L. apply (Vge_mono 5); [exact L|].
  apply Vge_obj; [vmr | apply (req_ok_pre _ [_] _); cbn [map fst]; vmr |].
  apply Forall_cons.
  - apply (Fge_str "name"); [vmr|vmr|lia].
  - apply (Fge_opt_int "_index_override"); [vmr|vmr|exact W|lia].
Qed.

Lemma V_Varname s ov n :
  small_opt ov = true -> (5 <= n)%nat ->
  Vge n (sdef "Varname") (JObj ((lit "varname", str_to_json s) :: opt_field "_index_override" int_to_json ov)).
Proof.
  intros W L. apply (Vge_mono 5); [exact L|].
  apply Vge_obj; [vmr | apply (req_ok_pre _ [_] _); cbn [map fst]; vmr |].
  apply Forall_cons.
  - apply (Fge_str "varname"); [vmr|vmr|lia].
  - apply (Fge_opt_int "_index_override"); [vmr|vmr|exact W|lia].
Qed.

Lemma V_Cellvar s ov n :
  small_opt ov = true -> (5 <= n)%nat ->
  Vge n (sdef "Cellvar") (JObj ((lit "cellvar", str_to_json s) :: opt_field "_index_override" int_to_json ov)).
Proof.
  intros W L. apply (Vge_mono 5); [exact L|].
  apply Vge_obj; [vmr | apply (req_ok_pre _ [_] _); cbn [map fst]; vmr |].
  apply Forall_cons.
  - apply (Fge_str "cellvar"); [vmr|vmr|lia].
  - apply (Fge_opt_int "_index_override"); [vmr|vmr|exact W|lia].
Qed.

Lemma V_Freevar s n :
  (5 <= n)%nat -> Vge n (sdef "Freevar") (JObj [(lit "freevar", str_to_json s)]).
Proof.
  intros L. apply (Vge_mono 5); [exact L|].
  apply Vge_obj; [vmr | apply (req_ok_pre _ [_] []); cbn [map fst]; vmr |].
  apply Forall_one. apply (Fge_str "freevar"); [vmr|vmr|lia].
Qed.

Lemma V_NoArg z n :
  small z = true -> (2 <= n)%nat ->
  Vge n (sdef "NoArg") (JObj (if z =? 0 then [] else [(lit "_arg", int_to_json z)])).
Proof.
  intros W L. apply (Vge_mono 2); [exact L|].
  apply Vge_obj; [vmr | apply (req_ok_pre _ [] _); cbn [map fst]; vmr |].
  destruct (z =? 0); [constructor|]. apply Forall_one.
  apply (Fge_int "_arg"); [vmr|vmr|exact W|lia].
Qed.

Lemma V_Constant cv ov m :
  Vge m CV cv -> small_opt ov = true ->
  Vge (2 + m) (sdef "Constant") (JObj ((lit "constant", cv) :: opt_field "_index_override" int_to_json ov)).
Proof.
  intros H W.
  apply Vge_obj; [vmr | apply (req_ok_pre _ [] _); cbn [map fst]; vmr |].
  apply Forall_cons.
  - apply (Fge_prop "constant"); [vmr|]. apply (Vge_ref "ConstantValue"); [vmr|]. exact H.
  - apply (Fge_opt_int "_index_override"); [vmr|vmr|exact W|lia].
Qed.

(* ------------------------------------------------------------------ *)
(* 11. operands, instructions, CodeData                                 *)

Notation IARG := (sprop (sdef "Instruction") "arg").
Notation ADDARG := (sitems (sprop (sdef "CodeData") "_additional_args")).
Notation cj := const_to_json.

Definition G (k : const) : nat := 10 + 12 * cdepth k.
Definition PV (k : const) : Prop := wfj_const k = true -> Vge (G k) CV (cj k).

Lemma V_const_arg c ov :
  PV c -> wfj_const c = true -> small_opt ov = true ->
  Vge (2 + G c) (sdef "Constant")
      (JObj ((lit "constant", cj c) :: opt_field "_index_override" int_to_json ov)).
Proof. intros HP W O. apply V_Constant; [now apply HP | exact O]. Qed.

Lemma V_arg a :
  argP PV a -> wfj_arg wfj_const a = true ->
  Vge (14 + 12 * arg_depth cdepth a) IARG (arg_to_json cj a).
Proof.
  destruct a as [z|t r|s ov|s ov|c ov|s|s ov|z];
    cbn [argP wfj_arg arg_to_json arg_depth]; intros HP W.
  - apply (Vge_mono 2); [lia|]. apply (Vge_anyof 7); [vmr|vmr|]. apply V_int; [vmr|exact W].
  - apply (Vge_mono 4); [lia|]. apply (Vge_anyof 0); [vmr|vmr|].
    apply (Vge_ref "Jump"); [vmr|]. now apply V_Jump.
  - apply (Vge_mono 7); [lia|]. apply (Vge_anyof 1); [vmr|vmr|].
    apply (Vge_ref "Name"); [vmr|]. now apply V_Name.
  - apply (Vge_mono 7); [lia|]. apply (Vge_anyof 2); [vmr|vmr|].
    apply (Vge_ref "Varname"); [vmr|]. now apply V_Varname.
  - apply andb_true_iff in W as [Wc Wo].
    apply (Vge_mono (2 + (2 + G c))); [unfold G; lia|]. apply (Vge_anyof 3); [vmr|vmr|].
    apply (Vge_ref "Constant"); [vmr|]. now apply V_const_arg.
  - apply (Vge_mono 7); [lia|]. apply (Vge_anyof 4); [vmr|vmr|].
    apply (Vge_ref "Freevar"); [vmr|]. now apply V_Freevar.
  - apply (Vge_mono 7); [lia|]. apply (Vge_anyof 5); [vmr|vmr|].
    apply (Vge_ref "Cellvar"); [vmr|]. now apply V_Cellvar.
  - apply (Vge_mono 4); [lia|]. apply (Vge_anyof 6); [vmr|vmr|].
    apply (Vge_ref "NoArg"); [vmr|]. now apply V_NoArg.
Qed.

Lemma V_addarg a :
  argP PV a -> wfj_addarg wfj_const a = true ->
  Vge (14 + 12 * arg_depth cdepth a) ADDARG (arg_to_json cj a).
Proof.
  unfold wfj_addarg. intros HP W. apply andb_true_iff in W as [W K].
  destruct a as [z|t r|s ov|s ov|c ov|s|s ov|z]; try discriminate K; clear K;
    cbn [argP wfj_arg arg_to_json arg_depth] in *.
  - apply (Vge_mono 7); [lia|]. apply (Vge_anyof 0); [vmr|vmr|].
    apply (Vge_ref "Name"); [vmr|]. now apply V_Name.
  - apply (Vge_mono 7); [lia|]. apply (Vge_anyof 1); [vmr|vmr|].
    apply (Vge_ref "Varname"); [vmr|]. now apply V_Varname.
  - apply andb_true_iff in W as [Wc Wo].
    apply (Vge_mono (2 + (2 + G c))); [unfold G; lia|]. apply (Vge_anyof 3); [vmr|vmr|].
    apply (Vge_ref "Constant"); [vmr|]. now apply V_const_arg.
  - apply (Vge_mono 7); [lia|]. apply (Vge_anyof 2); [vmr|vmr|].
    apply (Vge_ref "Cellvar"); [vmr|]. now apply V_Cellvar.
Qed.

Lemma V_instr i :
  instrP PV i -> wfj_instr wfj_const i = true ->
  Vge (15 + 12 * arg_depth cdepth (i_arg i)) (sdef "Instruction") (instr_to_json cj i).
Proof.
  intros HP W. unfold wfj_instr in W. rewrite !andb_true_iff in W.
  destruct W as [[[W1 W2] W3] W4]. unfold instr_to_json.
  apply Vge_obj; [vmr | apply (req_ok_pre _ [_] _); cbn [map fst]; vmr |].
  apply Forall_cons; [|repeat (apply Forall_app; split)].
  - apply (Fge_prop "name"); [vmr|]. now apply (Vge_type "string"); [vmr|].
  - destruct (arg_is_default (i_arg i)); [constructor|]. apply Forall_one.
    apply (Fge_prop "arg"); [vmr|]. now apply V_arg.
  - apply (Fge_opt_int "_n_args_override"); [vmr|vmr|exact W2|lia].
  - apply (Fge_opt_int "line_number"); [vmr|vmr|exact W3|lia].
  - apply (Fge_ints "_line_offsets_override"); [vmr|vmr|vmr|exact W4|lia].
Qed.

Lemma list_max_In2 {A} (g : A -> nat) l x n : In x l -> (list_max (map g l) <= n)%nat -> (g x <= n)%nat.
Proof. intros H L. pose proof (list_max_In g l x H). lia. Qed.

(* lia without the boolean premises (ZifyBool is loaded by ConstsProofs) *)
Ltac nlia := repeat match goal with H : _ = true |- _ => clear H end; lia.

Lemma V_cd d :
  cdP PV d -> wfj_cd d = true ->
  Vge (19 + 12 * cd_depth d) (sdef "CodeData") (cd_to_json_with cj d).
Proof.
  intros [HB HA] W. unfold wfj_cd, wfj_cd_with in W. rewrite !andb_true_iff in W.
  destruct W as [[[[W1 W2] W3] W4] W5].
  assert (DB : forall b i, In b (cd_blocks d) -> In i b ->
                           (arg_depth cdepth (i_arg i) <= cd_depth d)%nat).
  { intros b i Hb Hi. unfold cd_depth, cd_depth_with.
    pose proof (list_max_In (fun b => list_max (map (fun i => arg_depth cdepth (i_arg i)) b))
                  (cd_blocks d) b Hb) as M1. cbv beta in M1.
    pose proof (list_max_In (fun i => arg_depth cdepth (i_arg i)) b i Hi) as M2. cbv beta in M2.
    nlia. }
  assert (DA : forall a, In a (cd_addargs d) -> (arg_depth cdepth a <= cd_depth d)%nat).
  { intros a Ha. unfold cd_depth, cd_depth_with.
    pose proof (list_max_In (arg_depth cdepth) (cd_addargs d) a Ha). nlia. }
  remember (cd_depth d) as D eqn:ED. clear ED.
  unfold cd_to_json_with.
  apply Vge_obj; [vmr | apply (req_ok_pre _ [_; _; _; _; _] _); cbn [map fst]; vmr |].
  repeat (apply Forall_app; split).
  - repeat apply Forall_cons; [| | | | |constructor].
    + apply (Fge_prop "blocks"); [vmr|].
      apply Vge_array_map; [vmr|]. apply Forall_forall. intros b Hb.
      apply Vge_array_map; [vmr|]. apply Forall_forall. intros i Hi.
      apply (Vge_ref "Instruction"); [vmr|].
      rewrite Forall_forall in HB. specialize (HB b Hb). rewrite Forall_forall in HB.
      rewrite forallb_forall in W1. specialize (W1 b Hb). rewrite forallb_forall in W1.
      eapply Vge_mono; [|apply V_instr; [apply HB; exact Hi | apply W1; exact Hi]].
      specialize (DB b i Hb Hi). nlia.
    + apply (Fge_str "filename"); [vmr|vmr|nlia].
    + apply (Fge_int "first_line_number"); [vmr|vmr|exact W2|nlia].
    + apply (Fge_str "name"); [vmr|vmr|nlia].
    + apply (Fge_int "stacksize"); [vmr|vmr|exact W3|nlia].
  - apply Forall_opt_field. intros fn _. apply (Fge_prop "type"); [vmr|].
    apply (Vge_mono 9); [nlia|]. apply (Vge_ref "Function"); [vmr|]. now apply V_Function.
  - apply (Fge_strs "freevars"); [vmr|vmr|vmr|nlia].
  - apply Forall_bool_field. apply (Fge_none "future_annotations"). vmr.
  - apply Forall_bool_field. apply (Fge_bool "_nested"); [vmr|vmr|nlia].
  - apply Forall_opt_field. intros al E. rewrite E in *. apply andb_true_iff in W4 as [W41 W42].
    apply (Fge_prop "_additional_line"); [vmr|].
    apply (Vge_mono 4); [nlia|]. apply (Vge_ref "AdditionalLine"); [vmr|].
    now apply V_AdditionalLine.
  - apply Forall_list_field. apply (Fge_prop "_additional_args"); [vmr|].
    apply Vge_array_map; [vmr|]. apply Forall_forall. intros a Ha.
    rewrite Forall_forall in HA. rewrite forallb_forall in W5.
    eapply Vge_mono; [|apply V_addarg; [apply HA; exact Ha | apply W5; exact Ha]].
    specialize (DA a Ha). nlia.
Qed.

Lemma PV_all : forall k, PV k.
Proof.
  induction k as [i|d IH] using const_ind'; unfold PV, G; cbn [cj wfj_const cdepth]; intros W.
  - eapply Vge_mono; [|apply iconst_schema_valid]. lia.
  - apply (Vge_mono (2 + (19 + 12 * cd_depth d))); [unfold cd_depth; lia|].
    apply (Vge_anyof 9); [vmr|vmr|]. apply (Vge_ref "CodeData"); [vmr|].
    now apply V_cd.
Qed.

Theorem const_schema_valid k :
  wfj_const k = true ->
  validate (10 + 12 * cdepth k) ROOT CV (const_to_json k) = true.
Proof. intros W. apply (PV_all k W). unfold G. lia. Qed.

Theorem json_schema_valid : forall d, wfj_cd d = true ->
  validate (schema_fuel d) SrcSchema.JSON_SCHEMA SrcSchema.JSON_SCHEMA (code_data_to_json d) = true.
Proof.
  intros d W.
  assert (H : Vge (S (19 + 12 * cd_depth d)) ROOT (code_data_to_json d)).
  { apply (Vge_ref "CodeData"); [vmr|]. apply V_cd; auto. apply cdP_all. exact PV_all. }
  apply H. unfold schema_fuel. lia.
Qed.

(* ------------------------------------------------------------------ *)
(* 12. closed examples                                                  *)

Definition Vtop (f : nat) (d : code_data) : bool :=
  validate f SrcSchema.JSON_SCHEMA SrcSchema.JSON_SCHEMA (code_data_to_json d).

(* an additional line without a line number ("line": null), formerly rejected, is accepted *)
Definition witness_no_line : code_data :=
  mkCD [] [] 0 [] 0 None [] false false (Some (mkAddline None [])) [].
Example witness_no_line_accepted :
  wfj_cd witness_no_line && Vtop (schema_fuel witness_no_line) witness_no_line = true.
Proof. vmr. Qed.
Example witness_no_line_nested_accepted :
  let d := mkCD [] [] 0 [] 0 None [] false false None [AConst (KCode witness_no_line) None] in
  wfj_cd d && Vtop (schema_fuel d) d = true.
Proof. vmr. Qed.

(* The schema is permissive on operands: Instruction.arg has the alternative NoArg (an object schema
   that requires nothing and constrains "_arg" only) and Constant has no "required", so every object
   validates as an operand.  Documents outside wfj_cd that are accepted nevertheless: *)
Definition with_arg (a : arg) : code_data :=
  mkCD [[mkInstr 100 a None None []]] [] 0 [] 0 None [] false false None [].
Definition with_addarg (a : arg) : code_data :=
  mkCD [] [] 0 [] 0 None [] false false None [a].
Definition BIG : Z := 2 ^ 60.
Example permissive_operands :
  forallb (fun d => negb (wfj_cd d) && Vtop 40 d)
    [with_arg (AInt BIG); with_arg (AJump BIG false); with_arg (AName [] (Some BIG));
     with_arg (ANoArg BIG); with_arg (AConst (KInner INone) (Some BIG));
     with_addarg (AInt BIG); with_addarg (AJump 1 false); with_addarg (AFreevar []);
     with_addarg (ANoArg 0)] = true.
Proof. vmr. Qed.
(* and documents outside wfj_cd that are rejected, with every fuel up to 60 *)
Example rejected_documents :
  forallb (fun d => negb (wfj_cd d) && forallb (fun f => negb (Vtop f d)) (seq 0 60))
    [with_addarg (AInt 1); with_addarg (AName [] (Some BIG));
     mkCD [] [] BIG [] 0 None [] false false None [];
     mkCD [] [] 0 [] BIG None [] false false None [];
     mkCD [[mkInstr 1 (ANoArg 0) (Some BIG) None []]] [] 0 [] 0 None [] false false None [];
     mkCD [[mkInstr 1 (ANoArg 0) None (Some BIG) []]] [] 0 [] 0 None [] false false None [];
     mkCD [] [] 0 [] 0 None [] false false (Some (mkAddline (Some BIG) [])) [];
     mkCD [] [] 0 [] 0 None [] false false (Some (mkAddline (Some 1) [BIG])) []] = true.
Proof. vmr. Qed.

Print Assumptions validate_mono.
Print Assumptions iconst_schema_valid.
Print Assumptions const_schema_valid.
Print Assumptions json_schema_valid.
