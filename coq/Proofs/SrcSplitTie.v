(* Tie between Model/Blocks.split_blocks (the second loop of bytes_to_blocks) and the block-building loop of
   code_data/_blocks.py as translated on every run (Gen/SrcLines.v, SplitBlocks): a list of finished blocks plus the list
   `block` is bound to.  For every target list that contains the target of every jump of the instruction list (true of
   sorted(targets_set) by construction) the two agree, including the NameError of an append before any block exists. *)
From PCD Require Import Base.PyBase Base.PyImp Base.Cfg Model.Flags Model.Args Model.Data Model.LineTable Model.Blocks.
From PCD Require Gen.SrcLines.

Module SB := PCD.Gen.SrcLines.SplitBlocks.

Section Split.
  Context {C : Type}.
  Variable T : list Z.

  Definition targets_cover (ois : list (Z * instr_ C)) : Prop :=
    forall o i t rel, In (o, i) ois -> i_arg i = AJump t rel -> In t T.

  Lemma index_of_In : forall (l : list Z) t, In t l -> exists k, index_of Z.eqb t l = Some k.
  Proof.
    induction l as [|y r IH]; intros t H; [destruct H|].
    cbn [index_of]. destruct (t =? y) eqn:E; [eauto|].
    destruct H as [H|H]; [subst; rewrite Z.eqb_refl in E; discriminate|].
    destruct (IH t H) as (k & Hk). rewrite Hk. eauto.
  Qed.

  Definition finish (st : list (list (instr_ C)) * option (list (instr_ C))) : res (list (list (instr_ C))) :=
    OK (match snd st with Some b => fst st ++ [b] | None => fst st end).

  Lemma split_gen : forall (ois : list (Z * instr_ C)) (done : list (list (instr_ C))) (cur : list (instr_ C)) (started : bool), targets_cover ois ->
    bind (foldM (SB.step T) ois (done, if started then Some (rev cur) else None)) finish
    = match split_blocks T ois cur started with OK rest => OK (done ++ rest) | Err e => Err e end.
  Proof.
    induction ois as [|[offset i] r IH]; intros done cur started Hc.
    - cbn [foldM bind split_blocks]. unfold finish. destruct started; cbn [fst snd]; [reflexivity|]. rewrite app_nil_r. reflexivity.
    - assert (Hr : targets_cover r) by (intros o i0 t rel Hin; apply (Hc o i0 t rel); right; exact Hin).
      cbn [foldM split_blocks]. unfold SB.step at 1. cbn [fst snd].
      (* the retargeted instruction *)
      assert (Hi : (match i_arg i with
                    | AJump t rel => match index_of Z.eqb t T with
                                     | Some k => OK (mkInstr (i_name i) (AJump k rel) (i_nargs i) (i_line i) (i_lineoffs i))
                                     | None => Err ValueError
                                     end
                    | _ => OK i
                    end) = OK (retarget T i)).
      { unfold retarget. destruct (i_arg i) as [z|t rel|s0 ov|s0 ov|k ov|s0|s0 ov|z] eqn:Ea; try reflexivity.
        destruct (index_of_In T t (Hc offset i t rel (or_introl eq_refl) Ea)) as (k & Hk). rewrite Hk. reflexivity. }
      destruct (zmem offset T) eqn:Em.
      + cbn [fst snd]. rewrite Hi. cbn [bind app].
        specialize (IH (match (if started then Some (rev cur) else None) with Some b => done ++ [b] | None => done end)
                       [retarget T i] true Hr).
        cbn [rev app] in IH. rewrite IH.
        destruct (split_blocks T r [retarget T i] true) as [rest|e]; [|reflexivity].
        destruct started; [rewrite <- app_assoc; reflexivity | reflexivity].
      + rewrite Hi. cbn [bind]. destruct started; cbn [snd fst].
        * specialize (IH done (retarget T i :: cur) true Hr). cbn [rev] in IH. exact IH.
        * reflexivity.
  Qed.

  Theorem split_blocks_tie : forall (ois : list (Z * instr_ C)), targets_cover ois ->
    bind (foldM (SB.step T) ois ([], None)) finish = split_blocks T ois [] false.
  Proof.
    intros ois Hc. pose proof (split_gen ois [] [] false Hc) as H. cbn [app] in H. rewrite H.
    destruct (split_blocks T ois [] false); reflexivity.
  Qed.
End Split.

From PCD Require Import Proofs.BlocksPartition.

(* with the targets the decoding loop has recorded - offset 0 and the target of every jump - the premise holds *)
Theorem split_blocks_run_tie : forall {C} (ois : list (Z * instr_ C)),
  SB.run (0 :: jump_targets ois) ois = split_blocks (sorted_set (0 :: jump_targets ois)) ois [] false.
Proof.
  intros C ois. unfold SB.run.
  change (SB.targets_of (0 :: jump_targets ois)) with (sorted_set (0 :: jump_targets ois)).
  apply (split_blocks_tie (sorted_set (0 :: jump_targets ois)) ois).
  intros o i t rel Hin Ea. apply sorted_set_In. right. unfold jump_targets. apply in_flat_map.
  exists (o, i). split; [exact Hin|]. cbn [snd]. rewrite Ea. left. reflexivity.
Qed.

Print Assumptions split_blocks_run_tie.
