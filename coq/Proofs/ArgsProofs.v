(* Proofs of the C04 signature statements (Proofs/C11_Statements.v). *)
From Coq Require Import ZArith List Bool Lia ZifyBool Permutation.
From PCD Require Import Base.PyBase Base.Cfg Model.Flags Model.Args Spec.Sig Proofs.C11_Statements.
Import ListNotations. Open Scope Z_scope.
Ltac Zify.zify_post_hook ::= Z.to_euclidean_division_equations.

(* ------------------------------------------------------------------ *)
(* take / drop / znth on appends                                       *)

Lemma zlen_app {A} (a b : list A) : zlen (a ++ b) = zlen a + zlen b.
Proof. unfold zlen. rewrite app_length. lia. Qed.

Lemma zlen_nonneg {A} (a : list A) : 0 <= zlen a.
Proof. unfold zlen. lia. Qed.

Lemma zlen_map {A B} (f : A -> B) (a : list A) : zlen (map f a) = zlen a.
Proof. unfold zlen. now rewrite map_length. Qed.

Lemma take_app_off {A} (a b : list A) i m :
  i = zlen a + m -> 0 <= m -> take i (a ++ b) = a ++ take m b.
Proof.
  intros -> Hm. unfold take, zlen.
  replace (Z.to_nat (Z.of_nat (length a) + m)) with (length a + Z.to_nat m)%nat by lia.
  apply firstn_app_2.
Qed.

Lemma take_app_exact {A} (a b : list A) i : i = zlen a -> take i (a ++ b) = a.
Proof.
  intros ->. rewrite (take_app_off a b _ 0) by lia.
  unfold take. cbn. apply app_nil_r.
Qed.

Lemma drop_app_exact {A} (a b : list A) i : i = zlen a -> drop i (a ++ b) = b.
Proof.
  intros ->. unfold drop, zlen. rewrite Nat2Z.id.
  rewrite skipn_app, skipn_all, Nat.sub_diag. reflexivity.
Qed.

Lemma znth_app_off {A} (a b : list A) i m :
  i = zlen a + m -> 0 <= m -> znth (a ++ b) i = znth b m.
Proof.
  intros -> Hm. unfold znth, zlen.
  destruct (Z.of_nat (length a) + m <? 0) eqn:E1; [lia|].
  destruct (m <? 0) eqn:E2; [lia|].
  replace (Z.to_nat (Z.of_nat (length a) + m)) with (length a + Z.to_nat m)%nat by lia.
  rewrite nth_error_app2 by lia. f_equal. lia.
Qed.

Lemma split_at {A} n (l : list A) : 0 <= n <= zlen l ->
  exists a b, l = a ++ b /\ zlen a = n.
Proof.
  intros H. exists (firstn (Z.to_nat n) l), (skipn (Z.to_nat n) l). split.
  - symmetry. apply firstn_skipn.
  - unfold zlen in *. rewrite firstn_length. lia.
Qed.

Lemma slice_to_app {A} (a b : list A) i : i = zlen a -> py_slice_to i (a ++ b) = a.
Proof.
  intros E. unfold py_slice_to. pose proof (zlen_nonneg a).
  destruct (i <? 0) eqn:Ei; [lia|]. now apply take_app_exact.
Qed.

Lemma slice_from_app {A} (a b : list A) i : i = zlen a -> py_slice_from i (a ++ b) = b.
Proof.
  intros E. unfold py_slice_from. pose proof (zlen_nonneg a).
  destruct (i <? 0) eqn:Ei; [lia|]. now apply drop_app_exact.
Qed.

(* ------------------------------------------------------------------ *)
(* flag sets                                                           *)

Lemma flag_remove_absent f l : flag_mem f l = false -> flag_remove f l = l.
Proof.
  unfold flag_mem, flag_remove. induction l as [|g l IH]; cbn [existsb filter]; [reflexivity|].
  intros H. apply orb_false_iff in H as [H1 H2]. rewrite H1. cbn [negb]. now rewrite IH.
Qed.

Lemma flag_mem_remove_same f l : flag_mem f (flag_remove f l) = false.
Proof.
  unfold flag_mem, flag_remove. induction l as [|g l IH]; cbn [existsb filter]; [reflexivity|].
  destruct (flag_eqb f g) eqn:E; cbn [negb existsb]; [exact IH|]. now rewrite E, IH.
Qed.

Lemma flag_mem_remove_other f g l : flag_eqb g f = false ->
  flag_mem f (flag_remove g l) = flag_mem f l.
Proof.
  intros Hgf. unfold flag_mem, flag_remove. induction l as [|h l IH]; cbn [existsb filter]; [reflexivity|].
  destruct (flag_eqb g h) eqn:E; cbn [negb existsb]; rewrite IH; [|reflexivity].
  assert (Hfh : flag_eqb f h = false) by (unfold flag_eqb in *; lia).
  now rewrite Hfh.
Qed.

Lemma flag_mem_add_same f l : flag_mem f (flag_add f l) = true.
Proof.
  unfold flag_add. destruct (flag_mem f l) eqn:E; [exact E|].
  unfold flag_mem. rewrite existsb_app. cbn [existsb]. unfold flag_eqb. rewrite Z.eqb_refl.
  now rewrite orb_true_r.
Qed.

Lemma flag_mem_add_other f g l : flag_eqb f g = false ->
  flag_mem f (flag_add g l) = flag_mem f l.
Proof.
  intros Hfg. unfold flag_add. destruct (flag_mem g l) eqn:E; [reflexivity|].
  unfold flag_mem. rewrite existsb_app. cbn [existsb]. rewrite Hfg. now rewrite !orb_false_r.
Qed.

(* ------------------------------------------------------------------ *)
(* names_ok                                                            *)

Fixpoint nd_str (l : list str) : bool :=
  match l with [] => true | x :: r => negb (existsb (str_eqb x) r) && nd_str r end.

Lemma names_ok_unfold l :
  names_ok l = forallb (fun s : str => match s with [] => false | _ => true end) l && nd_str l.
Proof. reflexivity. Qed.

Lemma nd_str_NoDup l : nd_str l = true -> NoDup l.
Proof.
  induction l as [|x l IH]; cbn [nd_str]; intros H; [constructor|].
  apply andb_true_iff in H as [H1 H2]. apply negb_true_iff in H1.
  constructor; [|now apply IH]. intros Hin.
  assert (Hex : existsb (str_eqb x) l = true).
  { apply existsb_exists. exists x. split; [exact Hin | now apply str_eqb_spec]. }
  congruence.
Qed.

Lemma names_ok_parts l : names_ok l = true -> (forall s, In s l -> s <> []) /\ NoDup l.
Proof.
  rewrite names_ok_unfold, andb_true_iff. intros [H1 H2]. split; [|now apply nd_str_NoDup].
  rewrite forallb_forall in H1. intros s Hs ->. specialize (H1 [] Hs). discriminate.
Qed.

Lemma truthy_list_nonempty o : (forall s, o = Some s -> s <> []) -> truthy_list o = opt_list o.
Proof.
  intros _. unfold truthy_list. destruct o as [[|ch s]|]; cbn; reflexivity.
Qed.

(* ------------------------------------------------------------------ *)
(* OrderedDict of pairs with distinct names                            *)

Lemma od_set_fresh d k v : ~ In k (map fst d) -> od_set d k v = d ++ [(k, v)].
Proof.
  induction d as [|[k' v'] d IH]; cbn [od_set map fst In app]; intros Hn; [reflexivity|].
  destruct (str_eqb k' k) eqn:E.
  - apply str_eqb_spec in E. exfalso. apply Hn. now left.
  - rewrite IH; [reflexivity|]. intros Hin. apply Hn. now right.
Qed.

Lemma od_fold_fresh l : forall d, NoDup (map fst (d ++ l)) ->
  fold_left (fun d kv => od_set d (fst kv) (snd kv)) l d = d ++ l.
Proof.
  induction l as [|[k v] l IH]; intros d Hnd; cbn [fold_left fst snd].
  - now rewrite app_nil_r.
  - rewrite od_set_fresh.
    + rewrite IH; rewrite <- app_assoc; [reflexivity | exact Hnd].
    + rewrite map_app in Hnd. cbn [map fst] in Hnd. apply NoDup_remove_2 in Hnd.
      intros Hin. apply Hnd. apply in_or_app. now left.
Qed.

Lemma od_of_pairs_id l : NoDup (map fst l) -> od_of_pairs l = l.
Proof. intros H. unfold od_of_pairs. now rewrite od_fold_fresh. Qed.

(* ------------------------------------------------------------------ *)
(* the decoder and inspect on a split co_varnames                      *)

Definition is_some {A} (o : option A) : bool := match o with Some _ => true | None => false end.

Lemma args_master A B K v3 fl :
  let m := (if flag_mem VARARGS fl then 1 else 0) + (if flag_mem VARKEYWORDS fl then 1 else 0) in
  m <= zlen v3 ->
  exists vp vk,
    args_from_input (zlen A + zlen B) (zlen A) (zlen K) (A ++ B ++ K ++ v3) fl
    = OK ({| a_posonly := A; a_poskw := B; a_varpos := vp; a_kwonly := K; a_varkw := vk |},
          flag_remove VARKEYWORDS (flag_remove VARARGS fl))
    /\ take m v3 = opt_list vp ++ opt_list vk
    /\ flag_mem VARARGS fl = is_some vp
    /\ flag_mem VARKEYWORDS fl = is_some vk
    /\ inspect_parameters (zlen A + zlen B) (zlen A) (zlen K)
         (flag_mem VARARGS fl) (flag_mem VARKEYWORDS fl) (A ++ B ++ K ++ v3)
       = Some (map (fun n => (n, K_POSONLY)) A ++
               map (fun n => (n, K_POSKW)) B ++
               map (fun n => (n, K_VARPOS)) (opt_list vp) ++
               map (fun n => (n, K_KWONLY)) K ++
               map (fun n => (n, K_VARKW)) (opt_list vk)).
Proof.
  intros m Hm.
  assert (Hafi : args_from_input (zlen A + zlen B) (zlen A) (zlen K) (A ++ B ++ K ++ v3) fl =
    match (if flag_mem VARARGS fl
           then match v3 with [] => Err IndexError | x :: r => OK (Some x, r, flag_remove VARARGS fl) end
           else OK (None, v3, fl)) with
    | Err e => Err e
    | OK (var_positional, v4, fl1) =>
        match (if flag_mem VARKEYWORDS fl1
               then match v4 with [] => Err IndexError | x :: r => OK (Some x, flag_remove VARKEYWORDS fl1) end
               else OK (None, fl1)) with
        | Err e => Err e
        | OK (var_keyword, fl2) =>
            OK ({| a_posonly := A; a_poskw := B; a_varpos := var_positional;
                   a_kwonly := K; a_varkw := var_keyword |}, fl2)
        end
    end).
  { unfold args_from_input. cbv zeta.
    replace (zlen A + zlen B - zlen A) with (zlen B) by lia.
    rewrite !(slice_to_app A), !(slice_from_app A) by reflexivity.
    rewrite !(slice_to_app B), !(slice_from_app B) by reflexivity.
    rewrite !(slice_to_app K), !(slice_from_app K) by reflexivity.
    reflexivity. }
  assert (Hins : forall hv hk,
    inspect_parameters (zlen A + zlen B) (zlen A) (zlen K) hv hk (A ++ B ++ K ++ v3) =
    match (if hv then match znth v3 0 with Some n => Some [n] | None => None end else Some []) with
    | None => None
    | Some vp =>
        match (if hk then match znth v3 (if hv then 1 else 0) with Some n => Some [n] | None => None end
               else Some []) with
        | None => None
        | Some vk =>
            Some (map (fun n => (n, K_POSONLY)) A ++ map (fun n => (n, K_POSKW)) B ++
                  map (fun n => (n, K_VARPOS)) vp ++ map (fun n => (n, K_KWONLY)) K ++
                  map (fun n => (n, K_VARKW)) vk)
        end
    end).
  { intros hv hk. unfold inspect_parameters. cbv zeta.
    assert (E1 : take (zlen A + zlen B) (A ++ B ++ K ++ v3) = A ++ B).
    { rewrite (app_assoc A B). apply take_app_exact. now rewrite zlen_app. }
    assert (E2 : drop (zlen A + zlen B) (A ++ B ++ K ++ v3) = K ++ v3).
    { rewrite (app_assoc A B). apply drop_app_exact. now rewrite zlen_app. }
    rewrite E1, E2.
    rewrite (take_app_exact A B), (drop_app_exact A B), (take_app_exact K v3) by reflexivity.
    assert (E3 : forall j, 0 <= j ->
              znth (A ++ B ++ K ++ v3) (zlen A + zlen B + zlen K + j) = znth v3 j).
    { intros j Hj. replace (A ++ B ++ K ++ v3) with ((A ++ B ++ K) ++ v3) by now rewrite <- !app_assoc.
      apply znth_app_off; [rewrite !zlen_app; lia | exact Hj]. }
    replace (zlen A + zlen B + zlen K) with (zlen A + zlen B + zlen K + 0) at 1 by lia.
    rewrite (E3 0) by lia.
    rewrite (E3 (if hv then 1 else 0)) by (destruct hv; lia).
    reflexivity. }
  rewrite Hafi, Hins. clear Hafi Hins. subst m.
  assert (Hvk1 : flag_mem VARKEYWORDS (flag_remove VARARGS fl) = flag_mem VARKEYWORDS fl)
    by (apply flag_mem_remove_other; reflexivity).
  destruct (flag_mem VARARGS fl) eqn:Hv.
  - destruct v3 as [|x v4]; [cbn in Hm; destruct (flag_mem VARKEYWORDS fl); lia|].
    rewrite Hvk1.
    destruct (flag_mem VARKEYWORDS fl) eqn:Hk.
    + destruct v4 as [|y v5]; [cbn in Hm; lia|].
      exists (Some x), (Some y). repeat split.
    + exists (Some x), None. repeat split.
      rewrite (flag_remove_absent VARKEYWORDS); [reflexivity|]. now rewrite Hvk1.
  - rewrite (flag_remove_absent VARARGS fl Hv).
    destruct (flag_mem VARKEYWORDS fl) eqn:Hk.
    + destruct v3 as [|y v5]; [cbn in Hm; lia|].
      exists None, (Some y). repeat split.
    + exists None, None. repeat split.
      now rewrite (flag_remove_absent VARKEYWORDS fl Hk).
Qed.

Lemma split_varnames argcount posonly kwonly (vn : list str) :
  0 <= posonly <= argcount -> 0 <= kwonly -> argcount + kwonly <= zlen vn ->
  exists A B K v3, vn = A ++ B ++ K ++ v3 /\ posonly = zlen A
                   /\ argcount = zlen A + zlen B /\ kwonly = zlen K.
Proof.
  intros Hp Hk Hl.
  destruct (split_at posonly vn) as [A [r1 [E1 L1]]]; [lia|]. subst vn.
  rewrite zlen_app in Hl.
  destruct (split_at (argcount - posonly) r1) as [B [r2 [E2 L2]]]; [lia|]. subst r1.
  rewrite zlen_app in Hl.
  destruct (split_at kwonly r2) as [K [v3 [E3 L3]]]; [lia|]. subst r2.
  exists A, B, K, v3. repeat split; lia.
Qed.

(* everything the three statements need, in one place *)
Lemma args_facts argcount posonly kwonly varnames fl :
  0 <= posonly <= argcount -> 0 <= kwonly ->
  let total := argcount + kwonly + (if flag_mem VARARGS fl then 1 else 0)
               + (if flag_mem VARKEYWORDS fl then 1 else 0) in
  total <= zlen varnames ->
  exists A B K vp vk,
    args_from_input argcount posonly kwonly varnames fl
    = OK ({| a_posonly := A; a_poskw := B; a_varpos := vp; a_kwonly := K; a_varkw := vk |},
          flag_remove VARKEYWORDS (flag_remove VARARGS fl))
    /\ posonly = zlen A /\ argcount = zlen A + zlen B /\ kwonly = zlen K
    /\ take total varnames = A ++ B ++ K ++ opt_list vp ++ opt_list vk
    /\ flag_mem VARARGS fl = is_some vp
    /\ flag_mem VARKEYWORDS fl = is_some vk
    /\ inspect_parameters argcount posonly kwonly (flag_mem VARARGS fl) (flag_mem VARKEYWORDS fl) varnames
       = Some (map (fun n => (n, K_POSONLY)) A ++
               map (fun n => (n, K_POSKW)) B ++
               map (fun n => (n, K_VARPOS)) (opt_list vp) ++
               map (fun n => (n, K_KWONLY)) K ++
               map (fun n => (n, K_VARKW)) (opt_list vk)).
Proof.
  intros Hp Hk total Hl.
  assert (Hm0 : 0 <= (if flag_mem VARARGS fl then 1 else 0) + (if flag_mem VARKEYWORDS fl then 1 else 0))
    by (destruct (flag_mem VARARGS fl), (flag_mem VARKEYWORDS fl); lia).
  destruct (split_varnames argcount posonly kwonly varnames Hp Hk) as [A [B [K [v3 [E [Ep [Ea Ek]]]]]]];
    [subst total; lia|].
  subst varnames posonly argcount kwonly.
  assert (Hm : (if flag_mem VARARGS fl then 1 else 0) + (if flag_mem VARKEYWORDS fl then 1 else 0) <= zlen v3).
  { subst total. rewrite !zlen_app in Hl. lia. }
  destruct (args_master A B K v3 fl Hm) as [vp [vk [Hafi [Htake [Hv [Hkw Hins]]]]]].
  exists A, B, K, vp, vk. repeat split; try assumption.
  rewrite <- Htake.
  replace (A ++ B ++ K ++ v3) with ((A ++ B ++ K) ++ v3) by now rewrite <- !app_assoc.
  rewrite (take_app_off (A ++ B ++ K) v3 total
             ((if flag_mem VARARGS fl then 1 else 0) + (if flag_mem VARKEYWORDS fl then 1 else 0))).
  - now rewrite <- !app_assoc.
  - subst total. rewrite !zlen_app. lia.
  - exact Hm0.
Qed.

Lemma args_total : S_args_total.
Proof.
  intros argcount posonly kwonly varnames fl Hp Hk Hl.
  destruct (args_facts argcount posonly kwonly varnames fl Hp Hk Hl) as [A [B [K [vp [vk [Hafi _]]]]]].
  eexists. eexists. exact Hafi.
Qed.

Lemma zlen_opt_list {A} (o : option A) : zlen (opt_list o) = if is_some o then 1 else 0.
Proof. destruct o; reflexivity. Qed.

Lemma map_fst_tag (l : list str) (k : Z) : map fst (map (fun n : str => (n, k)) l) = l.
Proof. rewrite map_map. cbn [fst]. apply map_id. Qed.

Lemma args_is_inspect : S_args_is_inspect.
Proof.
  intros argcount posonly kwonly varnames fl a fl' Hp Hk total Hl Hnames Hafi.
  destruct (args_facts argcount posonly kwonly varnames fl Hp Hk Hl)
    as [A [B [K [vp [vk [Hafi' [Ep [Ea [Ek [Htake [Hv [Hkw Hins]]]]]]]]]]]].
  fold total in Htake.
  rewrite Hafi' in Hafi. inversion Hafi; subst a fl'. clear Hafi.
  rewrite Htake in Hnames. destruct (names_ok_parts _ Hnames) as [Hne Hnd].
  assert (Tvp : truthy_list vp = opt_list vp).
  { apply truthy_list_nonempty. intros s ->. apply Hne. cbn [opt_list].
    rewrite !in_app_iff. right. right. right. left. now left. }
  assert (Tvk : truthy_list vk = opt_list vk).
  { apply truthy_list_nonempty. intros s ->. apply Hne. cbn [opt_list].
    rewrite !in_app_iff. right. right. right. right. now left. }
  assert (Hpar : args_to_parameters
                   {| a_posonly := A; a_poskw := B; a_varpos := vp; a_kwonly := K; a_varkw := vk |}
                 = map (fun n => (n, K_POSONLY)) A ++ map (fun n => (n, K_POSKW)) B ++
                   map (fun n => (n, K_VARPOS)) (opt_list vp) ++ map (fun n => (n, K_KWONLY)) K ++
                   map (fun n => (n, K_VARKW)) (opt_list vk)).
  { unfold args_to_parameters. cbn [a_posonly a_poskw a_varpos a_kwonly a_varkw].
    rewrite Tvp, Tvk. apply od_of_pairs_id.
    rewrite !map_app, !map_fst_tag.
    apply (Permutation_NoDup (l := A ++ B ++ K ++ opt_list vp ++ opt_list vk)); [|exact Hnd].
    apply Permutation_app_head, Permutation_app_head.
    rewrite !app_assoc. apply Permutation_app_tail. apply Permutation_app_comm. }
  split; [|split; [|split]].
  - rewrite Hins, Hpar. reflexivity.
  - unfold args_len. rewrite Hpar. rewrite !zlen_app, !zlen_map, !zlen_opt_list, <- Hv, <- Hkw.
    subst total. lia.
  - unfold args_to_varnames. cbn [a_posonly a_poskw a_varpos a_kwonly a_varkw].
    rewrite Tvp, Tvk. symmetry. exact Htake.
  - reflexivity.
Qed.

Lemma args_roundtrip : S_args_roundtrip.
Proof.
  intros argcount posonly kwonly varnames fl a fl' Hp Hk total Hl Hnames Hafi.
  destruct (args_facts argcount posonly kwonly varnames fl Hp Hk Hl)
    as [A [B [K [vp [vk [Hafi' [Ep [Ea [Ek [Htake [Hv [Hkw Hins]]]]]]]]]]]].
  fold total in Htake.
  rewrite Hafi' in Hafi. inversion Hafi; subst a fl'. clear Hafi.
  rewrite Htake in Hnames. destruct (names_ok_parts _ Hnames) as [Hne Hnd].
  assert (Tvp : str_truthy vp = is_some vp).
  { destruct vp as [[|ch s]|]; reflexivity. }
  assert (Tvk : str_truthy vk = is_some vk).
  { destruct vk as [[|ch s]|]; reflexivity. }
  unfold args_to_input, args_to_varnames, truthy_list.
  cbn [a_posonly a_poskw a_varpos a_kwonly a_varkw]. cbv zeta.
  rewrite Tvp, Tvk, <- Hv, <- Hkw.
  split; [lia|]. split; [lia|]. split; [lia|]. split.
  - rewrite Htake. rewrite Hv, Hkw. destruct vp, vk; reflexivity.
  - assert (Eak : flag_eqb VARARGS VARKEYWORDS = false) by reflexivity.
    assert (Eka : flag_eqb VARKEYWORDS VARARGS = false) by reflexivity.
    destruct (flag_mem VARARGS fl) eqn:Fv; destruct (flag_mem VARKEYWORDS fl) eqn:Fk.
    + split; [rewrite flag_mem_add_other by exact Eak|]; apply flag_mem_add_same.
    + split; [apply flag_mem_add_same|].
      rewrite flag_mem_add_other by exact Eka. rewrite flag_mem_remove_same. reflexivity.
    + split; [|apply flag_mem_add_same].
      rewrite flag_mem_add_other by exact Eak. rewrite flag_mem_remove_other by exact Eka.
      rewrite flag_mem_remove_same. reflexivity.
    + split.
      * rewrite flag_mem_remove_other by exact Eka. rewrite flag_mem_remove_same. reflexivity.
      * rewrite flag_mem_remove_same. reflexivity.
Qed.

Print Assumptions args_is_inspect.
Print Assumptions args_total.
Print Assumptions args_roundtrip.
