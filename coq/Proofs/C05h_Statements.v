(* Statement for the header clause of C05: what normalization may change in the header of the re-encoded
   code object is exactly the CO_NESTED bit (cleared) and the CO_NOFREE bit (re-derived from the tables). *)
From PCD Require Import Base.PyBase Base.Cfg Model.Flags Model.Args Model.Data Model.Consts
  Model.LineTable Model.Blocks Model.CodeData Spec.Lnotab Spec.Dis Spec.FuncKind Model.ViewSer
  Proofs.C02_Statements Proofs.C11_Statements Proofs.C01_Statements Proofs.C03_Statements
  Proofs.C03b_Statements Proofs.C03c_Statements Proofs.C06_Statements Proofs.NormalFormWf.

Definition S_C05_header : Prop := forall c code ks d d' code',
  flags_wf (cfg_flags c) = true -> flag_value (cfg_flags c) NOFREE <> None ->
  view_wf c code ks && ops_known c (co_code code) = true -> co_code code <> [] ->
  zlen (co_freevars code) < 1073741824 -> zlen (co_varnames code) < 1073741824 ->
  nodup_str (co_freevars code) = true ->
  (0 <=? cfg_extended_arg c) && (cfg_extended_arg c <? 256) = true ->
  decode_code c code ks = OK d ->
  mapM_cd (fun k' => match from_const c k' with OK p => OK (k', p) | Err e => Err e end) (normalize d) = OK d' ->
  encode_code c d' = OK code' ->
  zlen (co_code code') < 1073741824 ->
  co_argcount code' = co_argcount code
  /\ co_kwonlyargcount code' = co_kwonlyargcount code
  /\ co_posonlyargcount code' = (if cfg_v38 c then co_posonlyargcount code else 0)
  /\ (forall f, f <> NESTED -> f <> NOFREE -> bit_set c f (co_flags code') = bit_set c f (co_flags code))
  /\ bit_set c NESTED (co_flags code') = false
  /\ bit_set c NOFREE (co_flags code')
     = match co_freevars code', co_cellvars code' with [], [] => true | _, _ => false end.
