(* Jump relaxation (the "while changed_instruction_lengths" loop of blocks_to_bytes):
   termination within the fuel, consistency of the result, meaning of the fixed point.
   All statements are about ARBITRARY data (any type of constants, any blocks). *)
From Coq Require Import ZArith List Bool Lia ZifyBool.
From PCD Require Import Base.PyBase Base.Cfg Model.Flags Model.Args Model.Data Model.LineTable Model.Blocks.
Import ListNotations. Open Scope Z_scope.
Ltac Zify.zify_post_hook ::= Z.to_euclidean_division_equations.

(** * instrsize *)

Lemma instrsize_range a : 1 <= instrsize a <= 4.
Proof.
  unfold instrsize.
  destruct (a <? 0); [lia|]. destruct (a <=? 255); [lia|]. destruct (a <=? 65535); [lia|].
  destruct (a <=? 16777215); lia.
Qed.

Lemma instrsize_neg y : y < 0 -> instrsize y = 4.
Proof. intros H. unfold instrsize. destruct (y <? 0) eqn:E; [reflexivity|lia]. Qed.

Lemma instrsize_mono x y : y < 0 \/ 0 <= x <= y -> instrsize x <= instrsize y.
Proof.
  intros [H|H].
  - rewrite (instrsize_neg y H). apply instrsize_range.
  - unfold instrsize.
    destruct (x <? 0) eqn:E1; [lia|]. destruct (y <? 0) eqn:E2; [lia|].
    destruct (x <=? 255) eqn:E3; destruct (y <=? 255) eqn:E4; try lia.
    + destruct (y <=? 65535); [lia|]. destruct (y <=? 16777215); lia.
    + destruct (x <=? 65535) eqn:E5; destruct (y <=? 65535) eqn:E6; try lia.
      * destruct (y <=? 16777215); lia.
      * destruct (x <=? 16777215) eqn:E7; destruct (y <=? 16777215) eqn:E8; lia.
Qed.

Section Relax.
  Context {C : Type}.
  Implicit Types (i : instr_ C) (l r blk : list (instr_ C)) (blocks : list (list (instr_ C))).
  Implicit Types (a b vals : list Z).

  (** size (in code units) of instruction [i] when its operand is [v] *)
  Definition sz i (v : Z) : Z := n_units (i_nargs i) v.

  Definition is_jump i : bool := match i_arg i with AJump _ _ => true | _ => false end.
  (* a truthy [_n_args_override] *)
  Definition has_ov i : bool :=
    match i_nargs i with Some k => negb (k =? 0) | None => false end.
  Definition ov_nonneg i : Prop := forall n, i_nargs i = Some n -> 0 <= n.

  Definition mult (c : cfg) : Z := if cfg_v310 c then 1 else 2.
  Definition jump_val (c : cfg) (rel : bool) (toff cur' : Z) : Z :=
    if rel then (toff - cur') * mult c else mult c * toff.

  Lemma mult_cases c : mult c = 1 \/ mult c = 2.
  Proof. unfold mult. destruct (cfg_v310 c); auto. Qed.

  Lemma sz_ov_const i v w : has_ov i = true -> sz i v = sz i w.
  Proof.
    unfold has_ov, sz, n_units. destruct (i_nargs i) as [k|]; [|discriminate].
    destruct (k =? 0); [discriminate|reflexivity].
  Qed.

  Lemma sz_noov i v : has_ov i = false -> sz i v = instrsize v.
  Proof.
    unfold has_ov, sz, n_units. destruct (i_nargs i) as [k|]; [|reflexivity].
    destruct (k =? 0); [reflexivity|discriminate].
  Qed.

  Lemma sz_ge1 i v : ov_nonneg i -> 1 <= sz i v.
  Proof.
    unfold ov_nonneg, sz, n_units. intros H. destruct (i_nargs i) as [k|].
    - specialize (H k eq_refl). destruct (k =? 0) eqn:E; [apply instrsize_range|lia].
    - apply instrsize_range.
  Qed.

  (** ** Unfolding *)

  Lemma relax_S fuel c blocks vals :
    relax (S fuel) c blocks vals =
    match update_jumps c (concat blocks) vals (block_offsets blocks vals 0) 0 with
    | Err e => Err e
    | OK (vals', changed) => if changed then relax fuel c blocks vals' else OK vals'
    end.
  Proof. reflexivity. Qed.

  Lemma uj_inv c i r vals offs cur out ch :
    update_jumps c (i :: r) vals offs cur = OK (out, ch) ->
    exists v vs rest ch',
      vals = v :: vs /\
      update_jumps c r vs offs (cur + sz i v) = OK (rest, ch') /\
      ((exists t rel toff,
           i_arg i = AJump t rel /\ py_index_dict offs t = Some toff /\
           out = jump_val c rel toff (cur + sz i v) :: rest /\
           ch = (negb (has_ov i)
                 && negb (sz i v =? instrsize (jump_val c rel toff (cur + sz i v)))) || ch')
       \/ (is_jump i = false /\ out = v :: rest /\ ch = ch')).
  Proof.
    destruct vals as [|v vs]; [discriminate|].
    cbn [update_jumps]. unfold is_jump, has_ov, sz, jump_val, mult.
    destruct (i_arg i) eqn:Ea.
    2: { destruct (py_index_dict offs target) as [toff|] eqn:Ep; [|discriminate].
         destruct (update_jumps c r vs offs (cur + n_units (i_nargs i) v)) as [[rest ch']|] eqn:Er;
           [|discriminate].
         intros H; inversion H; subst out ch. exists v, vs, rest, ch'. split; [reflexivity|].
         split; [exact Er|]. left. exists target, relative, toff. auto. }
    all: destruct (update_jumps c r vs offs (cur + n_units (i_nargs i) v)) as [[rest ch']|] eqn:Er;
      [|discriminate];
      intros H; inversion H; subst out ch; exists v, vs, rest, ch'; split; [reflexivity|];
      split; [exact Er|]; right; auto.
  Qed.

  Lemma uj_length c : forall l a offs cur b ch,
    update_jumps c l a offs cur = OK (b, ch) -> length b = length l.
  Proof.
    induction l as [|i r IH]; intros a offs cur b ch H.
    - cbn in H. inversion H; reflexivity.
    - apply uj_inv in H as (v & vs & rest & ch' & -> & Hr & [(t & rel & toff & _ & _ & -> & _)|(_ & -> & _)]);
        cbn [length]; f_equal; eapply IH; eauto.
  Qed.

  (** ** Pointwise relations on sizes, block sums *)

  Fixpoint pw (R : Z -> Z -> Prop) l a b : Prop :=
    match l, a, b with
    | [], _, _ => True
    | i :: r, va :: a', vb :: b' => R (sz i va) (sz i vb) /\ pw R r a' b'
    | _, _, _ => False
    end.

  Definition bsum blk vals : Z :=
    sumZ (map (fun iv : instr_ C * Z => n_units (i_nargs (fst iv)) (snd iv))
              (combine blk (firstn (length blk) vals))).

  Lemma bo_cons blk blocks vals cur :
    block_offsets (blk :: blocks) vals cur =
    cur :: block_offsets blocks (skipn (length blk) vals) (cur + bsum blk vals).
  Proof. reflexivity. Qed.

  Lemma bsum_nil vals : bsum [] vals = 0.
  Proof. reflexivity. Qed.

  Lemma bsum_cons i blk v vs : bsum (i :: blk) (v :: vs) = sz i v + bsum blk vs.
  Proof. reflexivity. Qed.

  Lemma pw_length R : forall l a b, pw R l a b ->
    (length l <= length a)%nat /\ (length l <= length b)%nat.
  Proof.
    induction l as [|i r IH]; intros a b H; cbn [length]; [lia|].
    destruct a as [|va a']; [contradiction|]. destruct b as [|vb b']; [contradiction|].
    destruct H as [_ H]. apply IH in H. cbn [length]. lia.
  Qed.

  Lemma pw_app R : forall blk rest a b,
    pw R (blk ++ rest) a b ->
    pw R blk a b /\ pw R rest (skipn (length blk) a) (skipn (length blk) b).
  Proof.
    induction blk as [|i blk IH]; intros rest a b H.
    - cbn. auto.
    - cbn [app] in H. destruct a as [|va a']; [contradiction|]. destruct b as [|vb b']; [contradiction|].
      destruct H as [H1 H2]. apply IH in H2 as [H2 H3]. cbn [length skipn]. split; [split; assumption|assumption].
  Qed.

  Lemma pw_eq_bsum : forall blk a b, pw eq blk a b -> bsum blk a = bsum blk b.
  Proof.
    induction blk as [|i blk IH]; intros a b H; [reflexivity|].
    destruct a as [|va a']; [contradiction|]. destruct b as [|vb b']; [contradiction|].
    destruct H as [H1 H2]. rewrite !bsum_cons, H1, (IH _ _ H2). reflexivity.
  Qed.

  Lemma bo_pw_eq : forall blocks a b cur,
    pw eq (concat blocks) a b -> block_offsets blocks a cur = block_offsets blocks b cur.
  Proof.
    induction blocks as [|blk blocks IH]; intros a b cur H; [reflexivity|].
    cbn [concat] in H. apply pw_app in H as [H1 H2].
    rewrite !bo_cons, (pw_eq_bsum _ _ _ H1), (IH _ _ _ H2). reflexivity.
  Qed.

  (** * 2. Consistency at exit *)

  (* a round that does not set the flag leaves every size unchanged *)
  Lemma uj_false_pw c : forall l a offs cur b,
    update_jumps c l a offs cur = OK (b, false) -> pw eq l a b.
  Proof.
    induction l as [|i r IH]; intros a offs cur b H; [exact I|].
    apply uj_inv in H as (v & vs & rest & ch' & -> & Hr & [(t & rel & toff & Ea & Ep & -> & Hc)|(Hj & -> & <-)]).
    - symmetry in Hc. apply orb_false_iff in Hc as [Hc ->]. split; [|eapply IH; eauto].
      destruct (has_ov i) eqn:Eo.
      + apply sz_ov_const; assumption.
      + cbn in Hc. apply negb_false_iff, Z.eqb_eq in Hc.
        rewrite (sz_noov i (jump_val c rel toff (cur + sz i v)) Eo). exact Hc.
    - split; [reflexivity|eapply IH; eauto].
  Qed.

  (* ... and running the round again from its output reproduces the output *)
  Lemma uj_fix c : forall l a offs cur b,
    update_jumps c l a offs cur = OK (b, false) -> update_jumps c l b offs cur = OK (b, false).
  Proof.
    induction l as [|i r IH]; intros a offs cur b H.
    - cbn in H. inversion H. reflexivity.
    - apply uj_inv in H as (v & vs & rest & ch' & -> & Hr & [(t & rel & toff & Ea & Ep & -> & Hc)|(Hj & -> & <-)]).
      + symmetry in Hc. apply orb_false_iff in Hc as [Hc ->].
        set (nv := jump_val c rel toff (cur + sz i v)) in *.
        assert (Hs : sz i nv = sz i v).
        { destruct (has_ov i) eqn:Eo.
          - apply sz_ov_const; assumption.
          - cbn in Hc. apply negb_false_iff, Z.eqb_eq in Hc.
            rewrite (sz_noov i nv Eo). symmetry. exact Hc. }
        apply IH in Hr.
        cbn [update_jumps]. rewrite Ea, Ep. fold (sz i nv). rewrite Hs.
        fold (mult c). fold (jump_val c rel toff (cur + sz i v)). fold nv.
        rewrite Hr. fold (has_ov i). rewrite Hc. reflexivity.
      + apply IH in Hr. cbn [update_jumps]. fold (sz i v). rewrite Hr.
        unfold is_jump in Hj. destruct (i_arg i); try reflexivity. discriminate.
  Qed.

  Lemma relax_inv c blocks : forall fuel vals0 vals,
    relax fuel c blocks vals0 = OK vals ->
    exists vp, update_jumps c (concat blocks) vp (block_offsets blocks vp 0) 0 = OK (vals, false).
  Proof.
    induction fuel as [|f IH]; intros vals0 vals H; [discriminate|].
    rewrite relax_S in H.
    destruct (update_jumps c (concat blocks) vals0 (block_offsets blocks vals0 0) 0)
      as [[v' ch]|] eqn:E; [|discriminate].
    destruct ch.
    - eapply IH; eauto.
    - inversion H; subst. eauto.
  Qed.

  Theorem relax_consistent_ fuel c blocks vals0 vals :
    relax fuel c blocks vals0 = OK vals ->
    length vals = length (concat blocks) /\
    update_jumps c (concat blocks) vals (block_offsets blocks vals 0) 0 = OK (vals, false).
  Proof.
    intros H. apply relax_inv in H as [vp H]. split.
    - eapply uj_length; eauto.
    - rewrite <- (bo_pw_eq blocks vp vals 0 (uj_false_pw _ _ _ _ _ _ H)).
      eapply uj_fix; eauto.
  Qed.

  (** * 3. What the fixed point says about one jump *)

  (* sum of the sizes of the first [m] instructions *)
  Fixpoint pre (m : nat) l vals : Z :=
    match m, l, vals with
    | S m', i :: r, v :: vs => sz i v + pre m' r vs
    | _, _, _ => 0
    end.

  Lemma pre_0 l vals : pre 0 l vals = 0.
  Proof. destruct l; reflexivity. Qed.

  Lemma pre_sumZ : forall m l vals,
    pre m l vals = sumZ (map (fun iv : instr_ C * Z => n_units (i_nargs (fst iv)) (snd iv))
                             (firstn m (combine l vals))).
  Proof.
    induction m as [|m IH]; intros l vals; [apply pre_0|].
    destruct l as [|i r]; [reflexivity|]. destruct vals as [|v vs]; [reflexivity|].
    cbn [pre combine firstn map sumZ fold_right]. rewrite IH. reflexivity.
  Qed.

  Lemma pre_app : forall blk rest a m,
    (length blk <= length a)%nat ->
    pre (length blk + m) (blk ++ rest) a = bsum blk a + pre m rest (skipn (length blk) a).
  Proof.
    induction blk as [|i blk IH]; intros rest a m H.
    - cbn [length plus app skipn]. rewrite bsum_nil. lia.
    - destruct a as [|v a']; [cbn in H; lia|]. cbn [length] in H.
      cbn [length plus app skipn pre]. rewrite bsum_cons, IH by lia. lia.
  Qed.

  (* index (in the flat instruction list) of the first instruction of every block *)
  Fixpoint starts blocks : list nat :=
    match blocks with
    | [] => []
    | blk :: r => O :: map (Nat.add (length blk)) (starts r)
    end.

  Lemma starts_nth : forall blocks t,
    (t < length blocks)%nat -> nth_error (starts blocks) t = Some (length (concat (firstn t blocks))).
  Proof.
    induction blocks as [|blk blocks IH]; intros t H; [cbn in H; lia|].
    destruct t as [|t]; [reflexivity|]. cbn [length] in H.
    cbn [starts nth_error firstn concat]. rewrite nth_error_map, IH by lia.
    cbn. rewrite app_length. reflexivity.
  Qed.

  (* the start offset of a block is the sum of the sizes of the instructions before it *)
  Lemma bo_pre : forall blocks a cur,
    (length (concat blocks) <= length a)%nat ->
    block_offsets blocks a cur = map (fun m => cur + pre m (concat blocks) a) (starts blocks).
  Proof.
    induction blocks as [|blk blocks IH]; intros a cur H; [reflexivity|].
    cbn [concat] in *. rewrite app_length in H.
    rewrite bo_cons. cbn [starts map]. rewrite pre_0, Z.add_0_r. f_equal.
    rewrite IH by (rewrite skipn_length; lia).
    rewrite map_map. apply map_ext. intros m. rewrite pre_app by lia. lia.
  Qed.

  Lemma uj_nth c : forall l vals offs cur out ch k i t rel,
    update_jumps c l vals offs cur = OK (out, ch) ->
    nth_error l k = Some i -> i_arg i = AJump t rel ->
    exists toff, py_index_dict offs t = Some toff /\
      nth_error out k = Some (jump_val c rel toff (cur + pre (S k) l vals)).
  Proof.
    induction l as [|j r IH]; intros vals offs cur out ch k i t rel H Hk Ha.
    - destruct k; discriminate.
    - apply uj_inv in H as (v & vs & rest & ch' & -> & Hr & Hcase).
      destruct k as [|k].
      + cbn in Hk. inversion Hk; subst j.
        destruct Hcase as [(t' & rel' & toff & Ea & Ep & -> & _)|(Hj & _)].
        * rewrite Ha in Ea. inversion Ea; subst t' rel'. exists toff. split; [assumption|].
          replace (cur + pre 1 (i :: r) (v :: vs)) with (cur + sz i v)
            by (cbn [pre]; rewrite ?pre_0; lia).
          reflexivity.
        * unfold is_jump in Hj. rewrite Ha in Hj. discriminate.
      + cbn [nth_error] in Hk.
        destruct (IH _ _ _ _ _ _ _ _ _ Hr Hk Ha) as (toff & Ep & Hn).
        exists toff. split; [assumption|].
        assert (E : cur + pre (S (S k)) (j :: r) (v :: vs) = cur + sz j v + pre (S k) r vs)
          by (cbn [pre]; lia).
        rewrite E.
        destruct Hcase as [(t' & rel' & toff' & _ & _ & -> & _)|(_ & -> & _)]; exact Hn.
  Qed.

  (** * 1. Termination *)

  Definition le1 (x y : Z) : Prop := 1 <= x <= y.

  Lemma pre_le : forall m l a b, pw le1 l a b -> 0 <= pre m l a <= pre m l b.
  Proof.
    induction m as [|m IH]; intros l a b H; [rewrite !pre_0; lia|].
    destruct l as [|i r]; [cbn; lia|].
    destruct a as [|va a']; [contradiction|]. destruct b as [|vb b']; [contradiction|].
    destruct H as [H1 H2]. specialize (IH _ _ _ H2). unfold le1 in H1. cbn [pre]. lia.
  Qed.

  (* the slack of the instructions whose size can change: 4 - current size *)
  Definition slack1 i (v : Z) : Z :=
    if is_jump i && negb (has_ov i) then 4 - instrsize v else 0.
  Fixpoint slack l vals : Z :=
    match l, vals with
    | i :: r, v :: vs => slack1 i v + slack r vs
    | _, _ => 0
    end.

  Lemma slack1_bounds i v : 0 <= slack1 i v <= 3.
  Proof.
    unfold slack1. pose proof (instrsize_range v). destruct (is_jump i && negb (has_ov i)); lia.
  Qed.

  Lemma slack_bounds : forall l vals, 0 <= slack l vals <= 3 * Z.of_nat (length l).
  Proof.
    induction l as [|i r IH]; intros vals; [cbn; lia|].
    destruct vals as [|v vs]; [cbn [slack length]; lia|].
    cbn [slack length]. pose proof (slack1_bounds i v). specialize (IH vs). lia.
  Qed.

  (* a round whose output sizes dominate its input sizes does not increase the slack, and
     decreases it when it sets the flag *)
  Lemma uj_slack c : forall l a offs cur b ch,
    update_jumps c l a offs cur = OK (b, ch) -> pw le1 l a b ->
    slack l b + (if ch then 1 else 0) <= slack l a.
  Proof.
    induction l as [|i r IH]; intros a offs cur b ch H Hp.
    - cbn in H. inversion H; subst. cbn. lia.
    - apply uj_inv in H as (v & vs & rest & ch' & -> & Hr & [(t & rel & toff & Ea & Ep & -> & ->)|(Hj & -> & ->)]).
      + destruct Hp as [H1 H2]. specialize (IH _ _ _ _ _ Hr H2).
        set (nv := jump_val c rel toff (cur + sz i v)) in *.
        cbn [slack]. unfold slack1, is_jump. rewrite Ea. cbn [andb].
        unfold le1 in H1.
        destruct (has_ov i) eqn:Eo; cbn [negb andb orb].
        * lia.
        * rewrite !sz_noov in H1 by assumption. rewrite (sz_noov i v Eo).
          destruct (instrsize v =? instrsize nv) eqn:E; cbn [negb orb]; destruct ch'; lia.
      + destruct Hp as [H1 H2]. specialize (IH _ _ _ _ _ Hr H2). cbn [slack]. lia.
  Qed.

  (* how an offset pair (under the old values a / the new values b) relates to the current
     position of the second loop *)
  Definition ent l a b (ca cb x y : Z) : Prop :=
    0 <= x <= y /\ (y <= cb \/ exists m, x = ca + pre m l a /\ y = cb + pre m l b).

  Lemma ent_step i r va a' vb b' ca cb x y :
    1 <= sz i vb ->
    ent (i :: r) (va :: a') (vb :: b') ca cb x y ->
    ent r a' b' (ca + sz i va) (cb + sz i vb) x y.
  Proof.
    intros Hb [H0 H]. split; [assumption|].
    destruct H as [H|(m & Hx & Hy)]; [left; lia|].
    destruct m as [|m].
    - rewrite pre_0 in Hy. left. lia.
    - cbn [pre] in Hx, Hy. right. exists m. lia.
  Qed.

  Lemma Forall2_imp {A B} (R S : A -> B -> Prop) : forall la lb,
    (forall x y, R x y -> S x y) -> Forall2 R la lb -> Forall2 S la lb.
  Proof. intros la lb H F. induction F; constructor; auto. Qed.

  Lemma Forall2_nth_error {A B} (R : A -> B -> Prop) : forall la lb n x y,
    Forall2 R la lb -> nth_error la n = Some x -> nth_error lb n = Some y -> R x y.
  Proof.
    intros la lb n x y H. revert n. induction H as [|a0 b0 la lb H0 H IH]; intros n Hx Hy.
    - destruct n; discriminate.
    - destruct n as [|n]; cbn in Hx, Hy.
      + inversion Hx; inversion Hy; subst; assumption.
      + eapply IH; eauto.
  Qed.

  Lemma jump_val_mono c rel i r va a' vb b' ca cb x y :
    pw le1 (i :: r) (va :: a') (vb :: b') ->
    ent (i :: r) (va :: a') (vb :: b') ca cb x y ->
    instrsize (jump_val c rel x (ca + sz i va)) <= instrsize (jump_val c rel y (cb + sz i vb)).
  Proof.
    intros [H1 H2] [H0 H]. unfold le1 in H1. apply instrsize_mono.
    unfold jump_val. pose proof (mult_cases c) as Hm.
    destruct rel.
    - destruct H as [H|(m & Hx & Hy)]; [left; nia|].
      destruct m as [|m].
      + rewrite pre_0 in Hy. left. nia.
      + cbn [pre] in Hx, Hy. pose proof (pre_le m _ _ _ H2). right. nia.
    - right. nia.
  Qed.

  (* the heart of the argument: the map "sizes -> sizes after one round" is monotone *)
  Lemma step_mono c : forall l a b ca cb oa ob a' b' cha chb,
    pw le1 l a b -> Forall2 (ent l a b ca cb) oa ob ->
    update_jumps c l a oa ca = OK (a', cha) ->
    update_jumps c l b ob cb = OK (b', chb) ->
    pw le1 l a' b'.
  Proof.
    induction l as [|i r IH]; intros a b ca cb oa ob a' b' cha chb Hp Ho Ha Hb; [exact I|].
    apply uj_inv in Ha as (va & vsa & resta & cha' & -> & Hra & Hca).
    apply uj_inv in Hb as (vb & vsb & restb & chb' & -> & Hrb & Hcb).
    assert (Hrest : pw le1 r resta restb).
    { destruct Hp as [H1 H2]. eapply IH; [exact H2| |exact Hra|exact Hrb].
      eapply Forall2_imp; [|exact Ho]. intros x y. apply ent_step. unfold le1 in H1. lia. }
    destruct Hca as [(t & rel & xa & Ea & Epa & -> & _)|(Hj & -> & _)].
    - destruct Hcb as [(t' & rel' & xb & Eb & Epb & -> & _)|(Hj' & _)].
      2: { unfold is_jump in Hj'. rewrite Ea in Hj'. discriminate. }
      rewrite Ea in Eb. inversion Eb; subst t' rel'.
      split; [|exact Hrest].
      destruct (has_ov i) eqn:Eo.
      + rewrite (sz_ov_const i (jump_val c rel xa (ca + sz i va)) va Eo),
                (sz_ov_const i (jump_val c rel xb (cb + sz i vb)) vb Eo). exact (proj1 Hp).
      + rewrite (sz_noov i (jump_val c rel xa (ca + sz i va)) Eo),
                (sz_noov i (jump_val c rel xb (cb + sz i vb)) Eo).
        split; [apply instrsize_range|].
        apply jump_val_mono with (r := r) (a' := vsa) (b' := vsb); [exact Hp|].
        unfold py_index_dict in Epa, Epb. destruct (t <? 0); [discriminate|].
        eapply Forall2_nth_error; eauto.
    - destruct Hcb as [(t' & rel' & xb & Eb & _)|(_ & -> & _)].
      { unfold is_jump in Hj. rewrite Eb in Hj. discriminate. }
      split; [exact (proj1 Hp)|exact Hrest].
  Qed.

  Lemma Forall2_map_same {A B D} (R : B -> D -> Prop) (f : A -> B) (g : A -> D) : forall s,
    (forall m, R (f m) (g m)) -> Forall2 R (map f s) (map g s).
  Proof. induction s; intros H; cbn; constructor; auto. Qed.

  Lemma bo_ent blocks a b :
    pw le1 (concat blocks) a b ->
    Forall2 (ent (concat blocks) a b 0 0) (block_offsets blocks a 0) (block_offsets blocks b 0).
  Proof.
    intros H. destruct (pw_length _ _ _ _ H) as [La Lb].
    rewrite !bo_pre by assumption. apply Forall2_map_same. intros m.
    pose proof (pre_le m _ _ _ H). split; [lia|]. right. exists m. split; reflexivity.
  Qed.

  (* the only error of a round is the KeyError of a dict lookup *)
  Lemma uj_err c : forall l a offs cur e,
    update_jumps c l a offs cur = Err e -> e = KeyError.
  Proof.
    induction l as [|i r IHr]; intros a offs cur e E; [discriminate|].
    destruct a as [|v vs]; [cbn in E; congruence|]. cbn [update_jumps] in E.
    destruct (i_arg i).
    2: destruct (py_index_dict offs target); [|congruence].
    all: destruct (update_jumps c r vs offs (cur + n_units (i_nargs i) v)) as [[? ?]|e'] eqn:Er;
      [discriminate|]; inversion E; subst; eapply IHr; eauto.
  Qed.

  Section Loop.
    Variables (c : cfg) (blocks : list (list (instr_ C))).
    Let L := concat blocks.

    (* the sizes after the next round dominate the current ones *)
    Definition Inv vals : Prop :=
      forall vals' ch,
        update_jumps c L vals (block_offsets blocks vals 0) 0 = OK (vals', ch) -> pw le1 L vals vals'.

    Lemma Inv_step vals vals' ch :
      Inv vals -> update_jumps c L vals (block_offsets blocks vals 0) 0 = OK (vals', ch) -> Inv vals'.
    Proof.
      intros HI H vals'' ch'' H2. pose proof (HI _ _ H) as Hp.
      eapply step_mono; [exact Hp| |exact H|exact H2]. apply bo_ent. exact Hp.
    Qed.

    Lemma relax_fuel : forall fuel vals,
      Inv vals -> slack L vals + 1 <= Z.of_nat fuel -> relax fuel c blocks vals <> Err OutOfFuel.
    Proof.
      induction fuel as [|f IH]; intros vals HI Hf.
      - pose proof (slack_bounds L vals). lia.
      - rewrite relax_S. fold L.
        destruct (update_jumps c L vals (block_offsets blocks vals 0) 0) as [[vals' ch]|e] eqn:E.
        + destruct ch; [|discriminate].
          apply IH; [eapply Inv_step; eauto|].
          pose proof (uj_slack _ _ _ _ _ _ _ E (HI _ _ E)). cbn in H. lia.
        + (* an error of the round itself: KeyError *)
          apply uj_err in E. subst e. discriminate.
    Qed.
  End Loop.

  (* the first round: jumps start at the minimal size *)
  Lemma uj_init c : forall l a offs cur b ch,
    update_jumps c l a offs cur = OK (b, ch) ->
    (forall i, In i l -> ov_nonneg i) ->
    (forall i v, In (i, v) (combine l a) -> (exists t rl, i_arg i = AJump t rl) -> v = 1) ->
    pw le1 l a b.
  Proof.
    induction l as [|i r IH]; intros a offs cur b ch H Hov H1; [exact I|].
    apply uj_inv in H as (v & vs & rest & ch' & -> & Hr & Hcase).
    assert (Hrest : pw le1 r vs rest).
    { eapply IH; [exact Hr| |].
      - intros j Hj. apply Hov. right; assumption.
      - intros j w Hj. apply H1. right; assumption. }
    pose proof (sz_ge1 i v (Hov i (or_introl eq_refl))) as Hge.
    destruct Hcase as [(t & rel & toff & Ea & Ep & -> & _)|(Hj & -> & _)].
    - split; [|exact Hrest]. unfold le1. split; [assumption|].
      destruct (has_ov i) eqn:Eo.
      + rewrite (sz_ov_const i (jump_val c rel toff (cur + sz i v)) v Eo). lia.
      + assert (v = 1) as -> by (apply (H1 i v); [left; reflexivity|eauto]).
        rewrite !sz_noov by assumption.
        pose proof (instrsize_range (jump_val c rel toff (cur + instrsize 1))).
        change (instrsize 1) with 1 in *. lia.
    - split; [|exact Hrest]. unfold le1. lia.
  Qed.
End Relax.

(** * Main statements *)

(** ** 2. Consistency: the values returned by [relax] are a fixed point of a round.
    No hypothesis on the initial values is needed. *)
Theorem relax_consistent :
  forall (C : Type) fuel c (blocks : list (list (instr_ C))) vals0 vals,
    relax fuel c blocks vals0 = OK vals ->
    length vals = length (concat blocks) /\
    update_jumps c (concat blocks) vals (block_offsets blocks vals 0) 0 = OK (vals, false).
Proof. intros C. exact (@relax_consistent_ C). Qed.

(** ** 3. Reading of the fixed point for one jump *)

(* number of code units taken by the first [m] instructions of [l] under the operands [vals] *)
Definition units_before {C} (l : list (instr_ C)) (vals : list Z) (m : nat) : Z :=
  sumZ (map (fun iv : instr_ C * Z => n_units (i_nargs (fst iv)) (snd iv))
            (firstn m (combine l vals))).

Lemma starts_length {C} : forall blocks : list (list (instr_ C)), length (starts blocks) = length blocks.
Proof. induction blocks as [|b r IH]; cbn; [reflexivity|]. rewrite map_length, IH. reflexivity. Qed.

(* the entries of [block_offsets] are the numbers of units before the blocks *)
Lemma block_offsets_nth :
  forall (C : Type) (blocks : list (list (instr_ C))) vals t x,
    (length (concat blocks) <= length vals)%nat ->
    nth_error (block_offsets blocks vals 0) t = Some x ->
    (t < length blocks)%nat /\
    x = units_before (concat blocks) vals (length (concat (firstn t blocks))).
Proof.
  intros C blocks vals t x Hl H. rewrite bo_pre in H by assumption.
  assert (Ht : (t < length blocks)%nat).
  { rewrite <- (starts_length blocks), <- (map_length (fun m => 0 + pre m (concat blocks) vals)).
    apply nth_error_Some. congruence. }
  split; [assumption|].
  rewrite nth_error_map, (starts_nth _ _ Ht) in H. cbn in H. inversion H.
  unfold units_before. rewrite <- pre_sumZ. reflexivity.
Qed.

Theorem relax_jump_operand :
  forall (C : Type) fuel c (blocks : list (list (instr_ C))) vals0 vals k i t rel,
    relax fuel c blocks vals0 = OK vals ->
    nth_error (concat blocks) k = Some i ->
    i_arg i = AJump t rel ->
    let m := if cfg_v310 c then 1 else 2 in
    let off_t := units_before (concat blocks) vals (length (concat (firstn (Z.to_nat t) blocks))) in
    let after_k := units_before (concat blocks) vals (S k) in
    0 <= t < Z.of_nat (length blocks) /\
    nth_error (block_offsets blocks vals 0) (Z.to_nat t) = Some off_t /\
    nth_error vals k = Some (if rel then (off_t - after_k) * m else m * off_t).
Proof.
  intros C fuel c blocks vals0 vals k i t rel H Hk Ha m off_t after_k.
  apply relax_consistent in H as [Hl H].
  destruct (uj_nth _ _ _ _ _ _ _ _ _ _ _ H Hk Ha) as (toff & Ep & Hn).
  unfold py_index_dict in Ep. destruct (t <? 0) eqn:Et; [discriminate|].
  assert (Hle : (length (concat blocks) <= length vals)%nat) by lia.
  destruct (block_offsets_nth _ _ _ _ _ Hle Ep) as [Ht ->].
  split; [lia|]. split; [exact Ep|].
  rewrite Hn. unfold jump_val, mult, after_k, off_t, m, units_before. rewrite <- !pre_sumZ.
  rewrite Z.add_0_l. reflexivity.
Qed.

(** ** 1. Termination.

    The statement "for all data" is FALSE: a negative [_n_args_override] (which is truthy, so it is
    used as the size of the instruction) makes block offsets negative, [instrsize] is not monotone
    across 0 (4 on negative operands, 1 on small non-negative ones), and the loop can cycle. *)

Definition cex_blocks : list (list (instr_ unit)) :=
  [ [ mkInstr 9 (ANoArg 0) (Some (-2)) None [];       (* any instruction, override -2 *)
      mkInstr 113 (AJump 1 false) None None [] ];    (* absolute jump to block 1 *)
    [] ].

(* For EVERY configuration and EVERY amount of fuel the loop does not stop: block 1 starts at
   -2 + size(jump); size 1 gives operand -1 (or -2), which needs size 4; size 4 gives operand
   2 (or 4), which needs size 1; ... *)
Theorem relax_diverges : forall c fuel, relax fuel c cex_blocks [0; 1] = Err OutOfFuel.
Proof.
  intros c.
  assert (Hcyc : forall fuel,
             relax fuel c cex_blocks [0; - mult c] = Err OutOfFuel /\
             relax fuel c cex_blocks [0; 2 * mult c] = Err OutOfFuel).
  { induction fuel as [|f [IH1 IH2]]; [split; reflexivity|].
    rewrite !relax_S. unfold mult in *. destruct (cfg_v310 c) eqn:Ev.
    - split.
      + replace (update_jumps c (concat cex_blocks) [0; - (1)] (block_offsets cex_blocks [0; - (1)] 0) 0)
          with (OK ([0; 2 * 1], true)); [exact IH2|].
        cbn. rewrite Ev. reflexivity.
      + replace (update_jumps c (concat cex_blocks) [0; 2 * 1] (block_offsets cex_blocks [0; 2 * 1] 0) 0)
          with (OK ([0; - (1)], true)); [exact IH1|].
        cbn. rewrite Ev. reflexivity.
    - split.
      + replace (update_jumps c (concat cex_blocks) [0; - (2)] (block_offsets cex_blocks [0; - (2)] 0) 0)
          with (OK ([0; 2 * 2], true)); [exact IH2|].
        cbn. rewrite Ev. reflexivity.
      + replace (update_jumps c (concat cex_blocks) [0; 2 * 2] (block_offsets cex_blocks [0; 2 * 2] 0) 0)
          with (OK ([0; - (2)], true)); [exact IH1|].
        cbn. rewrite Ev. reflexivity. }
  destruct fuel as [|f]; [reflexivity|].
  rewrite relax_S.
  replace (update_jumps c (concat cex_blocks) [0; 1] (block_offsets cex_blocks [0; 1] 0) 0)
    with (OK ([0; - mult c], true)); [apply Hcyc|].
  cbn. unfold mult. destruct (cfg_v310 c); reflexivity.
Qed.

(* in particular the unconditional termination statement is refuted, with its two hypotheses *)
Corollary relax_terminates_needs_side_condition :
  ~ (forall (C : Type) c (blocks : list (list (instr_ C))) vals0,
       length vals0 = length (concat blocks) ->
       (forall i v, In (i, v) (combine (concat blocks) vals0) ->
                    (exists t r, i_arg i = AJump t r) -> v = 1) ->
       relax (3 * length (concat blocks) + 2) c blocks vals0 <> Err OutOfFuel).
Proof.
  intros H.
  set (c := {| cfg_v310 := true; cfg_v38 := true; cfg_hasjabs := []; cfg_hasjrel := [];
               cfg_hasname := []; cfg_haslocal := []; cfg_hasfree := []; cfg_hasconst := [];
               cfg_have_argument := 90; cfg_extended_arg := 144; cfg_opcodes := [];
               cfg_flags := [] |}).
  apply (H unit c cex_blocks [0; 1]).
  - reflexivity.
  - cbn. intros i v [E|[E|[]]]; inversion E; subst; intros (t & r & Ht); [discriminate|reflexivity].
  - apply relax_diverges.
Qed.

(* Termination under the side condition "no override is negative" (an override counts
   EXTENDED_ARG prefixes + 1; the decoder only produces overrides >= 2). Any jump targets,
   any overrides >= 0 on any instruction, relative/absolute jumps in any direction. *)
Theorem relax_terminates_gen :
  forall (C : Type) c (blocks : list (list (instr_ C))) vals0 fuel,
    (forall i v, In (i, v) (combine (concat blocks) vals0) ->
                 (exists t r, i_arg i = AJump t r) -> v = 1) ->
    (forall i n, In i (concat blocks) -> i_nargs i = Some n -> 0 <= n) ->
    (3 * length (concat blocks) + 1 <= fuel)%nat ->
    relax fuel c blocks vals0 <> Err OutOfFuel.
Proof.
  intros C c blocks vals0 fuel H1 Hov Hf.
  apply relax_fuel.
  - intros vals' ch H. eapply uj_init; [exact H| |exact H1].
    intros i Hi n Hn. eapply Hov; eauto.
  - pose proof (slack_bounds (concat blocks) vals0). lia.
Qed.

Theorem relax_terminates :
  forall (C : Type) c (blocks : list (list (instr_ C))) vals0,
    length vals0 = length (concat blocks) ->
    (forall i v, In (i, v) (combine (concat blocks) vals0) ->
                 (exists t r, i_arg i = AJump t r) -> v = 1) ->
    (forall i n, In i (concat blocks) -> i_nargs i = Some n -> 0 <= n) ->
    relax (3 * length (concat blocks) + 2) c blocks vals0 <> Err OutOfFuel.
Proof. intros C c blocks vals0 _ H1 Hov. apply relax_terminates_gen; [assumption|assumption|lia]. Qed.

Print Assumptions relax_terminates.
Print Assumptions relax_terminates_gen.
Print Assumptions relax_diverges.
Print Assumptions relax_terminates_needs_side_condition.
Print Assumptions relax_consistent.
Print Assumptions relax_jump_operand.
