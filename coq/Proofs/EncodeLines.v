(* K3, components 2 and 3: assembling the decoded operand values gives back the code string, and the
   line mapping that decode_instrs splits over the instructions is joined again without loss. *)
From Coq Require Import ZArith List Bool Lia ZifyBool.
From PCD Require Import Base.PyBase Base.Cfg Model.Flags Model.Args Model.Data Model.LineTable
  Model.Blocks Spec.Lnotab Model.ViewSer Proofs.C10_Statements Proofs.C02_Statements
  Proofs.C01_Statements.
From PCD Require Proofs.InstrCodec Proofs.DecodeView Proofs.LT_Lnotab Proofs.LT_310
  Proofs.LT_ExpandCollapse.
Import ListNotations. Open Scope Z_scope.
Ltac Zify.zify_post_hook ::= Z.to_euclidean_division_equations.

Ltac split_andb :=
  repeat match goal with
         | H : _ && _ = true |- _ => apply andb_true_iff in H; destruct H
         end.

(* ------------------------------------------------------------------ *)
(** * 1. The code string *)

Lemma code_ok_wf_units c : forall b n acc,
  units_ok c b n acc = true ->
  InstrCodec.bytes_ok b = true /\ InstrCodec.shape_ok c b n = true.
Proof.
  intros b. induction b as [|x|op byte r IH] using LT_ExpandCollapse.list_ind2; intros n acc H.
  - cbn [units_ok] in H. split; [reflexivity | exact H].
  - cbn [units_ok] in H. discriminate.
  - cbn [units_ok] in H. cbn [InstrCodec.bytes_ok forallb InstrCodec.shape_ok].
    change (forallb InstrCodec.byte_ok r) with (InstrCodec.bytes_ok r).
    destruct (op =? cfg_extended_arg c) eqn:E.
    + split_andb.
      match goal with U : units_ok _ _ _ _ = true |- _ => apply IH in U; destruct U as [U1 U2] end.
      rewrite U1, U2. unfold InstrCodec.byte_ok. split; lia.
    + split_andb.
      match goal with U : units_ok _ _ _ _ = true |- _ => apply IH in U; destruct U as [U1 U2] end.
      rewrite U1, U2. unfold InstrCodec.byte_ok. split; lia.
Qed.

Lemma code_ok_wf c b : code_ok c b = true -> InstrCodec.wf_units c b = true.
Proof.
  intros H. apply code_ok_wf_units in H as [H1 H2]. unfold InstrCodec.wf_units.
  rewrite H1, H2. reflexivity.
Qed.

Definition emit_p (c : cfg) (p : pinstr) : list Z :=
  emit_units c (p_op p) (p_arg p) (Z.to_nat (p_nargs p)).

Lemma emit_p_eq c ps :
  flat_map (fun p : pinstr =>
              match p with (opcode, arg, n_args, _, _) =>
                emit_units c opcode arg (Z.to_nat n_args) end) ps
  = flat_map (emit_p c) ps.
Proof.
  induction ps as [|[[[[op a] k] f] nx] r IH]; [reflexivity|].
  cbn [flat_map]. rewrite IH. reflexivity.
Qed.

Lemma assemble_bytes {C} c : forall ps (instrs : list (instr_ C)) o lm,
  Forall (fun p => zmem (p_op p) (cfg_opcodes c) = true) ps ->
  Forall2 (fun (i : instr_ C) (p : pinstr) =>
             i_name i = p_op p /\ n_units (i_nargs i) (p_arg p) = p_nargs p) instrs ps ->
  exists lm', assemble c instrs (map p_arg ps) o lm = OK (flat_map (emit_p c) ps, lm').
Proof.
  induction ps as [|p ps IH]; intros instrs o lm Hop HF.
  - inversion HF; subst. exists lm. reflexivity.
  - inversion HF as [|i p' instrs' ps' [Hn Hu] HF']; subst.
    inversion Hop as [|p' ps' Hz Hop']; subst.
    cbn [map assemble]. rewrite Hn, Hz. cbn [negb]. rewrite Hu.
    match goal with
    | |- exists lm', match assemble c _ _ ?o' ?l' with _ => _ end = _ =>
        destruct (IH instrs' o' l' Hop' HF') as [lm' E]; rewrite E
    end.
    exists lm'. reflexivity.
Qed.

Theorem K3_bytes : S_K3_bytes.
Proof.
  intros C c b ps instrs lm0 Hc Hp Hop HF.
  destruct (InstrCodec.emit_parse_bytes c b ps (code_ok_wf c b Hc) Hp) as [E _].
  rewrite emit_p_eq in E.
  destruct (assemble_bytes c ps instrs 0 lm0 Hop HF) as [lm H].
  exists lm. rewrite H, E. reflexivity.
Qed.

(* ------------------------------------------------------------------ *)
(** * 2. Ordered dicts whose keys are consecutive even offsets *)

Notation evens := range2_fuel.

Definition addl (d : odict (list Z)) (k : Z) : list Z :=
  match oget d k with Some l => l | None => [] end.

Lemma okeys_app {V} (a b : odict V) : okeys (a ++ b) = okeys a ++ okeys b.
Proof. unfold okeys. apply map_app. Qed.

Lemma okeys_cells {V} (v : V) ks : okeys (map (fun o => (o, v)) ks) = ks.
Proof. unfold okeys. rewrite map_map. cbn [fst]. apply map_id. Qed.

Lemma evens_S k a : evens (S k) a = a :: evens k (a + 2).
Proof. reflexivity. Qed.

(* a dict whose keys are evens k a and that has an entry at a starts with that entry *)
Lemma evens_head {V} (L : odict V) k a v :
  okeys L = evens k a -> oget L a = Some v ->
  exists k' L', k = S k' /\ L = (a, v) :: L' /\ okeys L' = evens k' (a + 2).
Proof.
  intros HK HG. destruct k as [|k'].
  - destruct L; [discriminate HG | discriminate HK].
  - destruct L as [|[k0 v0] L']; [discriminate HK|].
    cbn [okeys map fst range2_fuel] in HK. inversion HK as [[E1 E2]]. subst k0.
    cbn [oget] in HG. rewrite Z.eqb_refl in HG. inversion HG; subst v0.
    exists k', L'. split; [reflexivity|]. split; [reflexivity|]. exact E2.
Qed.

Lemma oget_evens_lt {V} (L : odict V) k a u : okeys L = evens k a -> u < a -> oget L u = None.
Proof.
  revert k a. induction L as [|[k0 v0] L IH]; intros k a HK Hu; [reflexivity|].
  destruct k as [|k']; [discriminate HK|].
  cbn [okeys map fst range2_fuel] in HK. inversion HK as [[E1 E2]]. subst k0.
  cbn [oget]. destruct (a =? u) eqn:E; [lia|]. eapply IH; [exact E2 | lia].
Qed.

(* popping the next m keys, all mapped to v, removes the first m entries *)
Lemma peel {V} (v : V) : forall m a (L : odict V) k,
  okeys L = evens k a ->
  (forall u, In u (evens m a) -> oget L u = Some v) ->
  exists L2 k2,
    L = map (fun u => (u, v)) (evens m a) ++ L2 /\
    fold_left (fun d u => odel d u) (evens m a) L = L2 /\
    okeys L2 = evens k2 (a + 2 * Z.of_nat m).
Proof.
  induction m as [|m IH]; intros a L k HK HV.
  - exists L, k. cbn [range2_fuel map app fold_left]. split; [reflexivity|]. split; [reflexivity|].
    rewrite HK. f_equal. lia.
  - assert (HA : oget L a = Some v) by (apply HV; cbn [range2_fuel]; now left).
    destruct (evens_head L k a v HK HA) as (k' & L' & -> & -> & HK').
    destruct (IH (a + 2) L' k' HK') as (L2 & k2 & E1 & E2 & E3).
    { intros u Hu. specialize (HV u). cbn [range2_fuel In] in HV.
      specialize (HV (or_intror Hu)). cbn [oget] in HV.
      apply DecodeView.In_range2_fuel_lt in Hu.
      destruct (a =? u) eqn:E; [lia | exact HV]. }
    exists L2, k2. cbn [range2_fuel map fold_left odel app]. rewrite Z.eqb_refl.
    split; [f_equal; exact E1|]. split; [exact E2|].
    rewrite E3. f_equal. lia.
Qed.

Lemma fresh_lt (m : odict (option Z)) a :
  Forall (fun kv : Z * option Z => fst kv < a) m -> LT_310.fresh m a.
Proof.
  intros H k Hk. apply in_map_iff in Hk as [[k0 v0] [E Hin]]. cbn [fst] in E. subst k0.
  rewrite Forall_forall in H. exact (H _ Hin).
Qed.

Lemma Forall_lt_mono {V} (m : odict V) a b :
  a <= b -> Forall (fun kv : Z * V => fst kv < a) m -> Forall (fun kv : Z * V => fst kv < b) m.
Proof. intros Hab H. eapply Forall_impl; [|exact H]. cbv beta. intros; lia. Qed.

Lemma Forall_cells_lt {V} (v : V) m a b :
  a + 2 * Z.of_nat m <= b ->
  Forall (fun kv : Z * V => fst kv < b) (map (fun u => (u, v)) (evens m a)).
Proof.
  intros H. apply Forall_forall. intros [k0 v0] Hin. apply in_map_iff in Hin as [u [E Hu]].
  inversion E; subst. cbn [fst]. apply DecodeView.In_range2_fuel_lt in Hu. lia.
Qed.

Lemma zlen_emit_units c op a k : zlen (emit_units c op a k) = 2 * Z.of_nat k.
Proof.
  induction k as [|k IH]; [reflexivity|].
  cbn [emit_units]. unfold zlen in *. cbn [length]. lia.
Qed.

Lemma range2_units i k : 1 <= k -> range2 (i + 2) (i + 2 * k) = evens (Z.to_nat (k - 1)) (i + 2).
Proof.
  intros H. replace (i + 2 * k) with (i + 2 + 2 * (k - 1)) by lia.
  rewrite LT_310.range2_fuel_eq by (unfold LT_310.wfw; lia). f_equal. lia.
Qed.

Lemma option_eqb2_true (a b : option (option Z)) :
  option_eqb (option_eqb Z.eqb) a b = true -> a = b.
Proof.
  destruct a as [[x|]|], b as [[y|]|]; cbn [option_eqb]; intros H; try discriminate; try reflexivity.
  apply Z.eqb_eq in H. now subst.
Qed.

(* ------------------------------------------------------------------ *)
(** * 3. The decoded mapping: its keys, and from_line_mapping gives the table back *)

Lemma loop_keys : forall fuel items n last cur bo lines adds m,
  items_to_mapping_lnotab fuel items n last cur bo lines adds = OK m ->
  Forall (fun kv : Z * option Z => fst kv < bo) lines ->
  exists L' k, lm_lines m = lines ++ L' /\ okeys L' = evens k bo.
Proof.
  assert (Hstep : forall bo (lines : odict (option Z)) x,
             Forall (fun kv : Z * option Z => fst kv < bo) lines ->
             Forall (fun kv : Z * option Z => fst kv < bo + 2) (oset lines bo x)
             /\ oset lines bo x = lines ++ [(bo, x)]).
  { intros bo lines x Hl. rewrite (LT_Lnotab.oset_fresh lines bo x Hl). split; [|reflexivity].
    apply Forall_app. split; [eapply Forall_lt_mono; [|exact Hl]; lia|].
    constructor; [cbn [fst]; lia | constructor]. }
  assert (Hfin : forall (lines L'' : odict (option Z)) bo x k m,
             lm_lines m = (lines ++ [(bo, x)]) ++ L'' -> okeys L'' = evens k (bo + 2) ->
             exists L' k', lm_lines m = lines ++ L' /\ okeys L' = evens k' bo).
  { intros lines L'' bo x k m E1 E2. exists ((bo, x) :: L''), (S k).
    rewrite E1, <- app_assoc. split; [reflexivity|].
    cbn [okeys map fst range2_fuel]. f_equal. exact E2. }
  induction fuel as [|fuel IH]; intros items n last cur bo lines adds m H Hl.
  - cbn [items_to_mapping_lnotab] in H.
    destruct (negb _); [|discriminate]. inversion H; subst m. cbn [lm_lines].
    exists [], 0%nat. rewrite app_nil_r. split; reflexivity.
  - rewrite LT_Lnotab.loop_S in H.
    destruct (negb _) eqn:Ecnd.
    + inversion H; subst m. cbn [lm_lines].
      exists [], 0%nat. rewrite app_nil_r. split; reflexivity.
    + destruct items as [|[il ib] r].
      * destruct (Hstep bo lines (Some cur) Hl) as [F1 F2].
        destruct (IH _ _ _ _ _ _ _ _ H F1) as (L'' & k & E1 & E2).
        rewrite F2 in E1. eapply Hfin; eassumption.
      * cbv zeta in H.
        match type of H with
        | match ?S1 with _ => _ end = _ => destruct S1 as [[[[items1 cur1] last1] adds1]|e]; [|discriminate]
        end.
        destruct (consume_zero_width items1 bo cur1 adds1) as [[[items2 cur2] adds2]|e]; [|discriminate].
        destruct (Hstep bo lines (Some cur2) Hl) as [F1 F2].
        destruct (IH _ _ _ _ _ _ _ _ H F1) as (L'' & k & E1 & E2).
        rewrite F2 in E1. eapply Hfin; eassumption.
Qed.

Lemma keys_of_ranges : forall p a, ranges_ok p = true ->
  exists k, okeys (mapping_of_ranges p a) = evens k a.
Proof.
  induction p as [|[bd line] r IH]; intros a Hok.
  - exists 0%nat. reflexivity.
  - apply LT_310.ranges_ok_cons in Hok as (Hbd & Hev & Hr & _).
    destruct (IH (a + bd) Hr) as [k Hk].
    cbn [mapping_of_ranges]. rewrite okeys_app, okeys_cells, Hk.
    rewrite LT_310.range2_fuel_eq by (unfold LT_310.wfw; lia).
    exists (Z.to_nat (bd / 2) + k)%nat. rewrite LT_310.range2_fuel_app.
    f_equal. f_equal. lia.
Qed.

Lemma list_eqb_eitem a b : list_eqb eitem_eqb a b = true -> a = b.
Proof.
  apply list_eqb_spec. intros [x1 x2] [y1 y2]. unfold eitem_eqb. cbn [fst snd]. split.
  - intros H. apply andb_true_iff in H as [H1 H2]. f_equal; lia.
  - intros H. inversion H; subst. rewrite !Z.eqb_refl. reflexivity.
Qed.

Lemma lm0_char c table n lm0 :
  rt_table_ok c table n = true ->
  to_line_mapping (cfg_v310 c) table n = OK lm0 ->
  (exists k, okeys (lm_lines lm0) = evens k 0) /\
  from_line_mapping (cfg_v310 c) lm0 = OK table.
Proof.
  intros T M. unfold rt_table_ok in T.
  apply andb_true_iff in T as [T T3]. apply andb_true_iff in T as [T1 T2].
  destruct (LT_ExpandCollapse.bytes_items table T1 T2) as (t & B1 & B2 & B3).
  assert (R : raw_entries table = t) by (unfold raw_entries; now rewrite B1).
  rewrite R in T3. unfold to_line_mapping in M. rewrite B1 in M.
  destruct (cfg_v310 c).
  - apply andb_true_iff in T3 as [T3 _]. unfold is_asm310_image in T3.
    apply andb_true_iff in T3 as [T3 T6]. apply andb_true_iff in T3 as [T4 T5].
    apply list_eqb_eitem in T6.
    set (p := ranges_of_from t 0) in *.
    assert (Hne : p <> []) by (destruct p; [discriminate T5 | discriminate]).
    rewrite <- T6 in M. rewrite (LT_310.mapping_of_asm310 p n T4) in M.
    inversion M; subst lm0. split.
    + cbn [lm_lines]. apply keys_of_ranges. exact T4.
    + unfold from_line_mapping. rewrite (LT_310.items_of_mapping_310 p T4 Hne).
      rewrite (LT_310.expand_deltas p 0 T4). rewrite T6. exact B3.
  - apply andb_true_iff in T3 as [T4 T5]. split.
    + unfold items_to_mapping in M.
      destruct (loop_keys _ _ _ _ _ _ _ _ _ M ltac:(constructor)) as (L' & k & E1 & E2).
      exists k. rewrite E1. exact E2.
    + destruct (LT_Lnotab.mapping_items_lnotab (collapse_items false t) n T5) as (m & M1 & M2).
      rewrite M in M1. inversion M1; subst m.
      unfold from_line_mapping. rewrite M2.
      rewrite (LT_ExpandCollapse.expand_collapse false t T4). exact B3.
Qed.

(* ------------------------------------------------------------------ *)
(** * 4. One step of the decoder and of the assembler *)

Section Steps.
  Context {C : Type} (keq : C -> C -> bool) (c : cfg) (fv : list str).

  Lemma decode_step op a k i nx r lm st (ois : list (Z * instr_ C)) lm1 st' :
    decode_instrs keq c ((op, a, k, i, nx) :: r) fv lm st = OK (ois, lm1, st') ->
    exists ins st1 line rest,
      oget (lm_lines lm) i = Some line /\
      i_line ins = line /\ i_lineoffs ins = addl (lm_adds lm) i /\
      ois = (i, ins) :: rest /\
      decode_instrs keq c r fv
        {| lm_lines := fold_left (fun d u => odel d u) (range2 (i + 2) nx) (odel (lm_lines lm) i);
           lm_adds := fold_left (fun d u => odel d u) (range2 (i + 2) nx) (odel (lm_adds lm) i) |}
        st1 = OK (rest, lm1, st').
  Proof.
    intros H. cbn [decode_instrs] in H.
    destruct (to_arg keq c op a nx fv st) as [[parg st1]|e]; [|discriminate].
    destruct (oget (lm_lines lm) i) as [line|] eqn:EL; [|discriminate].
    match type of H with
    | match ?X with _ => _ end = _ => destruct X as [[[rest lmr] str]|e] eqn:ER; [|discriminate]
    end.
    inversion H; subst ois lmr str. clear H.
    eexists _, st1, line, rest. split; [reflexivity|].
    split; [|split; [|split; [reflexivity | exact ER]]]; reflexivity.
  Qed.

  Lemma assemble_step (ins : instr_ C) instrs v vals o lm code lm3 :
    assemble c (ins :: instrs) (v :: vals) o lm = OK (code, lm3) ->
    let n := n_units (i_nargs ins) v in
    exists rest,
      code = emit_units c (i_name ins) v (Z.to_nat n) ++ rest /\
      assemble c instrs vals (o + 2 * Z.of_nat (Z.to_nat n))
        {| lm_lines := fold_left (fun d u => oset d u (i_line ins)) (range2 (o + 2) (o + 2 * n))
                                 (oset (lm_lines lm) o (i_line ins));
           lm_adds := match i_lineoffs ins with [] => lm_adds lm | l => oset (lm_adds lm) o l end |}
        = OK (rest, lm3).
  Proof.
    intros H n. cbn [assemble] in H.
    destruct (negb (zmem (i_name ins) (cfg_opcodes c))); [discriminate|].
    cbv zeta in H. fold n in H. rewrite zlen_emit_units in H.
    match type of H with
    | match ?X with _ => _ end = _ => destruct X as [[rest lm']|e] eqn:EA; [|discriminate]
    end.
    inversion H; subst code lm'. exists rest. split; reflexivity.
  Qed.
End Steps.

(* ------------------------------------------------------------------ *)
(** * 5. Consistency of the mapping with the instruction boundaries *)

Definition units_cons (L : odict (option Z)) (Ad : odict (list Z)) (ps : list pinstr) : Prop :=
  Forall (fun p : pinstr =>
            forall u, In u (range2 (p_first p + 2) (p_next p)) ->
                      oget L u = oget L (p_first p) /\ oget Ad u = None) ps.

Lemma offsets_ok_lower : forall ps i e,
  InstrCodec.offsets_ok i ps e = true ->
  Forall (fun p : pinstr => i <= p_first p /\ p_first p < p_next p) ps.
Proof.
  induction ps as [|[[[[op a] k] f] nx] r IH]; intros i e H; [constructor|].
  cbn [InstrCodec.offsets_ok] in H. split_andb.
  constructor.
  - unfold p_first, p_next. cbn [fst snd]. lia.
  - match goal with U : InstrCodec.offsets_ok _ _ _ = true |- _ => apply IH in U; rename U into HU end.
    eapply Forall_impl; [|exact HU]. cbv beta. intros p [A B]. split; lia.
Qed.

Lemma units_cons_pres L Ad L' Ad' ps lo :
  Forall (fun p : pinstr => lo <= p_first p /\ p_first p < p_next p) ps ->
  (forall x, lo <= x -> oget L' x = oget L x /\ oget Ad' x = oget Ad x) ->
  units_cons L Ad ps -> units_cons L' Ad' ps.
Proof.
  intros HB HE HC. unfold units_cons in *. rewrite Forall_forall in *.
  intros p Hp u Hu. destruct (HB p Hp) as [B1 B2]. specialize (HC p Hp u Hu).
  pose proof (DecodeView.In_range2_lt _ _ _ Hu) as Hr.
  destruct (HE u ltac:(lia)) as [E1 E2]. destruct (HE (p_first p) ltac:(lia)) as [E3 _].
  rewrite E1, E2, E3. exact HC.
Qed.

Lemma lines_on_instrs_cons lm0 first ps :
  lines_on_instrs lm0 ps = true ->
  units_cons (lm_lines (modify_line_offsets lm0 first)) (lm_adds lm0) ps.
Proof.
  unfold lines_on_instrs, units_cons. rewrite forallb_forall, Forall_forall.
  intros H p Hp u Hu. specialize (H p Hp). rewrite forallb_forall in H. specialize (H u Hu).
  apply andb_true_iff in H as [H1 H2]. apply option_eqb2_true in H1.
  rewrite !DecodeView.oget_modify, H1. split; [reflexivity|].
  unfold omem in H2. destruct (oget (lm_adds lm0) u); [discriminate | reflexivity].
Qed.

(* ------------------------------------------------------------------ *)
(** * 6. Decoder and assembler in lockstep *)

Lemma Forall2_cons_inv {A B} (R : A -> B -> Prop) x l y l' :
  Forall2 R (x :: l) (y :: l') -> R x y /\ Forall2 R l l'.
Proof. intros H. inversion H; subst. split; assumption. Qed.

Lemma Forall2_cons_r_inv {A B} (R : A -> B -> Prop) l y l' :
  Forall2 R l (y :: l') -> exists x l0, l = x :: l0 /\ R x y /\ Forall2 R l0 l'.
Proof. intros H. inversion H; subst. eexists _, _. split; [reflexivity|]. split; assumption. Qed.

Lemma p_first_eq op a k f n : p_first (op, a, k, f, n) = f.
Proof. reflexivity. Qed.
Lemma p_next_eq op a k f n : p_next (op, a, k, f, n) = n.
Proof. reflexivity. Qed.
Lemma p_nargs_eq op a k f n : p_nargs (op, a, k, f, n) = k.
Proof. reflexivity. Qed.

Lemma offsets_ok_le : forall ps i e, InstrCodec.offsets_ok i ps e = true -> i <= e.
Proof.
  induction ps as [|[[[[op a] k] f] nx] r IH]; intros i e H; cbn [InstrCodec.offsets_ok] in H; [lia|].
  split_andb.
  match goal with U : InstrCodec.offsets_ok _ _ _ = true |- _ => apply IH in U end. lia.
Qed.

Section Lockstep.
  Context {C : Type} (keq : C -> C -> bool) (c : cfg) (fv : list str).

  Lemma lockstep : forall ps i e (instrs : list (instr_ C)) vals ois L Ad st lm1 st'
                          accL accA code lm3 kk,
    InstrCodec.offsets_ok i ps e = true ->
    okeys L = evens kk i ->
    units_cons L Ad ps ->
    decode_instrs keq c ps fv {| lm_lines := L; lm_adds := Ad |} st = OK (ois, lm1, st') ->
    Forall2 (fun (i : instr_ C) (oi : Z * instr_ C) =>
               i_line i = i_line (snd oi) /\ i_lineoffs i = i_lineoffs (snd oi)) instrs ois ->
    Forall2 (fun (iv : instr_ C * Z) (p : pinstr) =>
               n_units (i_nargs (fst iv)) (snd iv) = p_nargs p) (combine instrs vals) ps ->
    length vals = length instrs ->
    Forall (fun kv : Z * option Z => fst kv < i) accL ->
    (forall u, i <= u -> oget accA u = None) ->
    assemble c instrs vals i {| lm_lines := accL; lm_adds := accA |} = OK (code, lm3) ->
    zlen code = e - i /\
    accL ++ L = lm_lines lm3 ++ lm_lines lm1 /\
    Forall (fun kv : Z * option Z => fst kv < e) (lm_lines lm3) /\
    (exists k', okeys (lm_lines lm1) = evens k' e) /\
    (forall u, e <= u -> oget (lm_adds lm3) u = None) /\
    (forall u, i <= u < e -> (u - i) mod 2 = 0 -> addl (lm_adds lm3) u = addl Ad u) /\
    (forall u, u < i -> oget (lm_adds lm3) u = oget accA u) /\
    (forall u, e <= u -> oget (lm_adds lm1) u = oget Ad u).
  Proof.
    induction ps as [|[[[[op a] k] first] next] r IH];
      intros i e instrs vals ois L Ad st lm1 st' accL accA code lm3 kk HO HK HC HD H1 H2 HL HaL HaA HA.
    - cbn [InstrCodec.offsets_ok] in HO. assert (e = i) by lia. subst e.
      cbn [decode_instrs] in HD. inversion HD; subst ois lm1 st'. inversion H1; subst instrs.
      cbn [assemble] in HA. inversion HA; subst code lm3. cbn [lm_lines lm_adds].
      split; [change (zlen (@nil Z)) with 0; lia|].
      split; [reflexivity|]. split; [exact HaL|]. split; [exists kk; exact HK|].
      split; [exact HaA|]. split; [intros; lia|]. split; reflexivity.
    - cbn [InstrCodec.offsets_ok] in HO. split_andb.
      assert (first = i) by lia. subst first.
      assert (next = i + 2 * k) by lia. subst next.
      assert (Hk : 1 <= k) by lia.
      match goal with U : InstrCodec.offsets_ok _ r e = true |- _ => rename U into HO' end.
      (* decoder *)
      apply decode_step in HD.
      destruct HD as (ins & st1 & line0 & rest & EL & Il & Io & -> & ER).
      subst line0. cbn [lm_lines lm_adds] in EL, Io, ER.
      (* the matching instruction and value *)
      apply Forall2_cons_r_inv in H1 as (ins0 & instrs' & -> & [R1a R1b] & H1').
      cbn [snd] in R1a, R1b.
      destruct vals as [|v vals']; [discriminate HL|].
      cbn [combine] in H2. apply Forall2_cons_inv in H2 as [R2 H2'].
      rewrite p_nargs_eq in R2. cbn [fst snd] in R2.
      cbn [length] in HL. apply Nat.succ_inj in HL.
      (* assembler *)
      apply assemble_step in HA. cbv zeta in HA. rewrite R2 in HA.
      destruct HA as (rest_code & -> & EA). cbn [lm_lines lm_adds] in EA.
      replace (2 * Z.of_nat (Z.to_nat k)) with (2 * k) in EA by lia.
      rewrite R1a, R1b, Io in EA.
      set (line := i_line ins) in *.
      (* shape of the current mapping *)
      destruct (evens_head L kk i line HK EL) as (kk' & L' & -> & -> & HK').
      apply Forall_cons_iff in HC as [HC0 HC'].
      rewrite p_first_eq, p_next_eq in HC0.
      rewrite range2_units in HC0, ER, EA by exact Hk.
      set (m := Z.to_nat (k - 1)) in *.
      destruct (peel line m (i + 2) L' kk' HK') as (L2 & k2 & EP1 & EP2 & EP3).
      { intros u Hu. destruct (HC0 u Hu) as [X _]. cbn [oget] in X. rewrite Z.eqb_refl in X.
        apply DecodeView.In_range2_fuel_lt in Hu.
        destruct (i =? u) eqn:E; [lia | exact X]. }
      replace (i + 2 + 2 * Z.of_nat m) with (i + 2 * k) in EP3 by lia.
      cbn [odel] in ER. rewrite Z.eqb_refl in ER. rewrite EP2 in ER.
      set (Ad' := fold_left (fun d u => odel d u) (evens m (i + 2)) (odel Ad i)) in *.
      assert (HAd' : forall u, i + 2 * k <= u -> oget Ad' u = oget Ad u).
      { intros u Hu. unfold Ad'. rewrite DecodeView.oget_fold_odel.
        - apply DecodeView.oget_odel_neq. lia.
        - intros X. apply DecodeView.In_range2_fuel_lt in X. lia. }
      (* the assembler's lines *)
      assert (EL1 : oset accL i line = accL ++ [(i, line)])
        by (apply LT_Lnotab.oset_fresh; exact HaL).
      rewrite EL1 in EA.
      rewrite LT_310.fold_oset_fuel in EA.
      2:{ apply fresh_lt. apply Forall_app. split.
          - eapply Forall_lt_mono; [|exact HaL]. lia.
          - constructor; [cbn [fst]; lia | constructor]. }
      set (accL' := (accL ++ [(i, line)]) ++ map (fun o => (o, line)) (evens m (i + 2))) in *.
      set (accA' := match addl Ad i with [] => accA | z :: l => oset accA i (z :: l) end) in *.
      assert (HaL' : Forall (fun kv : Z * option Z => fst kv < i + 2 * k) accL').
      { unfold accL'. apply Forall_app. split; [apply Forall_app; split|].
        - eapply Forall_lt_mono; [|exact HaL]. lia.
        - constructor; [cbn [fst]; lia | constructor].
        - apply Forall_cells_lt. lia. }
      assert (HaA1 : forall u, u <> i -> oget accA' u = oget accA u).
      { intros u Hu. unfold accA'. destruct (addl Ad i); [reflexivity|].
        apply LT_Lnotab.oget_oset_other. lia. }
      assert (HaA2 : addl accA' i = addl Ad i).
      { unfold accA'. destruct (addl Ad i) eqn:E.
        - unfold addl. rewrite HaA by lia. reflexivity.
        - unfold addl at 1. rewrite LT_Lnotab.oget_oset_same. reflexivity. }
      assert (HaA' : forall u, i + 2 * k <= u -> oget accA' u = None).
      { intros u Hu. rewrite HaA1 by lia. apply HaA. lia. }
      assert (HC2 : units_cons L2 Ad' r).
      { eapply units_cons_pres; [exact (offsets_ok_lower _ _ _ HO') | | exact HC'].
        intros x Hx. split; [|apply HAd'; exact Hx].
        rewrite <- EP2. rewrite DecodeView.oget_fold_odel.
        - cbn [oget]. destruct (i =? x) eqn:E; [lia | reflexivity].
        - intros X. apply DecodeView.In_range2_fuel_lt in X. lia. }
      destruct (IH (i + 2 * k) e instrs' vals' rest L2 Ad' st1 lm1 st' accL' accA' rest_code lm3 k2
                   HO' EP3 HC2 ER H1' H2' HL HaL' HaA' EA)
        as (G1 & G2 & G3 & G4 & G5 & G6 & G7 & G8).
      pose proof (offsets_ok_le _ _ _ HO') as Hie.
      split.
      { rewrite LT_Lnotab.zlen_app, zlen_emit_units, G1. lia. }
      split.
      { rewrite <- G2. unfold accL'. rewrite EP1. rewrite <- !app_assoc. reflexivity. }
      split; [exact G3|]. split; [exact G4|]. split; [exact G5|].
      split.
      { intros u Hu Hm.
        destruct (Z_lt_le_dec u (i + 2 * k)) as [Hlt|Hge].
        - unfold addl at 1. rewrite G7 by exact Hlt. fold (addl accA' u).
          destruct (Z.eq_dec u i) as [->|Hne]; [exact HaA2|].
          unfold addl. rewrite HaA1 by exact Hne. rewrite HaA by lia.
          assert (Hin : In u (evens m (i + 2))).
          { apply LT_310.In_range2_fuel. unfold m. lia. }
          destruct (HC0 u Hin) as [_ X]. rewrite X. reflexivity.
        - rewrite G6 by lia. unfold addl. rewrite HAd' by exact Hge. reflexivity. }
      split.
      { intros u Hu. rewrite G7 by lia. apply HaA1. lia. }
      intros u Hu. rewrite G8 by exact Hu. apply HAd'. lia.
  Qed.
End Lockstep.

(* ------------------------------------------------------------------ *)
(** * 7. What mapping_to_items can observe *)

(* a key of the additional dict that maps to [] is indistinguishable from an absent key, and only
   the keys of the line dict are ever looked up *)
Lemma m2i_lnotab_cong adds adds' : forall lines,
  (forall u, In u (okeys lines) -> addl adds' u = addl adds u) ->
  forall ll lb, mapping_to_items_lnotab lines adds' ll lb = mapping_to_items_lnotab lines adds ll lb.
Proof.
  induction lines as [|[bo [line|]] r IH]; intros H ll lb; [reflexivity| |reflexivity].
  cbn [mapping_to_items_lnotab].
  fold (addl adds' bo). fold (addl adds bo).
  rewrite (H bo) by (cbn [okeys map fst In]; now left).
  rewrite IH; [reflexivity|].
  intros u Hu. apply H. cbn [okeys map fst In]. right. exact Hu.
Qed.

Lemma from_lm_cong lt m m' :
  lm_lines m' = lm_lines m ->
  (forall u, In u (okeys (lm_lines m)) -> addl (lm_adds m') u = addl (lm_adds m) u) ->
  from_line_mapping lt m' = from_line_mapping lt m.
Proof.
  intros HL HA. unfold from_line_mapping, mapping_to_items. rewrite HL.
  destruct lt; [reflexivity|]. rewrite (m2i_lnotab_cong _ _ _ HA). reflexivity.
Qed.

Lemma modify_cancel (F : odict (option Z)) d :
  map (fun kv : Z * option Z =>
         (fst kv, match snd kv with Some l => Some (l + - d) | None => None end))
      (map (fun kv : Z * option Z =>
              (fst kv, match snd kv with Some l => Some (l + d) | None => None end)) F) = F.
Proof.
  induction F as [|[k [l|]] F IH]; [reflexivity| |]; cbn [map fst snd]; rewrite IH;
    [|reflexivity]. do 3 f_equal. lia.
Qed.

Lemma okeys_modify lm d : okeys (lm_lines (modify_line_offsets lm d)) = okeys (lm_lines lm).
Proof.
  unfold modify_line_offsets, okeys. cbn [lm_lines]. rewrite map_map. cbn [fst]. reflexivity.
Qed.

(* what pop_additional_line returns when the residual keys are consecutive even offsets from e *)
Lemma pop_char lm1 e k' next_line lm2 :
  okeys (lm_lines lm1) = evens k' e ->
  pop_additional_line lm1 e = OK (next_line, lm2) ->
  (lm_lines lm1 = [] /\ next_line = None) \/
  (exists v, lm_lines lm1 = [(e, v)] /\ next_line = Some (v, addl (lm_adds lm1) e)).
Proof.
  intros HK H. unfold pop_additional_line in H.
  destruct (negb _); [discriminate|].
  destruct (lm_lines lm1) as [|[k0 v0] L] eqn:EL.
  - left. inversion H. split; reflexivity.
  - right. destruct k' as [|k']; [discriminate HK|].
    cbn [okeys map fst range2_fuel] in HK. inversion HK as [[E1 E2]]. subst k0.
    destruct (keys_are_exactly ((e, v0) :: L) e) eqn:EK; [|discriminate].
    unfold keys_are_exactly in EK. cbn [okeys map fst forallb] in EK.
    apply andb_true_iff in EK as [_ EK].
    destruct L as [|[k1 v1] L].
    + cbn [oget] in H. rewrite Z.eqb_refl in H. inversion H. exists v0. split; reflexivity.
    + exfalso. destruct k' as [|k']; [discriminate E2|].
      cbn [map fst range2_fuel] in E2. inversion E2 as [[E3 E4]]. subst k1.
      cbn [map fst forallb] in EK. apply andb_true_iff in EK as [EK _]. lia.
Qed.

(* ------------------------------------------------------------------ *)
(** * 8. The line mapping round trip *)

Theorem K3_lines : S_K3_lines.
Proof.
  intros C keq c b table first lm0 ps fv st ois lm1 st' next_line lm2 instrs vals code lm3
         Hc HT HP Hne HM HLI HD HPOP H1 H2 HL HA.
  destruct (InstrCodec.emit_parse_bytes c b ps (code_ok_wf c b Hc) HP) as [_ HO].
  destruct (lm0_char c table (zlen b) lm0 HT HM) as [[k0 HK0] HF].
  rewrite <- HF. clear HF.
  set (e := zlen b) in *.
  set (F' := lm_lines (modify_line_offsets lm0 first)).
  assert (HK : okeys F' = evens k0 0) by (unfold F'; rewrite okeys_modify; exact HK0).
  change (modify_line_offsets lm0 first)
    with {| lm_lines := F'; lm_adds := lm_adds lm0 |} in HD.
  change empty_linemap with {| lm_lines := []; lm_adds := [] |} in HA.
  destruct (lockstep keq c fv ps 0 e instrs vals ois F' (lm_adds lm0) st lm1 st' [] [] code lm3 k0
              HO HK (lines_on_instrs_cons lm0 first ps HLI) HD H1 H2 HL
              (Forall_nil _) (fun _ _ => eq_refl) HA)
    as (G1 & G2 & G3 & [k' G4] & G5 & G6 & G7 & G8).
  cbn [app] in G2. rewrite Z.sub_0_r in G1.
  assert (HF' : map (fun kv : Z * option Z =>
                       (fst kv, match snd kv with Some l => Some (l + - first) | None => None end)) F'
                = lm_lines lm0).
  { unfold F', modify_line_offsets. cbn [lm_lines]. apply modify_cancel. }
  assert (Hlow : forall u, In u (okeys (lm_lines lm3)) -> u < e).
  { intros u Hu. apply in_map_iff in Hu as [[k1 v1] [E Hin]]. cbn [fst] in E. subst k1.
    rewrite Forall_forall in G3. exact (G3 _ Hin). }
  assert (Hev : forall u, In u (okeys (lm_lines lm0)) -> 0 <= u /\ (u - 0) mod 2 = 0).
  { intros u Hu. rewrite HK0 in Hu. apply DecodeView.In_range2_fuel_lt in Hu. lia. }
  destruct (pop_char lm1 e k' next_line lm2 G4 HPOP) as [[EL ->] | [v [EL ->]]].
  - rewrite EL, app_nil_r in G2.
    apply from_lm_cong.
    + unfold modify_line_offsets. cbn [lm_lines]. rewrite <- G2. exact HF'.
    + intros u Hu. unfold modify_line_offsets. cbn [lm_adds].
      destruct (Hev u Hu) as [U1 U2].
      apply G6; [|exact U2]. split; [lia|]. apply Hlow.
      rewrite <- G2. unfold F'. rewrite okeys_modify. exact Hu.
  - rewrite EL in G2. rewrite G1.
    assert (ES : oset (lm_lines lm3) e v = F').
    { rewrite (LT_Lnotab.oset_fresh (lm_lines lm3) e v G3). symmetry. exact G2. }
    apply from_lm_cong.
    + unfold modify_line_offsets, add_additional_line. cbn [lm_lines]. rewrite ES. exact HF'.
    + intros u Hu. unfold modify_line_offsets, add_additional_line. cbn [lm_adds lm_lines].
      destruct (Hev u Hu) as [U1 U2].
      assert (Hu' : In u (okeys (lm_lines lm3)) \/ u = e).
      { rewrite <- okeys_modify with (d := first) in Hu. fold F' in Hu. rewrite G2 in Hu.
        rewrite okeys_app in Hu. apply in_app_iff in Hu as [Hu|Hu]; [now left|].
        cbn [okeys map fst In] in Hu. right. destruct Hu as [Hu|[]]. now symmetry. }
      destruct Hu' as [Hu'| ->].
      * apply Hlow in Hu'. unfold addl at 1.
        rewrite LT_Lnotab.oget_oset_other by lia. fold (addl (lm_adds lm3) u).
        apply G6; [lia | exact U2].
      * unfold addl at 1. rewrite LT_Lnotab.oget_oset_same.
        unfold addl. rewrite G8 by lia. reflexivity.
Qed.

Print Assumptions K3_bytes.
Print Assumptions K3_lines.
