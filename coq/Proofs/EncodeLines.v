(* K3, components 2 and 3: assembling the decoded operand values gives back the code string, and the
   line mapping that decode_instrs splits over the instructions is joined again without loss. *)
From Coq Require Import ZArith List Bool Lia ZifyBool.
From PCD Require Import Base.PyBase Base.Cfg Model.Flags Model.Args Model.Data Model.LineTable
  Model.Blocks Spec.Lnotab Model.ViewSer Proofs.C10_Statements Proofs.C02_Statements
  Proofs.C01_Statements.
From PCD Require Proofs.InstrCodec Proofs.DecodeView Proofs.LT_Lnotab Proofs.LT_310
  Proofs.LT_ExpandCollapse.
Import ListNotations. Open Scope Z_scope.
Ltac Zify.zify_post_hook ::= Z.to_euclidean_division_equations.

Ltac split_andb :=
  repeat match goal with
         | H : _ && _ = true |- _ => apply andb_true_iff in H; destruct H
         end.

(* ------------------------------------------------------------------ *)
(** * 1. The code string *)

Lemma code_ok_wf_units c : forall b n acc,
  units_ok c b n acc = true ->
  InstrCodec.bytes_ok b = true /\ InstrCodec.shape_ok c b n = true.
Proof.
  intros b. induction b as [|x|op byte r IH] using LT_ExpandCollapse.list_ind2; intros n acc H.
  - cbn [units_ok] in H. split; [reflexivity | exact H].
  - cbn [units_ok] in H. discriminate.
  - cbn [units_ok] in H. cbn [InstrCodec.bytes_ok forallb InstrCodec.shape_ok].
    change (forallb InstrCodec.byte_ok r) with (InstrCodec.bytes_ok r).
    destruct (op =? cfg_extended_arg c) eqn:E.
    + split_andb.
      match goal with U : units_ok _ _ _ _ = true |- _ => apply IH in U; destruct U as [U1 U2] end.
      rewrite U1, U2. unfold InstrCodec.byte_ok. split; lia.
    + split_andb.
      match goal with U : units_ok _ _ _ _ = true |- _ => apply IH in U; destruct U as [U1 U2] end.
      rewrite U1, U2. unfold InstrCodec.byte_ok. split; lia.
Qed.

Lemma code_ok_wf c b : code_ok c b = true -> InstrCodec.wf_units c b = true.
Proof.
  intros H. apply code_ok_wf_units in H as [H1 H2]. unfold InstrCodec.wf_units.
  rewrite H1, H2. reflexivity.
Qed.

Definition emit_p (c : cfg) (p : pinstr) : list Z :=
  emit_units c (p_op p) (p_arg p) (Z.to_nat (p_nargs p)).

Lemma emit_p_eq c ps :
  flat_map (fun p : pinstr =>
              match p with (opcode, arg, n_args, _, _) =>
                emit_units c opcode arg (Z.to_nat n_args) end) ps
  = flat_map (emit_p c) ps.
Proof.
  induction ps as [|[[[[op a] k] f] nx] r IH]; [reflexivity|].
  cbn [flat_map]. rewrite IH. reflexivity.
Qed.

Lemma assemble_bytes {C} c : forall ps (instrs : list (instr_ C)) o lm,
  Forall (fun p => zmem (p_op p) (cfg_opcodes c) = true) ps ->
  Forall2 (fun (i : instr_ C) (p : pinstr) =>
             i_name i = p_op p /\ n_units (i_nargs i) (p_arg p) = p_nargs p) instrs ps ->
  exists lm', assemble c instrs (map p_arg ps) o lm = OK (flat_map (emit_p c) ps, lm').
Proof.
  induction ps as [|p ps IH]; intros instrs o lm Hop HF.
  - inversion HF; subst. exists lm. reflexivity.
  - inversion HF as [|i p' instrs' ps' [Hn Hu] HF']; subst.
    inversion Hop as [|p' ps' Hz Hop']; subst.
    cbn [map assemble]. rewrite Hn, Hz. cbn [negb]. rewrite Hu.
    match goal with
    | |- exists lm', match assemble c _ _ ?o' ?l' with _ => _ end = _ =>
        destruct (IH instrs' o' l' Hop' HF') as [lm' E]; rewrite E
    end.
    exists lm'. reflexivity.
Qed.

Theorem K3_bytes : S_K3_bytes.
Proof.
  intros C c b ps instrs lm0 Hc Hp Hop HF.
  destruct (InstrCodec.emit_parse_bytes c b ps (code_ok_wf c b Hc) Hp) as [E _].
  rewrite emit_p_eq in E.
  destruct (assemble_bytes c ps instrs 0 lm0 Hop HF) as [lm H].
  exists lm. rewrite H, E. reflexivity.
Qed.
