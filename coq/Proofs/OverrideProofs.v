(* C09: decoded data carries no redundant override information.
   The run of bytes_to_blocks, projected on each of its four operand tables (names, varnames,
   cellvars, constants), is TablesReplay.found_all on that table's operand indices followed by
   additional_args (C09_projection, from IterProofs.b2b_proj).  The characterisations of
   TablesReplay then hold for decoded data:
     - C09_overrides_only_when_out_of_place   (overrides_rank)
     - C09_additional_exactly_unreferenced     (adds_exact, adds_replay_indices)
     - C09_canonical_no_override               (canonical_no_override)
     - C09_every_override_is_needed            (override_necessary, strip_differs)             *)
From Coq Require Import ZArith List Bool Lia ZifyBool Sorted.
From PCD Require Import Base.PyBase Base.Cfg Model.Flags Model.Args Model.Data Model.Consts
  Model.LineTable Model.Blocks Model.CodeData Spec.Lnotab Spec.Dis Model.ViewSer
  Proofs.C02_Statements Proofs.C11_Statements Proofs.C01_Statements Proofs.C14_Statements.
From PCD Require Proofs.TablesReplay Proofs.EncodeValues Proofs.ConstsProofs Proofs.IterProofs.
Import ListNotations. Open Scope Z_scope.
Ltac Zify.zify_post_hook ::= Z.to_euclidean_division_equations.

Module TR := TablesReplay.
Module EV := EncodeValues.
Module IP := IterProofs.

Notation kr := ConstsProofs.key_eqb_refl.
Notation ks_ := ConstsProofs.key_eqb_sym_eq.
Notation kt := ConstsProofs.key_eqb_trans.

(* ------------------------------------------------------------------ *)
(** * 1. The projection *)

(* the constants table is looked up once for the docstring before the first instruction: that use
   of index 0 comes first and its entry (always without override) is not part of any operand *)
Definition doc_use (bt : option function) : list Z := if has_docstring bt then [0] else [].
Definition doc_entry {C} (bt : option function) (ks : list C) : list (C * option Z) :=
  if has_docstring bt then match ks with k0 :: _ => [(k0, None)] | [] => [] end else [].

Theorem C09_projection :
  forall c b lm names varnames freevars cellvars (ks : list const) bt a blocks addl lm' ps,
  bytes_to_blocks key_eqb c b lm names varnames freevars cellvars ks bt a = OK (blocks, addl, lm') ->
  parse_bytes c b 0 0 0 = OK ps ->
  cfg_ops_wf c = true -> code_ok c b = true ->
  let args := map i_arg (concat blocks) in
  (exists st,
     TR.found_all str_eqb (toargs_init names 0) (uses_of (cfg_hasname c) (fun _ => true) ps)
       = OK (names_in args, st) /\
     additional_args str_eqb st = OK (names_in addl)) /\
  (exists st,
     TR.found_all str_eqb (toargs_init varnames (args_len a))
       (uses_of (cfg_haslocal c) (fun _ => true) ps) = OK (varnames_in args, st) /\
     additional_args str_eqb st = OK (varnames_in addl)) /\
  (exists st,
     TR.found_all str_eqb (toargs_init cellvars 0)
       (uses_of (cfg_hasfree c) (fun x => x <? zlen cellvars) ps) = OK (cellvars_in args, st) /\
     additional_args str_eqb st = OK (cellvars_in addl)) /\
  (exists st,
     TR.found_all key_eqb (toargs_init ks 0)
       (doc_use bt ++ uses_of (cfg_hasconst c) (fun _ => true) ps)
       = OK (doc_entry bt ks ++ consts_in args, st) /\
     additional_args key_eqb st = OK (consts_in addl)) /\
  addl = arg_of_additional AName (names_in addl) ++ arg_of_additional AVarname (varnames_in addl)
         ++ arg_of_additional ACellvar (cellvars_in addl) ++ arg_of_additional AConst (consts_in addl).
Proof.
  intros c b lm names varnames freevars cellvars ks bt a blocks addl lm' ps H Ep W _.
  exact (IP.b2b_proj key_eqb c W _ _ _ _ _ _ _ _ _ _ _ _ _ H Ep).
Qed.

(* ------------------------------------------------------------------ *)
(** * 2. One table of decoded data *)

(* [uses] are the (value, override) pairs of the operands that index [tbl] (in instruction order),
   [adds] those of the additional args of that kind; [idxs] the operand indices in the code string;
   the first [p] entries of the table count as already found (parameters in co_varnames) *)
Record decoded_table {T} (keq : T -> T -> bool) (tbl : list T) (p : Z) (idxs : list Z)
  (uses adds : list (T * option Z)) : Prop := {
  dt_run : exists st, TR.found_all keq (toargs_init tbl p) idxs = OK (uses, st) /\
                      additional_args keq st = OK adds;
  dt_range : Forall (fun i => 0 <= i < zlen tbl) idxs
}.

Lemma run_decoded {T} (keq : T -> T -> bool) tbl p idxs uses adds :
  IP.table_run keq tbl p idxs uses adds -> Forall (fun i => 0 <= i) idxs ->
  decoded_table keq tbl p idxs uses adds.
Proof.
  intros (st & Hf & Ha) Hnn. constructor; [exists st; split; assumption|].
  exact (IP.found_all_in_range keq tbl idxs (toargs_init tbl p) uses st eq_refl Hnn Hf).
Qed.

Theorem C09_tables :
  forall c b lm names varnames freevars cellvars (ks : list const) bt a blocks addl lm' ps,
  bytes_to_blocks key_eqb c b lm names varnames freevars cellvars ks bt a = OK (blocks, addl, lm') ->
  parse_bytes c b 0 0 0 = OK ps ->
  cfg_ops_wf c = true -> code_ok c b = true ->
  let args := map i_arg (concat blocks) in
  decoded_table str_eqb names 0 (uses_of (cfg_hasname c) (fun _ => true) ps)
                (names_in args) (names_in addl) /\
  decoded_table str_eqb varnames (args_len a) (uses_of (cfg_haslocal c) (fun _ => true) ps)
                (varnames_in args) (varnames_in addl) /\
  decoded_table str_eqb cellvars 0 (uses_of (cfg_hasfree c) (fun x => x <? zlen cellvars) ps)
                (cellvars_in args) (cellvars_in addl) /\
  decoded_table key_eqb ks 0 (doc_use bt ++ uses_of (cfg_hasconst c) (fun _ => true) ps)
                (doc_entry bt ks ++ consts_in args) (consts_in addl).
Proof.
  intros c b lm names varnames freevars cellvars ks bt a blocks addl lm' ps H Ep W U.
  destruct (IP.b2b_proj key_eqb c W _ _ _ _ _ _ _ _ _ _ _ _ _ H Ep) as (R1 & R2 & R3 & R4 & _).
  pose proof (IP.parse_nonneg c b ps U Ep) as Hnn. cbv zeta.
  split; [apply run_decoded; [exact R1|now apply IP.uses_of_nonneg]|].
  split; [apply run_decoded; [exact R2|now apply IP.uses_of_nonneg]|].
  split; [apply run_decoded; [exact R3|now apply IP.uses_of_nonneg]|].
  apply run_decoded; [exact R4|]. apply Forall_app. split; [|now apply IP.uses_of_nonneg].
  unfold doc_use. destruct (has_docstring bt); repeat constructor. lia.
Qed.

(* ------------------------------------------------------------------ *)
(** * 3. The four characterisations, for any one decoded table *)

Lemma Forall2_imp {A B} (R1 R2 : A -> B -> Prop) l1 l2 :
  (forall a b, R1 a b -> R2 a b) -> Forall2 R1 l1 l2 -> Forall2 R2 l1 l2.
Proof. intros H. induction 1; constructor; auto. Qed.

(* entry [x] stands for table index [i]; it carries an override exactly when the rank of first
   use of [i] in [order] differs from [i] *)
Definition out_of_place {T} (tbl : list T) (order : list Z) (i : Z) (x : T * option Z) : Prop :=
  py_index tbl i = Some (fst x) /\
  (snd x = None \/ snd x = Some i) /\
  (snd x = Some i <-> TR.rank_of order i <> Some i) /\
  (snd x = None <-> TR.rank_of order i = Some i).

Definition overrides_by_rank {T} (tbl : list T) (p : Z) (idxs : list Z)
  (uses adds : list (T * option Z)) : Prop :=
  Forall2 (out_of_place tbl (TR.first_order p idxs)) idxs uses /\
  Forall2 (out_of_place tbl (TR.first_order p idxs ++ TR.unused tbl p idxs))
          (TR.unused tbl p idxs) adds.

(* the additional args stand for exactly the entries no operand references (and that are not
   preset), in increasing index order; the encoder assigns them exactly those indices *)
Definition additional_unreferenced {T} (keq : T -> T -> bool) (tbl : list T) (p : Z) (idxs : list Z)
  (uses adds : list (T * option Z)) : Prop :=
  Forall2 (fun i x => py_index tbl i = Some (fst x)) (TR.unused tbl p idxs) adds /\
  StronglySorted Z.lt (TR.unused tbl p idxs) /\
  (forall i, In i (TR.unused tbl p idxs) <-> 0 <= i < zlen tbl /\ ~ 0 <= i < p /\ ~ In i idxs) /\
  (TR.preset_unique keq tbl p ->
   forall st0 st1 st2 is1 is2,
     TR.set_all keq (take p tbl) 0 fromargs_empty = OK st0 ->
     TR.add_all keq st0 uses = OK (is1, st1) ->
     TR.add_all keq st1 adds = OK (is2, st2) ->
     is1 = idxs /\ is2 = TR.unused tbl p idxs).

Definition no_override_at_all {T} (uses adds : list (T * option Z)) : Prop :=
  Forall (fun x => snd x = None) uses /\ adds = [].

(* removing the override [Some i] from every entry that carries it: the encoder then fails or
   computes other operand indices; more precisely, at the first entry that carries it the
   encoder without the override fails or returns an index other than [i] *)
Definition override_needed {T} (keq : T -> T -> bool) (tbl : list T) (p : Z) (idxs : list Z)
  (uses adds : list (T * option Z)) : Prop :=
  forall st0, TR.set_all keq (take p tbl) 0 fromargs_empty = OK st0 ->
  forall a i, In (a, Some i) (uses ++ adds) ->
    (forall is' st', TR.add_all keq st0 (TR.strip i (uses ++ adds)) = OK (is', st') ->
                     is' <> idxs ++ TR.unused tbl p idxs) /\
    (forall u1 a' u2, uses ++ adds = u1 ++ (a', Some i) :: u2 -> (forall b, ~ In (b, Some i) u1) ->
       exists l1 fs1, TR.add_all keq st0 u1 = OK (l1, fs1) /\
         forall j fs', fa_add keq fs1 a' None = OK (j, fs') -> j <> i).

Section OneTable.
  Context {T : Type} (keq : T -> T -> bool).
  Hypothesis keq_refl : forall x, keq x x = true.
  Hypothesis keq_sym : forall x y, keq x y = keq y x.
  Hypothesis keq_trans : forall x y z, keq x y = true -> keq y z = true -> keq x z = true.
  Variables (tbl : list T) (p : Z) (idxs : list Z) (uses adds : list (T * option Z)).
  Hypothesis HT : decoded_table keq tbl p idxs uses adds.
  Hypothesis Hp : 0 <= p <= zlen tbl.

  Lemma ov_spec_out_of_place order i x :
    py_index tbl i = Some (fst x) /\ snd x = TR.ov_spec order i -> out_of_place tbl order i x.
  Proof.
    intros [Hv Hx]. unfold out_of_place. rewrite Hx. split; [exact Hv|].
    split; [apply TR.ov_spec_cases|]. split; [apply TR.ov_spec_Some|apply TR.ov_spec_None].
  Qed.

  Lemma t_overrides : TR.dup_free keq tbl -> overrides_by_rank tbl p idxs uses adds.
  Proof.
    intros Hdf. destruct HT as [(st & Hf & Ha) HF].
    destruct (TR.overrides_rank keq keq_refl keq_sym keq_trans tbl p idxs uses st adds Hp Hdf HF Hf Ha)
      as [H1 H2].
    split; (eapply Forall2_imp; [|eassumption]); intros i x; apply ov_spec_out_of_place.
  Qed.

  Lemma t_additional : additional_unreferenced keq tbl p idxs uses adds.
  Proof.
    destruct HT as [(st & Hf & Ha) HF].
    destruct (TR.adds_exact keq keq_refl keq_sym keq_trans tbl p idxs uses st adds Hf Ha) as [H1 _].
    split; [|split; [apply TR.unused_sorted|split; [intros i; apply TR.in_unused|]]].
    - eapply Forall2_imp; [|exact H1]. intros i x [Hv _]. exact Hv.
    - intros Hu st0 st1 st2 is1 is2 Hs A1 A2.
      destruct (TR.adds_replay_indices keq keq_refl keq_sym keq_trans tbl p idxs uses st adds
                  st0 st1 st2 is1 is2 Hp Hu HF Hf Ha Hs A1 A2) as (E1 & E2 & _).
      split; assumption.
  Qed.

  Lemma t_canonical : TR.dup_free keq tbl -> TR.first_order p idxs = TR.zrange (length tbl) ->
    no_override_at_all uses adds.
  Proof.
    intros Hdf Hfo. destruct HT as [(st & Hf & Ha) HF].
    exact (TR.canonical_no_override keq keq_refl keq_sym keq_trans tbl p idxs uses st adds
             Hp Hdf HF Hfo Hf Ha).
  Qed.

  Lemma t_needed : TR.preset_unique keq tbl p -> override_needed keq tbl p idxs uses adds.
  Proof.
    intros Hu st0 Hs a i Hin. destruct HT as [(st & Hf & Ha) HF]. split.
    - exact (TR.strip_differs keq keq_refl keq_sym keq_trans tbl p idxs uses st adds st0 a i
               Hp Hu HF Hf Ha Hs Hin).
    - intros u1 a' u2 Hus Hno.
      exact (TR.override_necessary keq keq_refl keq_sym keq_trans tbl p idxs uses st adds st0 u1 a' i u2
               Hp Hu HF Hf Ha Hs Hus Hno).
  Qed.
End OneTable.

(* ------------------------------------------------------------------ *)
(** * 4. Decoded data: the four tables *)

Lemma p0_range {T} (tbl : list T) : 0 <= 0 <= zlen tbl.
Proof. unfold zlen. lia. Qed.

Section Decoded.
  Variables (c : cfg) (b : list Z) (lm : linemap) (names varnames freevars cellvars : list str)
            (ks : list const) (bt : option function) (a : args)
            (blocks : list (list (instr_ const))) (addl : list (arg_ const)) (lm' : linemap)
            (ps : list pinstr).
  Hypothesis Hdec : bytes_to_blocks key_eqb c b lm names varnames freevars cellvars ks bt a
                    = OK (blocks, addl, lm').
  Hypothesis Hparse : parse_bytes c b 0 0 0 = OK ps.
  Hypothesis Hops : cfg_ops_wf c = true.
  Hypothesis Hcode : code_ok c b = true.
  (* the parameters are a prefix of co_varnames *)
  Hypothesis Hparams : args_len a <= zlen varnames.

  Let args := map i_arg (concat blocks).
  Let n_idxs := uses_of (cfg_hasname c) (fun _ => true) ps.
  Let v_idxs := uses_of (cfg_haslocal c) (fun _ => true) ps.
  Let c_idxs := uses_of (cfg_hasfree c) (fun x => x <? zlen cellvars) ps.
  Let k_idxs := doc_use bt ++ uses_of (cfg_hasconst c) (fun _ => true) ps.

  Lemma params_range : 0 <= args_len a <= zlen varnames.
  Proof. split; [unfold args_len, zlen; lia|exact Hparams]. Qed.

  (* (i) on a table without duplicate keys an operand / additional arg carries an override iff
     the rank of first use of its index differs from the index *)
  Theorem C09_overrides_only_when_out_of_place :
    (TR.dup_free str_eqb names ->
       overrides_by_rank names 0 n_idxs (names_in args) (names_in addl)) /\
    (TR.dup_free str_eqb varnames ->
       overrides_by_rank varnames (args_len a) v_idxs (varnames_in args) (varnames_in addl)) /\
    (TR.dup_free str_eqb cellvars ->
       overrides_by_rank cellvars 0 c_idxs (cellvars_in args) (cellvars_in addl)) /\
    (TR.dup_free key_eqb ks ->
       overrides_by_rank ks 0 k_idxs (doc_entry bt ks ++ consts_in args) (consts_in addl)).
  Proof.
    destruct (C09_tables _ _ _ _ _ _ _ _ _ _ _ _ _ _ Hdec Hparse Hops Hcode) as (T1 & T2 & T3 & T4).
    split; [|split; [|split]].
    - apply (t_overrides str_eqb EV.str_eqb_refl EV.str_eqb_sym EV.str_eqb_trans _ _ _ _ _ T1 (p0_range _)).
    - apply (t_overrides str_eqb EV.str_eqb_refl EV.str_eqb_sym EV.str_eqb_trans _ _ _ _ _ T2 params_range).
    - apply (t_overrides str_eqb EV.str_eqb_refl EV.str_eqb_sym EV.str_eqb_trans _ _ _ _ _ T3 (p0_range _)).
    - apply (t_overrides key_eqb kr ks_ kt _ _ _ _ _ T4 (p0_range _)).
  Qed.

  (* (ii) the additional args are exactly the unreferenced entries, in index order *)
  Theorem C09_additional_exactly_unreferenced :
    additional_unreferenced str_eqb names 0 n_idxs (names_in args) (names_in addl) /\
    additional_unreferenced str_eqb varnames (args_len a) v_idxs (varnames_in args) (varnames_in addl) /\
    additional_unreferenced str_eqb cellvars 0 c_idxs (cellvars_in args) (cellvars_in addl) /\
    additional_unreferenced key_eqb ks 0 k_idxs (doc_entry bt ks ++ consts_in args) (consts_in addl).
  Proof.
    destruct (C09_tables _ _ _ _ _ _ _ _ _ _ _ _ _ _ Hdec Hparse Hops Hcode) as (T1 & T2 & T3 & T4).
    split; [|split; [|split]].
    - apply (t_additional str_eqb EV.str_eqb_refl EV.str_eqb_sym EV.str_eqb_trans _ _ _ _ _ T1 (p0_range _)).
    - apply (t_additional str_eqb EV.str_eqb_refl EV.str_eqb_sym EV.str_eqb_trans _ _ _ _ _ T2 params_range).
    - apply (t_additional str_eqb EV.str_eqb_refl EV.str_eqb_sym EV.str_eqb_trans _ _ _ _ _ T3 (p0_range _)).
    - apply (t_additional key_eqb kr ks_ kt _ _ _ _ _ T4 (p0_range _)).
  Qed.

  (* (iii) a duplicate-free table whose entries are first used in the order 0, 1, 2, ...: no
     override anywhere, no additional arg *)
  Theorem C09_canonical_no_override :
    (TR.dup_free str_eqb names -> TR.first_order 0 n_idxs = TR.zrange (length names) ->
       no_override_at_all (names_in args) (names_in addl)) /\
    (TR.dup_free str_eqb varnames ->
       TR.first_order (args_len a) v_idxs = TR.zrange (length varnames) ->
       no_override_at_all (varnames_in args) (varnames_in addl)) /\
    (TR.dup_free str_eqb cellvars -> TR.first_order 0 c_idxs = TR.zrange (length cellvars) ->
       no_override_at_all (cellvars_in args) (cellvars_in addl)) /\
    (TR.dup_free key_eqb ks -> TR.first_order 0 k_idxs = TR.zrange (length ks) ->
       no_override_at_all (doc_entry bt ks ++ consts_in args) (consts_in addl)).
  Proof.
    destruct (C09_tables _ _ _ _ _ _ _ _ _ _ _ _ _ _ Hdec Hparse Hops Hcode) as (T1 & T2 & T3 & T4).
    split; [|split; [|split]].
    - apply (t_canonical str_eqb EV.str_eqb_refl EV.str_eqb_sym EV.str_eqb_trans _ _ _ _ _ T1 (p0_range _)).
    - apply (t_canonical str_eqb EV.str_eqb_refl EV.str_eqb_sym EV.str_eqb_trans _ _ _ _ _ T2 params_range).
    - apply (t_canonical str_eqb EV.str_eqb_refl EV.str_eqb_sym EV.str_eqb_trans _ _ _ _ _ T3 (p0_range _)).
    - apply (t_canonical key_eqb kr ks_ kt _ _ _ _ _ T4 (p0_range _)).
  Qed.

  (* (iv) ANY table, duplicate keys included: every override that occurs is needed.  For varnames
     the parameter names must occur nowhere else in co_varnames (what tables_wf says). *)
  Theorem C09_every_override_is_needed :
    override_needed str_eqb names 0 n_idxs (names_in args) (names_in addl) /\
    (TR.preset_unique str_eqb varnames (args_len a) ->
       override_needed str_eqb varnames (args_len a) v_idxs (varnames_in args) (varnames_in addl)) /\
    override_needed str_eqb cellvars 0 c_idxs (cellvars_in args) (cellvars_in addl) /\
    override_needed key_eqb ks 0 k_idxs (doc_entry bt ks ++ consts_in args) (consts_in addl).
  Proof.
    destruct (C09_tables _ _ _ _ _ _ _ _ _ _ _ _ _ _ Hdec Hparse Hops Hcode) as (T1 & T2 & T3 & T4).
    split; [|split; [|split]].
    - apply (t_needed str_eqb EV.str_eqb_refl EV.str_eqb_sym EV.str_eqb_trans _ _ _ _ _ T1 (p0_range _)).
      apply EV.preset_unique_0.
    - apply (t_needed str_eqb EV.str_eqb_refl EV.str_eqb_sym EV.str_eqb_trans _ _ _ _ _ T2 params_range).
    - apply (t_needed str_eqb EV.str_eqb_refl EV.str_eqb_sym EV.str_eqb_trans _ _ _ _ _ T3 (p0_range _)).
      apply EV.preset_unique_0.
    - apply (t_needed key_eqb kr ks_ kt _ _ _ _ _ T4 (p0_range _)). apply EV.preset_unique_0.
  Qed.
End Decoded.

(* the hypotheses on co_varnames follow from tables_wf (what decode_code's own args satisfy) *)
Lemma tables_wf_params varnames freevars a : tables_wf varnames freevars a = true ->
  args_len a <= zlen varnames /\ TR.preset_unique str_eqb varnames (args_len a).
Proof. intros H. destruct (EV.varnames_preset _ _ _ H) as (Hp & Hu & _). split; [lia|exact Hu]. Qed.

(* ------------------------------------------------------------------ *)
(** * 5. At the level of decode_code *)

(* the four tables of the data decode_code builds; [a] is the Args value built from the code
   object's header (fn_args of the block type when it is a function, empty otherwise).  Every
   lemma of section OneTable (t_overrides, t_additional, t_canonical, t_needed) applies to each. *)
Theorem C09_decoded_code : forall c code ks d ps,
  decode_code c code ks = OK d ->
  parse_bytes c (co_code code) 0 0 0 = OK ps ->
  cfg_ops_wf c = true -> code_ok c (co_code code) = true ->
  exists a,
  let args := map i_arg (concat (cd_blocks d)) in
  let addl := cd_addargs d in
  match cd_type d with Some f => fn_args f = a | None => args_len a = 0 end /\
  decoded_table str_eqb (co_names code) 0 (uses_of (cfg_hasname c) (fun _ => true) ps)
                (names_in args) (names_in addl) /\
  decoded_table str_eqb (co_varnames code) (args_len a) (uses_of (cfg_haslocal c) (fun _ => true) ps)
                (varnames_in args) (varnames_in addl) /\
  decoded_table str_eqb (co_cellvars code) 0
                (uses_of (cfg_hasfree c) (fun x => x <? zlen (co_cellvars code)) ps)
                (cellvars_in args) (cellvars_in addl) /\
  decoded_table key_eqb ks 0 (doc_use (cd_type d) ++ uses_of (cfg_hasconst c) (fun _ => true) ps)
                (doc_entry (cd_type d) ks ++ consts_in args) (consts_in addl) /\
  addl = arg_of_additional AName (names_in addl) ++ arg_of_additional AVarname (varnames_in addl)
         ++ arg_of_additional ACellvar (cellvars_in addl) ++ arg_of_additional AConst (consts_in addl).
Proof.
  intros c code ks d ps Hd Ep W U.
  destruct (IP.decode_code_b2b _ _ _ _ Hd) as (lm & a & lm' & Hb & _ & Ha).
  exists a. cbv zeta. split; [exact Ha|].
  destruct (C09_tables _ _ _ _ _ _ _ _ _ _ _ _ _ _ Hb Ep W U) as (T1 & T2 & T3 & T4).
  repeat (split; [assumption|]).
  exact (proj2 (proj2 (proj2 (proj2 (C09_projection _ _ _ _ _ _ _ _ _ _ _ _ _ _ Hb Ep W U))))).
Qed.

Check C09_projection.
Check C09_tables.
Check C09_overrides_only_when_out_of_place.
Check C09_additional_exactly_unreferenced.
Check C09_canonical_no_override.
Check C09_every_override_is_needed.
Check C09_decoded_code.
Print Assumptions C09_projection.
Print Assumptions C09_tables.
Print Assumptions C09_overrides_only_when_out_of_place.
Print Assumptions C09_additional_exactly_unreferenced.
Print Assumptions C09_canonical_no_override.
Print Assumptions C09_every_override_is_needed.
Print Assumptions C09_decoded_code.

(* ------------------------------------------------------------------ *)
(** * 6. A checked instance (3.9 configuration): the theorems are not vacuous

    LOAD_CONST 1; LOAD_CONST 0; LOAD_CONST 1; RETURN_VALUE over constants (None, 1, <code>):
    first-use order is 1, 0 - both entries are out of place and carry their index on every use;
    entry 2 (a nested code object no instruction references) is the only additional arg and sits in
    place (rank 2), so it carries no override; blocks_to_constants gives the table back. *)
From PCD Require Gen.Cfg39.
Module Example.
  Definition c := PCD.Gen.Cfg39.cfg.
  Definition b := [100; 1; 100; 0; 100; 1; 83; 0].
  Definition dummy : code_data := mkCD [] [] 1 [] 0 None [] false false None [].
  Definition ks := [KInner INone; KInner (IInt 1); KCode dummy].
  Definition lm : linemap :=
    {| lm_lines := [(0, Some 1); (2, Some 1); (4, Some 2); (6, Some 2)]; lm_adds := [] |}.

  Example premises : (cfg_ops_wf c, code_ok c b) = (true, true).
  Proof. vm_compute. reflexivity. Qed.

  Example instance :
    match bytes_to_blocks key_eqb c b lm [] [] [] [] ks None empty_args with
    | OK (blocks, addl, _) =>
        consts_in (map i_arg (concat blocks))
          = [(KInner (IInt 1), Some 1); (KInner INone, Some 0); (KInner (IInt 1), Some 1)] /\
        addl = [AConst (KCode dummy) None] /\
        TR.first_order 0 [1; 0; 1] = [1; 0] /\ TR.unused ks 0 [1; 0; 1] = [2] /\
        blocks_to_constants key_eqb is_str_const (KInner INone) (fun s => KInner (IStr s))
                            blocks addl None = OK ks
    | Err _ => False
    end.
  Proof. vm_compute. repeat split; reflexivity. Qed.
End Example.
