(* C16: what the command prints, composed from the API theorems.  The printed value is cli_data
   (normalized by default); its --json section loads back to that value (C07 with C06's nz_wfj). *)
From PCD Require Import Base.PyBase Model.Data Model.Consts Model.CodeData Model.Json Model.Cli
  Proofs.C07_Statements Proofs.C06_Statements Proofs.JsonProofs Proofs.NormalizeProofs.

Theorem cli_json_loads_back : forall (no_normalize : bool) d,
  wfj_cd d = true ->
  exists d', code_data_from_json (code_data_to_json (cli_data normalize no_normalize d)) = OK d'
             /\ cd_eqb (cli_data normalize no_normalize d) d' = true.
Proof.
  intros nn d H. unfold cli_data. destruct nn.
  - apply json_roundtrip. exact H.
  - apply json_roundtrip. apply nz_wfj. exact H.
Qed.
Print Assumptions cli_json_loads_back.
