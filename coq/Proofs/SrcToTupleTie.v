(* Tie of FromArgs.to_tuple (Gen/SrcTables.v, fa_to_tuple: the key-set test against range(len) and the values of the
   items sorted by key) to Model/Blocks.fa_to_tuple (collect: the values at 0, 1, ..., len-1, ValueError when one is
   missing), for every table whose keys are distinct - which holds of every table the library builds (oset keeps keys
   distinct; lemma below). *)
From PCD Require Import Base.PyBase Base.PyImp Base.Cfg Model.Flags Model.Args Model.Data Model.LineTable Model.Blocks.
From PCD Require Gen.SrcTables.
From Coq Require Import Lia Permutation Sorting.Sorted ZifyBool.

Section S.
  Context {T : Type}.
  Notation kv := (Z * T)%type.
  Definition kle (a b : kv) : Prop := fst a <= fst b.

  (* insertion sort: a permutation, sorted by key *)
  Lemma insert_perm (x : kv) l : Permutation (insert_by_key x l) (x :: l).
  Proof.
    induction l as [|y r IH]; cbn [insert_by_key]; [reflexivity|].
    destruct (fst x <=? fst y); [reflexivity|].
    rewrite IH. apply perm_swap.
  Qed.
  Lemma isort_perm (l : list kv) : Permutation (isort_by_key l) l.
  Proof. induction l as [|x r IH]; cbn [isort_by_key]; [reflexivity|]. rewrite insert_perm. constructor. exact IH. Qed.

  Lemma insert_sorted (x : kv) l : StronglySorted kle l -> StronglySorted kle (insert_by_key x l).
  Proof.
    induction l as [|y r IH]; intros H; cbn [insert_by_key].
    - constructor; constructor.
    - inversion H as [|? ? Hr Hall]; subst.
      destruct (fst x <=? fst y) eqn:E.
      + constructor; [exact H|]. constructor; [unfold kle; lia|].
        eapply Forall_impl; [|exact Hall]. intros a Ha. unfold kle in *. lia.
      + constructor; [apply IH; exact Hr|].
        eapply Permutation_Forall; [symmetry; apply insert_perm|]. constructor; [unfold kle; lia | exact Hall].
  Qed.
  Lemma isort_sorted (l : list kv) : StronglySorted kle (isort_by_key l).
  Proof. induction l as [|x r IH]; cbn [isort_by_key]; [constructor | apply insert_sorted; exact IH]. Qed.

  (* a sorted permutation is unique (integers, <=) *)
  Lemma sorted_perm_unique : forall l1 l2 : list Z,
    StronglySorted Z.le l1 -> StronglySorted Z.le l2 -> Permutation l1 l2 -> l1 = l2.
  Proof.
    induction l1 as [|x1 r1 IH]; intros l2 S1 S2 P.
    - apply Permutation_nil in P. subst; reflexivity.
    - destruct l2 as [|x2 r2]; [symmetry in P; apply Permutation_nil in P; discriminate|].
      inversion S1 as [|? ? S1r A1]; inversion S2 as [|? ? S2r A2]; subst.
      assert (x1 = x2).
      { assert (I1 : In x1 (x2 :: r2)) by (eapply Permutation_in; [exact P | left; reflexivity]).
        assert (I2 : In x2 (x1 :: r1)) by (eapply Permutation_in; [symmetry; exact P | left; reflexivity]).
        destruct I1 as [->|I1]; [reflexivity|]. destruct I2 as [->|I2]; [reflexivity|].
        rewrite Forall_forall in A1, A2. specialize (A1 _ I2). specialize (A2 _ I1). lia. }
      subst x2. f_equal. apply IH; [exact S1r | exact S2r | eapply Permutation_cons_inv; exact P].
  Qed.

  Lemma sorted_keys (l : list kv) : StronglySorted kle l -> StronglySorted Z.le (map fst l).
  Proof.
    induction 1 as [|a r Hr IH Hall]; cbn [map]; constructor; [exact IH|].
    rewrite Forall_forall in *. intros k Hk. apply in_map_iff in Hk as [b [<- Hb]]. exact (Hall _ Hb).
  Qed.

  (* range(a, a+n) *)
  Lemma zrange_fuel_sorted n a : StronglySorted Z.le (zrange_fuel n a).
  Proof.
    revert a; induction n as [|n IH]; intros a; cbn [zrange_fuel]; constructor; [apply IH|].
    assert (G : forall m b, a <= b -> Forall (Z.le a) (zrange_fuel m b)).
    { induction m as [|m IHm]; intros b Hb; cbn [zrange_fuel]; constructor; [exact Hb | apply IHm; lia]. }
    apply G; lia.
  Qed.
  Lemma zrange_fuel_in n a k : In k (zrange_fuel n a) <-> a <= k < a + Z.of_nat n.
  Proof.
    revert a; induction n as [|n IH]; intros a; cbn [zrange_fuel In]; [lia|]. rewrite IH. lia.
  Qed.
  Lemma zrange_fuel_nodup n a : NoDup (zrange_fuel n a).
  Proof.
    revert a; induction n as [|n IH]; intros a; cbn [zrange_fuel]; constructor; [|apply IH].
    rewrite zrange_fuel_in. lia.
  Qed.
  Lemma zrange_fuel_length n a : length (zrange_fuel n a) = n.
  Proof. revert a; induction n as [|n IH]; intros a; cbn [zrange_fuel length]; [reflexivity | rewrite IH; reflexivity]. Qed.

  (* lookups *)
  Lemma oget_in (d : odict T) k v : NoDup (okeys d) -> In (k, v) d -> oget d k = Some v.
  Proof.
    induction d as [|[k0 v0] r IH]; intros N I; [destruct I|]. cbn [oget]. cbn [okeys map fst] in N.
    inversion N as [|? ? Hn Nr]; subst. destruct I as [E|I].
    - injection E as -> ->. rewrite Z.eqb_refl. reflexivity.
    - destruct (k0 =? k) eqn:E; [|apply IH; assumption].
      exfalso. apply Hn. assert (k0 = k) by lia. subst. change (In (fst (k, v)) (map fst r)). apply in_map. exact I.
  Qed.
  Lemma oget_some_in (d : odict T) k : existsb (Z.eqb k) (okeys d) = true -> exists v, oget d k = Some v.
  Proof.
    unfold okeys. induction d as [|[k0 v0] r IH]; cbn [map existsb fst oget]; intros H; [discriminate|].
    destruct (k0 =? k) eqn:E; [eexists; reflexivity|].
    apply IH. rewrite Z.eqb_sym in E. rewrite E in H. exact H.
  Qed.
  Lemma oget_none_notin (d : odict T) k : existsb (Z.eqb k) (okeys d) = false -> oget d k = None.
  Proof.
    unfold okeys. induction d as [|[k0 v0] r IH]; cbn [map existsb fst oget]; intros H; [reflexivity|].
    rewrite Z.eqb_sym in H. destruct (k0 =? k); [discriminate | apply IH; exact H].
  Qed.
  Lemma existsb_in (k : Z) l : existsb (Z.eqb k) l = true <-> In k l.
  Proof. rewrite existsb_exists. split; [intros [x [I E]]; assert (k = x) by lia; subst; exact I | intros I; exists k; split; [exact I | lia]]. Qed.

  Variable keq : T -> T -> bool.

  (* collect reads the values at a, a+1, ... *)
  Lemma collect_none (d : odict T) : forall n a k, In k (zrange_fuel n a) -> oget d k = None -> collect d n a = None.
  Proof.
    induction n as [|n IH]; intros a k I E; [destruct I|]. cbn [zrange_fuel In] in I. cbn [collect].
    destruct I as [->|I]; [rewrite E; reflexivity|].
    destruct (oget d a); [|reflexivity]. rewrite (IH (a + 1) k I E). reflexivity.
  Qed.
  Lemma collect_some (d : odict T) : forall n a l, map (oget d) (zrange_fuel n a) = map Some l -> collect d n a = Some l.
  Proof.
    induction n as [|n IH]; intros a l E; cbn [zrange_fuel map] in E; cbn [collect].
    - destruct l; [reflexivity | discriminate].
    - destruct l as [|v l]; [discriminate|]. cbn [map] in E. injection E as E1 E2.
      rewrite E1. rewrite (IH (a + 1) l E2). reflexivity.
  Qed.

  Theorem fa_to_tuple_tie : forall st : fromargs T,
    NoDup (okeys (fa_items st)) ->
    PCD.Gen.SrcTables.fa_to_tuple st = fa_to_tuple st.
  Proof.
    intros [d idx] N. unfold PCD.Gen.SrcTables.fa_to_tuple, fa_to_tuple, keys_are_range. cbn [fa_items] in *.
    assert (Er : zrange 0 (zlen d) = zrange_fuel (length d) 0).
    { unfold zrange, zlen. f_equal. lia. }
    rewrite Er.
    destruct (forallb (fun k => existsb (Z.eqb k) (okeys d)) (zrange_fuel (length d) 0)) eqn:C1; cbn [andb negb].
    - (* every index below len is a key: then the keys are exactly those indices *)
      rewrite forallb_forall in C1.
      assert (Incl1 : incl (zrange_fuel (length d) 0) (okeys d)) by (intros k Hk; apply existsb_in; apply C1; exact Hk).
      assert (Incl2 : incl (okeys d) (zrange_fuel (length d) 0)).
      { apply NoDup_length_incl; [apply zrange_fuel_nodup | | exact Incl1].
        rewrite zrange_fuel_length. unfold okeys. rewrite map_length. lia. }
      assert (C2 : forallb (fun k => (0 <=? k) && (k <? zlen d)) (okeys d) = true).
      { apply forallb_forall. intros k Hk. apply Incl2 in Hk. apply zrange_fuel_in in Hk. unfold zlen. lia. }
      rewrite C2. cbn [negb].
      set (s := isort_by_key d).
      assert (Ps : Permutation s d) by apply isort_perm.
      assert (Ek : map fst s = zrange_fuel (length d) 0).
      { apply sorted_perm_unique; [apply sorted_keys; apply isort_sorted | apply zrange_fuel_sorted |].
        transitivity (okeys d); [unfold okeys; apply Permutation_map; exact Ps|].
        apply NoDup_Permutation; [exact N | apply zrange_fuel_nodup|]. intros k. split; [apply Incl2 | apply Incl1]. }
      rewrite (collect_some d (length d) 0 (map snd s)); [reflexivity|].
      rewrite <- Ek. rewrite !map_map. apply map_ext_in. intros [k v] Hkv. cbn [fst snd].
      apply oget_in; [exact N | eapply Permutation_in; [exact Ps | exact Hkv]].
    - (* some index below len is not a key *)
      assert (Hex : exists k, In k (zrange_fuel (length d) 0) /\ existsb (Z.eqb k) (okeys d) = false).
      { clear -C1. induction (zrange_fuel (length d) 0) as [|k r IH]; cbn [forallb] in C1; [discriminate|].
        destruct (existsb (Z.eqb k) (okeys d)) eqn:E; cbn [andb] in C1.
        - destruct (IH C1) as [k' [I E']]. exists k'. split; [right; exact I | exact E'].
        - exists k. split; [left; reflexivity | exact E]. }
      destruct Hex as [k [I E]].
      rewrite (collect_none d (length d) 0 k I (oget_none_notin d k E)). reflexivity.
  Qed.
End S.

(* every table the library builds has distinct keys: the empty table has, and oset keeps them distinct *)
Lemma oset_keys_nodup {V} (d : odict V) k v : NoDup (okeys d) -> NoDup (okeys (oset d k v)).
Proof.
  unfold okeys. induction d as [|[k0 v0] r IH]; intros N; cbn [oset map fst].
  - constructor; [intros [] | constructor].
  - inversion N as [|? ? Hn Nr]; subst. destruct (k0 =? k) eqn:E.
    + assert (k0 = k) by lia. subst. cbn [map fst]. constructor; assumption.
    + cbn [map fst]. constructor; [|apply IH; exact Nr].
      intros I. apply Hn. clear -I E. induction r as [|[k1 v1] r IH]; cbn [oset map fst In] in *.
      * destruct I as [I|[]]. lia.
      * destruct (k1 =? k) eqn:E1; cbn [map fst In] in I.
        -- destruct I as [I|I]; [lia | right; exact I].
        -- destruct I as [I|I]; [left; exact I | right; apply IH; exact I].
Qed.

Section Reach.
  Context {T : Type} (keq : T -> T -> bool).
  Definition distinct_keys (st : fromargs T) : Prop := NoDup (okeys (fa_items st)).
  Lemma empty_distinct : distinct_keys (@fromargs_empty T).
  Proof. constructor. Qed.
  Lemma setitem_distinct st i a st' : distinct_keys st -> fa_setitem keq st i a = OK st' -> distinct_keys st'.
  Proof.
    unfold distinct_keys, fa_setitem. intros N H.
    destruct (match oget (fa_items st) i with Some old => negb (keq old a) | None => false end); [discriminate|].
    injection H as <-. cbn [fa_items]. apply oset_keys_nodup. exact N.
  Qed.
  Lemma add_distinct st a ov i st' : distinct_keys st -> fa_add keq st a ov = OK (i, st') -> distinct_keys st'.
  Proof.
    unfold fa_add. intros N H. destruct ov as [j|].
    - destruct (fa_setitem keq st j a) as [st1|] eqn:E; [|discriminate]. injection H as _ <-. eapply setitem_distinct; eassumption.
    - destruct (key_lookup keq (fa_index st) a) as [j|].
      + injection H as _ <-. exact N.
      + destruct (fa_setitem keq st (zlen (fa_items st)) a) as [st1|] eqn:E; [|discriminate]. injection H as _ <-.
        eapply setitem_distinct; eassumption.
  Qed.
End Reach.
