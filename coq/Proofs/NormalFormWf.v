(* C05: the normal form of data decoded from a code object that satisfies view_wf is well-formed data
   (data_wf, the premise of the encoder-correctness theorem), once its constants are paired with their
   encodings.

   The statement S_C05_normal_form_wf of C03c_Statements.v is false as written: view_wf does not say
   that the opcodes of the code string have a name in dis.opmap (cfg_opcodes), which instr_fits - and
   the encoder, which looks the name up - requires.  A counterexample with the real 3.8 tables is at
   the end of this file.  The theorem proved here carries the additional boolean premise [ops_known]
   (the conjunct "forallb (fun p => zmem (p_op p) (cfg_opcodes c)) ps" of rt_wf). *)
From Coq Require Import ZArith List Bool Lia ZifyBool Sorted.
From PCD Require Import Base.PyBase Base.Cfg Model.Flags Model.Args Model.Data Model.Consts
  Model.LineTable Model.Blocks Model.CodeData Spec.Lnotab Spec.Dis Model.ViewSer
  Proofs.C02_Statements Proofs.C11_Statements Proofs.C01_Statements Proofs.C03_Statements
  Proofs.C03b_Statements Proofs.C03c_Statements.
From PCD Require Proofs.BlocksPartition Proofs.DecodeView Proofs.InstrCodec Proofs.LT_ExpandCollapse
  Proofs.RoundTrip2 Gen.Cfg38.
Import ListNotations. Open Scope Z_scope.
Ltac Zify.zify_post_hook ::= Z.to_euclidean_division_equations.

Module BP := Proofs.BlocksPartition.
Module DV := Proofs.DecodeView.

Ltac split_andb :=
  repeat match goal with
         | H : _ && _ = true |- _ => apply andb_true_iff in H; destruct H
         end.

(* ------------------------------------------------------------------ *)
(** * 0. The additional premise *)

(* every opcode of the code string has a name in dis.opmap *)
Definition ops_known (c : cfg) (b : list Z) : bool :=
  match parse_bytes c b 0 0 0 with
  | OK ps => forallb (fun p => zmem (p_op p) (cfg_opcodes c)) ps
  | Err _ => false
  end.

(* ------------------------------------------------------------------ *)
(** * 1. List facts *)

Lemma Forall2_map_left {A A' B} (h : A -> A') (R : A' -> B -> Prop) : forall l l',
  Forall2 R (map h l) l' <-> Forall2 (fun x y => R (h x) y) l l'.
Proof.
  induction l as [|x l IH]; intros l'; split; intros H.
  - inversion H. constructor.
  - inversion H. constructor.
  - cbn [map] in H. inversion H; subst. constructor; [assumption|]. now apply IH.
  - inversion H; subst. cbn [map]. constructor; [assumption|]. now apply IH.
Qed.

Lemma Forall2_In_left {A B} (R : A -> B -> Prop) l l' x :
  Forall2 R l l' -> In x l -> exists y, In y l' /\ R x y.
Proof.
  induction 1 as [|a b l l' Hab HF IH]; intros Hin; [destruct Hin|].
  destruct Hin as [->|Hin]; [exists b; split; [now left|assumption]|].
  destruct (IH Hin) as [y [Hy Hr]]. exists y. split; [now right|assumption].
Qed.

Lemma Forall2_In_right {A B} (R : A -> B -> Prop) l l' y :
  Forall2 R l l' -> In y l' -> exists x, In x l /\ R x y.
Proof.
  induction 1 as [|a b l l' Hab HF IH]; intros Hin; [destruct Hin|].
  destruct Hin as [->|Hin]; [exists a; split; [now left|assumption]|].
  destruct (IH Hin) as [x [Hx Hr]]. exists x. split; [now right|assumption].
Qed.

Lemma Forall2_weaken {A B} (R1 R2 : A -> B -> Prop) l l' :
  (forall a b, R1 a b -> R2 a b) -> Forall2 R1 l l' -> Forall2 R2 l l'.
Proof. intros H. induction 1; constructor; auto. Qed.

Lemma Forall2_length_eq {A B} (R : A -> B -> Prop) l l' : Forall2 R l l' -> length l = length l'.
Proof. induction 1; cbn [length]; congruence. Qed.

Lemma Forall2_of_Forall_map {A B C} (R : B -> C -> Prop) (f : A -> B) (g : A -> C) (l : list A) :
  Forall (fun x => R (f x) (g x)) l -> Forall2 R (map f l) (map g l).
Proof. induction 1; cbn [map]; constructor; assumption. Qed.

Lemma mapM_cons' {A B} (h : A -> res B) x xs :
  mapM h (x :: xs) = match h x with
                     | Err e => Err e
                     | OK y => match mapM h xs with Err e => Err e | OK ys => OK (y :: ys) end
                     end.
Proof. reflexivity. Qed.

Lemma mapM_F2 {A B} (h : A -> res B) : forall l l',
  mapM h l = OK l' -> Forall2 (fun x y => h x = OK y) l l'.
Proof.
  induction l as [|x l IH]; intros l' H.
  - inversion H. constructor.
  - rewrite mapM_cons' in H. destruct (h x) as [y|] eqn:E; [|discriminate].
    destruct (mapM h l) as [ys|] eqn:E2; [|discriminate]. inversion H; subst. constructor; auto.
Qed.

(* strictly increasing lists: positions are ordered like the elements *)
Lemma incr_nth_lt : forall (T : list Z) a b x y, BP.incr T -> (a < b)%nat ->
  nth_error T a = Some x -> nth_error T b = Some y -> x < y.
Proof.
  induction T as [|z T IH]; intros a b x y HT Hab Ha Hb; [destruct a; discriminate|].
  apply BP.incr_cons in HT as [Hlt HT]. destruct b as [|b]; [lia|]. cbn [nth_error] in Hb.
  destruct a as [|a].
  - cbn [nth_error] in Ha. inversion Ha; subst. apply Hlt. eapply nth_error_In; eassumption.
  - cbn [nth_error] in Ha. apply (IH a b x y HT); [lia|exact Ha|exact Hb].
Qed.

Lemma incr_nth_pos (T : list Z) a b x y : BP.incr T ->
  nth_error T a = Some x -> nth_error T b = Some y -> x < y -> (a < b)%nat.
Proof.
  intros HT Ha Hb Hxy.
  destruct (Nat.lt_trichotomy a b) as [H|[H|H]]; [exact H| |].
  - subst b. rewrite Ha in Hb. inversion Hb. lia.
  - pose proof (incr_nth_lt T b a y x HT H Hb Ha). lia.
Qed.

Lemma incr_app_r (l1 l2 : list Z) : BP.incr (l1 ++ l2) -> BP.incr l2.
Proof.
  induction l1 as [|x l1 IH]; intros H; [exact H|].
  cbn [app] in H. apply BP.incr_cons in H as [_ H]. now apply IH.
Qed.

(* ------------------------------------------------------------------ *)
(** * 2. What code_ok says about the parsed instructions *)

Definition pfacts (c : cfg) (p : pinstr) : Prop :=
  0 <= p_op p < 256 /\ p_op p <> cfg_extended_arg c /\ 0 <= p_arg p < 2147483648.

Lemma parse_pfacts c : forall b i n acc ps,
  units_ok c b n acc = true -> 0 <= n -> 0 <= acc -> acc mod 256 = 0 -> (n = 0 -> acc = 0) ->
  parse_bytes c b i n acc = OK ps -> Forall (pfacts c) ps.
Proof.
  intros b. induction b as [|x|op byte r IH] using LT_ExpandCollapse.list_ind2;
    intros i n acc ps U Hn Ha Hm H0 P.
  - cbn [parse_bytes] in P. inversion P. constructor.
  - cbn [parse_bytes] in P. discriminate.
  - cbn [parse_bytes] in P. cbn [units_ok] in U.
    destruct (op =? cfg_extended_arg c) eqn:E.
    + split_andb.
      assert (L1 : Z.lor acc byte = acc + byte) by (apply InstrCodec.lor_add; lia).
      rewrite L1 in P. rewrite InstrCodec.shl8 in P.
      match goal with U' : units_ok _ _ _ _ = true |- _ =>
        pose proof (DV.units_ok_bound _ _ _ _ U' ltac:(lia) ltac:(lia)) as Hb end.
      assert (W : (if (acc + byte) * 256 >? c_int_upper_limit
                   then (acc + byte) * 256 - c_int_length else (acc + byte) * 256)
                  = (acc + byte) * 256).
      { unfold c_int_upper_limit. destruct ((acc + byte) * 256 >? 2147483647) eqn:W; [lia|reflexivity]. }
      rewrite W in P.
      match goal with U' : units_ok _ _ _ _ = true |- _ =>
        exact (IH (i + 2) (n + 1) ((acc + byte) * 256) ps U' ltac:(lia) ltac:(lia) ltac:(lia)
                  ltac:(lia) P) end.
    + destruct (parse_bytes c r (i + 2) 0 0) as [rest|e] eqn:Er; [|discriminate].
      inversion P; subst ps. clear P. split_andb.
      assert (L1 : Z.lor acc byte = acc + byte) by (apply InstrCodec.lor_add; lia).
      constructor.
      * unfold pfacts, p_op, p_arg. cbn [fst snd]. rewrite L1. repeat split; lia.
      * match goal with U' : units_ok _ _ _ _ = true |- _ =>
          exact (IH (i + 2) 0 0 rest U' ltac:(lia) ltac:(lia) ltac:(reflexivity) ltac:(reflexivity) Er)
        end.
Qed.

(* a well-shaped, non-empty code string has at least one instruction *)
Lemma parse_nil c : forall b i n acc arg,
  units_ok c b n acc = true -> 0 <= n -> parse_bytes c b i n arg = OK [] -> b = [].
Proof.
  intros b. induction b as [|x|op byte r IH] using LT_ExpandCollapse.list_ind2;
    intros i n acc arg U Hn P.
  - reflexivity.
  - cbn [parse_bytes] in P. discriminate.
  - exfalso. cbn [parse_bytes] in P. cbn [units_ok] in U.
    destruct (op =? cfg_extended_arg c) eqn:E.
    + split_andb.
      match goal with U' : units_ok _ _ _ _ = true |- _ =>
        pose proof (IH (i + 2) (n + 1) _ _ U' ltac:(lia) P) as Hr; rewrite Hr in U';
        cbn [units_ok] in U'; lia end.
    + destruct (parse_bytes c r (i + 2) 0 0) as [rest|e]; discriminate.
Qed.

(* ------------------------------------------------------------------ *)
(** * 3. to_arg: the operand kind fits the opcode class (by the order of its tests) *)

Section Dec.
  Context {K : Type} (keq : K -> K -> bool).
  Variable c : cfg.

  Definition kind_ok (op a next : Z) (parg : arg_ K) : Prop :=
    match parg with
    | AJump t false => zmem op (cfg_hasjabs c) = true
    | AJump t true => zmem op (cfg_hasjrel c) = true /\ t = next + (if cfg_v310 c then 2 else 1) * a
    | AName _ _ => zmem op (cfg_hasname c) = true
    | AVarname _ _ => zmem op (cfg_haslocal c) = true
    | ACellvar _ _ => zmem op (cfg_hasfree c) = true
    | AFreevar _ => zmem op (cfg_hasfree c) = true
    | AConst _ _ => zmem op (cfg_hasconst c) = true
    | ANoArg _ => op < cfg_have_argument c
    | AInt z => cfg_have_argument c <= op /\ in_no_class c op = true /\ z = a
    end.

  Lemma to_arg_kind op a next fv st parg st' :
    to_arg keq c op a next fv st = OK (parg, st') -> kind_ok op a next parg.
  Proof.
    unfold to_arg. intros H.
    destruct (zmem op (cfg_hasjabs c)) eqn:E1; [inversion H; subst; exact E1|].
    destruct (zmem op (cfg_hasjrel c)) eqn:E2; [inversion H; subst; split; [exact E2|reflexivity]|].
    destruct (zmem op (cfg_hasname c)) eqn:E3.
    { destruct (found_index str_eqb (d_names st) a) as [[[s ov] t]|e]; [|discriminate].
      inversion H; subst. exact E3. }
    destruct (zmem op (cfg_haslocal c)) eqn:E4.
    { destruct (found_index str_eqb (d_varnames st) a) as [[[s ov] t]|e]; [|discriminate].
      inversion H; subst. exact E4. }
    destruct (zmem op (cfg_hasfree c)) eqn:E5.
    { destruct (a <? zlen (ta_args (d_cellvars st))).
      - destruct (found_index str_eqb (d_cellvars st) a) as [[[s ov] t]|e]; [|discriminate].
        inversion H; subst. exact E5.
      - destruct (py_index fv (a - zlen (ta_args (d_cellvars st)))) as [s|]; [|discriminate].
        inversion H; subst. exact E5. }
    destruct (zmem op (cfg_hasconst c)) eqn:E6.
    { destruct (found_index keq (d_consts st) a) as [[[k ov] t]|e]; [|discriminate].
      inversion H; subst. exact E6. }
    destruct (op <? cfg_have_argument c) eqn:L; inversion H; subst; cbn [kind_ok].
    - lia.
    - split; [lia|]. split; [|reflexivity]. unfold in_no_class. rewrite E1, E2, E3, E4, E5, E6. reflexivity.
  Qed.

  (* decoded instruction against parsed instruction *)
  Definition drel (oi : Z * instr_ K) (p : pinstr) : Prop :=
    fst oi = p_first p /\ i_name (snd oi) = p_op p /\
    kind_ok (p_op p) (p_arg p) (p_next p) (i_arg (snd oi)).

  Lemma decode_instrs_drel : forall ps fv lm st ois lm' st',
    decode_instrs keq c ps fv lm st = OK (ois, lm', st') -> Forall2 drel ois ps.
  Proof.
    induction ps as [|[[[[op a] n] off] nx] r IH]; intros fv lm st ois lm' st' H.
    - cbn [decode_instrs] in H. inversion H. constructor.
    - cbn [decode_instrs] in H.
      destruct (to_arg keq c op a nx fv st) as [[parg st1]|e] eqn:T; [|discriminate].
      apply to_arg_kind in T.
      destruct (oget (lm_lines lm) off) as [line|]; [|discriminate].
      match type of H with
      | match ?X with _ => _ end = _ => destruct X as [[[rest lm1] st2]|e] eqn:Er; [|discriminate]
      end.
      inversion H; subst. constructor; [|eapply IH; exact Er].
      unfold drel, p_first, p_op, p_arg, p_next. cbn [fst snd i_name i_arg]. repeat split. exact T.
  Qed.
End Dec.

(* ------------------------------------------------------------------ *)
(** * 4. Decoded instructions fit; relative jumps go forward *)

Section Wf.
  Context {K : Type}.
  Variable c : cfg.

  (* what instr_fits asks of an instruction before its private fields are cleared *)
  Definition dec_ok (i : instr_ K) : Prop :=
    let op := i_name i in
    zmem op (cfg_opcodes c) = true /\ op <> cfg_extended_arg c /\ 0 <= op < 256 /\
    match i_arg i with
    | AJump _ false => zmem op (cfg_hasjabs c) = true
    | AJump _ true => zmem op (cfg_hasjrel c) = true
    | AName _ _ => zmem op (cfg_hasname c) = true
    | AVarname _ _ => zmem op (cfg_haslocal c) = true
    | ACellvar _ _ => zmem op (cfg_hasfree c) = true
    | AFreevar _ => zmem op (cfg_hasfree c) = true
    | AConst _ _ => zmem op (cfg_hasconst c) = true
    | ANoArg _ => op < cfg_have_argument c
    | AInt z => cfg_have_argument c <= op /\ in_no_class c op = true /\ 0 <= z < 2147483648
    end.

  Lemma dec_ok_retarget T (i : instr_ K) : dec_ok i -> dec_ok (retarget T i).
  Proof.
    unfold retarget. destruct (i_arg i) as [ |t rel| | | | | | ] eqn:E; try (intros H; exact H).
    unfold dec_ok. cbn [i_name i_arg]. rewrite E. intros H. exact H.
  Qed.

  Lemma drel_dec_ok (oi : Z * instr_ K) p :
    drel c oi p -> pfacts c p -> zmem (p_op p) (cfg_opcodes c) = true -> dec_ok (snd oi).
  Proof.
    intros (_ & Hn & Hk) (Ho & He & Ha) Hz. unfold dec_ok. cbv zeta. rewrite Hn.
    split; [exact Hz|]. split; [exact He|]. split; [exact Ho|].
    unfold kind_ok in Hk. destruct (i_arg (snd oi)) as [z|t rel| | | | | | ]; try exact Hk.
    - destruct Hk as (H1 & H2 & ->). repeat split; try assumption; lia.
    - destruct rel; [exact (proj1 Hk)|exact Hk].
  Qed.

  Definition jprop (nb : Z) (T : list Z) (i : instr_ K) (o : Z) : Prop :=
    match i_arg i with
    | AJump k rel => 0 <= k < nb /\ (rel = true -> exists t, nth_error T (Z.to_nat k) = Some t /\ o < t)
    | _ => True
    end.

  (* blocks whose start offsets are the tail of T from position bn on; a relative jump at offset o
     designates a block that starts after o: its index is above the index of the jump's own block *)
  Lemma jumps_gen nb T : BP.incr T -> forall (blocks : list (list (instr_ K))) offs bn,
    Forall (fun b => b <> []) blocks -> BP.incr offs ->
    Forall2 (jprop nb T) (concat blocks) offs ->
    (forall j, nth_error (BP.block_starts blocks offs) j = nth_error T (bn + j)) ->
    jumps_ok nb blocks (Z.of_nat bn) = true.
  Proof.
    intros HT. induction blocks as [|b r IH]; intros offs bn Hne Hinc HF Hst; [reflexivity|].
    inversion Hne as [|? ? Hb Hr]; subst.
    cbn [concat] in HF. apply Forall2_app_inv_l in HF as [o1 [o2 [F1 [F2 ->]]]].
    pose proof (Forall2_length_eq _ _ _ F1) as L1.
    cbn [jumps_ok]. apply andb_true_iff. split.
    - destruct o1 as [|o o1']; [destruct b; [congruence|discriminate]|].
      pose proof (Hst 0%nat) as H0. cbn [BP.block_starts app nth_error] in H0. rewrite Nat.add_0_r in H0.
      apply forallb_forall. intros i Hi.
      destruct (Forall2_In_left _ _ _ _ F1 Hi) as [o' [Ho' Hp]].
      assert (Hle : o <= o').
      { cbn [app] in Hinc. apply BP.incr_cons in Hinc as [Hlt _]. destruct Ho' as [->|Ho']; [lia|].
        specialize (Hlt o' ltac:(apply in_or_app; now left)). lia. }
      unfold jprop in Hp. destruct (i_arg i) as [ | k rel | | | | | | ]; try reflexivity.
      destruct Hp as [Hk Hrel]. destruct rel; cbv iota.
      + destruct (Hrel eq_refl) as [t [Ht Hot]].
        assert (bn < Z.to_nat k)%nat
          by (eapply (incr_nth_pos T); [exact HT|symmetry; exact H0|exact Ht|lia]).
        lia.
      + lia.
    - replace (Z.of_nat bn + 1) with (Z.of_nat (S bn)) by lia.
      apply (IH o2 (S bn) Hr).
      + eapply incr_app_r; exact Hinc.
      + exact F2.
      + intros j. specialize (Hst (S j)). cbn [BP.block_starts nth_error] in Hst.
        rewrite L1 in Hst. rewrite skipn_app, skipn_all, Nat.sub_diag in Hst. cbn [skipn app] in Hst.
        rewrite Hst. f_equal. lia.
  Qed.
End Wf.

(* ------------------------------------------------------------------ *)
(** * 5. bytes_to_blocks: the decoded blocks are well formed (before the private fields are cleared) *)

Section B2B.
  Context {K : Type}.
  Variable c : cfg.
  Variables names varnames freevars cellvars : list str.
  Variable ks : list K.
  Variable keq : K -> K -> bool.

  Lemma b2b_wf b lm bt a blocks addl lm' :
    cfg_ops_wf c = true -> code_ok c b = true ->
    targets_ok c b names varnames freevars cellvars ks = true ->
    b <> [] -> ops_known c b = true ->
    bytes_to_blocks keq c b lm names varnames freevars cellvars ks bt a = OK (blocks, addl, lm') ->
    blocks <> [] /\ Forall (fun bl => bl <> []) blocks /\
    Forall (dec_ok c) (concat blocks) /\ jumps_ok (zlen blocks) blocks 0 = true.
  Proof.
    intros W U Tg Hb Hops H.
    destruct (DV.ops_wf_spec c W) as [HE _].
    unfold bytes_to_blocks in H. cbv zeta in H.
    cbn [d_consts d_names d_varnames d_cellvars] in H.
    match type of H with
    | match ?X with _ => _ end = _ => destruct X as [st1|e] eqn:Est; [|discriminate]
    end.
    assert (S1 : DV.st_ok names varnames cellvars ks st1).
    { destruct (has_docstring bt).
      - destruct (found_index keq (toargs_init ks 0) 0) as [[[x ov] t]|] eqn:F; [|discriminate].
        apply DV.found_index_spec in F as [_ F]. inversion Est; subst st1.
        unfold DV.st_ok. cbn [d_consts d_names d_varnames d_cellvars]. rewrite F.
        repeat split; reflexivity.
      - inversion Est; subst. repeat split; reflexivity. }
    unfold ops_known in Hops.
    destruct (parse_bytes c b 0 0 0) as [ps|e] eqn:Ep; [|discriminate].
    match type of H with
    | match ?X with _ => _ end = _ => destruct X as [[[ois lm1] st2]|e] eqn:Ed; [|discriminate]
    end.
    destruct (split_blocks (sorted_set (0 :: jump_targets ois)) ois [] false)
      as [blocks0|e] eqn:Es; [|discriminate].
    repeat match type of H with
           | match ?X with _ => _ end = _ => destruct X eqn:?; try discriminate H
           end.
    inversion H; subst blocks0 lm1 addl. clear H.
    destruct (DV.parse_dis_gen c names varnames freevars cellvars ks HE b 0 0 0 ps U
                ltac:(lia) ltac:(lia) ltac:(reflexivity) ltac:(reflexivity) Ep) as [HL Hnn].
    change (0 =? 0) with true in HL. cbv iota in HL.
    pose proof (DV.decode_instrs_view c names varnames freevars cellvars ks keq W _ _ _ _ _ _ S1 Hnn Ed) as Hv.
    pose proof (BP.decode_instrs_offsets _ _ _ _ _ _ _ _ _ Ed) as Hoff.
    destruct (BP.parse_bytes_offsets _ _ _ Ep) as [Hinc [Hfirst [_ Hsz]]].
    pose proof (parse_pfacts c b 0 0 0 ps U ltac:(lia) ltac:(lia) ltac:(reflexivity)
                  ltac:(reflexivity) Ep) as HP.
    pose proof (decode_instrs_drel keq c _ _ _ _ _ _ _ Ed) as HD.
    assert (Hps : ps <> []).
    { intros ->. apply Hb. eapply (parse_nil c b 0 0 0 0); [exact U|lia|exact Ep]. }
    assert (Hne : ois <> []).
    { intros ->. apply Hps. inversion HD. reflexivity. }
    assert (Hhd : exists i r, ois = (0, i) :: r).
    { destruct ois as [|[o i] r]; [congruence|].
      destruct ps as [|p ps']; [discriminate|]. cbn [map fst] in Hoff. injection Hoff as Ho _.
      rewrite (Hfirst p ps' eq_refl) in Ho. subst o. eauto. }
    assert (Hoi : BP.offsets_increasing ois) by (unfold BP.offsets_increasing; now rewrite Hoff).
    assert (Hfo : map (fun x : Z * instr_ K => fst (fst (DV.oview x))) ois = map fst ois) by reflexivity.
    assert (Hts : BP.targets_are_starts ois).
    { intros t Ht. apply BP.jump_targets_In in Ht as [o [i [rel [Hin Ei]]]].
      unfold targets_ok in Tg. cbv zeta in Tg. rewrite HL, <- Hv in Tg. rewrite forallb_forall in Tg.
      specialize (Tg (DV.oview (o, i)) (in_map DV.oview _ _ Hin)). unfold DV.oview in Tg at 1.
      cbn [snd fst] in Tg. rewrite Ei in Tg. cbn [DV.raw_val] in Tg. apply BP.zmem_In in Tg.
      rewrite map_map, Hfo in Tg. exact Tg. }
    destruct (BP.split_blocks_partition ois Hne Hoi Hhd Hts) as [blocks' [Es' [Hc [Hnb [Hbs [Hlen Hj]]]]]].
    rewrite Es in Es'. inversion Es'; subst blocks'. clear Es'.
    set (T := sorted_set (0 :: jump_targets ois)) in *.
    (* per instruction: the parsed instruction it was decoded from *)
    assert (Hper : forall o i, In (o, i) ois -> exists p, In p ps /\ drel c (o, i) p /\ pfacts c p /\
                     zmem (p_op p) (cfg_opcodes c) = true /\ BP.p_first p < BP.p_next p).
    { intros o i Hin. destruct (Forall2_In_left _ _ _ _ HD Hin) as [p [Hp Hr]].
      exists p. rewrite Forall_forall in HP, Hsz. rewrite forallb_forall in Hops.
      split; [exact Hp|]. split; [exact Hr|]. split; [apply HP; exact Hp|].
      split; [apply Hops; exact Hp|apply Hsz; exact Hp]. }
    split.
    { intros ->. assert (Z : zlen T = 0) by (rewrite <- Hlen; reflexivity).
      assert (In 0 T) by (apply BP.sorted_set_In; now left).
      destruct T; [contradiction|]. unfold zlen in Z. cbn [length] in Z. lia. }
    split; [exact Hnb|]. split.
    - rewrite Hc, map_map. apply Forall_forall. intros i' Hi'.
      apply in_map_iff in Hi' as [[o i] [<- Hin]]. cbn [snd].
      destruct (Hper o i Hin) as [p (Hp & Hr & Hf & Hz & _)].
      apply dec_ok_retarget. exact (drel_dec_ok c (o, i) p Hr Hf Hz).
    - apply (jumps_gen (zlen blocks) T (BP.sorted_set_incr _) blocks (map fst ois) 0%nat Hnb Hoi).
      + rewrite Hc, map_map. apply Forall2_of_Forall_map. apply Forall_forall. intros [o i] Hin.
        cbn [snd fst]. unfold jprop.
        destruct (i_arg i) as [z|t rel|s ov|s ov|k ov|s|s ov|z] eqn:EA;
          try (rewrite BP.retarget_nonjump by (intros ? ? X; rewrite EA in X; discriminate X);
               rewrite EA; exact I).
        destruct (Hj o i _ _ Hin EA) as [k [Ek [Hk Hn]]]. rewrite Ek. split; [exact Hk|].
        intros ->. exists t. rewrite Hbs in Hn. split; [exact Hn|].
        destruct (Hper o i Hin) as [p (Hp & (Ho & _ & Hkd) & (_ & _ & Ha) & _ & Hlt)].
        cbn [fst snd] in Ho, Hkd. rewrite EA in Hkd. cbn [kind_ok] in Hkd. destruct Hkd as [_ ->].
        destruct p as [[[[op' a'] n'] off'] nx']. unfold p_first, p_next, p_arg in *.
        cbn [fst snd BP.p_first BP.p_next] in *. destruct (cfg_v310 c); lia.
      + intros j. rewrite Hbs. reflexivity.
  Qed.
End B2B.

(* ------------------------------------------------------------------ *)
(** * 6. normalize and the pairing of constants keep the block structure and clear the private fields *)

Section Transfer.
  Context {K L M : Type} (g : K -> L) (f : L -> res M).
  Variable c : cfg.

  Definition nrel (i : instr_ K) (j : instr_ M) : Prop := mapM_instr f (map_instr_norm g i) = OK j.

  Lemma nrel_fields i j : nrel i j ->
    i_name j = i_name i /\ i_nargs j = None /\ i_line j = i_line i /\ i_lineoffs j = [] /\
    match i_arg i, i_arg j with
    | AInt z, AInt z' => z' = z
    | AJump t r, AJump t' r' => t' = t /\ r' = r
    | AName _ _, AName _ None => True
    | AVarname _ _, AVarname _ None => True
    | AConst _ _, AConst _ None => True
    | AFreevar _, AFreevar _ => True
    | ACellvar _ _, ACellvar _ None => True
    | ANoArg _, ANoArg 0 => True
    | _, _ => False
    end.
  Proof.
    unfold nrel, mapM_instr, map_instr_norm. cbn [i_name i_arg i_nargs i_line i_lineoffs].
    destruct (i_arg i) as [z|t rel|s ov|s ov|k ov|s|s ov|z]; cbn [map_arg_norm mapM_arg];
      try (intros H; inversion H; subst j; cbn [i_name i_arg i_nargs i_line i_lineoffs]; repeat split).
    destruct (f (g k)) as [k'|e]; [|discriminate].
    intros H; inversion H; subst j; cbn [i_name i_arg i_nargs i_line i_lineoffs]; repeat split.
  Qed.

  Lemma nrel_fits i j : dec_ok c i -> nrel i j -> instr_fits c j = true.
  Proof.
    intros (Hz & He & Ho & Hk) H. apply nrel_fields in H as (Hn & Hna & _ & Hlo & Ha).
    unfold instr_fits. cbv zeta. rewrite Hn, Hna, Hlo, Hz. cbn [opt_is_some negb andb].
    assert (X : negb (i_name i =? cfg_extended_arg c) && (0 <=? i_name i) && (i_name i <? 256) = true) by lia.
    rewrite X. cbn [andb].
    destruct (i_arg i) as [z|t rel|s ov|s ov|k ov|s|s ov|z];
      destruct (i_arg j) as [z'|t' rel'|s' ov'|s' ov'|k' ov'|s'|s' ov'|z']; try contradiction;
      try (destruct ov'; [contradiction|]; rewrite Hk; reflexivity).
    - subst z'. destruct Hk as (H1 & H2 & H3). rewrite H2. lia.
    - destruct Ha as [-> ->]. destruct rel; exact Hk.
    - exact Hk.
    - destruct z'; try contradiction. lia.
  Qed.

  Variables (B : list (list (instr_ K))) (B' : list (list (instr_ M))).
  Hypothesis HB : Forall2 (Forall2 nrel) B B'.

  Lemma tr_in j b' : In b' B' -> In j b' -> exists i, In i (concat B) /\ nrel i j.
  Proof.
    intros Hb' Hj. destruct (Forall2_In_right _ _ _ _ HB Hb') as [b [Hb Hbb]].
    destruct (Forall2_In_right _ _ _ _ Hbb Hj) as [i [Hi Hij]].
    exists i. split; [|exact Hij]. apply in_concat. exists b. split; assumption.
  Qed.

  Lemma tr_zlen : zlen B' = zlen B.
  Proof. unfold zlen. now rewrite (Forall2_length_eq _ _ _ HB). Qed.

  Lemma tr_nonempty : Forall (fun b => b <> []) B ->
    forallb (fun b : list (instr_ M) => match b with [] => false | _ => true end) B' = true.
  Proof.
    intros H. apply forallb_forall. intros b' Hb'.
    destruct (Forall2_In_right _ _ _ _ HB Hb') as [b [Hb Hbb]].
    rewrite Forall_forall in H. specialize (H b Hb).
    destruct b' as [|? ?]; [|reflexivity]. inversion Hbb; subst. congruence.
  Qed.

  Lemma tr_fits : Forall (dec_ok c) (concat B) -> forallb (forallb (instr_fits c)) B' = true.
  Proof.
    intros H. rewrite Forall_forall in H.
    apply forallb_forall. intros b' Hb'. apply forallb_forall. intros j Hj.
    destruct (tr_in j b' Hb' Hj) as [i [Hi Hij]]. exact (nrel_fits i j (H i Hi) Hij).
  Qed.

  Lemma tr_lines : Forall (fun i : instr_ K => opt_is_some (i_line i) = true) (concat B) ->
    forallb (forallb (fun i : instr_ M => opt_is_some (i_line i))) B' = true.
  Proof.
    intros H. rewrite Forall_forall in H.
    apply forallb_forall. intros b' Hb'. apply forallb_forall. intros j Hj.
    destruct (tr_in j b' Hb' Hj) as [i [Hi Hij]].
    apply nrel_fields in Hij as (_ & _ & Hl & _). rewrite Hl. exact (H i Hi).
  Qed.
End Transfer.

Lemma tr_jumps {K L M : Type} (g : K -> L) (f : L -> res M) nb :
  forall (B : list (list (instr_ K))) (B' : list (list (instr_ M))) bi,
  Forall2 (Forall2 (nrel g f)) B B' -> jumps_ok nb B bi = true -> jumps_ok nb B' bi = true.
Proof.
  intros B B' bi H. revert bi. induction H as [|b b' r r' Hbb Hrr IH]; intros bi J; [reflexivity|].
  cbn [jumps_ok] in *. apply andb_true_iff in J as [J1 J2]. apply andb_true_iff. split; [|now apply IH].
  rewrite forallb_forall in J1. apply forallb_forall. intros j Hj.
  destruct (Forall2_In_right _ _ _ _ Hbb Hj) as [i [Hi Hij]]. specialize (J1 i Hi).
  apply nrel_fields in Hij as (_ & _ & _ & _ & Ha).
  destruct (i_arg i) as [z|t rel|s ov|s ov|k ov|s|s ov|z];
    destruct (i_arg j) as [z'|t' rel'|s' ov'|s' ov'|k' ov'|s'|s' ov'|z']; try contradiction; try reflexivity.
  destruct Ha as [-> ->]. exact J1.
Qed.

(* ------------------------------------------------------------------ *)
(** * 7. Lines (before 3.10 every instruction has one) and the number of parameter names *)

Lemma dis_view_lines {K} c code names varnames freevars cellvars (ks : list K) table first :
  cfg_v310 c = false ->
  Forall (fun v : vinstr K => opt_is_some (v_line v) = true)
         (dis_view c code names varnames freevars cellvars ks table first).
Proof.
  intros V. unfold dis_view. cbv zeta. apply Forall_forall. intros v Hv.
  apply in_map_iff in Hv as [[[fo op] dv] [<- _]]. cbn [v_line]. unfold dis_line. rewrite V. reflexivity.
Qed.

Lemma data_view_lines {K} (B : list (list (instr_ K))) :
  Forall (fun v : vinstr K => opt_is_some (v_line v) = true) (data_view B) ->
  Forall (fun i : instr_ K => opt_is_some (i_line i) = true) (concat B).
Proof.
  unfold data_view. cbv zeta. intros H. rewrite Forall_forall in *. intros i Hi.
  exact (H _ (in_map _ _ _ Hi)).
Qed.

Lemma take_drop_len {A} k (l : list A) : zlen (take k l) + zlen (drop k l) = zlen l.
Proof.
  unfold take, drop, zlen. rewrite <- Nat2Z.inj_add, <- app_length, firstn_skipn. reflexivity.
Qed.

Lemma slice_len {A} n (l : list A) : zlen (py_slice_to n l) + zlen (py_slice_from n l) = zlen l.
Proof. unfold py_slice_to, py_slice_from. destruct (n <? 0); apply take_drop_len. Qed.

Lemma truthy_len o : zlen (truthy_list o) <= zlen (opt_list o).
Proof. unfold truthy_list. destruct (str_truthy o); [lia|]. unfold zlen. cbn [length]. lia. Qed.

Lemma args_len_bound ac po kw (vn : list str) fl a fl' :
  args_from_input ac po kw vn fl = OK (a, fl') -> zlen (args_to_varnames a) <= zlen vn.
Proof.
  unfold args_from_input. cbv zeta. intros H.
  pose proof (slice_len po vn) as L1.
  pose proof (slice_len (ac - po) (py_slice_from po vn)) as L2.
  pose proof (slice_len kw (py_slice_from (ac - po) (py_slice_from po vn))) as L3.
  set (A := py_slice_to po vn) in *. set (v1 := py_slice_from po vn) in *.
  set (Bk := py_slice_to (ac - po) v1) in *. set (v2 := py_slice_from (ac - po) v1) in *.
  set (Kw := py_slice_to kw v2) in *. set (v3 := py_slice_from kw v2) in *.
  assert (G : forall vp vk, zlen (opt_list vp) + zlen (opt_list vk) <= zlen v3 ->
            zlen (args_to_varnames {| a_posonly := A; a_poskw := Bk; a_varpos := vp;
                                      a_kwonly := Kw; a_varkw := vk |}) <= zlen vn).
  { intros vp vk Hv. unfold args_to_varnames. cbn [a_posonly a_poskw a_varpos a_kwonly a_varkw].
    pose proof (truthy_len vp). pose proof (truthy_len vk).
    unfold zlen in *. rewrite !app_length. lia. }
  destruct (flag_mem VARARGS fl).
  - destruct v3 as [|x r] eqn:E3; [discriminate|].
    destruct (flag_mem VARKEYWORDS (flag_remove VARARGS fl)).
    + destruct r as [|y r']; [discriminate|]. inversion H; subst. apply G.
      unfold zlen. cbn [opt_list length]. lia.
    + inversion H; subst. apply G. unfold zlen. cbn [opt_list length]. lia.
  - destruct (flag_mem VARKEYWORDS fl).
    + destruct v3 as [|y r'] eqn:E3; [discriminate|]. inversion H; subst. apply G.
      unfold zlen. cbn [opt_list length]. lia.
    + inversion H; subst. apply G. unfold zlen. cbn [opt_list length]. lia.
Qed.

(* ------------------------------------------------------------------ *)
(** * 8. The theorem *)

(* S_C05_normal_form_wf with the additional premise [ops_known] *)
Definition S_C05_normal_form_wf_x : Prop := forall c code ks d d',
  view_wf c code ks = true -> ops_known c (co_code code) = true -> co_code code <> [] ->
  zlen (co_freevars code) < 1073741824 -> zlen (co_varnames code) < 1073741824 ->
  nodup_str (co_freevars code) = true ->
  decode_code c code ks = OK d ->
  mapM_cd (fun k' => match from_const c k' with OK p => OK (k', p) | Err e => Err e end) (normalize d) = OK d' ->
  (0 <=? cfg_extended_arg c) && (cfg_extended_arg c <? 256) = true ->
  data_wf c d' = true.

Theorem C05_normal_form_wf_x : S_C05_normal_form_wf_x.
Proof.
  intros c code ks d d' Wf Hops Hne Hfv Hvn Hnd Hd Hm Hext.
  pose proof (DV.C02_view c code ks d Wf Hd) as Hview.
  unfold view_wf in Wf. split_andb.
  match goal with W : cfg_ops_wf c = true |- _ => rename W into W end.
  destruct (RoundTrip2.decode_code_inv c code ks d Hd)
    as (lm0 & fl0 & a & fl1 & bt & lm' & nl & lm'' & M & Fl & Af & Nf & Bt & B & Pp & Ed).
  assert (Efv : cd_freevars d = co_freevars code) by (rewrite Ed; reflexivity).
  assert (Ety : cd_type d = bt) by (rewrite Ed; reflexivity).
  destruct (b2b_wf c (co_names code) (co_varnames code) (co_freevars code) (co_cellvars code) ks key_eqb
              (co_code code) _ bt a (cd_blocks d) (cd_addargs d) lm'
              ltac:(assumption) ltac:(assumption) ltac:(assumption) Hne Hops B)
    as (Hb1 & Hb2 & Hb3 & Hb4).
  unfold normalize, mapM_cd in Hm.
  cbn [map_cd_norm cd_blocks cd_addargs cd_filename cd_firstline cd_name cd_stacksize cd_type
       cd_freevars cd_future_annotations cd_nested cd_addline] in Hm.
  match type of Hm with
  | match ?X with _ => _ end = _ => destruct X as [bl|e] eqn:Ebl; [|discriminate]
  end.
  change (mapM (mapM_arg (fun k' : const => match from_const c k' with OK p => OK (k', p) | Err e => Err e end))
               (@nil (arg_ const))) with (@OK (list (arg_ pconst)) []) in Hm.
  inversion Hm; subst d'. clear Hm.
  apply mapM_F2 in Ebl. apply Forall2_map_left in Ebl.
  assert (HB : Forall2 (Forall2 (nrel normalize_const
                 (fun k' : const => match from_const c k' with OK p => OK (k', p) | Err e => Err e end)))
                 (cd_blocks d) bl).
  { eapply Forall2_weaken; [|exact Ebl]. cbv beta. intros b b' Hbb.
    apply mapM_F2 in Hbb. apply Forall2_map_left in Hbb. exact Hbb. }
  clear Ebl.
  unfold data_wf.
  cbn [cd_blocks cd_addargs cd_addline cd_freevars cd_type].
  rewrite Efv, Ety.
  assert (Hbw : blocks_wf c bl = true).
  { unfold blocks_wf. rewrite (tr_zlen _ _ _ _ HB).
    rewrite (tr_nonempty _ _ _ _ HB Hb2), (tr_fits _ _ c _ _ HB Hb3), (tr_jumps _ _ _ _ _ _ HB Hb4).
    destruct bl as [|? ?]; [|reflexivity]. inversion HB; subst. congruence. }
  assert (Hln : cfg_v310 c || forallb (forallb (fun i : instr_ pconst => opt_is_some (i_line i))) bl = true).
  { destruct (cfg_v310 c) eqn:V; [reflexivity|]. cbn [orb].
    apply (tr_lines _ _ _ _ HB). apply data_view_lines. rewrite Hview. now apply dis_view_lines. }
  assert (Hty : match bt with
                | Some f => zlen (args_to_varnames (fn_args f)) <? 1073741824
                | None => true
                end = true).
  { destruct (RoundTrip2.decode_bt_shape _ _ _ _ _ Bt) as [[-> _]|[doc [tp ->]]]; [reflexivity|].
    cbn [fn_args]. pose proof (args_len_bound _ _ _ _ _ _ _ Af). lia. }
  split_andb.
  rewrite !andb_true_iff. repeat match goal with |- _ /\ _ => split end; try reflexivity;
    try assumption; try exact Hbw; try exact Hln; try exact Hty; lia.
Qed.

(* the same with the premises of view_wf and the new one in one boolean *)
Corollary C05_normal_form_wf_b : forall c code ks d d',
  view_wf c code ks && ops_known c (co_code code) = true -> co_code code <> [] ->
  zlen (co_freevars code) < 1073741824 -> zlen (co_varnames code) < 1073741824 ->
  nodup_str (co_freevars code) = true ->
  decode_code c code ks = OK d ->
  mapM_cd (fun k' => match from_const c k' with OK p => OK (k', p) | Err e => Err e end) (normalize d) = OK d' ->
  (0 <=? cfg_extended_arg c) && (cfg_extended_arg c <? 256) = true ->
  data_wf c d' = true.
Proof.
  intros c code ks d d' H. apply andb_true_iff in H as [H1 H2]. now apply C05_normal_form_wf_x.
Qed.

(* the premise follows from the round-trip well-formedness rt_wf, which contains it *)
Lemma rt_wf_ops_known c code ks : rt_wf c code ks = true -> ops_known c (co_code code) = true.
Proof.
  unfold rt_wf, ops_known. intros H. split_andb.
  destruct (parse_bytes c (co_code code) 0 0 0) as [ps|]; [|discriminate].
  destruct (to_line_mapping (cfg_v310 c) (co_linetable code) (zlen (co_code code))); [|discriminate].
  split_andb. assumption.
Qed.

(* ------------------------------------------------------------------ *)
(** * 9. The statement of C03c_Statements.v needs the additional premise (checked by computation) *)

Module NeedsOpsKnown.
  (* real 3.8 tables; module-level code (flags = NOFREE) whose first code unit is the unassigned
     opcode 7 (below HAVE_ARGUMENT, no name in dis.opmap), then RETURN_VALUE.  view_wf holds, decoding
     and pairing succeed, and the normal form is not well-formed data: instr_fits asks for a named
     opcode (the encoder looks the name up in dis.opmap and raises KeyError). *)
  Definition c1 : cfg := PCD.Gen.Cfg38.cfg.
  Definition code1 : pycode :=
    mkCode 0 0 0 0 1 64 [7; 0; 83; 0] [PInner INone] [] [] [102] [102] 1 [] [] [].
  Definition ks1 : list const := [KInner INone].

  Example premises1 :
    view_wf c1 code1 ks1 = true /\ ops_known c1 (co_code code1) = false
    /\ nodup_str (co_freevars code1) = true
    /\ (0 <=? cfg_extended_arg c1) && (cfg_extended_arg c1 <? 256) = true.
  Proof. vm_compute. repeat split; reflexivity. Qed.

  Example result1 :
    match decode_code c1 code1 ks1 with
    | OK d =>
        match mapM_cd (fun k' => match from_const c1 k' with OK p => OK (k', p) | Err e => Err e end)
                      (normalize d) with
        | OK d' => data_wf c1 d' = false /\ is_ok (encode_code c1 d') = false
        | Err _ => False
        end
    | Err _ => False
    end.
  Proof. vm_compute. split; reflexivity. Qed.

  Theorem S_C05_normal_form_wf_is_false : ~ S_C05_normal_form_wf.
  Proof.
    intros H.
    assert (X : match decode_code c1 code1 ks1 with
                | OK d =>
                    match mapM_cd (fun k' => match from_const c1 k' with OK p => OK (k', p) | Err e => Err e end)
                                  (normalize d) with
                    | OK d' => data_wf c1 d' = true
                    | Err _ => True
                    end
                | Err _ => True
                end).
    { destruct (decode_code c1 code1 ks1) as [d|] eqn:E; [|exact I].
      destruct (mapM_cd _ (normalize d)) as [d'|] eqn:E'; [|exact I].
      apply (H c1 code1 ks1 d d');
        [vm_compute; reflexivity|discriminate|vm_compute; reflexivity|vm_compute; reflexivity
        |vm_compute; reflexivity|exact E|exact E'|vm_compute; reflexivity]. }
    vm_compute in X. discriminate X.
  Qed.
End NeedsOpsKnown.

Check (C05_normal_form_wf_x : forall c code ks d d',
  view_wf c code ks = true -> ops_known c (co_code code) = true -> co_code code <> [] ->
  zlen (co_freevars code) < 1073741824 -> zlen (co_varnames code) < 1073741824 ->
  nodup_str (co_freevars code) = true ->
  decode_code c code ks = OK d ->
  mapM_cd (fun k' => match from_const c k' with OK p => OK (k', p) | Err e => Err e end) (normalize d) = OK d' ->
  (0 <=? cfg_extended_arg c) && (cfg_extended_arg c <? 256) = true ->
  data_wf c d' = true).

Print Assumptions C05_normal_form_wf_x.
Print Assumptions C05_normal_form_wf_b.
Print Assumptions rt_wf_ops_known.
Print Assumptions b2b_wf.
Print Assumptions NeedsOpsKnown.S_C05_normal_form_wf_is_false.
