(* The re-decode clause of C03: the code object emitted for well-formed data satisfies the premise
   of the decoder theorem (view_wf), hence decoding it gives data with the input's instruction
   stream (constants up to key equality). *)
From Coq Require Import ZArith List Bool Lia ZifyBool.
From PCD Require Import Base.PyBase Base.Cfg Model.Flags Model.Args Model.Data Model.Consts
  Model.LineTable Model.Blocks Model.CodeData Spec.Lnotab Spec.Dis Model.ViewSer
  Proofs.C02_Statements Proofs.C11_Statements Proofs.C01_Statements Proofs.C03_Statements
  Proofs.C03b_Statements Proofs.C03c_Statements Proofs.C06_Statements Proofs.C03d_Statements.
From PCD Require Proofs.ConstsProofs Proofs.RelaxProofs Proofs.EncodeLines Proofs.EncodeView
  Proofs.LinesCarried Proofs.EncodeCorrect Proofs.DecodeView Proofs.LT_Lnotab Proofs.Redecode1.
Import ListNotations. Open Scope Z_scope.
Ltac Zify.zify_post_hook ::= Z.to_euclidean_division_equations.

Module EVw := EncodeView.
Module ECo := EncodeCorrect.
Module R1 := Redecode1.

(* ------------------------------------------------------------------ *)
(** * 1. dis is natural in the constants *)

Definition mapd {K L} (f : K -> L) (v : dval K) : dval L :=
  match v with
  | DConst k => DConst (f k)
  | DNoArg => DNoArg | DInt z => DInt z | DName s => DName s | DLocal s => DLocal s
  | DCell s => DCell s | DFree s => DFree s | DJump t r => DJump t r | DBad => DBad
  end.

Definition mapx {K L} (f : K -> L) (x : Z * Z * dval K) : Z * Z * dval L :=
  (fst (fst x), snd (fst x), mapd f (snd x)).

Lemma znth_map {A B} (f : A -> B) l i : znth (map f l) i = option_map f (znth l i).
Proof. unfold znth. destruct (i <? 0); [reflexivity|]. apply nth_error_map. Qed.

Lemma dis_argval_map {K L} (f : K -> L) c names varnames freevars cellvars ks off op a :
  dis_argval c names varnames freevars cellvars (map f ks) off op a
  = mapd f (dis_argval c names varnames freevars cellvars ks off op a).
Proof.
  unfold dis_argval. destruct a as [a|]; [|reflexivity]. cbv zeta.
  destruct (zmem op (cfg_hasconst c)).
  { rewrite znth_map. destruct (znth ks a); reflexivity. }
  destruct (zmem op (cfg_hasname c)); [destruct (znth names a); reflexivity|].
  destruct (zmem op (cfg_hasjabs c)); [reflexivity|].
  destruct (zmem op (cfg_hasjrel c)); [reflexivity|].
  destruct (zmem op (cfg_haslocal c)); [destruct (znth varnames a); reflexivity|].
  destruct (zmem op (cfg_hasfree c)); [|reflexivity].
  destruct (znth (cellvars ++ freevars) a); [|reflexivity].
  destruct (a <? zlen cellvars); reflexivity.
Qed.

Lemma dis_fold_map {K L} (f : K -> L) c names varnames freevars cellvars ks : forall units start,
  dis_fold c names varnames freevars cellvars (map f ks) units start
  = map (mapx f) (dis_fold c names varnames freevars cellvars ks units start).
Proof.
  induction units as [|[[off op] a] r IH]; intros start; [reflexivity|].
  cbn [dis_fold]. cbv zeta. destruct (op =? cfg_extended_arg c).
  - apply IH.
  - cbn [map]. rewrite IH, dis_argval_map. reflexivity.
Qed.

Lemma firsts_mapx {K L} (f : K -> L) (l : list (Z * Z * dval K)) :
  map (fun x : Z * Z * dval L => fst (fst x)) (map (mapx f) l)
  = map (fun x : Z * Z * dval K => fst (fst x)) l.
Proof. rewrite map_map. reflexivity. Qed.

Lemma dis_view_map {K L} (f : K -> L) c code names varnames freevars cellvars ks table first :
  dis_view c code names varnames freevars cellvars (map f ks) table first
  = map_view f (dis_view c code names varnames freevars cellvars ks table first).
Proof.
  unfold dis_view. cbv zeta. rewrite dis_fold_map.
  set (l := dis_fold c names varnames freevars cellvars ks (dis_unpack c code 0 0) None).
  unfold map_view. rewrite !map_map. apply map_ext. intros [[fo op] v].
  unfold index_of_offset. rewrite firsts_mapx.
  unfold mapx. cbn [fst snd v_op v_val v_line].
  destruct v; reflexivity.
Qed.

Lemma forallb_map' {A B} (g : A -> B) (P : B -> bool) l :
  forallb P (map g l) = forallb (fun x => P (g x)) l.
Proof. induction l as [|x l IH]; cbn [map forallb]; [reflexivity|]. now rewrite IH. Qed.

Lemma forallb_ext' {A} (P Q : A -> bool) l : (forall x, P x = Q x) -> forallb P l = forallb Q l.
Proof. intros H. induction l as [|x l IH]; cbn [forallb]; [reflexivity|]. now rewrite H, IH. Qed.

Lemma targets_ok_map {K L} (f : K -> L) c code names varnames freevars cellvars ks :
  targets_ok c code names varnames freevars cellvars (map f ks)
  = targets_ok c code names varnames freevars cellvars ks.
Proof.
  unfold targets_ok. cbv zeta. rewrite dis_fold_map.
  set (l := dis_fold c names varnames freevars cellvars ks (dis_unpack c code 0 0) None).
  rewrite forallb_map', firsts_mapx. apply forallb_ext'. intros [[fo op] v].
  unfold mapx. cbn [fst snd]. destruct v; reflexivity.
Qed.

(* ------------------------------------------------------------------ *)
(** * 2. view agreement under the projection of the constants *)

Lemma val_match_fst (x y : dval pconst) :
  val_match key_eqb (mapd fst x) (mapd fst y) = val_match pkey_eqb x y.
Proof. destruct x, y; reflexivity. Qed.

Lemma map_view_mapd {K L} (f : K -> L) v :
  map_view f v = map (fun x => mkV (v_op x) (mapd f (v_val x)) (v_line x)) v.
Proof. reflexivity. Qed.

Lemma view_agrees_fst : forall a b : list (vinstr pconst),
  view_agrees key_eqb (map_view fst a) (map_view fst b) = view_agrees pkey_eqb a b.
Proof.
  intros a b. rewrite !map_view_mapd. revert b. unfold view_agrees.
  induction a as [|x a IH]; intros [|y b]; try reflexivity.
  cbn [map list_eqb v_op v_val v_line]. rewrite IH, val_match_fst. reflexivity.
Qed.

(* ------------------------------------------------------------------ *)
(** * 3. jump targets of the emitted code are first offsets *)

Lemma index_of_zmem t l k : index_of Z.eqb t l = Some k -> zmem t l = true.
Proof.
  revert k. unfold zmem. induction l as [|y l IH]; intros k H; [discriminate|].
  cbn [index_of existsb] in *. destruct (t =? y) eqn:E.
  - replace (y =? t) with true by lia. reflexivity.
  - destruct (index_of Z.eqb t l) as [i|]; [|discriminate]. rewrite (IH i eq_refl). apply orb_true_r.
Qed.

Lemma targets_from_view {K} (keq : K -> K -> bool) c (blocks : list (list (instr_ K)))
  code names varnames freevars cellvars (consts : list K) table first :
  jumps_ok (zlen blocks) blocks 0 = true ->
  list_eqb (fun (x y : vinstr K) => (v_op x =? v_op y) && val_match keq (v_val x) (v_val y))
           (data_view blocks)
           (dis_view c code names varnames freevars cellvars consts table first) = true ->
  targets_ok c code names varnames freevars cellvars consts = true.
Proof.
  intros Hj Hv. apply ECo.Forall2_of_list_eqb in Hv.
  unfold targets_ok. cbv zeta.
  set (dl := dis_fold c names varnames freevars cellvars consts (dis_unpack c code 0 0) None) in *.
  apply forallb_forall. intros [[fo op] v] Hin. cbn [snd].
  destruct v as [ | | | | | | |t rel| ]; try reflexivity.
  apply In_nth_error in Hin. destruct Hin as [k Hk].
  assert (Hy : nth_error (dis_view c code names varnames freevars cellvars consts table first) k
               = Some (mkV op (DJump (index_of_offset dl t) rel) (dis_line c table first fo))).
  { unfold dis_view. cbv zeta. fold dl. rewrite nth_error_map, Hk. reflexivity. }
  pose proof (ECo.Forall2_len _ _ _ Hv) as Hlen.
  destruct (nth_error (data_view blocks) k) as [x|] eqn:Ex.
  2:{ apply nth_error_None in Ex. apply EVw.nth_error_Some_lt in Hy. lia. }
  pose proof (ECo.Forall2_nth _ _ _ Hv k _ _ Ex Hy) as HR. cbv beta in HR.
  apply andb_true_iff in HR as [_ HR]. cbn [v_val] in HR.
  unfold data_view in Ex. rewrite nth_error_map in Ex.
  destruct (nth_error (concat blocks) k) as [i|] eqn:Ei; [|discriminate].
  cbn [option_map] in Ex. inversion Ex; subst x. clear Ex. cbn [v_val] in HR.
  destruct (i_arg i) as [z | tb rl | s ov | s ov | k0 ov | s | s ov | z] eqn:Ea;
    cbn [data_val val_match] in HR; try discriminate.
  destruct (EVw.jumps_ok_nth blocks 0 (zlen blocks) k i tb rl Hj Ei Ea) as [Htb _].
  rewrite DecodeView.znth_nonneg in HR by lia.
  rewrite EVw.bfi_nth in HR by (unfold zlen in Htb; lia).
  apply andb_true_iff in HR as [HR _].
  unfold index_of_offset in HR.
  destruct (index_of Z.eqb t (map (fun x : Z * Z * dval K => fst (fst x)) dl)) as [j|] eqn:Ej; [|lia].
  eapply index_of_zmem. exact Ej.
Qed.

(* ------------------------------------------------------------------ *)
(** * 4. the code string is as long as the layout *)

Lemma zlen_specs_layout {C} c : forall (l : list (instr_ C)) vals o,
  Forall EVw.nov l -> length l = length vals ->
  zlen (flat_map (EVw.IC.emit_ispec c) (EVw.specs l vals)) = R1.layout_len (layout_of l vals o).
Proof.
  induction l as [|a r IH]; intros vals o Hn Hl; [reflexivity|].
  destruct vals as [|w vs]; [discriminate|]. inversion Hn as [|? ? [Ha _] Hr]; subst.
  cbn [EVw.specs combine map fst snd flat_map EVw.IC.emit_ispec layout_of]. fold (EVw.specs r vs).
  cbv zeta. rewrite Ha. cbn [n_units].
  rewrite LT_Lnotab.zlen_app, EncodeLines.zlen_emit_units.
  rewrite (IH vs (o + 2 * instrsize w) Hr) by (cbn [length] in Hl; lia).
  unfold R1.layout_len. cbn [map fst snd]. rewrite LT_Lnotab.sumZ_cons.
  pose proof (EVw.instrsize_ge1 w). lia.
Qed.

Lemma code_len_layout {C} (keq : C -> C -> bool) is_str none_c str_c
  c (blocks : list (list (instr_ C))) freevars bt code lm names varnames cellvars consts :
  Forall EVw.nov (concat blocks) ->
  blocks_to_bytes keq is_str none_c str_c c blocks [] freevars bt
    = OK (code, lm, names, varnames, cellvars, consts) ->
  exists vals, length vals = length (concat blocks) /\
    lm = {| lm_lines := lines_of_layout (layout_of (concat blocks) vals 0); lm_adds := [] |} /\
    layout_ok (layout_of (concat blocks) vals 0) 0 = true /\
    zlen code = R1.layout_len (layout_of (concat blocks) vals 0).
Proof.
  intros Hnov HB.
  destruct (EVw.b2b_inv c keq is_str none_c str_c blocks freevars bt code lm names varnames cellvars consts HB)
    as (st0 & vals0 & st & vals & _ & _ & Hrelax & Hasm & _).
  pose proof (EVw.len_vals c blocks st vals0 vals Hrelax) as Hlen.
  destruct (EVw.asm_spec c (concat blocks) vals 0 empty_linemap code lm Hnov (Forall_nil _) Hasm)
    as (H1 & H2 & _).
  exists vals. split; [exact Hlen|]. split; [rewrite H2; reflexivity|]. split.
  - apply EVw.layout_of_ok. exact Hnov.
  - rewrite H1. apply zlen_specs_layout; [exact Hnov|]. symmetry. exact Hlen.
Qed.

(* ------------------------------------------------------------------ *)
(** * 5. the emitted code: view agreement and view_wf, same constants table *)

Lemma emitted_facts c (d : code_data_ pconst) code :
  data_wf c d = true ->
  encode_code c d = OK code ->
  zlen (co_code code) < 1073741824 ->
  exists kst : list pconst,
    map snd kst = co_consts code /\
    view_agrees pkey_eqb (data_view (cd_blocks d))
      (dis_view c (co_code code) (co_names code) (co_varnames code) (co_freevars code)
                (co_cellvars code) kst (raw_entries (co_linetable code)) (co_firstlineno code)) = true /\
    view_wf c code (map fst kst) = true.
Proof.
  intros Hwf Henc Hlen.
  unfold data_wf in Hwf.
  apply andb_true_iff in Hwf as [Hwf Hty]. apply andb_true_iff in Hwf as [Hwf Hfvl].
  apply andb_true_iff in Hwf as [Hwf Hnd]. apply andb_true_iff in Hwf as [Hwf Hsome].
  apply andb_true_iff in Hwf as [Hwf Hal]. apply andb_true_iff in Hwf as [Hwf Haa].
  apply andb_true_iff in Hwf as [Hwf Hbw]. apply andb_true_iff in Hwf as [Hwf Hx2].
  apply andb_true_iff in Hwf as [Hcfg Hx1].
  assert (Haa' : cd_addargs d = []) by (destruct (cd_addargs d); [reflexivity|discriminate]).
  assert (Hal' : cd_addline d = None) by (destruct (cd_addline d); [discriminate|reflexivity]).
  destruct (ECo.encode_inv c d code Hal' Henc)
    as (code0 & lm0 & names & varnames & cellvars & constants & ac & pc & kc & flags & table
        & HB & Hargs & Hlt & ->).
  cbn [co_code co_consts co_names co_varnames co_freevars co_cellvars co_linetable co_firstlineno] in *.
  unfold ECo.b2b in HB. rewrite Haa' in HB.
  assert (Hx : EVw.k2_extra c (cd_type d) (cd_freevars d) = true).
  { unfold EVw.k2_extra. rewrite Hx1, Hx2, Hfvl. exact Hty. }
  (* the table, through the layout assemble produced *)
  assert (Hnov : Forall EVw.nov (concat (cd_blocks d))).
  { exact (@EVw.wf_nov pconst pkey_eqb (KInner INone, PInner INone) ECo.pkey_refl ECo.pkey_sym
             ECo.pkey_trans c (cd_blocks d) Hbw). }
  assert (Hbne : concat (cd_blocks d) <> []).
  { apply ECo.concat_nonempty; [|eapply EVw.wf_nonempty; exact Hbw].
    unfold blocks_wf in Hbw. apply andb_true_iff in Hbw as [_ Hb].
    destruct (cd_blocks d); [discriminate|discriminate]. }
  assert (Htab : table_ok c table (zlen code0) = true).
  { destruct (code_len_layout _ _ _ _ c (cd_blocks d) (cd_freevars d) (cd_type d) code0 lm0 names
                varnames cellvars constants Hnov HB) as (vals' & Hvl' & Hlm' & Hlok' & Hzl).
    rewrite Hzl. rewrite Hlm' in Hlt.
    apply (R1.table_ok_layout c _ (cd_firstline d) table Hlok').
    - apply ECo.layout_of_nonempty; [exact Hvl'|exact Hbne].
    - intros E. rewrite E in Hsome. cbn [orb] in Hsome.
      apply ECo.layout_lines_some. apply ECo.forallb_concat. exact Hsome.
    - exact Hlt. }
  destruct (EVw.K2_code pconst pkey_eqb (fun k : pconst => is_str_const (fst k)) (KInner INone, PInner INone)
              (fun s => (KInner (IStr s), PInner (IStr s))) ECo.pkey_refl ECo.pkey_sym ECo.pkey_trans
              c (cd_blocks d) (cd_freevars d) (cd_type d) code0 lm0 names varnames cellvars constants
              Hcfg Hbw Hnd Hx HB Hlen)
    as (Hcode & (vals & Hvl & Hlm & Hlok & Hfirsts) & Hview).
  rewrite Hlm in Hlt.
  set (L := layout_of (concat (cd_blocks d)) vals 0) in *.
  assert (HLne : L <> []) by (apply ECo.layout_of_nonempty; [exact Hvl|exact Hbne]).
  assert (HLs : cfg_v310 c = false -> forallb (fun x : layout_item => opt_is_some (snd x)) L = true).
  { intros E. rewrite E in Hsome. cbn [orb] in Hsome.
    apply ECo.layout_lines_some. apply ECo.forallb_concat. exact Hsome. }
  destruct (LinesCarried.K2_lines c L (cd_firstline d) table Hlok HLne HLs Hlt) as (_ & _ & Hlines).
  exists constants. split; [reflexivity|]. split.
  { apply (ECo.view_combine pkey_eqb c (cd_blocks d) vals); [exact Hvl|exact Hfirsts|exact Hlines|apply Hview]. }
  unfold view_wf.
  cbn [co_code co_consts co_names co_varnames co_freevars co_cellvars co_linetable co_firstlineno].
  rewrite Hcfg, Hcode, Htab, targets_ok_map. cbn [andb]. rewrite andb_true_r.
  apply (targets_from_view pkey_eqb c (cd_blocks d) code0 names varnames (cd_freevars d) cellvars
           constants [] 0).
  - exact (EVw.wf_jumps c (cd_blocks d) Hbw).
  - apply Hview.
Qed.

(* ------------------------------------------------------------------ *)
(** * 6. The two statements *)

Theorem emitted_view_wf : S_emitted_view_wf.
Proof.
  unfold S_emitted_view_wf. intros c d code Hwf Henc Hlen.
  destruct (emitted_facts c d code Hwf Henc Hlen) as (kst & H1 & _ & H3).
  exists kst. split; assumption.
Qed.

Theorem C03_redecode : S_C03_redecode.
Proof.
  unfold S_C03_redecode. intros c d code Hwf Henc Hlen.
  destruct (emitted_facts c d code Hwf Henc Hlen) as (kst & H1 & H2 & H3).
  exists kst. split; [exact H1|]. intros d2 Hdec.
  rewrite (DecodeView.C02_view c code (map fst kst) d2 H3 Hdec).
  rewrite dis_view_map. unfold fst_view. rewrite view_agrees_fst. exact H2.
Qed.

Print Assumptions emitted_view_wf.
Print Assumptions C03_redecode.
