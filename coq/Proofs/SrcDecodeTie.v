(* Tie between the first loop of Model/Blocks.bytes_to_blocks (decode_instrs) and the body of the decoding loop of
   code_data/_blocks.py:bytes_to_blocks.  The translator checks the fixed part of that body verbatim (the call of to_arg,
   the construction of the Instruction with the two pops out of the line mapping, the append, the removal of the entries of
   the EXTENDED_ARG prefixes) and translates the part that computes: the size override - kept for jumps only, and only when
   the instruction really had prefixes - and the jump target recorded for the block partition (Gen/SrcLines.v, DecodeStep). *)
From PCD Require Import Base.PyBase Base.PyImp Base.Cfg Model.Flags Model.Args Model.Data Model.LineTable Model.Blocks.
From PCD Require Gen.Src Gen.SrcLines.

Module D := PCD.Gen.SrcLines.DecodeStep.

(* the size override the model gives an instruction, and the target it contributes to the partition *)
Definition model_nov {C} (parg : arg_ C) (n_args : Z) : option Z :=
  match parg with AJump _ _ => if n_args >? 1 then Some n_args else None | _ => None end.
Definition arg_is_jump {C} (a : arg_ C) : bool := match a with AJump _ _ => true | _ => false end.
Definition arg_target {C} (a : arg_ C) : Z := match a with AJump t _ => t | _ => 0 end.

Theorem decode_step_tie : forall {C} (parg : arg_ C) n_args a offset next_offset s,
  D.size_and_targets (arg_is_jump parg) (arg_target parg) n_args a offset next_offset s
  = OK (D.mk_st (model_nov parg n_args)
                (match parg with AJump t _ => t :: D.v_targets_set s | _ => D.v_targets_set s end)).
Proof.
  intros C parg n_args a offset next_offset [nov ts]. unfold D.size_and_targets, model_nov.
  destruct parg; cbn [arg_is_jump arg_target]; unfold D.set_v_targets_set, D.set_v_n_args_override;
    cbn [bind D.v_targets_set D.v_n_args_override]; try reflexivity.
Qed.

(* the base of relative jumps handed to to_arg is the offset AFTER the instruction (prefixes included), as in the model's
   decode_instrs (Model/Blocks.v: to_arg c opcode a next_offset ...) *)
Lemma jump_base_tie : forall n_args offset next_offset, D.jump_base n_args offset next_offset = next_offset.
Proof. intros. reflexivity. Qed.

(* decode_instrs uses exactly that override *)
Lemma decode_instrs_nov : forall {C} (keq : C -> C -> bool) c opcode a n_args offset next_offset r freevars lm st parg st1,
  to_arg keq c opcode a next_offset freevars st = OK (parg, st1) ->
  decode_instrs keq c ((opcode, a, n_args, offset, next_offset) :: r) freevars lm st =
  match oget (lm_lines lm) offset with
  | None => Err KeyError
  | Some line =>
      let offs := match oget (lm_adds lm) offset with Some l => l | None => [] end in
      let extra := range2 (offset + 2) next_offset in
      let lines' := fold_left (fun d k => odel d k) extra (odel (lm_lines lm) offset) in
      let adds' := fold_left (fun d k => odel d k) extra (odel (lm_adds lm) offset) in
      match decode_instrs keq c r freevars {| lm_lines := lines'; lm_adds := adds' |} st1 with
      | OK (rest, lm', st') => OK ((offset, mkInstr opcode parg (model_nov parg n_args) line offs) :: rest, lm', st')
      | Err e => Err e
      end
  end.
Proof.
  intros C keq c opcode a n_args offset next_offset r freevars lm st parg st1 H.
  cbn [decode_instrs]. rewrite H. unfold model_nov. reflexivity.
Qed.

Print Assumptions decode_step_tie.
