(* C01 (K3), part 2: flag sets, the header of the code object, and what decode_code exposes. *)
From Coq Require Import ZArith List Bool Lia ZifyBool.
From PCD Require Import Base.PyBase Base.Cfg Model.Flags Model.Args Model.Data Model.Consts
  Model.LineTable Model.Blocks Model.CodeData Spec.Sig Spec.Lnotab Spec.Dis Model.ViewSer
  Proofs.C02_Statements Proofs.C11_Statements Proofs.C01_Statements
  Proofs.FlagsProofs Proofs.ArgsProofs.
From PCD Require Proofs.ConstsProofs.
Import ListNotations. Open Scope Z_scope.

(* ------------------------------------------------------------------ *)
(** * 1. Flag lists as sets of ids *)

Definition fids (l : list flag) : list Z := map flag_id l.

Lemma flag_mem_fids f l : flag_mem f l = true <-> In (flag_id f) (fids l).
Proof.
  unfold flag_mem, fids. rewrite existsb_exists, in_map_iff. unfold flag_eqb. split.
  - intros [g [Hin E]]. exists g. split; [lia|exact Hin].
  - intros [g [E Hin]]. exists g. split; [exact Hin|lia].
Qed.

Lemma flag_mem_fids_false f l : flag_mem f l = false <-> ~ In (flag_id f) (fids l).
Proof.
  rewrite <- flag_mem_fids. destruct (flag_mem f l); split; intros; congruence.
Qed.

Lemma fids_add n g l : In n (fids (flag_add g l)) <-> n = flag_id g \/ In n (fids l).
Proof.
  unfold flag_add. destruct (flag_mem g l) eqn:E.
  - split; [now right|]. intros [->|H]; [now apply flag_mem_fids|exact H].
  - unfold fids. rewrite map_app, in_app_iff. cbn [map In]. intuition.
Qed.

Lemma fids_remove n g l : In n (fids (flag_remove g l)) <-> n <> flag_id g /\ In n (fids l).
Proof.
  unfold fids, flag_remove. rewrite !in_map_iff. split.
  - intros [h [<- Hin]]. apply filter_In in Hin as [Hin E]. unfold flag_eqb in E. split; [lia|].
    exists h. now split.
  - intros [Hn [h [<- Hin]]]. exists h. split; [reflexivity|]. apply filter_In. split; [exact Hin|].
    unfold flag_eqb. lia.
Qed.

Lemma fids_cond_add n (b : bool) g l :
  In n (fids (if b then flag_add g l else l)) <-> (b = true /\ n = flag_id g) \/ In n (fids l).
Proof. destruct b; [rewrite fids_add|]; intuition congruence. Qed.

Lemma flag_value_id tbl f g : flag_id f = flag_id g -> flag_value tbl f = flag_value tbl g.
Proof.
  intros E. induction tbl as [|[h v] tbl IH]; [reflexivity|]. cbn [flag_value]. unfold flag_eqb.
  rewrite E, IH. reflexivity.
Qed.

Lemma In_fids n l : In n (fids l) <-> exists g, In g l /\ flag_id g = n.
Proof. unfold fids. rewrite in_map_iff. split; intros [g [A B]]; exists g; tauto. Qed.

(* from_flags_data only depends on the set of ids *)
Lemma ffd_set_eq c A B w :
  (forall n, In n (fids A) <-> In n (fids B)) ->
  from_flags_data c B = OK w -> from_flags_data c A = OK w.
Proof.
  intros Hset HB.
  assert (Hdef : forall f, In f A -> exists v, flag_value (cfg_flags c) f = Some v).
  { intros f Hf. assert (Hn : In (flag_id f) (fids B)) by (apply Hset, In_fids; eauto).
    apply In_fids in Hn as [g [Hg Eg]]. destruct (ffd_defined c B w HB g Hg) as [v Hv].
    exists v. rewrite <- Hv. now apply flag_value_id. }
  destruct (ffd_ok c A Hdef) as [w' HA]. rewrite HA. f_equal.
  apply Z.bits_inj'. intros n Hn.
  assert (Hx : forall X Y wx wy, (forall n, In n (fids X) -> In n (fids Y)) ->
             from_flags_data c X = OK wx -> from_flags_data c Y = OK wy ->
             Z.testbit wx n = true -> Z.testbit wy n = true).
  { intros X Y wx wy Hsub HX HY Bx. apply (ffd_bits c _ _ HX) in Bx as [f [v [Hin [Hv Bv]]]].
    assert (Hm : In (flag_id f) (fids Y)) by (apply Hsub, In_fids; eauto).
    apply In_fids in Hm as [g [Hg Eg]]. apply (ffd_bits c _ _ HY). exists g, v.
    split; [exact Hg|]. split; [|exact Bv]. rewrite <- Hv. now apply flag_value_id. }
  destruct (Z.testbit w' n) eqn:B1; destruct (Z.testbit w n) eqn:B2; try reflexivity.
  - rewrite (Hx A B w' w (fun n => proj1 (Hset n)) HA HB B1) in B2. discriminate.
  - rewrite (Hx B A w w' (fun n => proj2 (Hset n)) HB HA B2) in B1. discriminate.
Qed.

Lemma pow2_pos v : is_pow2 v = true -> 0 < v.
Proof. unfold is_pow2. lia. Qed.

Lemma ffd_nonneg c fs : flags_wf (cfg_flags c) = true ->
  forall w, from_flags_data c fs = OK w -> 0 <= w.
Proof.
  intros Hwf. destruct (flags_wf_parts _ Hwf) as [_ [Hp2 _]].
  induction fs as [|f fs IH]; cbn [from_flags_data]; intros w H; [inversion H; lia|].
  destruct (flag_value (cfg_flags c) f) as [v|] eqn:Ev; [|discriminate].
  destruct (from_flags_data c fs) as [w'|]; [|discriminate]. inversion H; subst.
  apply flag_value_In in Ev as [g [Hin _]]. apply Hp2 in Hin. cbn [snd] in Hin. apply pow2_pos in Hin.
  apply Z.lor_nonneg. split; [lia|now apply IH].
Qed.

(* the NOFREE bit of the word is set iff NOFREE is in the list *)
Lemma nofree_bit_set c fs w nf : flags_wf (cfg_flags c) = true ->
  from_flags_data c fs = OK w -> flag_value (cfg_flags c) NOFREE = Some nf ->
  flag_mem NOFREE fs = true -> Z.lor w nf = w.
Proof.
  intros Hwf Hw Hnf Hm. apply Z.bits_inj'. intros n Hn. rewrite Z.lor_spec.
  destruct (Z.testbit nf n) eqn:B; [|now rewrite orb_false_r]. rewrite orb_true_r.
  apply flag_mem_fids, In_fids in Hm as [g [Hg Eg]]. symmetry.
  apply (ffd_bits c _ _ Hw). exists g, nf. split; [exact Hg|]. split; [|exact B].
  rewrite <- Hnf. now apply flag_value_id.
Qed.

Lemma nofree_bit_clear c fs w nf : flags_wf (cfg_flags c) = true ->
  from_flags_data c fs = OK w -> flag_value (cfg_flags c) NOFREE = Some nf ->
  flag_mem NOFREE fs = false -> Z.land w (Z.lnot nf) = w.
Proof.
  intros Hwf Hw Hnf Hm. destruct (flags_wf_parts _ Hwf) as [Hids [Hp2 Hvals]].
  apply Z.bits_inj'. intros n Hn. rewrite Z.land_spec, Z.lnot_spec by exact Hn.
  destruct (Z.testbit w n) eqn:Bw; [|reflexivity]. cbn [andb].
  destruct (Z.testbit nf n) eqn:B; [|reflexivity]. exfalso.
  apply (ffd_bits c _ _ Hw) in Bw as [f [v [Hin [Hv Bv]]]].
  apply flag_value_In in Hnf as [g1 [Hin1 E1]]. apply flag_value_In in Hv as [g2 [Hin2 E2]].
  assert (Ev : v = nf).
  { eapply pow2_same_bit; [apply (Hp2 _ Hin2)|apply (Hp2 _ Hin1)|exact Bv|exact B]. }
  subst v. pose proof (snd_distinct_fst _ _ _ _ Hvals Hin1 Hin2). subst g2.
  apply flag_mem_fids_false in Hm. apply Hm. apply In_fids. exists f. split; [exact Hin|congruence].
Qed.

(* ------------------------------------------------------------------ *)
(** * 2. The block type decode_code builds from the flags, and the flags encode_code rebuilds *)

Definition decode_bt (a : args) (constants : list const) (fl4 : list flag)
  : res (option function * list flag) :=
  match filter (fun f => flag_mem f fl4) FN_FLAGS with
  | [] => if negb (args_len a =? 0) then Err ValueError else OK (None, fl4)
  | [_; _] =>
      let docstring := match constants with
                       | KInner (IStr s) :: _ => Some s
                       | _ => None
                       end in
      let tps := filter (fun ft : flag * fntype => flag_mem (fst ft) fl4) FN_TYPE_FLAGS in
      match tps with
      | [] => OK (Some (mkFunction a docstring None),
                  flag_remove OPTIMIZED (flag_remove NEWLOCALS fl4))
      | [(f, t)] => OK (Some (mkFunction a docstring (Some t)),
                        flag_remove OPTIMIZED (flag_remove NEWLOCALS (flag_remove f fl4)))
      | _ => Err AssertionError
      end
  | _ => Err ValueError
  end.

Definition enc_fn_flags (bt : option function) (vpb vkb : bool) : list flag :=
  match bt with
  | Some f =>
      let fl0 := flags_union FN_FLAGS (match fn_type f with Some t => [fntype_flag t] | None => [] end) in
      let fl1 := if vpb then flag_add VARARGS fl0 else fl0 in
      if vkb then flag_add VARKEYWORDS fl1 else fl1
  | None => []
  end.

Definition enc_flags (bt : option function) (vpb vkb nofree ann nested : bool) : list flag :=
  let fl1 := enc_fn_flags bt vpb vkb in
  let fl2 := if nofree then flag_add NOFREE fl1 else fl1 in
  let fl3 := if ann then flag_add F_annotations fl2 else fl2 in
  if nested then flag_add NESTED fl3 else fl3.

Lemma nil_no_ids l : l = [] -> forall n, ~ In n (fids l).
Proof. intros -> n []. Qed.

Lemma bool_iff_mem f l : (flag_mem f l = true <-> In (flag_id f) (fids l)).
Proof. apply flag_mem_fids. Qed.

Ltac close_b :=
  match goal with
  | H : ?b = true <-> ?P, HM : ?P |- ?b = true => apply H; exact HM
  end.
Ltac close_m :=
  match goal with
  | H : ?b = true <-> ?P, Hb : ?b = true |- ?P => apply H; exact Hb
  end.
Ltac pick := first [ left; split; [close_b | reflexivity] | left; reflexivity | right; pick ].
Ltac fwd n :=
  let H := fresh in
  intros H; decompose [or and] H; clear H; try contradiction; subst n;
  first [assumption | close_m].

Lemma flags_equiv a ks fl0 bt vpb vkb :
  flag_mem VARARGS fl0 = vpb -> flag_mem VARKEYWORDS fl0 = vkb ->
  (args_len a = 0 -> vpb = false /\ vkb = false) ->
  let fl1 := flag_remove VARKEYWORDS (flag_remove VARARGS fl0) in
  let fl2 := flag_remove NOFREE fl1 in
  let fl3 := flag_remove F_annotations fl2 in
  let fl4 := flag_remove NESTED fl3 in
  decode_bt a ks fl4 = OK (bt, []) ->
  forall n, In n (fids (enc_flags bt vpb vkb (flag_mem NOFREE fl1) (flag_mem F_annotations fl2)
                                  (flag_mem NESTED fl3)))
            <-> In n (fids fl0).
Proof.
  intros Hvp Hvk Hz fl1 fl2 fl3 fl4 Hbt n.
  set (M := fun n => In n (fids fl0)).
  assert (F1 : forall n, In n (fids fl1) <-> n <> 3 /\ n <> 2 /\ M n).
  { intros m. unfold fl1. rewrite !fids_remove. cbn [flag_id]. unfold M. tauto. }
  assert (F2 : forall n, In n (fids fl2) <-> n <> 6 /\ n <> 3 /\ n <> 2 /\ M n).
  { intros m. unfold fl2. rewrite fids_remove, F1. cbn [flag_id]. tauto. }
  assert (F3 : forall n, In n (fids fl3) <-> n <> 17 /\ n <> 6 /\ n <> 3 /\ n <> 2 /\ M n).
  { intros m. unfold fl3. rewrite fids_remove, F2. cbn [flag_id]. tauto. }
  assert (F4 : forall n, In n (fids fl4) <-> n <> 4 /\ n <> 17 /\ n <> 6 /\ n <> 3 /\ n <> 2 /\ M n).
  { intros m. unfold fl4. rewrite fids_remove, F3. cbn [flag_id]. tauto. }
  assert (Bnf : flag_mem NOFREE fl1 = true <-> M 6).
  { rewrite flag_mem_fids, F1. cbn [flag_id]. intuition lia. }
  assert (Ban : flag_mem F_annotations fl2 = true <-> M 17).
  { rewrite flag_mem_fids, F2. cbn [flag_id]. intuition lia. }
  assert (Bne : flag_mem NESTED fl3 = true <-> M 4).
  { rewrite flag_mem_fids, F3. cbn [flag_id]. intuition lia. }
  assert (Bvp : vpb = true <-> M 2) by (rewrite <- Hvp, flag_mem_fids; reflexivity).
  assert (Bvk : vkb = true <-> M 3) by (rewrite <- Hvk, flag_mem_fids; reflexivity).
  unfold enc_flags. cbv zeta. rewrite !fids_cond_add. cbn [flag_id]. fold (M n).
  generalize dependent (flag_mem NOFREE fl1). generalize dependent (flag_mem F_annotations fl2).
  generalize dependent (flag_mem NESTED fl3). intros bne Bne ban Ban bnf Bnf.
  (* membership of the function flags in fl4 *)
  assert (G : forall g, flag_mem g fl4 = true <->
                flag_id g <> 4 /\ flag_id g <> 17 /\ flag_id g <> 6 /\ flag_id g <> 3 /\ flag_id g <> 2
                /\ M (flag_id g)).
  { intros g. rewrite flag_mem_fids. apply F4. }
  assert (G' : forall g, flag_mem g fl4 = false <->
                ~ (flag_id g <> 4 /\ flag_id g <> 17 /\ flag_id g <> 6 /\ flag_id g <> 3 /\ flag_id g <> 2
                /\ M (flag_id g))).
  { intros g. rewrite <- G. destruct (flag_mem g fl4); intuition congruence. }
  unfold decode_bt in Hbt. unfold FN_FLAGS, FN_TYPE_FLAGS in Hbt. cbn [filter fst] in Hbt.
  destruct (flag_mem NEWLOCALS fl4) eqn:E1; destruct (flag_mem OPTIMIZED fl4) eqn:E0;
    try discriminate Hbt.
  - (* a function *)
    apply G in E1, E0. cbn [flag_id] in E1, E0.
    destruct (flag_mem ASYNC_GENERATOR fl4) eqn:E9; destruct (flag_mem COROUTINE fl4) eqn:E7;
      destruct (flag_mem GENERATOR fl4) eqn:E5; try discriminate Hbt;
      inversion Hbt as [[Hb H5]]; subst bt; clear Hbt;
      pose proof (nil_no_ids _ H5 n) as N5; rewrite !fids_remove, F4 in N5; cbn [flag_id] in N5;
      unfold enc_fn_flags; cbn [fn_type]; cbv zeta; rewrite !fids_cond_add;
      unfold flags_union, FN_FLAGS; cbn [fold_left fntype_flag]; rewrite ?fids_add; cbn [fids map flag_id In];
      destruct E1 as (_ & _ & _ & _ & _ & HM1); destruct E0 as (_ & _ & _ & _ & _ & HM0);
      try (apply G in E9; cbn [flag_id] in E9; destruct E9 as (_ & _ & _ & _ & _ & HM9));
      try (apply G in E7; cbn [flag_id] in E7; destruct E7 as (_ & _ & _ & _ & _ & HM7));
      try (apply G in E5; cbn [flag_id] in E5; destruct E5 as (_ & _ & _ & _ & _ & HM5));
      clear G G' F1 F2 F3 F4; fold (M n) in N5;
      (split; [fwd n|]); intros HM;
      (destruct (Z.eq_dec n 0) as [->|?]; [first [pick|exfalso; apply N5; repeat split; first [assumption|lia]]|]);
      (destruct (Z.eq_dec n 1) as [->|?]; [first [pick|exfalso; apply N5; repeat split; first [assumption|lia]]|]);
      (destruct (Z.eq_dec n 2) as [->|?]; [first [pick|exfalso; apply N5; repeat split; first [assumption|lia]]|]);
      (destruct (Z.eq_dec n 3) as [->|?]; [first [pick|exfalso; apply N5; repeat split; first [assumption|lia]]|]);
      (destruct (Z.eq_dec n 4) as [->|?]; [first [pick|exfalso; apply N5; repeat split; first [assumption|lia]]|]);
      (destruct (Z.eq_dec n 5) as [->|?]; [first [pick|exfalso; apply N5; repeat split; first [assumption|lia]]|]);
      (destruct (Z.eq_dec n 6) as [->|?]; [first [pick|exfalso; apply N5; repeat split; first [assumption|lia]]|]);
      (destruct (Z.eq_dec n 7) as [->|?]; [first [pick|exfalso; apply N5; repeat split; first [assumption|lia]]|]);
      (destruct (Z.eq_dec n 9) as [->|?]; [first [pick|exfalso; apply N5; repeat split; first [assumption|lia]]|]);
      (destruct (Z.eq_dec n 17) as [->|?]; [first [pick|exfalso; apply N5; repeat split; first [assumption|lia]]|]);
      exfalso; apply N5; repeat split; first [assumption|lia].
  - (* not a function *)
    destruct (args_len a =? 0) eqn:Ez; cbn [negb] in Hbt; [|discriminate].
    inversion Hbt as [[Hb H5]]; subst bt; clear Hbt.
    destruct (Hz ltac:(lia)) as [-> ->].
    pose proof (nil_no_ids _ H5 n) as N5. rewrite F4 in N5.
    unfold enc_fn_flags. cbn [fids map In].
    clear G G' F1 F2 F3 F4. fold (M n) in N5.
    split; [fwd n|]. intros HM.
    destruct (Z.eq_dec n 2) as [->|?]; [exfalso; apply Bvp in HM; discriminate|].
    destruct (Z.eq_dec n 3) as [->|?]; [exfalso; apply Bvk in HM; discriminate|].
    destruct (Z.eq_dec n 4) as [->|?]; [pick|].
    destruct (Z.eq_dec n 6) as [->|?]; [pick|].
    destruct (Z.eq_dec n 17) as [->|?]; [pick|].
    exfalso; apply N5; repeat split; first [assumption|lia].
Qed.

(* ------------------------------------------------------------------ *)
(** * 3. The decoded Args and the parameter prefix of co_varnames *)

Ltac split_andb :=
  repeat match goal with
         | H : _ && _ = true |- _ => apply andb_true_iff in H; destruct H
         end.

Lemma args_from_input_split A B K v3 fl :
  args_from_input (zlen A + zlen B) (zlen A) (zlen K) (A ++ B ++ K ++ v3) fl =
    match (if flag_mem VARARGS fl
           then match v3 with [] => Err IndexError | x :: r => OK (Some x, r, flag_remove VARARGS fl) end
           else OK (None, v3, fl)) with
    | Err e => Err e
    | OK (var_positional, v4, fl1) =>
        match (if flag_mem VARKEYWORDS fl1
               then match v4 with [] => Err IndexError | x :: r => OK (Some x, flag_remove VARKEYWORDS fl1) end
               else OK (None, fl1)) with
        | Err e => Err e
        | OK (var_keyword, fl2) =>
            OK ({| a_posonly := A; a_poskw := B; a_varpos := var_positional;
                   a_kwonly := K; a_varkw := var_keyword |}, fl2)
        end
    end.
Proof.
  unfold args_from_input. cbv zeta.
  replace (zlen A + zlen B - zlen A) with (zlen B) by lia.
  rewrite !(slice_to_app A), !(slice_from_app A) by reflexivity.
  rewrite !(slice_to_app B), !(slice_from_app B) by reflexivity.
  rewrite !(slice_to_app K), !(slice_from_app K) by reflexivity.
  reflexivity.
Qed.

(* when the decoder succeeds, *args / **kwargs have a name in co_varnames *)
Lemma args_success_total ac po kw (vn : list str) fl a fl' :
  0 <= po <= ac -> 0 <= kw -> ac + kw <= zlen vn ->
  args_from_input ac po kw vn fl = OK (a, fl') ->
  ac + kw + (if flag_mem VARARGS fl then 1 else 0) + (if flag_mem VARKEYWORDS fl then 1 else 0) <= zlen vn.
Proof.
  intros Hp Hk Hl H.
  destruct (split_varnames ac po kw vn Hp Hk Hl) as [A [B [K [v3 [E [Ep [Ea Ek]]]]]]].
  subst vn po ac kw. rewrite args_from_input_split in H. rewrite !zlen_app.
  assert (Hvk1 : flag_mem VARKEYWORDS (flag_remove VARARGS fl) = flag_mem VARKEYWORDS fl)
    by (apply flag_mem_remove_other; reflexivity).
  pose proof (zlen_nonneg v3) as Hv3.
  destruct (flag_mem VARARGS fl) eqn:Hv.
  - destruct v3 as [|x v4]; [discriminate|]. rewrite Hvk1 in H.
    assert (Z4 : zlen (x :: v4) = zlen v4 + 1) by (unfold zlen; cbn [length]; lia).
    pose proof (zlen_nonneg v4).
    destruct (flag_mem VARKEYWORDS fl) eqn:Hkw; [|lia].
    destruct v4 as [|y v5]; [discriminate|].
    assert (Z5 : zlen (y :: v5) = zlen v5 + 1) by (unfold zlen; cbn [length]; lia).
    pose proof (zlen_nonneg v5). lia.
  - destruct (flag_mem VARKEYWORDS fl) eqn:Hkw; [|lia].
    destruct v3 as [|y v5]; [discriminate|].
    assert (Z5 : zlen (y :: v5) = zlen v5 + 1) by (unfold zlen; cbn [length]; lia).
    pose proof (zlen_nonneg v5). lia.
Qed.

Lemma existsb_firstn_false {A} (p : A -> bool) : forall n l,
  existsb p l = false -> existsb p (firstn n l) = false.
Proof.
  induction n as [|n IH]; intros [|x l] H; try reflexivity. cbn [firstn existsb] in *.
  apply orb_false_iff in H as [H1 H2]. rewrite H1. cbn [orb]. now apply IH.
Qed.

Lemma names_ok_firstn : forall n l, names_ok l = true -> names_ok (firstn n l) = true.
Proof.
  induction n as [|n IH]; intros [|x l] H; try reflexivity.
  rewrite names_ok_unfold in H |- *. cbn [firstn forallb nd_str] in H |- *.
  apply andb_true_iff in H as [H1 H2]. apply andb_true_iff in H1 as [Hx Hf].
  apply andb_true_iff in H2 as [Hn Hd].
  specialize (IH l). rewrite !names_ok_unfold in IH.
  assert (IH2 : forallb (fun s : str => match s with [] => false | _ :: _ => true end) (firstn n l)
                && nd_str (firstn n l) = true) by (apply IH; now rewrite Hf, Hd).
  apply andb_true_iff in IH2 as [I1 I2].
  apply negb_true_iff in Hn. rewrite Hx, I1, I2, (existsb_firstn_false _ n _ Hn). reflexivity.
Qed.

Lemma nodup_str_nd l : nodup_str l = nd_str l.
Proof. induction l as [|x l IH]; [reflexivity|]. cbn [nodup_str nd_str]. now rewrite IH. Qed.

Lemma NoDup_app_disjoint {A} (l1 l2 : list A) x : NoDup (l1 ++ l2) -> In x l1 -> In x l2 -> False.
Proof.
  induction l1 as [|y l1 IH]; intros H H1 H2; [destruct H1|].
  cbn [app] in H. inversion H as [|? ? Hn Hd]; subst. destruct H1 as [->|H1].
  - apply Hn. apply in_or_app. now right.
  - now apply IH.
Qed.

Lemma str_truthy_some (o : option str) : (forall s, o = Some s -> s <> []) -> str_truthy o = is_some o.
Proof. intros _. destruct o as [[|ch s]|]; reflexivity. Qed.

Lemma args_decode_facts ac po kw (vn : list str) fl a fl1 freevars :
  0 <= po <= ac -> 0 <= kw -> ac + kw <= zlen vn -> names_ok vn = true ->
  nodup_str freevars = true ->
  args_from_input ac po kw vn fl = OK (a, fl1) ->
  let total := ac + kw + (if flag_mem VARARGS fl then 1 else 0)
               + (if flag_mem VARKEYWORDS fl then 1 else 0) in
  total <= zlen vn /\ args_len a = total /\ args_to_varnames a = take total vn /\
  fl1 = flag_remove VARKEYWORDS (flag_remove VARARGS fl) /\
  zlen (a_posonly a) + zlen (a_poskw a) = ac /\ zlen (a_posonly a) = po /\ zlen (a_kwonly a) = kw /\
  str_truthy (a_varpos a) = flag_mem VARARGS fl /\ str_truthy (a_varkw a) = flag_mem VARKEYWORDS fl /\
  tables_wf vn freevars a = true.
Proof.
  intros Hp Hk Hl Hn Hfree Hafi total.
  pose proof (args_success_total _ _ _ _ _ _ _ Hp Hk Hl Hafi) as Ht. fold total in Ht.
  assert (Hnt : names_ok (take total vn) = true) by (apply names_ok_firstn; exact Hn).
  destruct (args_is_inspect ac po kw vn fl a fl1 Hp Hk Ht Hnt Hafi) as (_ & Hlen & Hvn & Hfl).
  fold total in Hlen, Hvn.
  destruct (args_facts ac po kw vn fl Hp Hk Ht)
    as [A [B [K [vp [vk [Hafi' [Ep [Ea [Ek [Htake [Hv [Hkw _]]]]]]]]]]]].
  fold total in Htake. rewrite Hafi' in Hafi. inversion Hafi; subst a. clear Hafi. clear H1.
  cbn [a_posonly a_poskw a_kwonly a_varpos a_varkw].
  destruct (names_ok_parts _ Hnt) as [Hne _]. rewrite Htake in Hne.
  assert (Tvp : str_truthy vp = is_some vp).
  { apply str_truthy_some. intros s ->. apply Hne. cbn [opt_list]. rewrite !in_app_iff.
    right. right. right. left. now left. }
  assert (Tvk : str_truthy vk = is_some vk).
  { apply str_truthy_some. intros s ->. apply Hne. cbn [opt_list]. rewrite !in_app_iff.
    right. right. right. right. now left. }
  split; [exact Ht|]. split; [exact Hlen|]. split; [exact Hvn|]. split; [first [exact Hfl|reflexivity]|].
  split; [lia|]. split; [lia|]. split; [lia|]. split; [congruence|]. split; [congruence|].
  (* tables_wf *)
  unfold tables_wf. cbv zeta. rewrite Hlen, Hvn.
  destruct (names_ok_parts _ Hn) as [_ Hnd].
  assert (Hsplit : vn = take total vn ++ drop total vn) by (unfold take, drop; symmetry; apply firstn_skipn).
  repeat (apply andb_true_iff; split).
  - lia.
  - apply forallb_forall. intros x Hx. apply negb_true_iff.
    destruct (existsb (str_eqb x) (drop total vn)) eqn:E; [|reflexivity]. exfalso.
    apply existsb_exists in E as [y [Hy Exy]]. apply str_eqb_spec in Exy. subst y.
    rewrite Hsplit in Hnd. exact (NoDup_app_disjoint _ _ _ Hnd Hx Hy).
  - rewrite nodup_str_nd. rewrite names_ok_unfold in Hnt. split_andb. assumption.
  - now apply ConstsProofs.strlist_eqb_spec.
  - exact Hfree.
Qed.

(* ------------------------------------------------------------------ *)
(** * 4. What a successful decode_code exposes *)

Lemma decode_code_inv c code ks d : decode_code c code ks = OK d ->
  exists lm0 fl0 a fl1 bt lm' next_line lm'',
    to_line_mapping (cfg_v310 c) (co_linetable code) (zlen (co_code code)) = OK lm0 /\
    to_flags_data c (co_flags code) = OK fl0 /\
    args_from_input (co_argcount code) (if cfg_v38 c then co_posonlyargcount code else 0)
      (co_kwonlyargcount code) (co_varnames code) fl0 = OK (a, fl1) /\
    flag_mem NOFREE fl1 = (match co_freevars code, co_cellvars code with [], [] => true | _, _ => false end) /\
    decode_bt a ks (flag_remove NESTED (flag_remove F_annotations (flag_remove NOFREE fl1))) = OK (bt, []) /\
    bytes_to_blocks key_eqb c (co_code code) (modify_line_offsets lm0 (co_firstlineno code))
      (co_names code) (co_varnames code) (co_freevars code) (co_cellvars code) ks bt a
      = OK (cd_blocks d, cd_addargs d, lm') /\
    pop_additional_line lm' (zlen (co_code code)) = OK (next_line, lm'') /\
    d = mkCD (cd_blocks d) (co_filename code) (co_firstlineno code) (co_name code) (co_stacksize code)
             bt (co_freevars code)
             (flag_mem F_annotations (flag_remove NOFREE fl1))
             (flag_mem NESTED (flag_remove F_annotations (flag_remove NOFREE fl1)))
             (match next_line with Some (l, offs) => Some (mkAddline l offs) | None => None end)
             (cd_addargs d).
Proof.
  unfold decode_code. cbv zeta. intros H.
  destruct (to_line_mapping (cfg_v310 c) (co_linetable code) (zlen (co_code code))) as [lm0|] eqn:M;
    [|discriminate].
  destruct (to_flags_data c (co_flags code)) as [fl0|] eqn:F; [|discriminate].
  destruct (args_from_input (co_argcount code) (if cfg_v38 c then co_posonlyargcount code else 0)
              (co_kwonlyargcount code) (co_varnames code) fl0) as [[a fl1]|] eqn:A; [|discriminate].
  match type of H with (if negb (Bool.eqb ?x ?y) then _ else _) = _ =>
    destruct (Bool.eqb x y) eqn:N; cbn [negb] in H; [|discriminate] end.
  apply Bool.eqb_prop in N.
  match type of H with match ?X with _ => _ end = _ =>
    change X with (decode_bt a ks (flag_remove NESTED (flag_remove F_annotations (flag_remove NOFREE fl1)))) in H end.
  destruct (decode_bt a ks (flag_remove NESTED (flag_remove F_annotations (flag_remove NOFREE fl1))))
    as [[bt fl5]|] eqn:B; [|discriminate].
  destruct fl5 as [|? ?]; [|discriminate].
  match type of H with match ?X with _ => _ end = _ => destruct X as [[[blocks addl] lm']|] eqn:BB; [|discriminate] end.
  destruct (pop_additional_line lm' (zlen (co_code code))) as [[next_line lm'']|] eqn:PP; [|discriminate].
  inversion H; subst d. clear H. cbn [cd_blocks cd_addargs].
  exists lm0, fl0, a, fl1, bt, lm', next_line, lm''. repeat split; try assumption; reflexivity.
Qed.

(* the block type is consistent with the constants *)
Lemma decode_bt_consistent a ks fl4 bt fl5 :
  decode_bt a ks fl4 = OK (bt, fl5) -> bt_consistent bt a ks = true.
Proof.
  unfold decode_bt. intros H.
  assert (Hdoc : forall tp, bt_consistent (Some (mkFunction a (match ks with KInner (IStr s) :: _ => Some s | _ => None end) tp)) a ks = true).
  { intros tp. unfold bt_consistent. cbn [fn_args fn_doc].
    rewrite (proj2 (ConstsProofs.args_eqb_spec a a) eq_refl). cbn [andb].
    destruct ks as [|[[]|] r]; try reflexivity. now apply str_eqb_spec. }
  destruct (filter (fun f => flag_mem f fl4) FN_FLAGS) as [|? [|? [|? ?]]]; try discriminate.
  - destruct (args_len a =? 0) eqn:E; cbn [negb] in H; [|discriminate]. inversion H; subst. exact E.
  - cbv zeta in H.
    destruct (filter (fun ft : flag * fntype => flag_mem (fst ft) fl4) FN_TYPE_FLAGS) as [|[fx tx] [|? ?]];
      try discriminate; inversion H; subst; apply Hdoc.
Qed.

Lemma decode_bt_shape a ks fl4 bt fl5 :
  decode_bt a ks fl4 = OK (bt, fl5) ->
  (bt = None /\ args_len a = 0) \/ (exists doc tp, bt = Some (mkFunction a doc tp)).
Proof.
  unfold decode_bt. intros H.
  destruct (filter (fun f => flag_mem f fl4) FN_FLAGS) as [|? [|? [|? ?]]]; try discriminate.
  - destruct (args_len a =? 0) eqn:E; cbn [negb] in H; [|discriminate]. inversion H; subst.
    left. split; [reflexivity|lia].
  - cbv zeta in H.
    destruct (filter (fun ft : flag * fntype => flag_mem (fst ft) fl4) FN_TYPE_FLAGS) as [|[fx tx] [|? ?]];
      try discriminate; inversion H; subst; right; eauto.
Qed.
