(* C01 (K3), part 2: flag sets, the header of the code object, and what decode_code exposes. *)
From Coq Require Import ZArith List Bool Lia ZifyBool.
From PCD Require Import Base.PyBase Base.Cfg Model.Flags Model.Args Model.Data Model.Consts
  Model.LineTable Model.Blocks Model.CodeData Spec.Sig
  Proofs.C11_Statements Proofs.FlagsProofs Proofs.ArgsProofs.
Import ListNotations. Open Scope Z_scope.

(* ------------------------------------------------------------------ *)
(** * 1. Flag lists as sets of ids *)

Definition fids (l : list flag) : list Z := map flag_id l.

Lemma flag_mem_fids f l : flag_mem f l = true <-> In (flag_id f) (fids l).
Proof.
  unfold flag_mem, fids. rewrite existsb_exists, in_map_iff. unfold flag_eqb. split.
  - intros [g [Hin E]]. exists g. split; [lia|exact Hin].
  - intros [g [E Hin]]. exists g. split; [exact Hin|lia].
Qed.

Lemma flag_mem_fids_false f l : flag_mem f l = false <-> ~ In (flag_id f) (fids l).
Proof.
  rewrite <- flag_mem_fids. destruct (flag_mem f l); split; intros; congruence.
Qed.

Lemma fids_add n g l : In n (fids (flag_add g l)) <-> n = flag_id g \/ In n (fids l).
Proof.
  unfold flag_add. destruct (flag_mem g l) eqn:E.
  - split; [now right|]. intros [->|H]; [now apply flag_mem_fids|exact H].
  - unfold fids. rewrite map_app, in_app_iff. cbn [map In]. intuition.
Qed.

Lemma fids_remove n g l : In n (fids (flag_remove g l)) <-> n <> flag_id g /\ In n (fids l).
Proof.
  unfold fids, flag_remove. rewrite !in_map_iff. split.
  - intros [h [<- Hin]]. apply filter_In in Hin as [Hin E]. unfold flag_eqb in E. split; [lia|].
    exists h. now split.
  - intros [Hn [h [<- Hin]]]. exists h. split; [reflexivity|]. apply filter_In. split; [exact Hin|].
    unfold flag_eqb. lia.
Qed.

Lemma fids_cond_add n (b : bool) g l :
  In n (fids (if b then flag_add g l else l)) <-> (b = true /\ n = flag_id g) \/ In n (fids l).
Proof. destruct b; [rewrite fids_add|]; intuition congruence. Qed.

Lemma flag_value_id tbl f g : flag_id f = flag_id g -> flag_value tbl f = flag_value tbl g.
Proof.
  intros E. induction tbl as [|[h v] tbl IH]; [reflexivity|]. cbn [flag_value]. unfold flag_eqb.
  rewrite E, IH. reflexivity.
Qed.

Lemma In_fids n l : In n (fids l) <-> exists g, In g l /\ flag_id g = n.
Proof. unfold fids. rewrite in_map_iff. split; intros [g [A B]]; exists g; tauto. Qed.

(* from_flags_data only depends on the set of ids *)
Lemma ffd_set_eq c A B w :
  (forall n, In n (fids A) <-> In n (fids B)) ->
  from_flags_data c B = OK w -> from_flags_data c A = OK w.
Proof.
  intros Hset HB.
  assert (Hdef : forall f, In f A -> exists v, flag_value (cfg_flags c) f = Some v).
  { intros f Hf. assert (Hn : In (flag_id f) (fids B)) by (apply Hset, In_fids; eauto).
    apply In_fids in Hn as [g [Hg Eg]]. destruct (ffd_defined c B w HB g Hg) as [v Hv].
    exists v. rewrite <- Hv. now apply flag_value_id. }
  destruct (ffd_ok c A Hdef) as [w' HA]. rewrite HA. f_equal.
  apply Z.bits_inj'. intros n Hn.
  assert (Hx : forall X Y wx wy, (forall n, In n (fids X) -> In n (fids Y)) ->
             from_flags_data c X = OK wx -> from_flags_data c Y = OK wy ->
             Z.testbit wx n = true -> Z.testbit wy n = true).
  { intros X Y wx wy Hsub HX HY Bx. apply (ffd_bits c _ _ HX) in Bx as [f [v [Hin [Hv Bv]]]].
    assert (Hm : In (flag_id f) (fids Y)) by (apply Hsub, In_fids; eauto).
    apply In_fids in Hm as [g [Hg Eg]]. apply (ffd_bits c _ _ HY). exists g, v.
    split; [exact Hg|]. split; [|exact Bv]. rewrite <- Hv. now apply flag_value_id. }
  destruct (Z.testbit w' n) eqn:B1; destruct (Z.testbit w n) eqn:B2; try reflexivity.
  - rewrite (Hx A B w' w (fun n => proj1 (Hset n)) HA HB B1) in B2. discriminate.
  - rewrite (Hx B A w w' (fun n => proj2 (Hset n)) HB HA B2) in B1. discriminate.
Qed.

Lemma pow2_pos v : is_pow2 v = true -> 0 < v.
Proof. unfold is_pow2. lia. Qed.

Lemma ffd_nonneg c fs : flags_wf (cfg_flags c) = true ->
  forall w, from_flags_data c fs = OK w -> 0 <= w.
Proof.
  intros Hwf. destruct (flags_wf_parts _ Hwf) as [_ [Hp2 _]].
  induction fs as [|f fs IH]; cbn [from_flags_data]; intros w H; [inversion H; lia|].
  destruct (flag_value (cfg_flags c) f) as [v|] eqn:Ev; [|discriminate].
  destruct (from_flags_data c fs) as [w'|]; [|discriminate]. inversion H; subst.
  apply flag_value_In in Ev as [g [Hin _]]. apply Hp2 in Hin. cbn [snd] in Hin. apply pow2_pos in Hin.
  apply Z.lor_nonneg. split; [lia|now apply IH].
Qed.

(* the NOFREE bit of the word is set iff NOFREE is in the list *)
Lemma nofree_bit_set c fs w nf : flags_wf (cfg_flags c) = true ->
  from_flags_data c fs = OK w -> flag_value (cfg_flags c) NOFREE = Some nf ->
  flag_mem NOFREE fs = true -> Z.lor w nf = w.
Proof.
  intros Hwf Hw Hnf Hm. apply Z.bits_inj'. intros n Hn. rewrite Z.lor_spec.
  destruct (Z.testbit nf n) eqn:B; [|now rewrite orb_false_r]. rewrite orb_true_r.
  apply flag_mem_fids, In_fids in Hm as [g [Hg Eg]]. symmetry.
  apply (ffd_bits c _ _ Hw). exists g, nf. split; [exact Hg|]. split; [|exact B].
  rewrite <- Hnf. now apply flag_value_id.
Qed.

Lemma nofree_bit_clear c fs w nf : flags_wf (cfg_flags c) = true ->
  from_flags_data c fs = OK w -> flag_value (cfg_flags c) NOFREE = Some nf ->
  flag_mem NOFREE fs = false -> Z.land w (Z.lnot nf) = w.
Proof.
  intros Hwf Hw Hnf Hm. destruct (flags_wf_parts _ Hwf) as [Hids [Hp2 Hvals]].
  apply Z.bits_inj'. intros n Hn. rewrite Z.land_spec, Z.lnot_spec by exact Hn.
  destruct (Z.testbit w n) eqn:Bw; [|reflexivity]. cbn [andb].
  destruct (Z.testbit nf n) eqn:B; [|reflexivity]. exfalso.
  apply (ffd_bits c _ _ Hw) in Bw as [f [v [Hin [Hv Bv]]]].
  apply flag_value_In in Hnf as [g1 [Hin1 E1]]. apply flag_value_In in Hv as [g2 [Hin2 E2]].
  assert (Ev : v = nf).
  { eapply pow2_same_bit; [apply (Hp2 _ Hin2)|apply (Hp2 _ Hin1)|exact Bv|exact B]. }
  subst v. pose proof (snd_distinct_fst _ _ _ _ Hvals Hin1 Hin2). subst g2.
  apply flag_mem_fids_false in Hm. apply Hm. apply In_fids. exists f. split; [exact Hin|congruence].
Qed.

(* ------------------------------------------------------------------ *)
(** * 2. The block type decode_code builds from the flags, and the flags encode_code rebuilds *)

Definition decode_bt (a : args) (constants : list const) (fl4 : list flag)
  : res (option function * list flag) :=
  match filter (fun f => flag_mem f fl4) FN_FLAGS with
  | [] => if negb (args_len a =? 0) then Err AssertionError else OK (None, fl4)
  | [_; _] =>
      let docstring := match constants with
                       | KInner (IStr s) :: _ => Some s
                       | _ => None
                       end in
      let tps := filter (fun ft : flag * fntype => flag_mem (fst ft) fl4) FN_TYPE_FLAGS in
      match tps with
      | [] => OK (Some (mkFunction a docstring None),
                  flag_remove OPTIMIZED (flag_remove NEWLOCALS fl4))
      | [(f, t)] => OK (Some (mkFunction a docstring (Some t)),
                        flag_remove OPTIMIZED (flag_remove NEWLOCALS (flag_remove f fl4)))
      | _ => Err AssertionError
      end
  | _ => Err ValueError
  end.

Definition enc_fn_flags (bt : option function) (vpb vkb : bool) : list flag :=
  match bt with
  | Some f =>
      let fl0 := flags_union FN_FLAGS (match fn_type f with Some t => [fntype_flag t] | None => [] end) in
      let fl1 := if vpb then flag_add VARARGS fl0 else fl0 in
      if vkb then flag_add VARKEYWORDS fl1 else fl1
  | None => []
  end.

Definition enc_flags (bt : option function) (vpb vkb nofree ann nested : bool) : list flag :=
  let fl1 := enc_fn_flags bt vpb vkb in
  let fl2 := if nofree then flag_add NOFREE fl1 else fl1 in
  let fl3 := if ann then flag_add F_annotations fl2 else fl2 in
  if nested then flag_add NESTED fl3 else fl3.

Lemma nil_no_ids l : l = [] -> forall n, ~ In n (fids l).
Proof. intros -> n []. Qed.

Lemma bool_iff_mem f l : (flag_mem f l = true <-> In (flag_id f) (fids l)).
Proof. apply flag_mem_fids. Qed.

Ltac by_ids n :=
  destruct (Z.eq_dec n 0) as [->|?]; [intuition (try lia; try congruence)|];
  destruct (Z.eq_dec n 1) as [->|?]; [intuition (try lia; try congruence)|];
  destruct (Z.eq_dec n 2) as [->|?]; [intuition (try lia; try congruence)|];
  destruct (Z.eq_dec n 3) as [->|?]; [intuition (try lia; try congruence)|];
  destruct (Z.eq_dec n 4) as [->|?]; [intuition (try lia; try congruence)|];
  destruct (Z.eq_dec n 5) as [->|?]; [intuition (try lia; try congruence)|];
  destruct (Z.eq_dec n 6) as [->|?]; [intuition (try lia; try congruence)|];
  destruct (Z.eq_dec n 7) as [->|?]; [intuition (try lia; try congruence)|];
  destruct (Z.eq_dec n 9) as [->|?]; [intuition (try lia; try congruence)|];
  destruct (Z.eq_dec n 17) as [->|?]; [intuition (try lia; try congruence)|];
  intuition (try lia; try congruence).

Lemma flags_equiv a ks fl0 bt vpb vkb :
  flag_mem VARARGS fl0 = vpb -> flag_mem VARKEYWORDS fl0 = vkb ->
  (args_len a = 0 -> vpb = false /\ vkb = false) ->
  let fl1 := flag_remove VARKEYWORDS (flag_remove VARARGS fl0) in
  let fl2 := flag_remove NOFREE fl1 in
  let fl3 := flag_remove F_annotations fl2 in
  let fl4 := flag_remove NESTED fl3 in
  decode_bt a ks fl4 = OK (bt, []) ->
  forall n, In n (fids (enc_flags bt vpb vkb (flag_mem NOFREE fl1) (flag_mem F_annotations fl2)
                                  (flag_mem NESTED fl3)))
            <-> In n (fids fl0).
Proof.
  intros Hvp Hvk Hz fl1 fl2 fl3 fl4 Hbt n.
  set (M := fun n => In n (fids fl0)).
  assert (F1 : forall n, In n (fids fl1) <-> n <> 3 /\ n <> 2 /\ M n).
  { intros m. unfold fl1. rewrite !fids_remove. cbn [flag_id]. unfold M. tauto. }
  assert (F2 : forall n, In n (fids fl2) <-> n <> 6 /\ n <> 3 /\ n <> 2 /\ M n).
  { intros m. unfold fl2. rewrite fids_remove, F1. cbn [flag_id]. tauto. }
  assert (F3 : forall n, In n (fids fl3) <-> n <> 17 /\ n <> 6 /\ n <> 3 /\ n <> 2 /\ M n).
  { intros m. unfold fl3. rewrite fids_remove, F2. cbn [flag_id]. tauto. }
  assert (F4 : forall n, In n (fids fl4) <-> n <> 4 /\ n <> 17 /\ n <> 6 /\ n <> 3 /\ n <> 2 /\ M n).
  { intros m. unfold fl4. rewrite fids_remove, F3. cbn [flag_id]. tauto. }
  assert (Bnf : flag_mem NOFREE fl1 = true <-> M 6).
  { rewrite flag_mem_fids, F1. cbn [flag_id]. intuition lia. }
  assert (Ban : flag_mem F_annotations fl2 = true <-> M 17).
  { rewrite flag_mem_fids, F2. cbn [flag_id]. intuition lia. }
  assert (Bne : flag_mem NESTED fl3 = true <-> M 4).
  { rewrite flag_mem_fids, F3. cbn [flag_id]. intuition lia. }
  assert (Bvp : vpb = true <-> M 2) by (rewrite <- Hvp, flag_mem_fids; reflexivity).
  assert (Bvk : vkb = true <-> M 3) by (rewrite <- Hvk, flag_mem_fids; reflexivity).
  unfold enc_flags. cbv zeta. rewrite !fids_cond_add. cbn [flag_id]. fold (M n).
  generalize dependent (flag_mem NOFREE fl1). generalize dependent (flag_mem F_annotations fl2).
  generalize dependent (flag_mem NESTED fl3). intros bne Bne ban Ban bnf Bnf.
  (* membership of the function flags in fl4 *)
  assert (G : forall g, flag_mem g fl4 = true <->
                flag_id g <> 4 /\ flag_id g <> 17 /\ flag_id g <> 6 /\ flag_id g <> 3 /\ flag_id g <> 2
                /\ M (flag_id g)).
  { intros g. rewrite flag_mem_fids. apply F4. }
  assert (G' : forall g, flag_mem g fl4 = false <->
                ~ (flag_id g <> 4 /\ flag_id g <> 17 /\ flag_id g <> 6 /\ flag_id g <> 3 /\ flag_id g <> 2
                /\ M (flag_id g))).
  { intros g. rewrite <- G. destruct (flag_mem g fl4); intuition congruence. }
  unfold decode_bt in Hbt. unfold FN_FLAGS, FN_TYPE_FLAGS in Hbt. cbn [filter fst] in Hbt.
  destruct (flag_mem NEWLOCALS fl4) eqn:E1; destruct (flag_mem OPTIMIZED fl4) eqn:E0;
    try discriminate Hbt.
  - (* a function *)
    apply G in E1, E0. cbn [flag_id] in E1, E0.
    destruct (flag_mem ASYNC_GENERATOR fl4) eqn:E9; destruct (flag_mem COROUTINE fl4) eqn:E7;
      destruct (flag_mem GENERATOR fl4) eqn:E5; try discriminate Hbt;
      inversion Hbt as [[Hb H5]]; subst bt; clear Hbt;
      pose proof (nil_no_ids _ H5 n) as N5; rewrite !fids_remove, F4 in N5; cbn [flag_id] in N5;
      unfold enc_fn_flags; cbn [fn_type]; cbv zeta; rewrite !fids_cond_add;
      unfold flags_union, FN_FLAGS; cbn [fold_left fntype_flag]; rewrite ?fids_add; cbn [fids map flag_id In];
      pose proof (G ASYNC_GENERATOR) as G9; rewrite E9 in G9;
      pose proof (G COROUTINE) as G7; rewrite E7 in G7;
      pose proof (G GENERATOR) as G5; rewrite E5 in G5; cbn [flag_id] in *; clear G G' F1 F2 F3 F4;
      by_ids n.
  - (* not a function *)
    destruct (args_len a =? 0) eqn:Ez; cbn [negb] in Hbt; [|discriminate].
    inversion Hbt as [[Hb H5]]; subst bt; clear Hbt.
    destruct (Hz ltac:(lia)) as [-> ->].
    pose proof (nil_no_ids _ H5 n) as N5. rewrite F4 in N5.
    unfold enc_fn_flags. cbn [fids map In].
    by_ids n.
Qed.
