(* Tie between the header case analysis of Model/CodeData.decode_code and its translation from
   code_data/_code_data.py:to_code_data regenerated on every run (Gen/SrcHeader.v), for all inputs. *)
From PCD Require Import Base.PyBase Base.Cfg Model.Flags Model.Args Model.Data Model.Consts Model.LineTable
  Model.Blocks Model.CodeData.
From PCD Require Gen.Src Gen.SrcHeader.

Module Hd := PCD.Gen.SrcHeader.Header.

Definition doc_of (constants : list const) : option str :=
  match constants with KInner (IStr s) :: _ => Some s | _ => None end.

(* the segment of decode_code between args_from_input and bytes_to_blocks, verbatim *)
Definition model_header (a : args) (constants : list const) (nofree_expected : bool) (fl1 : list flag)
  : res (option function * bool * bool) :=
  if negb (Bool.eqb (flag_mem NOFREE fl1) nofree_expected) then Err AssertionError else
  let fl2 := flag_remove NOFREE fl1 in
  let annotations := flag_mem F_annotations fl2 in
  let fl3 := flag_remove F_annotations fl2 in
  let nested := flag_mem NESTED fl3 in
  let fl4 := flag_remove NESTED fl3 in
  let fn_flags := filter (fun f => flag_mem f fl4) FN_FLAGS in
  match (match fn_flags with
         | [] => if negb (args_len a =? 0) then Err ValueError else OK (None, fl4)
         | [_; _] =>
             let docstring := match constants with
                              | KInner (IStr s) :: _ => Some s
                              | _ => None
                              end in
             let tps := filter (fun ft : flag * fntype => flag_mem (fst ft) fl4) FN_TYPE_FLAGS in
             match tps with
             | [] => OK (Some (mkFunction a docstring None),
                         flag_remove OPTIMIZED (flag_remove NEWLOCALS fl4))
             | [(f, t)] => OK (Some (mkFunction a docstring (Some t)),
                               flag_remove OPTIMIZED (flag_remove NEWLOCALS (flag_remove f fl4)))
             | _ => Err AssertionError
             end
         | _ => Err ValueError
         end) with
  | Err e => Err e
  | OK (block_type, fl5) =>
      match fl5 with
      | _ :: _ => Err ValueError
      | [] => OK (block_type, annotations, nested)
      end
  end.

(* decode_code is: line mapping, flags, args, this header, blocks, trailing line *)
Lemma decode_code_factors : forall c code constants,
  decode_code c code constants =
  let posonly := if cfg_v38 c then co_posonlyargcount code else 0 in
  let len_code := zlen (co_code code) in
  match to_line_mapping (cfg_v310 c) (co_linetable code) len_code with
  | Err e => Err e
  | OK lm0 =>
  let lm := modify_line_offsets lm0 (co_firstlineno code) in
  match to_flags_data c (co_flags code) with
  | Err e => Err e
  | OK fl0 =>
  match args_from_input (co_argcount code) posonly (co_kwonlyargcount code) (co_varnames code) fl0 with
  | Err e => Err e
  | OK (a, fl1) =>
  match model_header a constants
          (match co_freevars code, co_cellvars code with [], [] => true | _, _ => false end) fl1 with
  | Err e => Err e
  | OK (block_type, annotations, nested) =>
  match bytes_to_blocks key_eqb c (co_code code) lm (co_names code) (co_varnames code)
          (co_freevars code) (co_cellvars code) constants block_type a with
  | Err e => Err e
  | OK (blocks, additional, lm') =>
  match pop_additional_line lm' len_code with
  | Err e => Err e
  | OK (next_line, _) =>
      OK (mkCD blocks (co_filename code) (co_firstlineno code) (co_name code) (co_stacksize code)
               block_type (co_freevars code) annotations nested
               (match next_line with Some (l, offs) => Some (mkAddline l offs) | None => None end)
               additional)
  end end end end end end.
Proof.
  intros c code constants. unfold decode_code, model_header. cbv zeta.
  destruct (to_line_mapping _ _ _) as [lm0|]; [|reflexivity].
  destruct (to_flags_data _ _) as [fl0|]; [|reflexivity].
  destruct (args_from_input _ _ _ _ _) as [[a fl1]|]; [|reflexivity].
  destruct (negb _); [reflexivity|].
  match goal with |- match ?X with _ => _ end = _ => destruct X as [[bt fl5]|] end; [|reflexivity].
  destruct fl5; reflexivity.
Qed.

Theorem header_tie : forall a constants nofree fl1,
  Hd.header a (doc_of constants) nofree fl1 = model_header a constants nofree fl1.
Proof.
  intros a constants nofree fl1. unfold Hd.header, model_header, Hd.kinds_of.
  assert (E1 : PCD.Gen.Src.FN_FLAGS = FN_FLAGS) by reflexivity.
  assert (E2 : filter (fun ft : flag * fntype => flag_mem (fst ft) PCD.Gen.Src.FN_TYPE_FLAGS) FN_TYPE_FLAGS = FN_TYPE_FLAGS)
    by (vm_compute; reflexivity).
  rewrite E1, E2. clear E1 E2.
  destruct (negb (Bool.eqb (flag_mem NOFREE fl1) nofree)); [reflexivity|].
  cbv zeta. cbn [fold_left].
  set (fl4 := flag_remove NESTED (flag_remove F_annotations (flag_remove NOFREE fl1))).
  unfold FN_FLAGS, FN_TYPE_FLAGS. cbn [filter fst].
  destruct (flag_mem NEWLOCALS fl4), (flag_mem OPTIMIZED fl4); cbn [zlen length Z.of_nat Z.eqb Pos.of_succ_nat Pos.eqb Pos.succ];
    try reflexivity.
  all: repeat match goal with |- context [flag_mem ?f ?fl] => destruct (flag_mem f fl) end;
    cbn [zlen length Z.of_nat Z.eqb Pos.of_succ_nat Pos.eqb Pos.succ orb negb hd_error option_map fst snd bind fold_left];
    try reflexivity.
  all: unfold doc_of; repeat match goal with
       | |- context [match ?l with [] => _ | _ :: _ => _ end] => destruct l
       | |- context [if ?b then _ else _] => destruct b
       end; reflexivity.
Qed.

Print Assumptions header_tie.
Print Assumptions decode_code_factors.
