(* Tie between the header case analysis of Model/CodeData.decode_code and its translation from
   code_data/_code_data.py:to_code_data regenerated on every run (Gen/SrcHeader.v), for all inputs. *)
From PCD Require Import Base.PyBase Base.Cfg Model.Flags Model.Args Model.Data Model.Consts Model.LineTable
  Model.Blocks Model.CodeData.
From PCD Require Gen.Src Gen.SrcHeader.

Module Hd := PCD.Gen.SrcHeader.Header.

Definition doc_of (constants : list const) : option str :=
  match constants with KInner (IStr s) :: _ => Some s | _ => None end.

(* the segment of decode_code between args_from_input and bytes_to_blocks, verbatim *)
Definition model_header (a : args) (constants : list const) (nofree_expected : bool) (fl1 : list flag)
  : res (option function * bool * bool) :=
  if negb (Bool.eqb (flag_mem NOFREE fl1) nofree_expected) then Err AssertionError else
  let fl2 := flag_remove NOFREE fl1 in
  let annotations := flag_mem F_annotations fl2 in
  let fl3 := flag_remove F_annotations fl2 in
  let nested := flag_mem NESTED fl3 in
  let fl4 := flag_remove NESTED fl3 in
  let fn_flags := filter (fun f => flag_mem f fl4) FN_FLAGS in
  match (match fn_flags with
         | [] => if negb (args_len a =? 0) then Err ValueError else OK (None, fl4)
         | [_; _] =>
             let docstring := match constants with
                              | KInner (IStr s) :: _ => Some s
                              | _ => None
                              end in
             let tps := filter (fun ft : flag * fntype => flag_mem (fst ft) fl4) FN_TYPE_FLAGS in
             match tps with
             | [] => OK (Some (mkFunction a docstring None),
                         flag_remove OPTIMIZED (flag_remove NEWLOCALS fl4))
             | [(f, t)] => OK (Some (mkFunction a docstring (Some t)),
                               flag_remove OPTIMIZED (flag_remove NEWLOCALS (flag_remove f fl4)))
             | _ => Err AssertionError
             end
         | _ => Err ValueError
         end) with
  | Err e => Err e
  | OK (block_type, fl5) =>
      match fl5 with
      | _ :: _ => Err ValueError
      | [] => OK (block_type, annotations, nested)
      end
  end.

(* decode_code is: line mapping, flags, args, this header, blocks, trailing line *)
Lemma decode_code_factors : forall c code constants,
  decode_code c code constants =
  let posonly := if cfg_v38 c then co_posonlyargcount code else 0 in
  let len_code := zlen (co_code code) in
  match to_line_mapping (cfg_v310 c) (co_linetable code) len_code with
  | Err e => Err e
  | OK lm0 =>
  let lm := modify_line_offsets lm0 (co_firstlineno code) in
  match to_flags_data c (co_flags code) with
  | Err e => Err e
  | OK fl0 =>
  match args_from_input (co_argcount code) posonly (co_kwonlyargcount code) (co_varnames code) fl0 with
  | Err e => Err e
  | OK (a, fl1) =>
  match model_header a constants
          (match co_freevars code, co_cellvars code with [], [] => true | _, _ => false end) fl1 with
  | Err e => Err e
  | OK (block_type, annotations, nested) =>
  match bytes_to_blocks key_eqb c (co_code code) lm (co_names code) (co_varnames code)
          (co_freevars code) (co_cellvars code) constants block_type a with
  | Err e => Err e
  | OK (blocks, additional, lm') =>
  match pop_additional_line lm' len_code with
  | Err e => Err e
  | OK (next_line, _) =>
      OK (mkCD blocks (co_filename code) (co_firstlineno code) (co_name code) (co_stacksize code)
               block_type (co_freevars code) annotations nested
               (match next_line with Some (l, offs) => Some (mkAddline l offs) | None => None end)
               additional)
  end end end end end end.
Proof.
  intros c code constants. unfold decode_code, model_header. cbv zeta.
  destruct (to_line_mapping _ _ _) as [lm0|]; [|reflexivity].
  destruct (to_flags_data _ _) as [fl0|]; [|reflexivity].
  destruct (args_from_input _ _ _ _ _) as [[a fl1]|]; [|reflexivity].
  destruct (negb _); [reflexivity|].
  match goal with |- match ?X with _ => _ end = _ => destruct X as [[bt fl5]|] end; [|reflexivity].
  destruct fl5; reflexivity.
Qed.

Theorem header_tie : forall a constants nofree fl1,
  Hd.header a (doc_of constants) nofree fl1 = model_header a constants nofree fl1.
Proof.
  intros a constants nofree fl1. unfold Hd.header, model_header, Hd.kinds_of.
  assert (E1 : PCD.Gen.Src.FN_FLAGS = FN_FLAGS) by reflexivity.
  assert (E2 : filter (fun ft : flag * fntype => flag_mem (fst ft) PCD.Gen.Src.FN_TYPE_FLAGS) FN_TYPE_FLAGS = FN_TYPE_FLAGS)
    by (vm_compute; reflexivity).
  rewrite E1, E2. clear E1 E2.
  destruct (negb (Bool.eqb (flag_mem NOFREE fl1) nofree)); [reflexivity|].
  cbv zeta. cbn [fold_left].
  set (fl4 := flag_remove NESTED (flag_remove F_annotations (flag_remove NOFREE fl1))).
  unfold FN_FLAGS, FN_TYPE_FLAGS. cbn [filter fst].
  destruct (flag_mem NEWLOCALS fl4), (flag_mem OPTIMIZED fl4); cbn [zlen length Z.of_nat Z.eqb Pos.of_succ_nat Pos.eqb Pos.succ];
    try reflexivity.
  all: repeat match goal with |- context [flag_mem ?f ?fl] => destruct (flag_mem f fl) end;
    cbn [zlen length Z.of_nat Z.eqb Pos.of_succ_nat Pos.eqb Pos.succ orb negb hd_error option_map fst snd bind fold_left];
    try reflexivity.
  all: unfold doc_of; repeat match goal with
       | |- context [match ?l with [] => _ | _ :: _ => _ end] => destruct l
       | |- context [if ?b then _ else _] => destruct b
       end; reflexivity.
Qed.

Print Assumptions header_tie.
Print Assumptions decode_code_factors.

(** * the encoder's header: how from_code_data assembles flags and argument counts *)

Module Eh := PCD.Gen.SrcHeader.EncodeHeader.

(* the corresponding pieces of encode_code, verbatim *)
Definition model_encode_header (ty : option function) (varnames : list str)
  (freevars_empty cellvars_empty future_annotations nested : bool) : res (Z * Z * Z * list flag) :=
  let fl0 := match ty with
             | Some f => flags_union FN_FLAGS (match fn_type f with Some t => [fntype_flag t] | None => [] end)
             | None => []
             end in
  match (match ty with
         | Some f =>
             let '(ac, pc, kc, vn, fl) := args_to_input (fn_args f) fl0 in
             if list_eqb str_eqb (take (zlen vn) varnames) vn then OK (ac, pc, kc, fl)
             else Err AssertionError
         | None => OK (0, 0, 0, fl0)
         end) with
  | Err e => Err e
  | OK (argcount, posonly, kwonly, fl1) =>
      let fl2 := if freevars_empty && cellvars_empty then flag_add NOFREE fl1 else fl1 in
      let fl3 := if future_annotations then flag_add F_annotations fl2 else fl2 in
      let fl4 := if nested then flag_add NESTED fl3 else fl3 in
      OK (argcount, posonly, kwonly, fl4)
  end.

From PCD Require Proofs.SrcArgsTie.

Theorem encode_header_tie : forall ty varnames fe ce fa ne,
  Eh.header ty varnames fe ce fa ne = model_encode_header ty varnames fe ce fa ne.
Proof.
  intros ty varnames fe ce fa ne. unfold Eh.header, model_encode_header. cbv zeta.
  assert (E1 : flags_union [] PCD.Gen.Src.FN_FLAGS = FN_FLAGS) by (vm_compute; reflexivity).
  rewrite E1. destruct ty as [f|]; [|reflexivity].
  rewrite SrcArgsTie.args_to_input_tie.
  assert (E2 : match fn_type f with
               | Some t => flag_add (fntype_flag t) FN_FLAGS
               | None => FN_FLAGS
               end = flags_union FN_FLAGS match fn_type f with Some t => [fntype_flag t] | None => [] end).
  { destruct (fn_type f); reflexivity. }
  rewrite E2.
  destruct (args_to_input (fn_args f) _) as [[[[ac pc] kc] vn] fl].
  destruct (list_eqb str_eqb (take (zlen vn) varnames) vn); reflexivity.
Qed.

(* encode_code assembles its header exactly so *)
Lemma encode_code_header : forall c d code lm0 names varnames cellvars constants,
  blocks_to_bytes pkey_eqb (fun k => is_str_const (fst k)) (KInner INone, PInner INone)
     (fun s => (KInner (IStr s), PInner (IStr s))) c (cd_blocks d) (cd_addargs d) (cd_freevars d) (cd_type d)
  = OK (code, lm0, names, varnames, cellvars, constants) ->
  encode_code c d =
  match model_encode_header (cd_type d) varnames
          (match cd_freevars d with [] => true | _ => false end) (match cellvars with [] => true | _ => false end)
          (cd_future_annotations d) (cd_nested d) with
  | Err e => Err e
  | OK (argcount, posonly, kwonly, fl4) =>
      let lm1 := match cd_addline d with
                 | Some al => add_additional_line lm0 (al_line al) (al_offs al) (zlen code)
                 | None => lm0
                 end in
      match from_flags_data c fl4 with
      | Err e => Err e
      | OK flags =>
          match from_line_mapping (cfg_v310 c) (modify_line_offsets lm1 (- cd_firstline d)) with
          | Err e => Err e
          | OK table =>
              if negb (cfg_v38 c) && negb (posonly =? 0) then Err NotImplementedError
              else pycode_new c argcount posonly kwonly (zlen varnames) (cd_stacksize d) flags code (map snd constants)
                              names varnames (cd_filename d) (cd_name d) (cd_firstline d) table
                              (cd_freevars d) cellvars
          end
      end
  end.
Proof.
  intros c d code lm0 names varnames cellvars constants H. unfold encode_code. rewrite H. cbv zeta.
  unfold model_encode_header. cbv zeta.
  match goal with |- match ?X with _ => _ end = match match ?Y with _ => _ end with _ => _ end =>
    change Y with X; destruct X as [[[[ac pc] kc] fl]|] end; [|reflexivity].
  destruct (cd_freevars d), cellvars; reflexivity.
Qed.

Print Assumptions encode_header_tie.
