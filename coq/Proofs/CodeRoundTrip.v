(* C06, the code-round-trip clause: the normal form of decoded data is stable under to_code followed
   by from_code, up to the equality of CodeData values.

   The statement S_C06_code_roundtrip of C06b_Statements.v quantifies over every configuration and is
   false for configurations whose flag table is ill-formed or does not name CO_NOFREE (two
   machine-checked counterexamples below).  This file proves the statement for configurations with
   [cfg_flags_ok] (true of the four generated ones): [C06_code_roundtrip_cfg], and shows both parts of
   that premise are needed.
   History: an earlier version of the library tested Args.var_positional / var_keyword by truth value,
   and a code object whose *args name is "" lost CO_VARARGS on the way back; that was a third
   counterexample (real 3.9 configuration).  The library now tests [is not None]; the former witness
   round-trips (Example former_witness_roundtrips). *)
From Coq Require Import ZArith List Bool Lia ZifyBool.
From PCD Require Import Base.PyBase Base.Cfg Model.Flags Model.Args Model.Data Model.Consts
  Model.LineTable Model.Blocks Model.CodeData Spec.Lnotab Spec.Dis Model.ViewSer
  Proofs.C02_Statements Proofs.C11_Statements Proofs.C01_Statements Proofs.C03_Statements
  Proofs.C03b_Statements Proofs.C03c_Statements Proofs.C06_Statements Proofs.C03d_Statements
  Proofs.NormalFormWf Proofs.C06b_Statements.
From PCD Require Proofs.ConstsProofs Proofs.RelaxProofs Proofs.EncodeLines Proofs.EncodeView
  Proofs.LinesCarried Proofs.EncodeCorrect Proofs.DecodeView Proofs.LT_Lnotab Proofs.Redecode1
  Proofs.Redecode Proofs.NormalizeProofs Proofs.NormalizePreserves Proofs.RoundTrip2
  Proofs.CodeRoundTrip1 Proofs.CodeRoundTrip2.
From PCD Require Gen.Cfg37 Gen.Cfg38 Gen.Cfg39 Gen.Cfg310.
Import ListNotations. Open Scope Z_scope.

Module EVw := EncodeView.
Module ECo := EncodeCorrect.
Module R1 := Redecode1.
Module RD := Redecode.
Module CP := ConstsProofs.
Module NP := NormalizeProofs.
Module NPr := NormalizePreserves.
Module H := CodeRoundTrip1.
Module B := CodeRoundTrip2.

(* ------------------------------------------------------------------ *)
(** * 1. The emitted code, with the constants table named (Redecode.emitted_facts hides it) *)

Lemma emitted_facts_k c (d : code_data_ pconst) code code0 lm0 names varnames cellvars constants :
  data_wf c d = true ->
  encode_code c d = OK code ->
  zlen (co_code code) < 1073741824 ->
  ECo.b2b c d = OK (code0, lm0, names, varnames, cellvars, constants) ->
  view_agrees pkey_eqb (data_view (cd_blocks d))
    (dis_view c (co_code code) (co_names code) (co_varnames code) (co_freevars code)
              (co_cellvars code) constants (raw_entries (co_linetable code)) (co_firstlineno code)) = true /\
  view_wf c code (map fst constants) = true /\
  co_code code <> [].
Proof.
  intros Hwf Henc Hlen HB0.
  unfold data_wf in Hwf.
  apply andb_true_iff in Hwf as [Hwf Hty]. apply andb_true_iff in Hwf as [Hwf Hfvl].
  apply andb_true_iff in Hwf as [Hwf Hnd]. apply andb_true_iff in Hwf as [Hwf Hsome].
  apply andb_true_iff in Hwf as [Hwf Hal]. apply andb_true_iff in Hwf as [Hwf Haa].
  apply andb_true_iff in Hwf as [Hwf Hbw]. apply andb_true_iff in Hwf as [Hwf Hx2].
  apply andb_true_iff in Hwf as [Hcfg Hx1].
  assert (Haa' : cd_addargs d = []) by (destruct (cd_addargs d); [reflexivity|discriminate]).
  assert (Hal' : cd_addline d = None) by (destruct (cd_addline d); [discriminate|reflexivity]).
  destruct (ECo.encode_inv c d code Hal' Henc)
    as (code0' & lm0' & names' & varnames' & cellvars' & constants' & ac & pc & kc & flags & table
        & HB & Hargs & Hlt & ->).
  rewrite HB0 in HB. inversion HB; subst code0' lm0' names' varnames' cellvars' constants'. clear HB.
  rename HB0 into HB.
  cbn [co_code co_consts co_names co_varnames co_freevars co_cellvars co_linetable co_firstlineno] in *.
  unfold ECo.b2b in HB. rewrite Haa' in HB.
  assert (Hx : EVw.k2_extra c (cd_type d) (cd_freevars d) = true).
  { unfold EVw.k2_extra. rewrite Hx1, Hx2, Hfvl. exact Hty. }
  assert (Hnov : Forall EVw.nov (concat (cd_blocks d))).
  { exact (@EVw.wf_nov pconst pkey_eqb (KInner INone, PInner INone) ECo.pkey_refl ECo.pkey_sym
             ECo.pkey_trans c (cd_blocks d) Hbw). }
  assert (Hbne : concat (cd_blocks d) <> []).
  { apply ECo.concat_nonempty; [|eapply EVw.wf_nonempty; exact Hbw].
    unfold blocks_wf in Hbw. apply andb_true_iff in Hbw as [_ Hb].
    destruct (cd_blocks d); [discriminate|discriminate]. }
  assert (Htab : table_ok c table (zlen code0) = true).
  { destruct (RD.code_len_layout _ _ _ _ c (cd_blocks d) (cd_freevars d) (cd_type d) code0 lm0 names
                varnames cellvars constants Hnov HB) as (vals' & Hvl' & Hlm' & Hlok' & Hzl).
    rewrite Hzl. rewrite Hlm' in Hlt.
    apply (R1.table_ok_layout c _ (cd_firstline d) table Hlok').
    - apply ECo.layout_of_nonempty; [exact Hvl'|exact Hbne].
    - intros E. rewrite E in Hsome. cbn [orb] in Hsome.
      apply ECo.layout_lines_some. apply ECo.forallb_concat. exact Hsome.
    - exact Hlt. }
  destruct (EVw.K2_code pconst pkey_eqb (fun k : pconst => is_str_const (fst k)) (KInner INone, PInner INone)
              (fun s => (KInner (IStr s), PInner (IStr s))) ECo.pkey_refl ECo.pkey_sym ECo.pkey_trans
              c (cd_blocks d) (cd_freevars d) (cd_type d) code0 lm0 names varnames cellvars constants
              Hcfg Hbw Hnd Hx HB Hlen)
    as (Hcode & (vals & Hvl & Hlm & Hlok & Hfirsts) & Hview).
  rewrite Hlm in Hlt.
  set (L := layout_of (concat (cd_blocks d)) vals 0) in *.
  assert (HLne : L <> []) by (apply ECo.layout_of_nonempty; [exact Hvl|exact Hbne]).
  assert (HLs : cfg_v310 c = false -> forallb (fun x : layout_item => opt_is_some (snd x)) L = true).
  { intros E. rewrite E in Hsome. cbn [orb] in Hsome.
    apply ECo.layout_lines_some. apply ECo.forallb_concat. exact Hsome. }
  destruct (LinesCarried.K2_lines c L (cd_firstline d) table Hlok HLne HLs Hlt) as (_ & _ & Hlines).
  assert (Hagree : view_agrees pkey_eqb (data_view (cd_blocks d))
            (dis_view c code0 names varnames (cd_freevars d) cellvars constants (raw_entries table) (cd_firstline d)) = true).
  { apply (ECo.view_combine pkey_eqb c (cd_blocks d) vals); [exact Hvl|exact Hfirsts|exact Hlines|apply Hview]. }
  split; [exact Hagree|]. split.
  - unfold view_wf.
    cbn [co_code co_consts co_names co_varnames co_freevars co_cellvars co_linetable co_firstlineno].
    rewrite Hcfg, Hcode, Htab, RD.targets_ok_map. cbn [andb]. rewrite andb_true_r.
    apply (RD.targets_from_view pkey_eqb c (cd_blocks d) code0 names varnames (cd_freevars d) cellvars
             constants [] 0).
    + exact (EVw.wf_jumps c (cd_blocks d) Hbw).
    + apply Hview.
  - intros ->. apply B.view_agrees_F2 in Hagree. cbn in Hagree.
    inversion Hagree as [Hd|]. apply Hbne. unfold data_view in Hd.
    destruct (concat (cd_blocks d)); [reflexivity|discriminate].
Qed.

(* ------------------------------------------------------------------ *)
(** * 2. What well-formed data says about the private fields; the fields the pairing keeps *)

Lemma wf_no_ov c (d : code_data_ pconst) : data_wf c d = true ->
  cd_addline d = None /\ cd_addargs d = [] /\ Forall H.no_const_ov (concat (cd_blocks d)).
Proof.
  intros Hwf. unfold data_wf in Hwf.
  apply andb_true_iff in Hwf as [Hwf _]. apply andb_true_iff in Hwf as [Hwf _].
  apply andb_true_iff in Hwf as [Hwf _]. apply andb_true_iff in Hwf as [Hwf _].
  apply andb_true_iff in Hwf as [Hwf Hal]. apply andb_true_iff in Hwf as [Hwf Haa].
  apply andb_true_iff in Hwf as [_ Hbw].
  split; [destruct (cd_addline d); [discriminate|reflexivity]|].
  split; [destruct (cd_addargs d); [reflexivity|discriminate]|].
  unfold blocks_wf in Hbw. apply andb_true_iff in Hbw as [Hbw _]. apply andb_true_iff in Hbw as [Hbw _].
  apply andb_true_iff in Hbw as [_ Hfits]. apply ECo.forallb_concat in Hfits.
  rewrite forallb_forall in Hfits. apply Forall_forall. intros i Hi. specialize (Hfits i Hi).
  unfold instr_fits in Hfits. cbv zeta in Hfits. apply andb_true_iff in Hfits as [_ Hfits].
  unfold H.no_const_ov. destruct (i_arg i) as [z|t r|s ov|s ov|k ov|s|s ov|z]; try exact I.
  destruct ov; [|exact I]. cbn [opt_is_some negb] in Hfits. now rewrite andb_false_r in Hfits.
Qed.

Lemma mapM_cd_fields {C D} (f : C -> res D) (d : code_data_ C) d' : mapM_cd f d = OK d' ->
  cd_type d' = cd_type d /\ cd_future_annotations d' = cd_future_annotations d /\
  cd_freevars d' = cd_freevars d /\ cd_stacksize d' = cd_stacksize d /\ cd_firstline d' = cd_firstline d
  /\ cd_name d' = cd_name d /\ cd_filename d' = cd_filename d.
Proof.
  unfold mapM_cd. intros H.
  destruct (mapM (mapM (mapM_instr f)) (cd_blocks d)); [|discriminate].
  destruct (mapM (mapM_arg f) (cd_addargs d)); [|discriminate].
  inversion H; subst; cbn; repeat split; reflexivity.
Qed.

(* ------------------------------------------------------------------ *)
(** * 3. The corrected statement *)

(* ORIGINAL (false for some configurations, see section 5):
   Definition S_C06_code_roundtrip : Prop := forall c code ks d d' code',
     view_wf c code ks && ops_known c (co_code code) = true -> co_code code <> [] ->
     zlen (co_freevars code) < 1073741824 -> zlen (co_varnames code) < 1073741824 ->
     nodup_str (co_freevars code) = true ->
     (0 <=? cfg_extended_arg c) && (cfg_extended_arg c <? 256) = true ->
     decode_code c code ks = OK d ->
     mapM_cd (fun k' => match from_const c k' with OK p => OK (k', p) | Err e => Err e end) (normalize d) = OK d' ->
     encode_code c d' = OK code' ->
     zlen (co_code code') < 1073741824 ->
     exists kst : list pconst,
       map snd kst = co_consts code' /\
       forall d2, decode_code c code' (map fst kst) = OK d2 ->
         cd_eqb (normalize d2) (normalize d) = true.

   Extra premises of the corrected statement, both on the configuration:
   (a) flags_wf (cfg_flags c): the flag table has distinct names and distinct power-of-two values
       (C11's premise; true of Cfg37..Cfg310).  Without it a table with a repeated name can turn one
       flag into another on the way back (counterexample cex2).
   (b) the table knows CO_NOFREE: the CodeType constructor clears/sets bit 64 when the table does not
       name it, which destroys whatever flag the table put there (counterexample cex3). *)
Definition S_C06_code_roundtrip_corrected : Prop := forall c code ks d d' code',
  view_wf c code ks && ops_known c (co_code code) = true -> co_code code <> [] ->
  zlen (co_freevars code) < 1073741824 -> zlen (co_varnames code) < 1073741824 ->
  nodup_str (co_freevars code) = true ->
  (0 <=? cfg_extended_arg c) && (cfg_extended_arg c <? 256) = true ->
  flags_wf (cfg_flags c) = true -> flag_value (cfg_flags c) NOFREE <> None ->
  decode_code c code ks = OK d ->
  mapM_cd (fun k' => match from_const c k' with OK p => OK (k', p) | Err e => Err e end) (normalize d) = OK d' ->
  encode_code c d' = OK code' ->
  zlen (co_code code') < 1073741824 ->
  exists kst : list pconst,
    map snd kst = co_consts code' /\
    forall d2, decode_code c code' (map fst kst) = OK d2 ->
      cd_eqb (normalize d2) (normalize d) = true.

Theorem C06_code_roundtrip_corrected : S_C06_code_roundtrip_corrected.
Proof.
  intros c code ks d d' code' Hwf Hne Hfv Hvn Hnd Hext Hfwf Hnofree Hdec Hpair Henc Hlen.
  assert (Hwf' := Hwf). apply andb_true_iff in Hwf' as [Hv Hops].
  destruct (flag_value (cfg_flags c) NOFREE) as [nf|] eqn:Enf; [clear Hnofree|now destruct Hnofree].
  (* the normal form reads as the original, constants normalized *)
  destruct (NPr.C05_view c code ks d d' code' Hwf Hne Hfv Hvn Hnd Hext Hdec Hpair Henc Hlen) as [Hview1 _].
  pose proof (C05_normal_form_wf_b c code ks d d' Hwf Hne Hfv Hvn Hnd Hdec Hpair Hext) as Hdw.
  destruct (wf_no_ov c d' Hdw) as (Hal & Haa & Hov).
  destruct (mapM_cd_fields _ _ _ Hpair) as (M0 & M1 & M2 & M3 & M4 & M5 & M6).
  unfold normalize, map_cd_norm in M0, M1, M2, M3, M4, M5, M6.
  cbn [cd_type cd_future_annotations cd_freevars cd_stacksize cd_firstline cd_name cd_filename]
    in M0, M1, M2, M3, M4, M5, M6.
  destruct (H.header_back c d' code' nf Hfwf Enf Hal Haa Hov Henc)
    as (code0 & lm0 & names & varnames & cellvars & constants & HB & Hconsts & Hhdr).
  destruct (emitted_facts_k c d' code' code0 lm0 names varnames cellvars constants Hdw Henc Hlen HB)
    as (Hagree & Hvwf & Hne').
  exists constants. split; [symmetry; exact Hconsts|].
  intros d2 Hdec2.
  destruct (Hhdr d2 Hdec2) as (T0 & T1 & T2 & T3 & T4 & T5 & T6).
  (* blocks *)
  pose proof (NP.nz_of_view c code' (map fst constants) d2 Hvwf Hdec2 Hne') as E2.
  pose proof (NP.nz_of_view c code ks d Hv Hdec Hne) as E1.
  rewrite RD.dis_view_map in E2.
  set (V1 := dis_view c (co_code code) (co_names code) (co_varnames code) (co_freevars code)
               (co_cellvars code) ks (raw_entries (co_linetable code)) (co_firstlineno code)) in *.
  match type of E2 with _ = blocks_of_view ?X =>
    assert (Hag : view_agrees key_eqb (map_view normalize_const V1) X = true) end.
  { rewrite <- (B.map_view_normalize_idem V1).
    apply B.view_agrees_map; [exact NP.normalize_const_congr|].
    rewrite <- Hview1.
    rewrite (B.pairing_view (from_const c) _ _ (B.mapM_cd_blocks _ _ _ Hpair)).
    rewrite RD.view_agrees_fst. exact Hagree. }
  apply (B.blocks_of_view_agree key_eqb) in Hag. rewrite <- E1, <- E2 in Hag.
  (* assemble *)
  unfold cd_eqb. apply CP.cd_eqb_with_true.
  split; [exact Hag|].
  unfold normalize, map_cd_norm.
  cbn [cd_type cd_future_annotations cd_freevars cd_stacksize cd_firstline cd_name cd_filename
       cd_nested cd_addline cd_addargs leqb].
  repeat split.
  - exact (eq_trans T6 M6).
  - exact (eq_trans T4 M4).
  - exact (eq_trans T5 M5).
  - exact (eq_trans T3 M3).
  - exact (eq_trans T0 M0).
  - exact (eq_trans T2 M2).
  - exact (eq_trans T1 M1).
Qed.



(* ------------------------------------------------------------------ *)
(** * 4. The premises on the flag table hold for the generated configurations *)

Definition cfg_flags_ok (c : cfg) : bool :=
  flags_wf (cfg_flags c) && opt_is_some (flag_value (cfg_flags c) NOFREE).

Lemma cfg_flags_ok_spec c : cfg_flags_ok c = true ->
  flags_wf (cfg_flags c) = true /\ flag_value (cfg_flags c) NOFREE <> None.
Proof.
  unfold cfg_flags_ok. intros H. apply andb_true_iff in H as [H1 H2]. split; [exact H1|].
  destruct (flag_value (cfg_flags c) NOFREE); [discriminate|discriminate].
Qed.

Lemma generated_cfgs_flags_ok :
  cfg_flags_ok Cfg37.cfg = true /\ cfg_flags_ok Cfg38.cfg = true /\
  cfg_flags_ok Cfg39.cfg = true /\ cfg_flags_ok Cfg310.cfg = true.
Proof. repeat split; vm_compute; reflexivity. Qed.

(* the statement for a configuration whose flag table is fine *)
Theorem C06_code_roundtrip_cfg : forall c code ks d d' code',
  cfg_flags_ok c = true ->
  view_wf c code ks && ops_known c (co_code code) = true -> co_code code <> [] ->
  zlen (co_freevars code) < 1073741824 -> zlen (co_varnames code) < 1073741824 ->
  nodup_str (co_freevars code) = true ->
  (0 <=? cfg_extended_arg c) && (cfg_extended_arg c <? 256) = true ->
  decode_code c code ks = OK d ->
  mapM_cd (fun k' => match from_const c k' with OK p => OK (k', p) | Err e => Err e end) (normalize d) = OK d' ->
  encode_code c d' = OK code' ->
  zlen (co_code code') < 1073741824 ->
  exists kst : list pconst,
    map snd kst = co_consts code' /\
    forall d2, decode_code c code' (map fst kst) = OK d2 ->
      cd_eqb (normalize d2) (normalize d) = true.
Proof.
  intros c code ks d d' code' Hc. destruct (cfg_flags_ok_spec c Hc) as [H1 H2].
  intros. eapply C06_code_roundtrip_corrected; eauto.
Qed.

(* ------------------------------------------------------------------ *)
(** * 5. The original statement (all configurations) is false; each part of cfg_flags_ok is needed *)

(* the corrected statement with each of the two extra premises switchable *)
Definition S_variant (pa pb : bool) : Prop := forall c code ks d d' code',
  view_wf c code ks && ops_known c (co_code code) = true -> co_code code <> [] ->
  zlen (co_freevars code) < 1073741824 -> zlen (co_varnames code) < 1073741824 ->
  nodup_str (co_freevars code) = true ->
  (0 <=? cfg_extended_arg c) && (cfg_extended_arg c <? 256) = true ->
  (if pa then flags_wf (cfg_flags c) = true else True) ->
  (if pb then flag_value (cfg_flags c) NOFREE <> None else True) ->
  decode_code c code ks = OK d ->
  mapM_cd (fun k' => match from_const c k' with OK p => OK (k', p) | Err e => Err e end) (normalize d) = OK d' ->
  encode_code c d' = OK code' ->
  zlen (co_code code') < 1073741824 ->
  exists kst : list pconst,
    map snd kst = co_consts code' /\
    forall d2, decode_code c code' (map fst kst) = OK d2 ->
      cd_eqb (normalize d2) (normalize d) = true.

Lemma variant_all : S_variant true true.
Proof. exact C06_code_roundtrip_corrected. Qed.

Lemma original_implies_variant (pa pb : bool) : S_C06_code_roundtrip -> S_variant pa pb.
Proof.
  intros HS c code ks d d' code' P1 P2 P3 P4 P5 P6 _ _ P7 P8 P9 P10.
  exact (HS c code ks d d' code' P1 P2 P3 P4 P5 P6 P7 P8 P9 P10).
Qed.

Lemma refute_variant (pa pb : bool) c code ks d d' code' :
  view_wf c code ks && ops_known c (co_code code) = true -> co_code code <> [] ->
  zlen (co_freevars code) < 1073741824 -> zlen (co_varnames code) < 1073741824 ->
  nodup_str (co_freevars code) = true ->
  (0 <=? cfg_extended_arg c) && (cfg_extended_arg c <? 256) = true ->
  (if pa then flags_wf (cfg_flags c) = true else True) ->
  (if pb then flag_value (cfg_flags c) NOFREE <> None else True) ->
  decode_code c code ks = OK d ->
  mapM_cd (fun k' => match from_const c k' with OK p => OK (k', p) | Err e => Err e end) (normalize d) = OK d' ->
  encode_code c d' = OK code' ->
  zlen (co_code code') < 1073741824 ->
  (forall kst : list pconst, map snd kst = co_consts code' ->
     exists d2, decode_code c code' (map fst kst) = OK d2 /\ cd_eqb (normalize d2) (normalize d) = false) ->
  ~ S_variant pa pb.
Proof.
  intros P1 P2 P3 P4 P5 P6 Pa Pb P7 P8 P9 P10 Hno HS.
  destruct (HS c code ks d d' code' P1 P2 P3 P4 P5 P6 Pa Pb P7 P8 P9 P10) as (kst & Hk & Hall).
  destruct (Hno kst Hk) as (d2 & Hd2 & Hf). rewrite (Hall d2 Hd2) in Hf. discriminate.
Qed.

Definition dflt_cd {C} : code_data_ C := mkCD [] [] 0 [] 0 None [] false false None [].
Definition dflt_code : pycode := mkCode 0 0 0 0 0 0 [] [] [] [] [] [] 0 [] [] [].
Definition pairf (c : cfg) (k' : const) : res pconst :=
  match from_const c k' with OK p => OK (k', p) | Err e => Err e end.
Definition get {A} (dflt : A) (r : res A) : A := match r with OK a => a | Err _ => dflt end.

Definition with_flags (c : cfg) (fl : list (flag * Z)) : cfg :=
  {| cfg_v310 := cfg_v310 c; cfg_v38 := cfg_v38 c; cfg_hasjabs := cfg_hasjabs c; cfg_hasjrel := cfg_hasjrel c;
     cfg_hasname := cfg_hasname c; cfg_haslocal := cfg_haslocal c; cfg_hasfree := cfg_hasfree c;
     cfg_hasconst := cfg_hasconst c; cfg_have_argument := cfg_have_argument c;
     cfg_extended_arg := cfg_extended_arg c; cfg_opcodes := cfg_opcodes c; cfg_flags := fl |}.

(* never vm_compute the goal while kst is still universally quantified *)
Ltac run_cex :=
  let kst := fresh "kst" in let Hk := fresh "Hk" in let k0 := fresh "k0" in let p0 := fresh "p0" in
  intros kst Hk; vm_compute in Hk;
  destruct kst as [|[k0 p0] [|? ?]]; try discriminate Hk;
  destruct k0 as [[]|]; (eexists; split; [vm_compute; reflexivity|vm_compute; reflexivity]).

Definition cex1_ks : list const := [KInner INone].

(** ** (a) a flag table with a repeated name: GENERATOR listed with the values 32 and 128, 32 also
    being F_annotations.  flags = 195 decodes as a generator without the annotations future; to_code
    writes GENERATOR back with the first value, 32, which reads as GENERATOR + annotations. *)
Definition cex2_cfg : cfg :=
  with_flags Cfg39.cfg [(OPTIMIZED, 1); (NEWLOCALS, 2); (NOFREE, 64); (GENERATOR, 32); (GENERATOR, 128);
                        (F_annotations, 32)].
Definition cex2_code : pycode :=
  mkCode 0 0 0 0 1 195 [100; 0; 83; 0] [PInner INone] [] [] [60] [102] 1 [0; 1] [] [].
Definition cex2_d : code_data := Eval vm_compute in get dflt_cd (decode_code cex2_cfg cex2_code cex1_ks).
Definition cex2_d' : code_data_ pconst :=
  Eval vm_compute in get dflt_cd (mapM_cd (pairf cex2_cfg) (normalize cex2_d)).
Definition cex2_code' : pycode := Eval vm_compute in get dflt_code (encode_code cex2_cfg cex2_d').

Theorem variant_needs_flags_wf : ~ S_variant false true.
Proof.
  apply (refute_variant false true cex2_cfg cex2_code cex1_ks cex2_d cex2_d' cex2_code').
  - vm_compute; reflexivity.
  - discriminate.
  - vm_compute; reflexivity.
  - vm_compute; reflexivity.
  - vm_compute; reflexivity.
  - vm_compute; reflexivity.
  - exact I.
  - vm_compute; discriminate.
  - vm_compute; reflexivity.
  - vm_compute; reflexivity.
  - vm_compute; reflexivity.
  - vm_compute; reflexivity.
  - run_cex.
Qed.

(* hence the original statement, which has neither premise, is false *)
Theorem C06_code_roundtrip_needs_cfg_flags_ok : ~ S_C06_code_roundtrip.
Proof. intros HS. exact (variant_needs_flags_wf (original_implies_variant _ _ HS)). Qed.

(** ** (b) a well-formed flag table that does not name CO_NOFREE and uses bit 64 for GENERATOR: a
    generator with a free variable; CodeType clears bit 64 because there are free variables. *)
Definition cex3_cfg : cfg := with_flags Cfg39.cfg [(OPTIMIZED, 1); (NEWLOCALS, 2); (GENERATOR, 64)].
Definition cex3_code : pycode :=
  mkCode 0 0 0 0 1 67 [100; 0; 83; 0] [PInner INone] [] [] [60] [102] 1 [0; 1] [[120]] [].
Definition cex3_d : code_data := Eval vm_compute in get dflt_cd (decode_code cex3_cfg cex3_code cex1_ks).
Definition cex3_d' : code_data_ pconst :=
  Eval vm_compute in get dflt_cd (mapM_cd (pairf cex3_cfg) (normalize cex3_d)).
Definition cex3_code' : pycode := Eval vm_compute in get dflt_code (encode_code cex3_cfg cex3_d').

Theorem variant_needs_nofree : ~ S_variant true false.
Proof.
  apply (refute_variant true false cex3_cfg cex3_code cex1_ks cex3_d cex3_d' cex3_code').
  - vm_compute; reflexivity.
  - discriminate.
  - vm_compute; reflexivity.
  - vm_compute; reflexivity.
  - vm_compute; reflexivity.
  - vm_compute; reflexivity.
  - vm_compute; reflexivity.
  - exact I.
  - vm_compute; reflexivity.
  - vm_compute; reflexivity.
  - vm_compute; reflexivity.
  - vm_compute; reflexivity.
  - run_cex.
Qed.

(* ------------------------------------------------------------------ *)
(** * 6. The former third counterexample now round-trips *)

(* decode, normalize, pair, encode, decode again with the constants table blocks_to_bytes emitted
   (the witness kst of the theorem), normalize, compare; also: the premises of the theorem hold and the
   second decode still has var_positional = "" *)
Definition roundtrip_check (c : cfg) (code : pycode) (ks : list const) : bool :=
  match decode_code c code ks with
  | Err _ => false
  | OK d =>
    match mapM_cd (pairf c) (normalize d) with
    | Err _ => false
    | OK d' =>
      match encode_code c d', ECo.b2b c d' with
      | OK code', OK (_, _, _, _, _, kst) =>
          match decode_code c code' (map fst kst) with
          | Err _ => false
          | OK d2 =>
              view_wf c code ks && ops_known c (co_code code) && nodup_str (co_freevars code)
              && cd_eqb (normalize d2) (normalize d)
              && option_eqb function_eqb (cd_type d2) (cd_type d)
          end
      | _, _ => false
      end
    end
  end.

(* [def f(a, b, *<"">, c, **e): return None], real 3.9 configuration: CO_VARARGS (4) is kept *)
Definition cex1_code : pycode :=
  mkCode 2 0 1 5 1 79 [100; 0; 83; 0] [PInner INone] [] [[97]; [98]; [99]; []; [101]] [60] [102] 1 [0; 1] [] [].

Example former_witness_roundtrips :
  roundtrip_check Cfg39.cfg cex1_code cex1_ks = true /\
  (match decode_code Cfg39.cfg cex1_code cex1_ks with
   | OK d => match cd_type d with Some f => a_varpos (fn_args f) | None => None end
   | Err _ => None
   end) = Some [] /\
  (match decode_code Cfg39.cfg cex1_code cex1_ks with
   | OK d => match mapM_cd (pairf Cfg39.cfg) (normalize d) with
             | OK d' => match encode_code Cfg39.cfg d' with OK code' => co_flags code' | Err _ => -1 end
             | Err _ => -1
             end
   | Err _ => -1
   end) = 79.
Proof. repeat split; vm_compute; reflexivity. Qed.

Print Assumptions C06_code_roundtrip_corrected.
Print Assumptions C06_code_roundtrip_cfg.
Print Assumptions generated_cfgs_flags_ok.
Print Assumptions C06_code_roundtrip_needs_cfg_flags_ok.
Print Assumptions variant_needs_flags_wf.
Print Assumptions variant_needs_nofree.
Print Assumptions former_witness_roundtrips.
