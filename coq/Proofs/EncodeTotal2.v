(* C03, totality, part 2 (necessity): what a successful blocks_to_bytes / from_flags_data says about
   the input.  Used to show that the premise enc_ok of EncodeTotal.v is the weakest one. *)
From Coq Require Import ZArith List Bool Lia ZifyBool.
From PCD Require Import Base.PyBase Base.Cfg Model.Flags Model.Args Model.Data Model.Consts
  Model.LineTable Model.Blocks Model.CodeData Spec.Lnotab Spec.Dis Model.ViewSer
  Proofs.C02_Statements Proofs.C11_Statements Proofs.C01_Statements Proofs.C03_Statements
  Proofs.C03b_Statements Proofs.C03c_Statements.
From PCD Require Proofs.EncodeView.
From PCD Require Import Proofs.EncodeTotal1.
Import ListNotations. Open Scope Z_scope.

Module EVw := EncodeView.

Lemma index_of_existsb_conv s : forall fv i, index_of str_eqb s fv = Some i -> existsb (str_eqb s) fv = true.
Proof.
  induction fv as [|x r IH]; intros i H; [discriminate|]. cbn [index_of] in H. cbn [existsb].
  destruct (str_eqb s x); [reflexivity|]. cbn [orb].
  destruct (index_of str_eqb s r) as [j|]; [|discriminate]. eapply IH; reflexivity.
Qed.

Lemma forallb_concat_conv {A} (P : A -> bool) : forall ls,
  forallb P (concat ls) = true -> forallb (forallb P) ls = true.
Proof.
  induction ls as [|l r IH]; intros H; [reflexivity|]. cbn [concat] in H. rewrite forallb_app in H.
  apply andb_true_iff in H as [H1 H2]. cbn [forallb]. rewrite H1, IH; auto.
Qed.

Section Conv.
  Context {C : Type} (keq : C -> C -> bool) (is_str : C -> bool) (none_c : C) (str_c : str -> C).

  Definition fv_declared (fv : list str) (i : instr_ C) : bool :=
    match i_arg i with AFreevar s => existsb (str_eqb s) fv | _ => true end.

  Lemma from_arg_conv a bt fv st v st' :
    from_arg keq is_str none_c a bt fv st = OK (v, st') ->
    match a with AFreevar s => existsb (str_eqb s) fv | _ => true end = true /\
    (is_cell a = false -> e_cellvars st' = e_cellvars st).
  Proof.
    destruct a as [z|t r|s ov|s ov|k ov|s|s ov|z]; cbn [from_arg is_cell]; intros H.
    - inversion H; subst. auto.
    - inversion H; subst. auto.
    - destruct (fa_add str_eqb (e_names st) s ov) as [[? ?]|]; [|discriminate]. inversion H; subst. auto.
    - destruct (fa_add str_eqb (e_varnames st) s ov) as [[? ?]|]; [|discriminate]. inversion H; subst. auto.
    - cbv zeta in H. destruct (if _ : bool then _ else _) as [cs|]; [|discriminate].
      destruct (fa_add keq cs k ov) as [[? ?]|]; [|discriminate]. inversion H; subst. auto.
    - destruct (index_of str_eqb s fv) as [i|] eqn:E; [|discriminate]. inversion H; subst.
      split; [eapply index_of_existsb_conv; exact E|reflexivity].
    - split; [reflexivity|discriminate].
    - inversion H; subst. auto.
  Qed.

  Lemma first_args_conv bt fv : forall l st vals st',
    first_args keq is_str none_c l bt fv st = OK (vals, st') ->
    forallb (fv_declared fv) l = true /\
    (existsb (fun i : instr_ C => is_cell (i_arg i)) l = false -> e_cellvars st' = e_cellvars st).
  Proof.
    induction l as [|i r IH]; intros st vals st' H; cbn [first_args] in H.
    - inversion H; subst. auto.
    - destruct (from_arg keq is_str none_c (i_arg i) bt fv st) as [[v st1]|] eqn:Ea; [|discriminate].
      destruct (first_args keq is_str none_c r bt fv st1) as [[vs st2]|] eqn:Er; [|discriminate].
      inversion H; subst. destruct (from_arg_conv _ _ _ _ _ _ Ea) as [A1 A2].
      destruct (IH _ _ _ Er) as [B1 B2]. cbn [forallb existsb]. unfold fv_declared at 1. rewrite A1, B1.
      split; [reflexivity|]. intros E. apply orb_false_iff in E as [E1 E2].
      rewrite (B2 E2). apply A2, E1.
  Qed.

  Lemma enc_init_cv bt st0 : enc_init keq str_c bt = OK st0 -> e_cellvars st0 = fromargs_empty.
  Proof.
    unfold enc_init. destruct bt as [f|]; [|intros H; inversion H; reflexivity].
    match goal with |- match ?X with OK _ => _ | Err _ => _ end = _ -> _ => destruct X as [vn|] end;
      [|discriminate].
    destruct (fn_doc f) as [dstr|].
    - destruct (fa_setitem keq fromargs_empty 0 (str_c dstr)); [|discriminate].
      intros H; inversion H; reflexivity.
    - intros H; inversion H; reflexivity.
  Qed.

  (* a returned code string: the free-variable operands were declared; no cell operand, no cell variable *)
  Theorem b2b_conv c (blocks : list (list (instr_ C))) fv bt code lm names varnames cellvars consts :
    blocks_to_bytes keq is_str none_c str_c c blocks [] fv bt
      = OK (code, lm, names, varnames, cellvars, consts) ->
    forallb (forallb (fv_declared fv)) blocks = true /\
    (has_cell blocks = false -> cellvars = []).
  Proof.
    intros H. apply EVw.b2b_inv in H.
    destruct H as (st0 & vals0 & st & vals & Hi & Hf & _ & _ & _ & _ & T3 & _).
    destruct (first_args_conv _ _ _ _ _ _ Hf) as [A1 A2]. split.
    - apply forallb_concat_conv. exact A1.
    - intros Hc. unfold has_cell in Hc. rewrite existsb_concat in Hc.
      rewrite (A2 Hc), (enc_init_cv _ _ Hi) in T3. cbn in T3. inversion T3. reflexivity.
  Qed.
End Conv.

(* ------------------------------------------------------------------ *)
(** * Flags *)

(* the named flags (everything but the unnamed future features) are identified by their id *)
Lemma flag_eqb_plain f g : flag_id f < 100 -> flag_eqb f g = true -> g = f.
Proof.
  unfold flag_eqb. intros Hf H. apply Z.eqb_eq in H.
  destruct g; try (cbn [flag_id] in H; destruct f; cbn [flag_id] in H, Hf; first [reflexivity|lia]).
Qed.

Lemma In_flag_add_r g f l : In g l -> In g (flag_add f l).
Proof. unfold flag_add. destruct (flag_mem f l); [auto|]. intros H. apply in_app_iff. auto. Qed.

Lemma In_flag_add_l f l : flag_id f < 100 -> In f (flag_add f l).
Proof.
  intros Hf. unfold flag_add. destruct (flag_mem f l) eqn:E.
  - unfold flag_mem in E. apply existsb_exists in E as (g & Hg & E).
    rewrite (flag_eqb_plain f g Hf E) in Hg. exact Hg.
  - apply in_app_iff. right. left. reflexivity.
Qed.

Lemma In_flags_union_l g : forall b a, In g a -> In g (flags_union a b).
Proof.
  unfold flags_union. induction b as [|f r IH]; intros a H; cbn [fold_left]; [exact H|].
  apply IH. apply In_flag_add_r. exact H.
Qed.

Lemma In_flags_union_r g : forall b a, flag_id g < 100 -> In g b -> In g (flags_union a b).
Proof.
  unfold flags_union. induction b as [|f r IH]; intros a Hg H; [destruct H|]. cbn [fold_left].
  destruct H as [->|H].
  - apply (In_flags_union_l g r). apply In_flag_add_l. exact Hg.
  - apply IH; assumption.
Qed.

Lemma from_flags_data_conv c : forall fs w,
  from_flags_data c fs = OK w -> 0 <= w ->
  forall g, In g fs -> match flag_value (cfg_flags c) g with Some v => 0 <=? v | None => false end = true.
Proof.
  induction fs as [|f r IH]; intros w H Hw g Hg; [destruct Hg|].
  cbn [from_flags_data] in H.
  destruct (flag_value (cfg_flags c) f) as [v|] eqn:Ev; [|discriminate].
  destruct (from_flags_data c r) as [w'|] eqn:Er; [|discriminate].
  inversion H; subst w. apply Z.lor_nonneg in Hw as [Hv Hw'].
  destruct Hg as [->|Hg].
  - rewrite Ev. lia.
  - eapply IH; eauto.
Qed.
