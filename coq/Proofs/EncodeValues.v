(* C01 / K3, component 1: re-encoding the blocks decoded from a code string reproduces every
   operand value, every instruction size and the four tables (encode_values o bytes_to_blocks). *)
From Coq Require Import ZArith List Bool Lia ZifyBool.
From PCD Require Import Base.PyBase Base.Cfg Model.Flags Model.Args Model.Data Model.Consts
  Model.LineTable Model.Blocks Model.CodeData Spec.Lnotab Spec.Dis Model.ViewSer
  Proofs.C02_Statements Proofs.C11_Statements Proofs.C01_Statements.
From PCD Require Proofs.TablesReplay Proofs.BlocksPartition Proofs.DecodeView Proofs.InstrCodec
  Proofs.ConstsProofs Gen.Cfg39.
Import ListNotations. Open Scope Z_scope.
Ltac Zify.zify_post_hook ::= Z.to_euclidean_division_equations.

Module TR := TablesReplay.
Module BP := BlocksPartition.
Module DV := DecodeView.

(* ------------------------------------------------------------------ *)
(** * 1. blocks_to_bytes = encode_values ; assemble ; to_tuple *)

Lemma blocks_to_bytes_halves : S_blocks_to_bytes_halves.
Proof.
  unfold S_blocks_to_bytes_halves, blocks_to_bytes, encode_values. intros.
  destruct (enc_init keq str_c bt) as [st0|e]; [|reflexivity].
  destruct (first_args keq is_str none_c (concat blocks) bt freevars st0) as [[vals0 st1]|e];
    [|reflexivity].
  destruct (add_additional keq is_str none_c additional bt freevars st1) as [st2|e]; [|reflexivity].
  cbv zeta. destruct (relax _ c blocks _) as [vals2|e]; reflexivity.
Qed.

(* ------------------------------------------------------------------ *)
(** * 2. Small facts *)

Lemma p_first_eq p : BP.p_first p = p_first p.
Proof. destruct p as [[[[? ?] ?] ?] ?]; reflexivity. Qed.
Lemma p_next_eq p : BP.p_next p = p_next p.
Proof. destruct p as [[[[? ?] ?] ?] ?]; reflexivity. Qed.
Lemma p_arg_eq p : DV.p_arg p = p_arg p.
Proof. destruct p as [[[[? ?] ?] ?] ?]; reflexivity. Qed.
Lemma p_op_eq p : DV.p_op p = p_op p.
Proof. destruct p as [[[[? ?] ?] ?] ?]; reflexivity. Qed.

Lemma list_ind2 {A} (P : list A -> Prop) :
  P [] -> (forall x, P [x]) -> (forall x y r, P r -> P (x :: y :: r)) -> forall l, P l.
Proof.
  intros H0 H1 H2. fix IH 1. intros [|x [|y r]]; [exact H0|apply H1|apply H2, IH].
Qed.

Ltac split_andb :=
  repeat match goal with
         | H : _ && _ = true |- _ => apply andb_true_iff in H; destruct H
         end.

(* what code_ok says about every parsed instruction *)
Definition pi_ok (p : pinstr) : Prop :=
  0 <= p_arg p /\ 1 <= p_nargs p /\ p_next p = p_first p + 2 * p_nargs p /\
  (p_nargs p = 1 -> p_arg p < 256).

Lemma parse_props c : forall b i n acc ps,
  units_ok c b n acc = true -> 0 <= n -> 0 <= acc -> acc mod 256 = 0 -> (n = 0 -> acc = 0) ->
  parse_bytes c b i n acc = OK ps -> Forall pi_ok ps.
Proof.
  intros b. induction b as [|x|op byte r IH] using list_ind2; intros i n acc ps U Hn Ha Hm H0 P.
  - cbn [parse_bytes] in P. inversion P. constructor.
  - cbn [parse_bytes] in P. discriminate.
  - cbn [parse_bytes] in P. cbn [units_ok] in U.
    destruct (op =? cfg_extended_arg c) eqn:E.
    + split_andb.
      assert (L1 : Z.lor acc byte = acc + byte) by (apply InstrCodec.lor_add; lia).
      rewrite L1 in P. rewrite InstrCodec.shl8 in P.
      match goal with U' : units_ok _ _ _ _ = true |- _ =>
        pose proof (DV.units_ok_bound _ _ _ _ U' ltac:(lia) ltac:(lia)) as Hb end.
      assert (W : (if (acc + byte) * 256 >? c_int_upper_limit
                   then (acc + byte) * 256 - c_int_length else (acc + byte) * 256)
                  = (acc + byte) * 256).
      { unfold c_int_upper_limit. destruct ((acc + byte) * 256 >? 2147483647) eqn:W; [lia|reflexivity]. }
      rewrite W in P.
      match goal with U' : units_ok _ _ _ _ = true |- _ =>
        exact (IH (i + 2) (n + 1) ((acc + byte) * 256) ps U' ltac:(lia) ltac:(lia) ltac:(lia)
                  ltac:(lia) P) end.
    + destruct (parse_bytes c r (i + 2) 0 0) as [rest|e] eqn:Er; [|discriminate].
      inversion P; subst ps. clear P. split_andb.
      assert (L1 : Z.lor acc byte = acc + byte) by (apply InstrCodec.lor_add; lia).
      constructor.
      * unfold pi_ok, p_arg, p_nargs, p_next, p_first. cbn [fst snd]. rewrite L1.
        repeat split; lia.
      * match goal with U' : units_ok _ _ _ _ = true |- _ =>
          exact (IH (i + 2) 0 0 rest U' ltac:(lia) ltac:(lia) ltac:(reflexivity) ltac:(reflexivity) Er)
        end.
Qed.

(* the instructions tile the code string *)
Fixpoint tiled (s : Z) (ps : list pinstr) : Prop :=
  match ps with
  | [] => True
  | p :: r => p_first p = s /\ p_next p = s + 2 * p_nargs p /\ tiled (p_next p) r
  end.

Lemma chained_tiled : forall ps s, BP.chained s ps -> Forall pi_ok ps -> tiled s ps.
Proof.
  induction ps as [|p r IH]; intros s Hc HF; [exact I|].
  apply Forall_cons_iff in HF as [Hp HF'].
  cbn [BP.chained] in Hc. destruct Hc as (H1 & H2 & H3).
  rewrite p_first_eq in H1. rewrite p_next_eq in H3. destruct Hp as (_ & _ & Hn & _).
  cbn [tiled]. split; [exact H1|]. split; [lia|]. apply IH; assumption.
Qed.

Lemma parse_tiled c b ps : code_ok c b = true -> parse_bytes c b 0 0 0 = OK ps ->
  Forall pi_ok ps /\ tiled 0 ps.
Proof.
  intros U P.
  assert (HF : Forall pi_ok ps)
    by (eapply (parse_props c b 0 0 0); eauto; lia).
  split; [exact HF|]. apply chained_tiled; [|exact HF].
  exact (BP.parse_bytes_chained c b 0 0 0 ps ltac:(lia) P).
Qed.

Lemma tiled_app : forall ps1 ps2 s, tiled s (ps1 ++ ps2) ->
  tiled s ps1 /\ tiled (s + 2 * sumZ (map p_nargs ps1)) ps2.
Proof.
  induction ps1 as [|p r IH]; intros ps2 s H.
  - cbn [app map sumZ fold_right tiled] in *. split; [exact I|].
    replace (s + 2 * 0) with s by lia. exact H.
  - cbn [app tiled] in H. destruct H as (H1 & H2 & H3). destruct (IH _ _ H3) as [I1 I2].
    cbn [tiled]. split; [tauto|]. cbn [map]. unfold sumZ in *. cbn [fold_right].
    replace (s + 2 * (p_nargs p + fold_right Z.add 0 (map p_nargs r)))
      with (p_next p + 2 * fold_right Z.add 0 (map p_nargs r)) by lia. exact I2.
Qed.

(** zipping two lists through a function *)
Definition zipw {A B} (f : A -> B -> Z) (l : list A) (ps : list B) : list Z :=
  map (fun ip => f (fst ip) (snd ip)) (combine l ps).

Lemma zipw_cons {A B} (f : A -> B -> Z) x l p ps : zipw f (x :: l) (p :: ps) = f x p :: zipw f l ps.
Proof. reflexivity. Qed.

Lemma zipw_length {A B} (f : A -> B -> Z) l ps : length l = length ps -> length (zipw f l ps) = length l.
Proof. intros H. unfold zipw. rewrite map_length, combine_length. lia. Qed.

Lemma zipw_app {A B} (f : A -> B -> Z) l1 l2 ps1 ps2 : length l1 = length ps1 ->
  zipw f (l1 ++ l2) (ps1 ++ ps2) = zipw f l1 ps1 ++ zipw f l2 ps2.
Proof.
  revert ps1. induction l1 as [|x l1 IH]; intros [|p ps1] H; try discriminate; [reflexivity|].
  cbn [app]. rewrite !zipw_cons. cbn [app]. f_equal. apply IH. cbn in H. lia.
Qed.

Lemma Forall2_length' {A B} (R : A -> B -> Prop) l ps : Forall2 R l ps -> length l = length ps.
Proof. induction 1; cbn; congruence. Qed.

Lemma py_index_Some_range {A} (l : list A) i x : 0 <= i -> py_index l i = Some x ->
  i < zlen l /\ nth_error l (Z.to_nat i) = Some x.
Proof.
  intros Hi H. unfold py_index, znth in H. destruct (i <? 0) eqn:E; [lia|].
  split; [|exact H]. assert (Z.to_nat i < length l)%nat by (apply nth_error_Some; congruence).
  unfold zlen. lia.
Qed.

(** str_eqb is an equivalence *)
Lemma str_eqb_refl x : str_eqb x x = true.
Proof. now apply str_eqb_spec. Qed.
Lemma str_eqb_sym x y : str_eqb x y = str_eqb y x.
Proof.
  destruct (str_eqb x y) eqn:E1; destruct (str_eqb y x) eqn:E2; try reflexivity.
  - apply str_eqb_spec in E1. subst. now rewrite str_eqb_refl in E2.
  - apply str_eqb_spec in E2. subst. now rewrite str_eqb_refl in E1.
Qed.
Lemma str_eqb_trans x y z : str_eqb x y = true -> str_eqb y z = true -> str_eqb x z = true.
Proof. intros H1 H2. apply str_eqb_spec in H1, H2. subst. apply str_eqb_refl. Qed.

Lemma str_eqb_false x y : x <> y -> str_eqb x y = false.
Proof. intros H. destruct (str_eqb x y) eqn:E; [|reflexivity]. apply str_eqb_spec in E. contradiction. Qed.

(** nodup_str *)
Lemma existsb_str_In x l : existsb (str_eqb x) l = true <-> In x l.
Proof.
  rewrite existsb_exists. split.
  - intros [y [Hy E]]. apply str_eqb_spec in E. now subst.
  - intros H. exists x. split; [exact H|apply str_eqb_refl].
Qed.

Lemma nodup_str_NoDup l : nodup_str l = true -> NoDup l.
Proof.
  induction l as [|x r IH]; cbn [nodup_str]; intros H; [constructor|].
  apply andb_true_iff in H as [H1 H2]. constructor; [|now apply IH].
  intros Hin. apply existsb_str_In in Hin. rewrite Hin in H1. discriminate.
Qed.

Lemma index_of_nodup s : forall (l : list str) n, NoDup l -> nth_error l n = Some s ->
  index_of str_eqb s l = Some (Z.of_nat n).
Proof.
  induction l as [|y r IH]; intros n Hnd Hn; [destruct n; discriminate|].
  inversion Hnd as [|? ? Hni Hnd']; subst. cbn [index_of]. destruct n as [|n].
  - cbn in Hn. inversion Hn; subst. now rewrite str_eqb_refl.
  - cbn [nth_error] in Hn. rewrite str_eqb_false.
    + rewrite (IH n Hnd' Hn). f_equal. lia.
    + intros ->. apply Hni. eapply nth_error_In; eassumption.
Qed.

(* ------------------------------------------------------------------ *)
(** * 3. One decoder step against one encoder step, all four tables at once *)

Notation kr := ConstsProofs.key_eqb_refl.
Notation ks_ := ConstsProofs.key_eqb_sym_eq.
Notation kt := ConstsProofs.key_eqb_trans.

Section Sim.
  Variable c : cfg.
  Variables names varnames freevars cellvars : list str.
  Variable ks : list const.
  Variable bt : option function.

  Notation FA := (from_arg key_eqb is_str_const (KInner INone)).
  Notation DIs := (TR.DI str_eqb).
  Notation EIs := (TR.EI str_eqb).

  (* the docstring-None rule of from_arg never fires on decoded data *)
  Hypothesis Hdoc : docstring_is_none bt = true ->
                    match ks with KInner (IStr _) :: _ => False | _ => True end.
  Hypothesis Hfree : NoDup freevars.

  Record Inv (st : decstate const) (est : encstate const) : Prop := {
    I_dn : DIs names (d_names st);       I_en : EIs names (d_names st) (e_names est);
    I_dv : DIs varnames (d_varnames st); I_ev : EIs varnames (d_varnames st) (e_varnames est);
    I_dc : DIs cellvars (d_cellvars st); I_ec : EIs cellvars (d_cellvars st) (e_cellvars est);
    I_dk : TR.DI key_eqb ks (d_consts st);
    I_ek : TR.EI key_eqb ks (d_consts st) (e_consts est)
  }.

  Lemma found_range {T} (keq : T -> T -> bool) tbl ts idx a ov ts1 :
    TR.DI keq tbl ts -> 0 <= idx -> found_index keq ts idx = OK (a, ov, ts1) ->
    0 <= idx < zlen tbl.
  Proof.
    intros HD Hi H. apply DV.found_index_spec in H as [H _]. rewrite (TR.D_args _ _ _ HD) in H.
    apply py_index_Some_range in H; [lia|exact Hi].
  Qed.

  Lemma step_str tbl ts fs idx s ov t :
    DIs tbl ts -> EIs tbl ts fs -> 0 <= idx -> found_index str_eqb ts idx = OK (s, ov, t) ->
    exists fs1, fa_add str_eqb fs s ov = OK (idx, fs1) /\ DIs tbl t /\ EIs tbl t fs1.
  Proof.
    intros HD HE Hi H.
    exact (TR.replay_step str_eqb str_eqb_refl str_eqb_sym str_eqb_trans tbl ts fs idx s ov t HD HE
             (found_range _ _ _ _ _ _ _ HD Hi H) H).
  Qed.

  Lemma rule_off ts fs idx k ov t :
    TR.DI key_eqb ks ts -> TR.EI key_eqb ks ts fs ->
    found_index key_eqb ts idx = OK (k, ov, t) ->
    docstring_is_none bt && (match fa_items fs with [] => true | _ => false end)
      && is_str_const k && negb (opt_is_some ov) = false.
  Proof.
    intros HD HE H.
    destruct (docstring_is_none bt) eqn:E1; [|reflexivity].
    destruct (fa_items fs) as [|x r] eqn:E2; [|reflexivity].
    destruct (is_str_const k) eqn:E3; [|reflexivity].
    destruct ov as [j|]; [reflexivity|]. exfalso.
    assert (Hlen := TR.E_len _ _ _ _ HE). rewrite E2 in Hlen.
    destruct (ta_order ts) as [|y r'] eqn:Eo; [|unfold zlen in Hlen; cbn [length] in Hlen; lia].
    apply TR.found_index_spec in H. destruct H as (Ha & _ & Hord & Hov & _).
    rewrite Eo in Hord. cbn in Hord. rewrite Hord in Hov. cbn [oget] in Hov.
    rewrite Z.eqb_refl in Hov.
    destruct (0 =? idx) eqn:E0; [|cbn in Hov; discriminate].
    assert (idx = 0) by lia. subst idx. rewrite (TR.D_args _ _ _ HD) in Ha.
    specialize (Hdoc eq_refl). destruct ks as [|k0 r0]; [discriminate|].
    cbn in Ha. inversion Ha; subst k0. destruct k as [[]|]; try discriminate. exact Hdoc.
  Qed.

  Lemma step_const ts fs idx k ov t en ev ec :
    TR.DI key_eqb ks ts -> TR.EI key_eqb ks ts fs -> 0 <= idx ->
    found_index key_eqb ts idx = OK (k, ov, t) ->
    exists fs1, FA (AConst k ov) bt freevars (mkEnc en ev ec fs) = OK (idx, mkEnc en ev ec fs1) /\
                TR.DI key_eqb ks t /\ TR.EI key_eqb ks t fs1.
  Proof.
    intros HD HE Hi H.
    destruct (TR.replay_step key_eqb kr ks_ kt ks ts fs idx k ov t HD HE
                (found_range _ _ _ _ _ _ _ HD Hi H) H) as (fs1 & Hadd & HD1 & HE1).
    exists fs1. split; [|split; assumption].
    cbn [from_arg e_consts e_names e_varnames e_cellvars].
    rewrite (rule_off _ _ _ _ _ _ HD HE H), Hadd. reflexivity.
  Qed.

  (* operand value as first computed by the encoder (before relaxation / free-variable offset) *)
  Definition v0 (parg : arg_ const) (a : Z) : Z :=
    match parg with AJump _ _ => 1 | AFreevar _ => a - zlen cellvars | _ => a end.

  Definition scale : Z := if cfg_v310 c then 2 else 1.

  Definition arg_rel (op a next : Z) (parg : arg_ const) : Prop :=
    match parg with
    | AJump t rel => is_jump_op c op = true /\ t = (if rel then next + scale * a else scale * a)
    | AFreevar _ => is_jump_op c op = false /\ zmem op (cfg_hasfree c) = true /\ zlen cellvars <= a
    | _ => is_jump_op c op = false
    end.

  Lemma to_arg_sim op a next st parg st' est :
    Inv st est -> 0 <= a ->
    to_arg key_eqb c op a next freevars st = OK (parg, st') ->
    exists est', FA parg bt freevars est = OK (v0 parg a, est') /\ Inv st' est' /\
                 arg_rel op a next parg.
  Proof.
    intros HI Ha H. destruct HI. destruct est as [en ev ec ek].
    cbn [e_names e_varnames e_cellvars e_consts] in *.
    unfold to_arg in H. unfold arg_rel, is_jump_op. fold scale in H.
    destruct (zmem op (cfg_hasjabs c)) eqn:E1.
    { inversion H; subst. eexists. split; [reflexivity|]. split; [constructor; assumption|].
      split; reflexivity. }
    destruct (zmem op (cfg_hasjrel c)) eqn:E2.
    { inversion H; subst. eexists. split; [reflexivity|]. split; [constructor; assumption|].
      split; reflexivity. }
    cbn [orb].
    destruct (zmem op (cfg_hasname c)) eqn:E3.
    { destruct (found_index str_eqb (d_names st) a) as [[[s ov] t]|e] eqn:F; [|discriminate].
      inversion H; subst parg st'.
      destruct (step_str _ _ _ _ _ _ _ I_dn0 I_en0 Ha F) as (fs1 & Hadd & HD1 & HE1).
      cbn [from_arg e_names e_varnames e_cellvars e_consts v0]. rewrite Hadd.
      eexists. split; [reflexivity|]. split; [constructor; assumption|reflexivity]. }
    destruct (zmem op (cfg_haslocal c)) eqn:E4.
    { destruct (found_index str_eqb (d_varnames st) a) as [[[s ov] t]|e] eqn:F; [|discriminate].
      inversion H; subst parg st'.
      destruct (step_str _ _ _ _ _ _ _ I_dv0 I_ev0 Ha F) as (fs1 & Hadd & HD1 & HE1).
      cbn [from_arg e_names e_varnames e_cellvars e_consts v0]. rewrite Hadd.
      eexists. split; [reflexivity|]. split; [constructor; assumption|reflexivity]. }
    destruct (zmem op (cfg_hasfree c)) eqn:E5.
    { rewrite (TR.D_args _ _ _ I_dc0) in H.
      destruct (a <? zlen cellvars) eqn:L.
      - destruct (found_index str_eqb (d_cellvars st) a) as [[[s ov] t]|e] eqn:F; [|discriminate].
        inversion H; subst parg st'.
        destruct (step_str _ _ _ _ _ _ _ I_dc0 I_ec0 Ha F) as (fs1 & Hadd & HD1 & HE1).
        cbn [from_arg e_names e_varnames e_cellvars e_consts v0]. rewrite Hadd.
        eexists. split; [reflexivity|]. split; [constructor; assumption|reflexivity].
      - destruct (py_index freevars (a - zlen cellvars)) as [s|] eqn:F; [|discriminate].
        inversion H; subst parg st'.
        apply py_index_Some_range in F as [_ F]; [|lia].
        cbn [from_arg v0]. rewrite (index_of_nodup s freevars _ Hfree F).
        replace (Z.of_nat (Z.to_nat (a - zlen cellvars))) with (a - zlen cellvars) by lia.
        eexists. split; [reflexivity|]. split; [constructor; assumption|].
        repeat split; lia. }
    destruct (zmem op (cfg_hasconst c)) eqn:E6.
    { destruct (found_index key_eqb (d_consts st) a) as [[[k ov] t]|e] eqn:F; [|discriminate].
      inversion H; subst parg st'.
      destruct (step_const _ _ _ _ _ _ en ev ec I_dk0 I_ek0 Ha F) as (fs1 & Hadd & HD1 & HE1).
      rewrite Hadd. cbn [v0].
      eexists. split; [reflexivity|]. split; [constructor; assumption|reflexivity]. }
    destruct (op <? cfg_have_argument c) eqn:L; inversion H; subst parg st';
      (eexists; split; [reflexivity|]; split; [constructor; assumption|reflexivity]).
  Qed.

  (** ** the instruction loop *)

  Notation FARGS := (first_args key_eqb is_str_const (KInner INone)).
  Notation ADDL := (add_additional key_eqb is_str_const (KInner INone)).

  Definition nov_of (parg : arg_ const) (n : Z) : option Z :=
    match parg with AJump _ _ => if n >? 1 then Some n else None | _ => None end.

  Definition irel (oi : Z * instr_ const) (p : pinstr) : Prop :=
    fst oi = p_first p /\ i_name (snd oi) = p_op p /\
    arg_rel (p_op p) (p_arg p) (p_next p) (i_arg (snd oi)) /\
    i_nargs (snd oi) = nov_of (i_arg (snd oi)) (p_nargs p).

  Definition v0i (i : instr_ const) (p : pinstr) : Z := v0 (i_arg i) (p_arg p).

  Lemma retarget_FA T (i : instr_ const) est :
    FA (i_arg (retarget T i)) bt freevars est = FA (i_arg i) bt freevars est.
  Proof. unfold retarget. destruct (i_arg i) eqn:E; cbn [i_arg]; rewrite ?E; reflexivity. Qed.

  Lemma retarget_v0 T (i : instr_ const) a : v0 (i_arg (retarget T i)) a = v0 (i_arg i) a.
  Proof. unfold retarget. destruct (i_arg i) eqn:E; cbn [i_arg]; rewrite ?E; reflexivity. Qed.

  Lemma decode_sim T : forall ps lm st ois lm' st' est,
    Inv st est -> Forall (fun p => 0 <= p_arg p) ps ->
    decode_instrs key_eqb c ps freevars lm st = OK (ois, lm', st') ->
    exists est',
      FARGS (map (retarget T) (map snd ois)) bt freevars est
        = OK (zipw v0i (map (retarget T) (map snd ois)) ps, est') /\
      Inv st' est' /\ Forall2 irel ois ps.
  Proof.
    induction ps as [|[[[[op a] n] off] nx] r IH]; intros lm st ois lm' st' est HI HF H.
    - cbn [decode_instrs] in H. inversion H; subst. exists est. split; [reflexivity|]. split; [exact HI|constructor].
    - cbn [decode_instrs] in H. apply Forall_cons_iff in HF as [Ha HF]. cbn in Ha.
      destruct (to_arg key_eqb c op a nx freevars st) as [[parg st1]|e] eqn:Et; [|discriminate].
      destruct (to_arg_sim _ _ _ _ _ _ _ HI Ha Et) as (est1 & Hfa & HI1 & Hrel).
      destruct (oget (lm_lines lm) off) as [line|]; [|discriminate].
      match type of H with
      | match ?X with _ => _ end = _ => destruct X as [[[rest lm1] st2]|e] eqn:Er; [|discriminate]
      end.
      inversion H; subst ois lm1 st2. clear H.
      destruct (IH _ _ _ _ _ _ HI1 HF Er) as (est' & Hfs & HI' & HR).
      exists est'. cbn [map snd first_args]. rewrite retarget_FA. cbn [i_arg]. rewrite Hfa, Hfs.
      split; [|split; [exact HI'|]].
      + rewrite zipw_cons. unfold v0i at 2. rewrite retarget_v0. reflexivity.
      + constructor; [|exact HR]. unfold irel. cbn [fst snd i_name i_arg i_nargs].
        repeat split; try reflexivity; try exact Hrel.
  Qed.

  (** ** the additional arguments and the final tables *)

  Lemma adds_found {T} (keq : T -> T -> bool)
    (Hr : forall x, keq x x = true) (Hs : forall x y, keq x y = keq y x)
    (Ht : forall x y z, keq x y = true -> keq y z = true -> keq x z = true)
    tbl ts adds :
    TR.DI keq tbl ts -> additional_args keq ts = OK adds ->
    exists idxs ts', TR.found_all keq ts idxs = OK (adds, ts') /\
      Forall (fun i => 0 <= i < zlen tbl) idxs /\
      (forall i, 0 <= i < zlen tbl -> omem (ta_order ts') i = true).
  Proof.
    intros HD Hadd.
    destruct (TR.additional_args_found_all keq Hr Hs Ht _ _ Hadd) as (ts' & Hf').
    assert (Ha := TR.D_args _ _ _ HD). assert (HFm := TR.missing_in_range tbl ts Ha).
    rewrite Ha in Hf', HFm.
    eexists _, ts'. split; [exact Hf'|]. split; [exact HFm|].
    intros i Hi. apply (TR.found_all_mem keq Hr Hs Ht _ _ _ _ Hf').
    destruct (omem (ta_order ts) i) eqn:Em; [now left|]. right.
    apply filter_In. split; [now apply TR.in_zrange | now rewrite Em].
  Qed.

  Lemma str_table_done tbl ts fs adds :
    DIs tbl ts -> EIs tbl ts fs -> additional_args str_eqb ts = OK adds ->
    exists is2 fs2, TR.add_all str_eqb fs adds = OK (is2, fs2) /\ fa_to_tuple fs2 = OK tbl.
  Proof.
    intros HD HE Hadd.
    destruct (adds_found str_eqb str_eqb_refl str_eqb_sym str_eqb_trans _ _ _ HD Hadd)
      as (idxs & ts' & Hf & HF & Hall).
    destruct (TR.replay_found_all str_eqb str_eqb_refl str_eqb_sym str_eqb_trans _ _ _ _ _ _ HD HE HF Hf)
      as (fs2 & Hadd2 & HD2 & HE2).
    exists idxs, fs2. split; [exact Hadd2|].
    exact (TR.to_tuple_full str_eqb str_eqb_refl str_eqb_sym str_eqb_trans _ _ _ HD2 HE2 Hall).
  Qed.

  Lemma addl_names : forall an en ev ec ek rest,
    ADDL (arg_of_additional AName an ++ rest) bt freevars (mkEnc en ev ec ek) =
    match TR.add_all str_eqb en an with
    | OK (_, t) => ADDL rest bt freevars (mkEnc t ev ec ek)
    | Err e => Err e
    end.
  Proof.
    induction an as [|[s ov] r IH]; intros; [reflexivity|].
    cbn [arg_of_additional map app add_additional from_arg fst snd TR.add_all e_names e_varnames
         e_cellvars e_consts].
    destruct (fa_add str_eqb en s ov) as [[i t]|]; [|reflexivity].
    fold (@arg_of_additional const str AName r). rewrite IH.
    destruct (TR.add_all str_eqb t r) as [[? ?]|]; reflexivity.
  Qed.

  Lemma addl_varnames : forall an en ev ec ek rest,
    ADDL (arg_of_additional AVarname an ++ rest) bt freevars (mkEnc en ev ec ek) =
    match TR.add_all str_eqb ev an with
    | OK (_, t) => ADDL rest bt freevars (mkEnc en t ec ek)
    | Err e => Err e
    end.
  Proof.
    induction an as [|[s ov] r IH]; intros; [reflexivity|].
    cbn [arg_of_additional map app add_additional from_arg fst snd TR.add_all e_names e_varnames
         e_cellvars e_consts].
    destruct (fa_add str_eqb ev s ov) as [[i t]|]; [|reflexivity].
    fold (@arg_of_additional const str AVarname r). rewrite IH.
    destruct (TR.add_all str_eqb t r) as [[? ?]|]; reflexivity.
  Qed.

  Lemma addl_cellvars : forall an en ev ec ek rest,
    ADDL (arg_of_additional ACellvar an ++ rest) bt freevars (mkEnc en ev ec ek) =
    match TR.add_all str_eqb ec an with
    | OK (_, t) => ADDL rest bt freevars (mkEnc en ev t ek)
    | Err e => Err e
    end.
  Proof.
    induction an as [|[s ov] r IH]; intros; [reflexivity|].
    cbn [arg_of_additional map app add_additional from_arg fst snd TR.add_all e_names e_varnames
         e_cellvars e_consts].
    destruct (fa_add str_eqb ec s ov) as [[i t]|]; [|reflexivity].
    fold (@arg_of_additional const str ACellvar r). rewrite IH.
    destruct (TR.add_all str_eqb t r) as [[? ?]|]; reflexivity.
  Qed.

  Lemma addl_consts : forall idxs ts fs uses ts' en ev ec,
    TR.DI key_eqb ks ts -> TR.EI key_eqb ks ts fs ->
    Forall (fun i => 0 <= i < zlen ks) idxs ->
    TR.found_all key_eqb ts idxs = OK (uses, ts') ->
    exists fs', ADDL (arg_of_additional AConst uses) bt freevars (mkEnc en ev ec fs)
                = OK (mkEnc en ev ec fs') /\
                TR.DI key_eqb ks ts' /\ TR.EI key_eqb ks ts' fs'.
  Proof.
    induction idxs as [|i r IH]; intros ts fs uses ts' en ev ec HD HE HF H; cbn [TR.found_all] in H.
    - inversion H; subst. exists fs. cbn. auto.
    - apply Forall_cons_iff in HF as [Hi HF]. cbv beta in Hi.
      destruct (found_index key_eqb ts i) as [[[k ov] ts1]|] eqn:Ef; [|discriminate].
      destruct (TR.found_all key_eqb ts1 r) as [[l ts2]|] eqn:Er; [|discriminate].
      inversion H; subst uses ts2. clear H.
      assert (Hi0 : 0 <= i) by lia.
      destruct (step_const _ _ _ _ _ _ en ev ec HD HE Hi0 Ef) as (fs1 & Hadd & HD1 & HE1).
      destruct (IH _ _ _ _ en ev ec HD1 HE1 HF Er) as (fs' & Hall & HD' & HE').
      exists fs'. split; [|split; assumption].
      cbn [arg_of_additional map fst snd add_additional]. rewrite Hadd. exact Hall.
  Qed.

  Lemma collect_length {T} (d : odict T) : forall n i l, collect d n i = Some l -> length l = n.
  Proof.
    induction n as [|n IH]; intros i l H; cbn [collect] in H.
    - inversion H. reflexivity.
    - destruct (oget d i); [|discriminate]. destruct (collect d n (i + 1)) eqn:E; [|discriminate].
      inversion H; subst. cbn [length]. f_equal. eapply IH; eassumption.
  Qed.

  Lemma to_tuple_len {T} (fs : fromargs T) l : fa_to_tuple fs = OK l -> zlen (fa_items fs) = zlen l.
  Proof.
    unfold fa_to_tuple. destruct (collect _ _ _) eqn:E; [|discriminate]. intros H; inversion H; subst.
    apply collect_length in E. unfold zlen. now rewrite E.
  Qed.

  Lemma additional_sim st est an av ac ak :
    Inv st est ->
    additional_args str_eqb (d_names st) = OK an ->
    additional_args str_eqb (d_varnames st) = OK av ->
    additional_args str_eqb (d_cellvars st) = OK ac ->
    additional_args key_eqb (d_consts st) = OK ak ->
    exists est2,
      ADDL (arg_of_additional AName an ++ arg_of_additional AVarname av
            ++ arg_of_additional ACellvar ac ++ arg_of_additional AConst ak) bt freevars est = OK est2 /\
      fa_to_tuple (e_names est2) = OK names /\ fa_to_tuple (e_varnames est2) = OK varnames /\
      fa_to_tuple (e_cellvars est2) = OK cellvars /\ fa_to_tuple (e_consts est2) = OK ks.
  Proof.
    intros HI Hn Hv Hc Hk. destruct HI. destruct est as [en ev ec ek].
    cbn [e_names e_varnames e_cellvars e_consts] in *.
    destruct (str_table_done _ _ _ _ I_dn0 I_en0 Hn) as (in2 & fn2 & An & Tn).
    destruct (str_table_done _ _ _ _ I_dv0 I_ev0 Hv) as (iv2 & fv2 & Av & Tv).
    destruct (str_table_done _ _ _ _ I_dc0 I_ec0 Hc) as (ic2 & fc2 & Ac & Tc).
    destruct (adds_found key_eqb kr ks_ kt _ _ _ I_dk0 Hk) as (idxs & ts' & Hf & HF & Hall).
    destruct (addl_consts _ _ _ _ _ fn2 fv2 fc2 I_dk0 I_ek0 HF Hf) as (fk2 & Ak & HDk & HEk).
    exists (mkEnc fn2 fv2 fc2 fk2).
    rewrite addl_names, An, addl_varnames, Av, addl_cellvars, Ac.
    split; [exact Ak|]. cbn [e_names e_varnames e_cellvars e_consts].
    repeat split; try assumption.
    exact (TR.to_tuple_full key_eqb kr ks_ kt _ _ _ HDk HEk Hall).
  Qed.
End Sim.

(* ------------------------------------------------------------------ *)
(** * 4. Relaxation: with the original sizes, one round computes the original jump operands *)

Lemma firstn_exact {A} (l l' : list A) n : length l = n -> firstn n (l ++ l') = l.
Proof. intros <-. induction l as [|x l IH]; [destruct l'; reflexivity|]. cbn. now rewrite IH. Qed.
Lemma skipn_exact {A} (l l' : list A) n : length l = n -> skipn n (l ++ l') = l'.
Proof. intros <-. induction l as [|x l IH]; [reflexivity|]. cbn. exact IH. Qed.

Lemma Forall2_map_l_in {A A' B} (f : A -> A') (R : A -> B -> Prop) (Q : A' -> B -> Prop) l ps :
  Forall2 R l ps -> (forall x p, In x l -> In p ps -> R x p -> Q (f x) p) -> Forall2 Q (map f l) ps.
Proof.
  induction 1 as [|x p l ps Hxp HF IH]; intros H; cbn [map]; constructor.
  - apply H; [now left|now left|exact Hxp].
  - apply IH. intros x' p' Hx' Hp'. apply H; now right.
Qed.

Section Relax.
  Context {C : Type}.
  Variable c : cfg.

  Definition mult : Z := if cfg_v310 c then 1 else 2.

  (* operand values that enter the relaxation loop *)
  Definition v1i (i : instr_ C) (p : pinstr) : Z :=
    match i_arg i with AJump _ _ => 1 | _ => p_arg p end.

  Definition sz_ok (i : instr_ C) (p : pinstr) : Prop := n_units (i_nargs i) (v1i i p) = p_nargs p.

  Lemma sum_sizes : forall blk ps, Forall2 sz_ok blk ps ->
    sumZ (map (fun iv : instr_ C * Z => n_units (i_nargs (fst iv)) (snd iv))
              (combine blk (zipw v1i blk ps))) = sumZ (map p_nargs ps).
  Proof.
    induction 1 as [|i p blk ps Hip HF IH]; [reflexivity|].
    rewrite zipw_cons. cbn [combine map fst snd]. unfold sumZ in *. cbn [fold_right].
    rewrite IH. unfold sz_ok in Hip. lia.
  Qed.

  Lemma block_offsets_ok : forall (blocks : list (list (instr_ C))) ps cur s,
    tiled s ps -> s = 2 * cur -> Forall2 sz_ok (concat blocks) ps ->
    Forall (fun b => b <> []) blocks ->
    Forall2 (fun bo t => t = 2 * bo)
            (block_offsets blocks (zipw v1i (concat blocks) ps) cur)
            (BP.block_starts blocks (map p_first ps)).
  Proof.
    induction blocks as [|blk r IH]; intros ps cur s Ht Hs HF Hne; [constructor|].
    cbn [concat] in HF. apply Forall2_app_inv_l in HF as (ps1 & ps2 & H1 & H2 & ->).
    apply Forall_cons_iff in Hne as [Hb Hne].
    assert (Hlen : length blk = length ps1) by (eapply Forall2_length'; eassumption).
    cbn [block_offsets BP.block_starts concat].
    rewrite zipw_app by exact Hlen.
    rewrite (firstn_exact _ _ _ (zipw_length v1i blk ps1 Hlen)).
    rewrite (skipn_exact _ _ _ (zipw_length v1i blk ps1 Hlen)).
    rewrite (sum_sizes _ _ H1). rewrite map_app.
    rewrite (skipn_exact (map p_first ps1) _ (length blk)) by (rewrite map_length; lia).
    destruct (tiled_app _ _ _ Ht) as [T1 T2].
    constructor.
    - destruct ps1 as [|p ps1]; [destruct blk; [congruence|discriminate]|].
      cbn [map app]. cbn [tiled] in T1. lia.
    - eapply IH; [exact T2| |exact H2|exact Hne]. lia.
  Qed.

  Definition jrel (offs : list Z) (i : instr_ C) (p : pinstr) : Prop :=
    sz_ok i p /\
    match i_arg i with
    | AJump k rel =>
        exists toff, py_index_dict offs k = Some toff /\
          2 * toff = (if rel then p_next p + scale c * p_arg p else scale c * p_arg p) /\
          (i_nargs i = None -> 0 <= p_arg p < 256) /\ (forall n, i_nargs i = Some n -> n <> 0)
    | _ => True
    end.

  Lemma update_jumps_ok offs : forall (l : list (instr_ C)) ps cur s,
    tiled s ps -> s = 2 * cur -> Forall2 (jrel offs) l ps ->
    update_jumps c l (zipw v1i l ps) offs cur = OK (map p_arg ps, false).
  Proof.
    intros l ps cur s Ht Hs HF. revert cur s Ht Hs.
    induction HF as [|i p l ps [Hsz Hj] HF IH]; intros cur s Ht Hs; [reflexivity|].
    rewrite zipw_cons. cbn [update_jumps map]. cbn [tiled] in Ht. destruct Ht as (T1 & T2 & T3).
    unfold sz_ok in Hsz. rewrite Hsz.
    assert (IH' := IH (cur + p_nargs p) (p_next p) T3 ltac:(lia)).
    destruct (i_arg i) as [z|k rel|s0 ov|s0 ov|k0 ov|s0|s0 ov|z] eqn:Ea;
      try (rewrite IH'; unfold v1i; rewrite Ea; reflexivity).
    destruct Hj as (toff & Hpd & Htoff & Hnone & Hsome). rewrite Hpd, IH'.
    assert (Hnv : (if rel then (toff - (cur + p_nargs p)) * (if cfg_v310 c then 1 else 2)
                   else (if cfg_v310 c then 1 else 2) * toff) = p_arg p).
    { unfold scale in Htoff. destruct rel; destruct (cfg_v310 c); lia. }
    rewrite Hnv. f_equal. f_equal.
    destruct (i_nargs i) as [n|] eqn:En.
    - specialize (Hsome n eq_refl). destruct (n =? 0) eqn:E0; [lia|]. reflexivity.
    - specialize (Hnone eq_refl). cbn [negb andb].
      unfold v1i in Hsz. rewrite Ea in Hsz. cbn in Hsz. rewrite <- Hsz.
      unfold instrsize. destruct (p_arg p <? 0) eqn:E1; [lia|].
      destruct (p_arg p <=? 255) eqn:E2; [reflexivity|lia].
  Qed.

  Lemma relax_ok (blocks : list (list (instr_ C))) ps :
    tiled 0 ps -> Forall2 sz_ok (concat blocks) ps -> Forall (fun b => b <> []) blocks ->
    (forall offs, Forall2 (fun bo t => t = 2 * bo) offs (BP.block_starts blocks (map p_first ps)) ->
                  Forall2 (jrel offs) (concat blocks) ps) ->
    relax (3 * length (concat blocks) + 2) c blocks (zipw v1i (concat blocks) ps) = OK (map p_arg ps).
  Proof.
    intros Ht Hsz Hne Hj.
    replace (3 * length (concat blocks) + 2)%nat with (S (3 * length (concat blocks) + 1)) by lia.
    cbn [relax].
    rewrite (update_jumps_ok _ _ _ 0 0 Ht ltac:(lia)
               (Hj _ (block_offsets_ok _ _ 0 0 Ht ltac:(lia) Hsz Hne))).
    reflexivity.
  Qed.
End Relax.

(* ------------------------------------------------------------------ *)
(** * 5. Initial states *)

Lemma nth_error_firstn_lt {A} (l : list A) : forall P I, (I < P)%nat -> nth_error (firstn P l) I = nth_error l I.
Proof.
  induction l as [|x l IH]; intros P I H.
  - rewrite firstn_nil. reflexivity.
  - destruct P; [lia|]. destruct I; [reflexivity|]. cbn. apply IH. lia.
Qed.

Lemma varnames_preset varnames freevars a :
  tables_wf varnames freevars a = true ->
  0 <= args_len a <= zlen varnames /\ TR.preset_unique str_eqb varnames (args_len a) /\
  args_to_varnames a = take (args_len a) varnames /\ NoDup freevars.
Proof.
  unfold tables_wf. cbv zeta. intros H. split_andb.
  assert (Hp : 0 <= args_len a) by (unfold args_len, zlen; lia).
  split; [lia|]. split; [|split; [now apply ConstsProofs.strlist_eqb_spec|now apply nodup_str_NoDup]].
  set (p := args_len a) in *.
  intros i j x y Hi Hj Hne Hx Hy. apply str_eqb_false. intros ->.
  apply py_index_Some_range in Hx as [_ Hx]; [|lia].
  apply py_index_Some_range in Hy as [_ Hy]; [|lia].
  assert (Hxt : nth_error (take p varnames) (Z.to_nat i) = Some y)
    by (unfold take; rewrite nth_error_firstn_lt by lia; exact Hx).
  destruct (Z_lt_ge_dec j p) as [Hjp|Hjp].
  - assert (Hyt : nth_error (take p varnames) (Z.to_nat j) = Some y)
      by (unfold take; rewrite nth_error_firstn_lt by lia; exact Hy).
    match goal with N : nodup_str _ = true |- _ => apply nodup_str_NoDup in N;
      pose proof (BP.NoDup_nth_error_inj _ _ _ _ N Hxt Hyt) end. lia.
  - assert (Hyd : In y (drop p varnames)).
    { unfold drop. apply (nth_error_In _ (Z.to_nat j - Z.to_nat p)).
      rewrite DV.nth_error_skipn_add. replace (Z.to_nat p + (Z.to_nat j - Z.to_nat p))%nat
        with (Z.to_nat j) by lia. exact Hy. }
    match goal with F : forallb _ (take p varnames) = true |- _ =>
      rewrite forallb_forall in F; specialize (F y (nth_error_In _ _ Hxt)) end.
    apply existsb_str_In in Hyd. rewrite Hyd in *. discriminate.
Qed.

Lemma preset_unique_0 {T} (keq : T -> T -> bool) tbl : TR.preset_unique keq tbl 0.
Proof. intros i j a b Hi. lia. Qed.

Lemma DI0_str tbl : TR.DI str_eqb tbl (toargs_init tbl 0).
Proof.
  apply (TR.DI_init str_eqb str_eqb_refl str_eqb_sym str_eqb_trans); [unfold zlen; lia|apply preset_unique_0].
Qed.
Lemma DI0_key tbl : TR.DI key_eqb tbl (toargs_init tbl 0).
Proof. apply (TR.DI_init key_eqb kr ks_ kt); [unfold zlen; lia|apply preset_unique_0]. Qed.

Lemma doc_rule_hyp bt a ks : bt_consistent bt a ks = true ->
  docstring_is_none bt = true -> match ks with KInner (IStr _) :: _ => False | _ => True end.
Proof.
  unfold bt_consistent, docstring_is_none. destruct bt as [f|]; [|discriminate].
  intros H Hd. split_andb. destruct (fn_doc f); [discriminate|].
  destruct ks as [|[[]|] r]; try exact I. discriminate.
Qed.

Lemma init_inv names varnames freevars cellvars ks bt a st1 :
  tables_wf varnames freevars a = true -> bt_consistent bt a ks = true ->
  (if has_docstring bt then
     match found_index key_eqb (toargs_init ks 0) 0 with
     | OK (_, _, t) => OK (mkDec (toargs_init names 0) (toargs_init varnames (args_len a))
                                 (toargs_init cellvars 0) t)
     | Err e => Err e
     end
   else OK (mkDec (toargs_init names 0) (toargs_init varnames (args_len a))
                  (toargs_init cellvars 0) (toargs_init ks 0))) = OK st1 ->
  exists est0, enc_init key_eqb (fun s => KInner (IStr s)) bt = OK est0 /\
               Inv names varnames cellvars ks st1 est0.
Proof.
  intros Twf Bc Hst.
  destruct (varnames_preset _ _ _ Twf) as (Hp & Hu & Hav & _).
  unfold bt_consistent in Bc. destruct bt as [f|].
  - split_andb.
    match goal with A : args_eqb _ _ = true |- _ => apply ConstsProofs.args_eqb_spec in A; rename A into Hfa end.
    destruct (TR.EI_preset0 str_eqb str_eqb_refl str_eqb_sym str_eqb_trans varnames (args_len a) Hp Hu)
      as (fv0 & Hset & HEv).
    assert (HDv := TR.DI_init str_eqb str_eqb_refl str_eqb_sym str_eqb_trans varnames (args_len a) Hp Hu).
    unfold enc_init. rewrite Hfa, Hav.
    change ((fix go (l : list str) (i : Z) (t : fromargs str) {struct l} : res (fromargs str) :=
               match l with
               | [] => OK t
               | k :: r => match fa_setitem str_eqb t i k with
                           | OK t' => go r (i + 1) t'
                           | Err e => Err e
                           end
               end) (take (args_len a) varnames) 0 fromargs_empty)
      with (TR.set_all str_eqb (take (args_len a) varnames) 0 fromargs_empty).
    rewrite Hset. unfold has_docstring in Hst.
    destruct (fn_doc f) as [d|] eqn:Ed.
    + cbn [opt_is_some] in Hst.
      destruct ks as [|[[]|] r]; try discriminate.
      match goal with S : str_eqb d ?s' = true |- _ => apply str_eqb_spec in S; subst s' end.
      destruct (found_index key_eqb (toargs_init (KInner (IStr d) :: r) 0) 0) as [[[x ov] t]|] eqn:F;
        [|discriminate].
      inversion Hst; subst st1. clear Hst.
      assert (Hr0 : 0 <= 0 < zlen (KInner (IStr d) :: r)) by (unfold zlen; cbn [length]; lia).
      destruct (TR.replay_step key_eqb kr ks_ kt _ _ _ _ _ _ _ (DI0_key _) (TR.EI_empty key_eqb _)
                  Hr0 F) as (fs1 & Hadd & HD1 & HE1).
      assert (Hx : x = KInner (IStr d)).
      { apply DV.found_index_spec in F as [F _]. cbn in F. now inversion F. }
      subst x.
      assert (Hset0 : fa_setitem key_eqb fromargs_empty 0 (KInner (IStr d)) = OK fs1).
      { unfold fa_add in Hadd. destruct ov as [i|].
        - destruct (fa_setitem key_eqb fromargs_empty i (KInner (IStr d))) eqn:E; [|discriminate].
          inversion Hadd; subst. exact E.
        - cbn [key_lookup fa_index fromargs_empty fa_items] in Hadd.
          change (zlen (@nil (Z * const))) with 0 in Hadd.
          destruct (fa_setitem key_eqb fromargs_empty 0 (KInner (IStr d))) eqn:E; [|discriminate].
          inversion Hadd; subst. reflexivity. }
      rewrite Hset0. eexists. split; [reflexivity|].
      constructor; cbn [d_names d_varnames d_cellvars d_consts e_names e_varnames e_cellvars e_consts];
        try apply DI0_str; try apply TR.EI_empty; assumption.
    + cbn [opt_is_some] in Hst. inversion Hst; subst st1. eexists. split; [reflexivity|].
      constructor; cbn [d_names d_varnames d_cellvars d_consts e_names e_varnames e_cellvars e_consts];
        try apply DI0_str; try apply DI0_key; try apply TR.EI_empty; assumption.
  - cbn [has_docstring] in Hst. inversion Hst; subst st1. assert (Hz : args_len a = 0) by lia.
    rewrite Hz. eexists. split; [reflexivity|].
    constructor; cbn [d_names d_varnames d_cellvars d_consts e_names e_varnames e_cellvars e_consts];
      try apply DI0_str; try apply DI0_key; try apply TR.EI_empty.
Qed.

(* ------------------------------------------------------------------ *)
(** * 6. Per-instruction facts for the retargeted instructions *)

Lemma retarget_nargs {C} T (i : instr_ C) : i_nargs (retarget T i) = i_nargs i.
Proof. unfold retarget. destruct (i_arg i); reflexivity. Qed.

Lemma instrsize_small a : 0 <= a < 256 -> instrsize a = 1.
Proof.
  intros H. unfold instrsize. destruct (a <? 0) eqn:E1; [lia|]. destruct (a <=? 255) eqn:E2; [reflexivity|lia].
Qed.

Lemma add_freevar_offset_v0 cellvars (l : list (instr_ const)) : forall ps, length l = length ps ->
  add_freevar_offset (zlen cellvars) l (zipw (v0i cellvars) l ps) = zipw v1i l ps.
Proof.
  unfold add_freevar_offset. induction l as [|i l IH]; intros [|p ps] H; try discriminate; [reflexivity|].
  rewrite !zipw_cons. cbn [combine map fst snd]. rewrite IH by (cbn in H; lia). f_equal.
  unfold v0i, v1i, v0. destruct (i_arg i); lia.
Qed.

Lemma instr_facts c cellvars T (oi : Z * instr_ const) p :
  irel c cellvars oi p -> pi_ok p ->
  is_jump_op c (p_op p) || (p_nargs p =? instrsize (p_arg p)) = true ->
  let i' := retarget T (snd oi) in
  i_name i' = p_op p /\ n_units (i_nargs i') (p_arg p) = p_nargs p /\ sz_ok i' p /\
  (forall t rel, i_arg (snd oi) = AJump t rel ->
     t = (if rel then p_next p + scale c * p_arg p else scale c * p_arg p) /\
     (i_nargs i' = None -> 0 <= p_arg p < 256) /\ (forall n, i_nargs i' = Some n -> n <> 0)).
Proof.
  intros (Ho & Hn & Hrel & Hnov) (Ha & Hk & Hnx & Hone) Hmin. cbv zeta.
  rewrite DV.retarget_name, retarget_nargs, Hnov. split; [exact Hn|].
  unfold sz_ok. rewrite retarget_nargs, Hnov.
  destruct (i_arg (snd oi)) as [z|t rel|s0 ov|s0 ov|k0 ov|s0|s0 ov|z] eqn:Ea; cbn [arg_rel nov_of] in *;
    try (assert (Hj : is_jump_op c (p_op p) = false) by tauto; rewrite Hj in Hmin; cbn [orb] in Hmin;
         rewrite BP.retarget_nonjump by (intros ? ? X; rewrite Ea in X; discriminate X);
         unfold v1i; rewrite Ea; cbn [n_units];
         split; [lia|]; split; [lia|]; intros ? ? X; discriminate X).
  destruct Hrel as [_ Ht].
  unfold v1i. rewrite (BP.retarget_jump T _ _ _ Ea).
  destruct (p_nargs p >? 1) eqn:E1.
  - cbn [n_units]. destruct (p_nargs p =? 0) eqn:E0; [lia|].
    split; [reflexivity|]. split; [reflexivity|]. intros t' rel' X. inversion X; subst t' rel'.
    split; [exact Ht|]. split; [discriminate|]. intros n X'. inversion X'. lia.
  - assert (H1 : p_nargs p = 1) by lia. specialize (Hone H1). cbn [n_units].
    rewrite (instrsize_small (p_arg p)) by lia. rewrite (instrsize_small 1) by lia.
    split; [lia|]. split; [lia|]. intros t' rel' X. inversion X; subst t' rel'.
    split; [exact Ht|]. split; [lia|]. discriminate.
Qed.

Lemma Forall2_nth_r {A B} (R : A -> B -> Prop) l ps : Forall2 R l ps ->
  forall n p, nth_error ps n = Some p -> exists x, nth_error l n = Some x /\ R x p.
Proof.
  induction 1 as [|x p l ps Hxp HF IH]; intros n q Hn; [destruct n; discriminate|].
  destruct n as [|n]; cbn in Hn.
  - inversion Hn; subst. exists x. split; [reflexivity|exact Hxp].
  - apply IH in Hn. exact Hn.
Qed.

(* ------------------------------------------------------------------ *)
(** * 7. K3, component 1 *)

Ltac dmatch H :=
  match type of H with
  | match ?X with _ => _ end = _ => destruct X eqn:?; try discriminate H
  end.

Theorem K3_values : S_K3_values.
Proof.
  unfold S_K3_values.
  intros c b lm names varnames freevars cellvars ks bt a blocks addl lm' ps W U Tg Twf Bc Ep Hmin H.
  destruct (DV.ops_wf_spec c W) as [HE _].
  unfold bytes_to_blocks in H. cbv zeta in H.
  cbn [d_consts d_names d_varnames d_cellvars] in H.
  match type of H with
  | match ?X with _ => _ end = _ => destruct X as [st1|e] eqn:Est; [|discriminate]
  end.
  rewrite Ep in H.
  match type of H with
  | match ?X with _ => _ end = _ => destruct X as [[[ois lm1] st2]|e] eqn:Ed; [|discriminate]
  end.
  set (T := sorted_set (0 :: jump_targets ois)) in *.
  destruct (split_blocks T ois [] false) as [blocks0|e] eqn:Es; [|discriminate].
  destruct (additional_args str_eqb (d_names st2)) as [an|] eqn:An; [|discriminate].
  destruct (additional_args str_eqb (d_varnames st2)) as [av|] eqn:Av; [|discriminate].
  destruct (additional_args str_eqb (d_cellvars st2)) as [ac|] eqn:Ac; [|discriminate].
  destruct (additional_args key_eqb (d_consts st2)) as [ak|] eqn:Ak; [|discriminate].
  inversion H; subst blocks0 lm1 addl. clear H.
  (* tables: initial states, instruction loop, additional arguments *)
  destruct (init_inv _ _ _ _ _ _ _ _ Twf Bc Est) as (est0 & Hinit & HI0).
  destruct (varnames_preset _ _ _ Twf) as (_ & _ & _ & Hfree).
  pose proof (doc_rule_hyp _ _ _ Bc) as Hdoc.
  destruct (parse_tiled c b ps U Ep) as [Hpi Htl].
  assert (Hnn : Forall (fun p => 0 <= p_arg p) ps).
  { eapply Forall_impl; [|exact Hpi]. intros p Hp. apply Hp. }
  destruct (decode_sim c names varnames freevars cellvars ks bt Hdoc Hfree T _ _ _ _ _ _ _ HI0 Hnn Ed)
    as (est1 & Hfs & HI1 & HR).
  destruct (additional_sim names varnames freevars cellvars ks bt Hdoc _ _ _ _ _ _ HI1 An Av Ac Ak)
    as (est2 & Hadd & Tn & Tv & Tc & Tk).
  (* blocks: the partition facts *)
  pose proof (BP.decode_instrs_offsets _ _ _ _ _ _ _ _ _ Ed) as Hoff.
  assert (Hoff' : map fst ois = map p_first ps).
  { rewrite Hoff. apply map_ext. intros p. apply p_first_eq. }
  assert (Hfacts : concat blocks = map (retarget T) (map snd ois) /\
                   Forall (fun b => b <> []) blocks /\
                   (forall o i t rel, In (o, i) ois -> i_arg i = AJump t rel ->
                      exists k, i_arg (retarget T i) = AJump k rel /\ 0 <= k < zlen blocks /\
                        nth_error (BP.block_starts blocks (map fst ois)) (Z.to_nat k) = Some t)).
  { assert (Hcase : ois = [] \/ ois <> []) by (destruct ois; [left; reflexivity|right; discriminate]).
    destruct Hcase as [Hnil|Hne].
    { unfold T in Es. rewrite Hnil in *. cbn [split_blocks] in Es. inversion Es; subst blocks.
      split; [reflexivity|]. split; [constructor|]. intros o i t rel []. }
    destruct (DV.parse_dis_gen c names varnames freevars cellvars ks HE b 0 0 0 ps U ltac:(lia) ltac:(lia)
                ltac:(reflexivity) ltac:(reflexivity) Ep) as [HL Hnn'].
    change (0 =? 0) with true in HL. cbv iota in HL.
    assert (S1 : DV.st_ok names varnames cellvars ks st1).
    { destruct HI0. unfold DV.st_ok. repeat split; eapply TR.D_args; eassumption. }
    pose proof (DV.decode_instrs_view c names varnames freevars cellvars ks key_eqb W _ _ _ _ _ _ S1 Hnn' Ed)
      as Hv.
    destruct (BP.parse_bytes_offsets _ _ _ Ep) as [Hinc [Hfirst _]].
    assert (Hhd : exists i r, ois = (0, i) :: r).
    { destruct ois as [|[o i] r]; [congruence|].
      destruct ps as [|p ps']; [discriminate|]. cbn [map fst] in Hoff. injection Hoff as Ho _.
      rewrite (Hfirst p ps' eq_refl) in Ho. subst o. eauto. }
    assert (Hoi : BP.offsets_increasing ois) by (unfold BP.offsets_increasing; now rewrite Hoff).
    assert (Hfo : map (fun x : Z * instr_ const => fst (fst (DV.oview x))) ois = map fst ois)
      by reflexivity.
    assert (Hts : BP.targets_are_starts ois).
    { intros t Ht. apply BP.jump_targets_In in Ht as [o [i [rel [Hin Ei]]]].
      unfold targets_ok in Tg. cbv zeta in Tg. rewrite HL, <- Hv in Tg. rewrite forallb_forall in Tg.
      specialize (Tg (DV.oview (o, i)) (in_map DV.oview _ _ Hin)). unfold DV.oview in Tg at 1.
      cbn [snd fst] in Tg. rewrite Ei in Tg. cbn [DV.raw_val] in Tg. apply BP.zmem_In in Tg.
      rewrite map_map, Hfo in Tg. exact Tg. }
    destruct (BP.split_blocks_partition ois Hne Hoi Hhd Hts) as [blocks' [Es' [Hc [Hnb [Hbs [Hlen Hj]]]]]].
    fold T in Es', Hc, Hbs, Hlen, Hj.
    rewrite Es in Es'. inversion Es'; subst blocks'. clear Es'.
    split; [exact Hc|]. split; [exact Hnb|exact Hj]. }
  destruct Hfacts as (Hc & Hnb & Hj).
  (* per-instruction facts *)
  rewrite map_map in Hc. set (f := fun oi : Z * instr_ const => retarget T (snd oi)) in *.
  assert (Hlen : length (map f ois) = length ps).
  { rewrite map_length. eapply BP.decode_instrs_length; eassumption. }
  assert (Hall : forall oi p, In oi ois -> In p ps -> irel c cellvars oi p ->
            i_name (f oi) = p_op p /\ n_units (i_nargs (f oi)) (p_arg p) = p_nargs p /\ sz_ok (f oi) p /\
            (forall t rel, i_arg (snd oi) = AJump t rel ->
               t = (if rel then p_next p + scale c * p_arg p else scale c * p_arg p) /\
               (i_nargs (f oi) = None -> 0 <= p_arg p < 256) /\
               (forall n, i_nargs (f oi) = Some n -> n <> 0))).
  { intros oi p Hoi Hp Hr. rewrite Forall_forall in Hpi.
    unfold minimal_widths in Hmin. rewrite forallb_forall in Hmin.
    exact (instr_facts c cellvars T oi p Hr (Hpi p Hp) (Hmin p Hp)). }
  assert (Hsz : Forall2 sz_ok (map f ois) ps).
  { eapply Forall2_map_l_in; [exact HR|]. intros oi p Hoi Hp Hr. apply (Hall oi p Hoi Hp Hr). }
  assert (Hjr : forall offs,
             Forall2 (fun bo t => t = 2 * bo) offs (BP.block_starts blocks (map p_first ps)) ->
             Forall2 (jrel c offs) (map f ois) ps).
  { intros offs Hoffs. eapply Forall2_map_l_in; [exact HR|]. intros [o i] p Hoi Hp Hr.
    destruct (Hall _ p Hoi Hp Hr) as (_ & _ & Hs & Hjmp). split; [exact Hs|].
    unfold f. cbn [snd] in *.
    destruct (i_arg i) as [z|t rel|s0 ov|s0 ov|k0 ov|s0|s0 ov|z] eqn:Ea;
      try (rewrite BP.retarget_nonjump by (intros ? ? X; rewrite Ea in X; discriminate X);
           rewrite Ea; exact I).
    destruct (Hj o i t rel Hoi Ea) as (k & Ek & Hk & Hn). rewrite Ek.
    rewrite Hoff' in Hn.
    destruct (Forall2_nth_r _ _ _ Hoffs _ _ Hn) as (toff & Hto & Ht2).
    destruct (Hjmp t rel eq_refl) as (Ht & Hnone & Hsome).
    exists toff. split.
    - unfold py_index_dict. destruct (k <? 0) eqn:E; [lia|exact Hto].
    - split; [lia|]. split; assumption. }
  (* assemble *)
  exists est2. split; [|split; [exact Tn|split; [exact Tv|split; [exact Tc|split; [exact Tk|]]]]].
  - unfold encode_values. rewrite Hinit. cbv zeta. rewrite Hc.
    fold f in Hfs. rewrite map_map in Hfs. fold f in Hfs. rewrite Hfs, Hadd.
    rewrite (to_tuple_len _ _ Tc). rewrite add_freevar_offset_v0 by exact Hlen.
    rewrite <- Hc in *.
    rewrite (relax_ok c blocks ps Htl Hsz Hnb Hjr). reflexivity.
  - rewrite Hc. eapply Forall2_map_l_in; [exact HR|]. intros oi p Hoi Hp Hr.
    destruct (Hall oi p Hoi Hp Hr) as (H1 & H2 & _). split; assumption.
Qed.

Print Assumptions blocks_to_bytes_halves.
Print Assumptions K3_values.

(* ------------------------------------------------------------------ *)
(** * 8. The premise [minimal_widths] is needed (checked by computation, 3.9 configuration)

    A redundant EXTENDED_ARG 0 in front of LOAD_CONST is not recorded by the decoder (only jumps
    carry [_n_args_override]); the re-encoded instruction is one unit shorter and the jump over it
    gets another operand.  All other premises of S_K3_values hold. *)
Module NeedsMinimalWidths.
  Definition c := PCD.Gen.Cfg39.cfg.
  Definition b := [144; 0; 100; 0; 113; 6; 83; 0].   (* EXTENDED_ARG 0; LOAD_CONST 0; JUMP_ABSOLUTE 6; RETURN_VALUE *)
  Definition ks := [KInner INone].
  Definition lm : linemap := {| lm_lines := [(0, Some 1); (4, Some 1); (6, Some 1)]; lm_adds := [] |}.

  Example premises :
    (cfg_ops_wf c, code_ok c b, targets_ok c b [] [] [] [] ks, tables_wf [] [] empty_args,
     bt_consistent None empty_args ks) = (true, true, true, true, true)
    /\ match parse_bytes c b 0 0 0 with OK ps => minimal_widths c ps = false | Err _ => False end.
  Proof. vm_compute. split; reflexivity. Qed.

  Example values_differ :
    match parse_bytes c b 0 0 0, bytes_to_blocks key_eqb c b lm [] [] [] [] ks None empty_args with
    | OK ps, OK (blocks, addl, _) =>
        match encode_values key_eqb is_str_const (KInner INone) (fun s => KInner (IStr s))
                c blocks addl [] None with
        | OK (vals, _) => vals = [0; 4; 0] /\ map p_arg ps = [0; 6; 0] /\
                          map (fun i : instr_ const => n_units (i_nargs i) 0) (firstn 1 (concat blocks)) = [1] /\
                          map p_nargs (firstn 1 ps) = [2]
        | Err _ => False
        end
    | _, _ => False
    end.
  Proof. vm_compute. repeat split; reflexivity. Qed.
End NeedsMinimalWidths.

Check (K3_values : S_K3_values).
Check (blocks_to_bytes_halves : S_blocks_to_bytes_halves).
