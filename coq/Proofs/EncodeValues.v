(* C01 / K3, component 1: re-encoding the blocks decoded from a code string reproduces every
   operand value, every instruction size and the four tables (encode_values o bytes_to_blocks). *)
From Coq Require Import ZArith List Bool Lia ZifyBool.
From PCD Require Import Base.PyBase Base.Cfg Model.Flags Model.Args Model.Data Model.Consts
  Model.LineTable Model.Blocks Model.CodeData Spec.Lnotab Spec.Dis Model.ViewSer
  Proofs.C02_Statements Proofs.C11_Statements Proofs.C01_Statements.
From PCD Require Proofs.TablesReplay Proofs.BlocksPartition Proofs.DecodeView Proofs.InstrCodec
  Proofs.ConstsProofs.
Import ListNotations. Open Scope Z_scope.
Ltac Zify.zify_post_hook ::= Z.to_euclidean_division_equations.

Module TR := TablesReplay.
Module BP := BlocksPartition.
Module DV := DecodeView.

(* ------------------------------------------------------------------ *)
(** * 1. blocks_to_bytes = encode_values ; assemble ; to_tuple *)

Lemma blocks_to_bytes_halves : S_blocks_to_bytes_halves.
Proof.
  unfold S_blocks_to_bytes_halves, blocks_to_bytes, encode_values. intros.
  destruct (enc_init keq str_c bt) as [st0|e]; [|reflexivity].
  destruct (first_args keq is_str none_c (concat blocks) bt freevars st0) as [[vals0 st1]|e];
    [|reflexivity].
  destruct (add_additional keq is_str none_c additional bt freevars st1) as [st2|e]; [|reflexivity].
  cbv zeta. destruct (relax _ c blocks _) as [vals2|e]; reflexivity.
Qed.

(* ------------------------------------------------------------------ *)
(** * 2. Small facts *)

Lemma p_first_eq p : BP.p_first p = p_first p.
Proof. destruct p as [[[[? ?] ?] ?] ?]; reflexivity. Qed.
Lemma p_next_eq p : BP.p_next p = p_next p.
Proof. destruct p as [[[[? ?] ?] ?] ?]; reflexivity. Qed.
Lemma p_arg_eq p : DV.p_arg p = p_arg p.
Proof. destruct p as [[[[? ?] ?] ?] ?]; reflexivity. Qed.
Lemma p_op_eq p : DV.p_op p = p_op p.
Proof. destruct p as [[[[? ?] ?] ?] ?]; reflexivity. Qed.

Lemma list_ind2 {A} (P : list A -> Prop) :
  P [] -> (forall x, P [x]) -> (forall x y r, P r -> P (x :: y :: r)) -> forall l, P l.
Proof.
  intros H0 H1 H2. fix IH 1. intros [|x [|y r]]; [exact H0|apply H1|apply H2, IH].
Qed.

Ltac split_andb :=
  repeat match goal with
         | H : _ && _ = true |- _ => apply andb_true_iff in H; destruct H
         end.

(* what code_ok says about every parsed instruction *)
Definition pi_ok (p : pinstr) : Prop :=
  0 <= p_arg p /\ 1 <= p_nargs p /\ p_next p = p_first p + 2 * p_nargs p /\
  (p_nargs p = 1 -> p_arg p < 256).

Lemma parse_props c : forall b i n acc ps,
  units_ok c b n acc = true -> 0 <= n -> 0 <= acc -> acc mod 256 = 0 -> (n = 0 -> acc = 0) ->
  parse_bytes c b i n acc = OK ps -> Forall pi_ok ps.
Proof.
  intros b. induction b as [|x|op byte r IH] using list_ind2; intros i n acc ps U Hn Ha Hm H0 P.
  - cbn [parse_bytes] in P. inversion P. constructor.
  - cbn [parse_bytes] in P. discriminate.
  - cbn [parse_bytes] in P. cbn [units_ok] in U.
    destruct (op =? cfg_extended_arg c) eqn:E.
    + split_andb.
      assert (L1 : Z.lor acc byte = acc + byte) by (apply InstrCodec.lor_add; lia).
      rewrite L1 in P. rewrite InstrCodec.shl8 in P.
      match goal with U' : units_ok _ _ _ _ = true |- _ =>
        pose proof (DV.units_ok_bound _ _ _ _ U' ltac:(lia) ltac:(lia)) as Hb end.
      assert (W : (if (acc + byte) * 256 >? c_int_upper_limit
                   then (acc + byte) * 256 - c_int_length else (acc + byte) * 256)
                  = (acc + byte) * 256).
      { unfold c_int_upper_limit. destruct ((acc + byte) * 256 >? 2147483647) eqn:W; [lia|reflexivity]. }
      rewrite W in P.
      match goal with U' : units_ok _ _ _ _ = true |- _ =>
        exact (IH (i + 2) (n + 1) ((acc + byte) * 256) ps U' ltac:(lia) ltac:(lia) ltac:(lia)
                  ltac:(lia) P) end.
    + destruct (parse_bytes c r (i + 2) 0 0) as [rest|e] eqn:Er; [|discriminate].
      inversion P; subst ps. clear P. split_andb.
      assert (L1 : Z.lor acc byte = acc + byte) by (apply InstrCodec.lor_add; lia).
      constructor.
      * unfold pi_ok, p_arg, p_nargs, p_next, p_first. cbn [fst snd]. rewrite L1.
        repeat split; lia.
      * match goal with U' : units_ok _ _ _ _ = true |- _ =>
          exact (IH (i + 2) 0 0 rest U' ltac:(lia) ltac:(lia) ltac:(reflexivity) ltac:(reflexivity) Er)
        end.
Qed.

(* the instructions tile the code string *)
Fixpoint tiled (s : Z) (ps : list pinstr) : Prop :=
  match ps with
  | [] => True
  | p :: r => p_first p = s /\ p_next p = s + 2 * p_nargs p /\ tiled (p_next p) r
  end.

Lemma chained_tiled : forall ps s, BP.chained s ps -> Forall pi_ok ps -> tiled s ps.
Proof.
  induction ps as [|p r IH]; intros s Hc HF; [exact I|].
  apply Forall_cons_iff in HF as [Hp HF'].
  cbn [BP.chained] in Hc. destruct Hc as (H1 & H2 & H3).
  rewrite p_first_eq in H1. rewrite p_next_eq in H3. destruct Hp as (_ & _ & Hn & _).
  cbn [tiled]. split; [exact H1|]. split; [lia|]. apply IH; assumption.
Qed.

Lemma parse_tiled c b ps : code_ok c b = true -> parse_bytes c b 0 0 0 = OK ps ->
  Forall pi_ok ps /\ tiled 0 ps.
Proof.
  intros U P.
  assert (HF : Forall pi_ok ps)
    by (eapply (parse_props c b 0 0 0); eauto; lia).
  split; [exact HF|]. apply chained_tiled; [|exact HF].
  exact (BP.parse_bytes_chained c b 0 0 0 ps ltac:(lia) P).
Qed.

Lemma tiled_app : forall ps1 ps2 s, tiled s (ps1 ++ ps2) ->
  tiled s ps1 /\ tiled (s + 2 * sumZ (map p_nargs ps1)) ps2.
Proof.
  induction ps1 as [|p r IH]; intros ps2 s H.
  - cbn [app map sumZ fold_right tiled] in *. split; [exact I|].
    replace (s + 2 * 0) with s by lia. exact H.
  - cbn [app tiled] in H. destruct H as (H1 & H2 & H3). destruct (IH _ _ H3) as [I1 I2].
    cbn [tiled]. split; [tauto|]. cbn [map]. unfold sumZ in *. cbn [fold_right].
    replace (s + 2 * (p_nargs p + fold_right Z.add 0 (map p_nargs r)))
      with (p_next p + 2 * fold_right Z.add 0 (map p_nargs r)) by lia. exact I2.
Qed.

(** zipping two lists through a function *)
Definition zipw {A B} (f : A -> B -> Z) (l : list A) (ps : list B) : list Z :=
  map (fun ip => f (fst ip) (snd ip)) (combine l ps).

Lemma zipw_cons {A B} (f : A -> B -> Z) x l p ps : zipw f (x :: l) (p :: ps) = f x p :: zipw f l ps.
Proof. reflexivity. Qed.

Lemma zipw_length {A B} (f : A -> B -> Z) l ps : length l = length ps -> length (zipw f l ps) = length l.
Proof. intros H. unfold zipw. rewrite map_length, combine_length. lia. Qed.

Lemma zipw_app {A B} (f : A -> B -> Z) l1 l2 ps1 ps2 : length l1 = length ps1 ->
  zipw f (l1 ++ l2) (ps1 ++ ps2) = zipw f l1 ps1 ++ zipw f l2 ps2.
Proof.
  revert ps1. induction l1 as [|x l1 IH]; intros [|p ps1] H; try discriminate; [reflexivity|].
  cbn [app]. rewrite !zipw_cons. cbn [app]. f_equal. apply IH. cbn in H. lia.
Qed.

Lemma Forall2_length' {A B} (R : A -> B -> Prop) l ps : Forall2 R l ps -> length l = length ps.
Proof. induction 1; cbn; congruence. Qed.

Lemma py_index_Some_range {A} (l : list A) i x : 0 <= i -> py_index l i = Some x ->
  i < zlen l /\ nth_error l (Z.to_nat i) = Some x.
Proof.
  intros Hi H. unfold py_index, znth in H. destruct (i <? 0) eqn:E; [lia|].
  split; [|exact H]. assert (Z.to_nat i < length l)%nat by (apply nth_error_Some; congruence).
  unfold zlen. lia.
Qed.

(** str_eqb is an equivalence *)
Lemma str_eqb_refl x : str_eqb x x = true.
Proof. now apply str_eqb_spec. Qed.
Lemma str_eqb_sym x y : str_eqb x y = str_eqb y x.
Proof.
  destruct (str_eqb x y) eqn:E1; destruct (str_eqb y x) eqn:E2; try reflexivity.
  - apply str_eqb_spec in E1. subst. now rewrite str_eqb_refl in E2.
  - apply str_eqb_spec in E2. subst. now rewrite str_eqb_refl in E1.
Qed.
Lemma str_eqb_trans x y z : str_eqb x y = true -> str_eqb y z = true -> str_eqb x z = true.
Proof. intros H1 H2. apply str_eqb_spec in H1, H2. subst. apply str_eqb_refl. Qed.

Lemma str_eqb_false x y : x <> y -> str_eqb x y = false.
Proof. intros H. destruct (str_eqb x y) eqn:E; [|reflexivity]. apply str_eqb_spec in E. contradiction. Qed.

(** nodup_str *)
Lemma existsb_str_In x l : existsb (str_eqb x) l = true <-> In x l.
Proof.
  rewrite existsb_exists. split.
  - intros [y [Hy E]]. apply str_eqb_spec in E. now subst.
  - intros H. exists x. split; [exact H|apply str_eqb_refl].
Qed.

Lemma nodup_str_NoDup l : nodup_str l = true -> NoDup l.
Proof.
  induction l as [|x r IH]; cbn [nodup_str]; intros H; [constructor|].
  apply andb_true_iff in H as [H1 H2]. constructor; [|now apply IH].
  intros Hin. apply existsb_str_In in Hin. rewrite Hin in H1. discriminate.
Qed.

Lemma index_of_nodup s : forall (l : list str) n, NoDup l -> nth_error l n = Some s ->
  index_of str_eqb s l = Some (Z.of_nat n).
Proof.
  induction l as [|y r IH]; intros n Hnd Hn; [destruct n; discriminate|].
  inversion Hnd as [|? ? Hni Hnd']; subst. cbn [index_of]. destruct n as [|n].
  - cbn in Hn. inversion Hn; subst. now rewrite str_eqb_refl.
  - cbn [nth_error] in Hn. rewrite str_eqb_false.
    + rewrite (IH n Hnd' Hn). f_equal. lia.
    + intros ->. apply Hni. eapply nth_error_In; eassumption.
Qed.

(* ------------------------------------------------------------------ *)
(** * 3. One decoder step against one encoder step, all four tables at once *)

Notation kr := ConstsProofs.key_eqb_refl.
Notation ks_ := ConstsProofs.key_eqb_sym_eq.
Notation kt := ConstsProofs.key_eqb_trans.

Section Sim.
  Variable c : cfg.
  Variables names varnames freevars cellvars : list str.
  Variable ks : list const.
  Variable bt : option function.

  Notation FA := (from_arg key_eqb is_str_const (KInner INone)).
  Notation DIs := (TR.DI str_eqb).
  Notation EIs := (TR.EI str_eqb).

  (* the docstring-None rule of from_arg never fires on decoded data *)
  Hypothesis Hdoc : docstring_is_none bt = true ->
                    match ks with KInner (IStr _) :: _ => False | _ => True end.
  Hypothesis Hfree : NoDup freevars.

  Record Inv (st : decstate const) (est : encstate const) : Prop := {
    I_dn : DIs names (d_names st);       I_en : EIs names (d_names st) (e_names est);
    I_dv : DIs varnames (d_varnames st); I_ev : EIs varnames (d_varnames st) (e_varnames est);
    I_dc : DIs cellvars (d_cellvars st); I_ec : EIs cellvars (d_cellvars st) (e_cellvars est);
    I_dk : TR.DI key_eqb ks (d_consts st);
    I_ek : TR.EI key_eqb ks (d_consts st) (e_consts est)
  }.

  Lemma found_range {T} (keq : T -> T -> bool) tbl ts idx a ov ts1 :
    TR.DI keq tbl ts -> 0 <= idx -> found_index keq ts idx = OK (a, ov, ts1) ->
    0 <= idx < zlen tbl.
  Proof.
    intros HD Hi H. apply DV.found_index_spec in H as [H _]. rewrite (TR.D_args _ _ _ HD) in H.
    apply py_index_Some_range in H; [lia|exact Hi].
  Qed.

  Lemma step_str tbl ts fs idx s ov t :
    DIs tbl ts -> EIs tbl ts fs -> 0 <= idx -> found_index str_eqb ts idx = OK (s, ov, t) ->
    exists fs1, fa_add str_eqb fs s ov = OK (idx, fs1) /\ DIs tbl t /\ EIs tbl t fs1.
  Proof.
    intros HD HE Hi H.
    exact (TR.replay_step str_eqb str_eqb_refl str_eqb_sym str_eqb_trans tbl ts fs idx s ov t HD HE
             (found_range _ _ _ _ _ _ _ HD Hi H) H).
  Qed.

  Lemma rule_off ts fs idx k ov t :
    TR.DI key_eqb ks ts -> TR.EI key_eqb ks ts fs ->
    found_index key_eqb ts idx = OK (k, ov, t) ->
    docstring_is_none bt && (match fa_items fs with [] => true | _ => false end)
      && is_str_const k && negb (opt_is_some ov) = false.
  Proof.
    intros HD HE H.
    destruct (docstring_is_none bt) eqn:E1; [|reflexivity].
    destruct (fa_items fs) as [|x r] eqn:E2; [|reflexivity].
    destruct (is_str_const k) eqn:E3; [|reflexivity].
    destruct ov as [j|]; [reflexivity|]. exfalso.
    assert (Hlen := TR.E_len _ _ _ _ HE). rewrite E2 in Hlen.
    destruct (ta_order ts) as [|y r'] eqn:Eo; [|unfold zlen in Hlen; cbn [length] in Hlen; lia].
    apply TR.found_index_spec in H. destruct H as (Ha & _ & Hord & Hov & _).
    rewrite Eo in Hord. cbn in Hord. rewrite Hord in Hov. cbn [oget] in Hov.
    rewrite Z.eqb_refl in Hov.
    destruct (0 =? idx) eqn:E0; [|cbn in Hov; discriminate].
    assert (idx = 0) by lia. subst idx. rewrite (TR.D_args _ _ _ HD) in Ha.
    specialize (Hdoc eq_refl). destruct ks as [|k0 r0]; [discriminate|].
    cbn in Ha. inversion Ha; subst k0. destruct k as [[]|]; try discriminate. exact Hdoc.
  Qed.

  Lemma step_const ts fs idx k ov t en ev ec :
    TR.DI key_eqb ks ts -> TR.EI key_eqb ks ts fs -> 0 <= idx ->
    found_index key_eqb ts idx = OK (k, ov, t) ->
    exists fs1, FA (AConst k ov) bt freevars (mkEnc en ev ec fs) = OK (idx, mkEnc en ev ec fs1) /\
                TR.DI key_eqb ks t /\ TR.EI key_eqb ks t fs1.
  Proof.
    intros HD HE Hi H.
    destruct (TR.replay_step key_eqb kr ks_ kt ks ts fs idx k ov t HD HE
                (found_range _ _ _ _ _ _ _ HD Hi H) H) as (fs1 & Hadd & HD1 & HE1).
    exists fs1. split; [|split; assumption].
    cbn [from_arg e_consts e_names e_varnames e_cellvars].
    rewrite (rule_off _ _ _ _ _ _ HD HE H), Hadd. reflexivity.
  Qed.

  (* operand value as first computed by the encoder (before relaxation / free-variable offset) *)
  Definition v0 (parg : arg_ const) (a : Z) : Z :=
    match parg with AJump _ _ => 1 | AFreevar _ => a - zlen cellvars | _ => a end.

  Definition scale : Z := if cfg_v310 c then 2 else 1.

  Definition arg_rel (op a next : Z) (parg : arg_ const) : Prop :=
    match parg with
    | AJump t rel => is_jump_op c op = true /\ t = (if rel then next + scale * a else scale * a)
    | AFreevar _ => is_jump_op c op = false /\ zmem op (cfg_hasfree c) = true /\ zlen cellvars <= a
    | _ => is_jump_op c op = false
    end.

  Lemma to_arg_sim op a next st parg st' est :
    Inv st est -> 0 <= a ->
    to_arg key_eqb c op a next freevars st = OK (parg, st') ->
    exists est', FA parg bt freevars est = OK (v0 parg a, est') /\ Inv st' est' /\
                 arg_rel op a next parg.
  Proof.
    intros HI Ha H. destruct HI. destruct est as [en ev ec ek].
    cbn [e_names e_varnames e_cellvars e_consts] in *.
    unfold to_arg in H. unfold arg_rel, is_jump_op. fold scale in H.
    destruct (zmem op (cfg_hasjabs c)) eqn:E1.
    { inversion H; subst. eexists. split; [reflexivity|]. split; [constructor; assumption|].
      split; reflexivity. }
    destruct (zmem op (cfg_hasjrel c)) eqn:E2.
    { inversion H; subst. eexists. split; [reflexivity|]. split; [constructor; assumption|].
      split; reflexivity. }
    cbn [orb].
    destruct (zmem op (cfg_hasname c)) eqn:E3.
    { destruct (found_index str_eqb (d_names st) a) as [[[s ov] t]|e] eqn:F; [|discriminate].
      inversion H; subst parg st'.
      destruct (step_str _ _ _ _ _ _ _ I_dn0 I_en0 Ha F) as (fs1 & Hadd & HD1 & HE1).
      cbn [from_arg e_names e_varnames e_cellvars e_consts v0]. rewrite Hadd.
      eexists. split; [reflexivity|]. split; [constructor; assumption|reflexivity]. }
    destruct (zmem op (cfg_haslocal c)) eqn:E4.
    { destruct (found_index str_eqb (d_varnames st) a) as [[[s ov] t]|e] eqn:F; [|discriminate].
      inversion H; subst parg st'.
      destruct (step_str _ _ _ _ _ _ _ I_dv0 I_ev0 Ha F) as (fs1 & Hadd & HD1 & HE1).
      cbn [from_arg e_names e_varnames e_cellvars e_consts v0]. rewrite Hadd.
      eexists. split; [reflexivity|]. split; [constructor; assumption|reflexivity]. }
    destruct (zmem op (cfg_hasfree c)) eqn:E5.
    { rewrite (TR.D_args _ _ _ I_dc0) in H.
      destruct (a <? zlen cellvars) eqn:L.
      - destruct (found_index str_eqb (d_cellvars st) a) as [[[s ov] t]|e] eqn:F; [|discriminate].
        inversion H; subst parg st'.
        destruct (step_str _ _ _ _ _ _ _ I_dc0 I_ec0 Ha F) as (fs1 & Hadd & HD1 & HE1).
        cbn [from_arg e_names e_varnames e_cellvars e_consts v0]. rewrite Hadd.
        eexists. split; [reflexivity|]. split; [constructor; assumption|reflexivity].
      - destruct (py_index freevars (a - zlen cellvars)) as [s|] eqn:F; [|discriminate].
        inversion H; subst parg st'.
        apply py_index_Some_range in F as [_ F]; [|lia].
        cbn [from_arg v0]. rewrite (index_of_nodup s freevars _ Hfree F).
        replace (Z.of_nat (Z.to_nat (a - zlen cellvars))) with (a - zlen cellvars) by lia.
        eexists. split; [reflexivity|]. split; [constructor; assumption|].
        repeat split; lia. }
    destruct (zmem op (cfg_hasconst c)) eqn:E6.
    { destruct (found_index key_eqb (d_consts st) a) as [[[k ov] t]|e] eqn:F; [|discriminate].
      inversion H; subst parg st'.
      destruct (step_const _ _ _ _ _ _ en ev ec I_dk0 I_ek0 Ha F) as (fs1 & Hadd & HD1 & HE1).
      rewrite Hadd. cbn [v0].
      eexists. split; [reflexivity|]. split; [constructor; assumption|reflexivity]. }
    destruct (op <? cfg_have_argument c) eqn:L; inversion H; subst parg st';
      (eexists; split; [reflexivity|]; split; [constructor; assumption|reflexivity]).
  Qed.
End Sim.
