(* C02 (K1): the symbolic view of the decoded instruction stream is CPython's reading. *)
From Coq Require Import ZArith List Bool Lia ZifyBool Sorted.
From PCD Require Import Base.PyBase Base.Cfg Model.Flags Model.Args Model.Data Model.Consts
  Model.LineTable Model.Blocks Model.CodeData Spec.Lnotab Spec.Dis Model.ViewSer
  Proofs.C02_Statements Proofs.BlocksPartition.
From PCD Require Proofs.InstrCodec Proofs.LT_Lnotab Proofs.LT_310 Proofs.LT_ExpandCollapse
  Proofs.C10_Statements.
Import ListNotations. Open Scope Z_scope.
Ltac Zify.zify_post_hook ::= Z.to_euclidean_division_equations.

(* ------------------------------------------------------------------ *)
(** * 0. Small facts *)

Definition p_op (p : pinstr) : Z := let '(o, _, _, _, _) := p in o.
Definition p_arg (p : pinstr) : Z := let '(_, a, _, _, _) := p in a.

Lemma even_mod2 x : Z.even x = true <-> x mod 2 = 0.
Proof. exact (LT_310.even_mod2 x). Qed.

Lemma znth_nonneg {A} (l : list A) i : 0 <= i -> znth l i = nth_error l (Z.to_nat i).
Proof. intros H. unfold znth. destruct (i <? 0) eqn:E; [lia|reflexivity]. Qed.

Lemma py_index_nonneg {A} (l : list A) i : 0 <= i -> py_index l i = znth l i.
Proof. intros H. unfold py_index. destruct (i <? 0) eqn:E; [lia|reflexivity]. Qed.

Ltac split_andb :=
  repeat match goal with
         | H : _ && _ = true |- _ => apply andb_true_iff in H; destruct H
         end.

(* ------------------------------------------------------------------ *)
(** * 1. units_ok: the folded operand never reaches 2^31 *)

Lemma units_ok_bound c : forall b n acc,
  units_ok c b n acc = true -> 0 < n -> 0 <= acc -> acc < 2147483648.
Proof.
  intros b. induction b as [|x|op byte r IH] using LT_ExpandCollapse.list_ind2; intros n acc H Hn Ha.
  - cbn [units_ok] in H. lia.
  - cbn [units_ok] in H. discriminate.
  - cbn [units_ok] in H. destruct (op =? cfg_extended_arg c) eqn:E.
    + split_andb.
      match goal with U : units_ok _ _ _ _ = true |- _ => apply IH in U; lia end.
    + split_andb. lia.
Qed.

Lemma parse_first_range c : forall b i n arg ps,
  0 <= n -> parse_bytes c b i n arg = OK ps ->
  Forall (fun p => (p_first p - i) mod 2 = 0 /\ i - 2 * n <= p_first p < i + zlen b) ps.
Proof.
  intros b. induction b as [|x|op byte r IH] using LT_ExpandCollapse.list_ind2;
    intros i n arg ps Hn P.
  - cbn [parse_bytes] in P. inversion P. constructor.
  - cbn [parse_bytes] in P. discriminate.
  - cbn [parse_bytes] in P.
    assert (Z : zlen (op :: byte :: r) = zlen r + 2) by (unfold zlen; cbn [length]; lia).
    rewrite Z. pose proof (Zle_0_nat (length r)) as Hl. fold (zlen r) in Hl.
    destruct (op =? cfg_extended_arg c) eqn:E.
    + apply IH in P; [|lia]. eapply Forall_impl; [|exact P]. cbv beta. intros p [A B]. split; lia.
    + destruct (parse_bytes c r (i + 2) 0 0) as [rest|e] eqn:Er; [|discriminate].
      inversion P; subst ps. apply IH in Er; [|lia]. constructor.
      * cbn [p_first]. split; lia.
      * eapply Forall_impl; [|exact Er]. cbv beta. intros p [A B]. split; lia.
Qed.

(** cfg_ops_wf unpacked *)
Lemma disj_row l r : forallb (fun x => forallb (fun l' => negb (zmem x l')) r) l = true ->
  forall x l', zmem x l = true -> In l' r -> zmem x l' = false.
Proof.
  intros H x l' Hx Hl. apply zmem_In in Hx. rewrite forallb_forall in H. specialize (H x Hx).
  rewrite forallb_forall in H. specialize (H l' Hl). destruct (zmem x l'); [discriminate|reflexivity].
Qed.

Lemma ge_row (P : Z -> bool) l : forallb P l = true -> forall x, zmem x l = true -> P x = true.
Proof. intros H x Hx. apply zmem_In in Hx. rewrite forallb_forall in H. now apply H. Qed.

Lemma ops_wf_spec c : cfg_ops_wf c = true ->
  cfg_have_argument c <= cfg_extended_arg c /\
  forall op,
    (zmem op (cfg_hasjabs c) = true -> cfg_have_argument c <= op /\
       zmem op (cfg_hasjrel c) = false /\ zmem op (cfg_hasname c) = false /\
       zmem op (cfg_haslocal c) = false /\ zmem op (cfg_hasfree c) = false /\
       zmem op (cfg_hasconst c) = false) /\
    (zmem op (cfg_hasjrel c) = true -> cfg_have_argument c <= op /\
       zmem op (cfg_hasname c) = false /\
       zmem op (cfg_haslocal c) = false /\ zmem op (cfg_hasfree c) = false /\
       zmem op (cfg_hasconst c) = false) /\
    (zmem op (cfg_hasname c) = true -> cfg_have_argument c <= op /\
       zmem op (cfg_haslocal c) = false /\ zmem op (cfg_hasfree c) = false /\
       zmem op (cfg_hasconst c) = false) /\
    (zmem op (cfg_haslocal c) = true -> cfg_have_argument c <= op /\
       zmem op (cfg_hasfree c) = false /\ zmem op (cfg_hasconst c) = false) /\
    (zmem op (cfg_hasfree c) = true -> cfg_have_argument c <= op /\
       zmem op (cfg_hasconst c) = false) /\
    (zmem op (cfg_hasconst c) = true -> cfg_have_argument c <= op).
Proof.
  unfold cfg_ops_wf. intros H. apply andb_true_iff in H as [H HE]. apply andb_true_iff in H as [HD HG].
  split; [lia|]. intros op.
  cbn [disjoint_lists] in HD. cbn [forallb] in HG. split_andb.
  repeat match goal with
         | H : forallb (fun x => forallb _ _) _ = true |- _ => pose proof (disj_row _ _ H op); clear H
         | H : forallb (fun x => _ && _) _ = true |- _ => pose proof (ge_row _ _ H op); clear H
         end.
  cbv beta in *.
  repeat split; intros;
    try match goal with
        | H : forall l', zmem op ?A = true -> In l' _ -> _, X : zmem op ?A = true |- zmem op ?B = false =>
            apply (H B X); cbn [In]; tauto
        | H : zmem op ?A = true -> _ && _ = true, X : zmem op ?A = true |- _ <= _ =>
            specialize (H X); lia
        end.
Qed.

Lemma found_index_spec {T} (keq : T -> T -> bool) (st : toargs T) i a ov st' :
  found_index keq st i = OK (a, ov, st') ->
  py_index (ta_args st) i = Some a /\ ta_args st' = ta_args st.
Proof.
  unfold found_index. destruct (py_index (ta_args st) i) as [x|]; [|discriminate].
  intros H. injection H as Hx _ Hs. subst st'. split; [now subst|].
  destruct (omem (ta_order st) i); [reflexivity|].
  destruct (key_lookup keq (ta_keys st) x); reflexivity.
Qed.

(** odict / range2 facts *)
Lemma oget_odel_neq {V} (d : odict V) k k' : k <> k' -> oget (odel d k) k' = oget d k'.
Proof.
  intros Hk. induction d as [|[k0 v0] d IH]; [reflexivity|].
  cbn [odel oget]. destruct (k0 =? k) eqn:E.
  - destruct (k0 =? k') eqn:E'; [lia|reflexivity].
  - cbn [oget]. destruct (k0 =? k'); [reflexivity|exact IH].
Qed.

Lemma oget_fold_odel {V} (l : list Z) : forall (d : odict V) k',
  ~ In k' l -> oget (fold_left (fun d k => odel d k) l d) k' = oget d k'.
Proof.
  induction l as [|k l IH]; intros d k' H; [reflexivity|].
  cbn [fold_left]. rewrite IH by (intros X; apply H; now right).
  apply oget_odel_neq. intros ->. apply H. now left.
Qed.

Lemma In_range2_fuel_lt n : forall a x, In x (range2_fuel n a) ->
  a <= x < a + 2 * Z.of_nat n /\ (x - a) mod 2 = 0.
Proof.
  induction n as [|n IH]; intros a x H; [destruct H|].
  cbn [range2_fuel] in H. destruct H as [H|H]; [subst; split; [lia|]; now rewrite Z.sub_diag|].
  apply IH in H. lia.
Qed.

Lemma In_range2_lt a b x : In x (range2 a b) -> a <= x < b.
Proof.
  unfold range2. destruct (b <=? a) eqn:E; [intros []|]. intros H.
  apply In_range2_fuel_lt in H. lia.
Qed.

(** * 5. Lines *)

Lemma oget_modify m d o :
  oget (lm_lines (modify_line_offsets m d)) o =
  match oget (lm_lines m) o with
  | Some (Some l) => Some (Some (l + d))
  | Some None => Some None
  | None => None
  end.
Proof.
  unfold modify_line_offsets. cbn [lm_lines].
  induction (lm_lines m) as [|[k v] r IH]; [reflexivity|].
  cbn [map oget fst snd]. destruct (k =? o); [destruct v; reflexivity|exact IH].
Qed.

Lemma colines_cover t : forall a line o,
  a <= o < a + total_bc t -> exists x, colines_from t a line o = Some x.
Proof.
  induction t as [|[ld bd] r IH]; intros a line o H.
  - unfold total_bc in H. cbn in H. lia.
  - cbn [colines_from].
    unfold total_bc, sumZ in *. cbn [map snd fold_right] in H.
    destruct ((a <=? o) && (o <? a + bd)) eqn:C; [eexists; reflexivity|].
    apply IH. lia.
Qed.

Lemma line_ok c table len first lm0 o :
  table_ok c table len = true ->
  to_line_mapping (cfg_v310 c) table len = OK lm0 ->
  0 <= o < len -> o mod 2 = 0 ->
  oget (lm_lines (modify_line_offsets lm0 first)) o = Some (dis_line c (raw_entries table) first o).
Proof.
  intros T M Ho He. unfold to_line_mapping in M.
  destruct (bytes_to_items table) as [t|e] eqn:B; [|discriminate].
  assert (R : raw_entries table = t) by (unfold raw_entries; now rewrite B).
  unfold table_ok in T. rewrite R in *. unfold dis_line. rewrite oget_modify.
  apply even_mod2 in He.
  destruct (cfg_v310 c).
  - split_andb.
    destruct (colines_cover t 0 0 o ltac:(lia)) as [x Hx]. fold (colines t o) in Hx.
    rewrite (LT_310.reader_310 t len lm0 ltac:(assumption) ltac:(assumption) M o x He Hx).
    rewrite Hx. destruct x; reflexivity.
  - split_andb.
    rewrite (LT_Lnotab.reader_lnotab_gen t len lm0 ltac:(assumption) ltac:(assumption) M o Ho He).
    reflexivity.
Qed.

(** * 6. Blocks: first-instruction indices against start offsets *)

Lemma nth_error_skipn_add {A} (l : list A) : forall n j, nth_error (skipn n l) j = nth_error l (n + j).
Proof.
  induction l as [|x l IH]; intros n j.
  - rewrite skipn_nil. destruct j, n; reflexivity.
  - destruct n; [reflexivity|]. cbn [skipn Nat.add nth_error]. apply IH.
Qed.

Lemma bfi_starts {K} : forall (blocks : list (list (instr_ K))) offs i0 k t,
  Forall (fun b => b <> []) blocks -> length offs = length (concat blocks) ->
  nth_error (block_starts blocks offs) k = Some t ->
  exists j, nth_error (block_first_indices blocks i0) k = Some (i0 + Z.of_nat j) /\
            nth_error offs j = Some t.
Proof.
  induction blocks as [|b r IH]; intros offs i0 k t Hne Hlen H.
  - destruct k; discriminate.
  - inversion Hne as [|? ? Hb Hr]; subst. cbn [concat] in Hlen. rewrite app_length in Hlen.
    cbn [block_starts block_first_indices] in *. destruct k as [|k].
    + cbn [nth_error] in *. exists 0%nat. split; [f_equal; lia|].
      destruct offs as [|o offs]; [destruct b; [congruence|discriminate]|].
      inversion H; subst. reflexivity.
    + cbn [nth_error] in *.
      destruct (IH (skipn (length b) offs) (i0 + zlen b) k t Hr) as [j [J1 J2]].
      * rewrite skipn_length. lia.
      * exact H.
      * exists (length b + j)%nat. split.
        -- rewrite J1. f_equal. unfold zlen. lia.
        -- rewrite <- nth_error_skipn_add. exact J2.
Qed.

Lemma index_of_nth offs j t :
  NoDup offs -> nth_error offs j = Some t -> index_of Z.eqb t offs = Some (Z.of_nat j).
Proof.
  intros Hnd Hj. assert (Hin : In t offs) by (eapply nth_error_In; eassumption).
  destruct (index_of_In t offs Hin) as [k [Ek [Hk Hn]]].
  pose proof (NoDup_nth_error_inj offs _ _ _ Hnd Hn Hj). rewrite Ek. f_equal. lia.
Qed.

Lemma retarget_name {C} T (i : instr_ C) : i_name (retarget T i) = i_name i.
Proof. unfold retarget. destruct (i_arg i); reflexivity. Qed.
Lemma retarget_line {C} T (i : instr_ C) : i_line (retarget T i) = i_line i.
Proof. unfold retarget. destruct (i_arg i); reflexivity. Qed.

(** * 7. decode_code exposes bytes_to_blocks *)

Ltac dmatch H :=
  match type of H with
  | match ?X with _ => _ end = _ => destruct X eqn:?; try discriminate H
  end.

Lemma decode_code_blocks c code ks d : decode_code c code ks = OK d ->
  exists lm0 bt a addl lm',
    to_line_mapping (cfg_v310 c) (co_linetable code) (zlen (co_code code)) = OK lm0 /\
    bytes_to_blocks key_eqb c (co_code code) (modify_line_offsets lm0 (co_firstlineno code))
      (co_names code) (co_varnames code) (co_freevars code) (co_cellvars code) ks bt a
    = OK (cd_blocks d, addl, lm').
Proof.
  unfold decode_code. cbv zeta. intros H.
  destruct (to_line_mapping (cfg_v310 c) (co_linetable code) (zlen (co_code code))) as [lm0|] eqn:M;
    [|discriminate].
  repeat dmatch H. inversion H; subst d. cbn [cd_blocks].
  match goal with B : bytes_to_blocks _ _ _ _ _ _ _ _ _ _ _ = OK _ |- _ => rename B into B' end.
  do 5 eexists. split; [reflexivity|exact B'].
Qed.

Section View.
  Context {K : Type}.
  Variable c : cfg.
  Variables names varnames freevars cellvars : list str.
  Variable ks : list K.


  Definition pview (p : pinstr) : Z * Z * dval K :=
    let '(op, a, n, first, next) := p in
    (first, op, dis_argval c names varnames freevars cellvars ks (next - 2) op
                  (if op >=? cfg_have_argument c then Some a else None)).

  (** * 2. parse_bytes against dis_unpack + dis_fold *)
  Lemma parse_dis_gen : cfg_have_argument c <= cfg_extended_arg c -> forall b i n acc ps,
    units_ok c b n acc = true -> 0 <= n -> 0 <= acc -> acc mod 256 = 0 -> (n = 0 -> acc = 0) ->
    parse_bytes c b i n acc = OK ps ->
    dis_fold c names varnames freevars cellvars ks (dis_unpack c b i acc)
             (if n =? 0 then None else Some (i - 2 * n)) = map pview ps
    /\ Forall (fun p => 0 <= p_arg p) ps.
  Proof.
    intros HE b. induction b as [|x|op byte r IH] using LT_ExpandCollapse.list_ind2;
      intros i n acc ps U Hn Ha Hm H0 P.
    - cbn [parse_bytes] in P. inversion P. cbn. split; [reflexivity|constructor].
    - cbn [parse_bytes] in P. discriminate.
    - cbn [parse_bytes] in P. cbn [units_ok] in U. cbn [dis_unpack].
      destruct (op =? cfg_extended_arg c) eqn:E.
      + split_andb.
        assert (G : op >=? cfg_have_argument c = true) by lia.
        rewrite G. cbn [dis_fold]. rewrite E.
        assert (L1 : Z.lor acc byte = acc + byte) by (apply InstrCodec.lor_add; lia).
        assert (L2 : Z.lor byte acc = acc + byte) by (rewrite Z.lor_comm; exact L1).
        rewrite L1 in P. rewrite L2. rewrite InstrCodec.shl8 in *.
        match goal with U' : units_ok _ _ _ _ = true |- _ =>
          pose proof (units_ok_bound _ _ _ _ U' ltac:(lia) ltac:(lia)) as Hb end.
        assert (W : (if (acc + byte) * 256 >? c_int_upper_limit
                     then (acc + byte) * 256 - c_int_length else (acc + byte) * 256)
                    = (acc + byte) * 256).
        { unfold c_int_upper_limit. destruct ((acc + byte) * 256 >? 2147483647) eqn:W; [lia|reflexivity]. }
        rewrite W in P.
        match goal with U' : units_ok _ _ _ _ = true |- _ =>
          specialize (IH (i + 2) (n + 1) ((acc + byte) * 256) ps U' ltac:(lia) ltac:(lia) ltac:(lia)
                         ltac:(lia) P) end.
        destruct IH as [IH1 IH2]. split; [|exact IH2]. rewrite <- IH1. f_equal.
        destruct (n =? 0) eqn:N; destruct (n + 1 =? 0) eqn:N1; try lia; f_equal; lia.
      + destruct (parse_bytes c r (i + 2) 0 0) as [rest|e] eqn:Er; [|discriminate].
        inversion P; subst ps. clear P.
        split_andb.
        match goal with U' : units_ok _ _ _ _ = true |- _ =>
          specialize (IH (i + 2) 0 0 rest U' ltac:(lia) ltac:(lia) ltac:(reflexivity)
                         ltac:(reflexivity) Er) end.
        destruct IH as [IH1 IH2]. change (0 =? 0) with true in IH1. cbv iota in IH1.
        assert (L1 : Z.lor acc byte = acc + byte) by (apply InstrCodec.lor_add; lia).
        assert (L2 : Z.lor byte acc = acc + byte) by (rewrite Z.lor_comm; exact L1).
        destruct (op >=? cfg_have_argument c) eqn:G.
        * cbn [dis_fold]. rewrite E. cbn [map pview]. rewrite G, IH1, L1, L2.
          split; [|constructor; [cbn [p_arg]; lia|exact IH2]].
          f_equal. replace (i + 2 - 2) with i by lia.
          destruct (n =? 0) eqn:N; do 2 f_equal; lia.
        * assert (n = 0) by lia. subst n. rewrite (H0 eq_refl) in *.
          cbn [dis_fold]. rewrite E. cbn [map pview]. rewrite G, IH1.
          split; [|constructor; [cbn [p_arg]; lia|exact IH2]].
          f_equal. replace (i + 2 - 2) with i by lia. change (0 =? 0) with true. cbv iota.
          do 2 f_equal; lia.
  Qed.

  (** * 3. to_arg against dis_argval *)

  Definition raw_val (a : arg_ K) : dval K :=
    match a with
    | AInt z => DInt z
    | AJump t rel => DJump t rel
    | AName s _ => DName s
    | AVarname s _ => DLocal s
    | AConst k _ => DConst k
    | AFreevar s => DFree s
    | ACellvar s _ => DCell s
    | ANoArg _ => DNoArg
    end.

  Definition st_ok (st : decstate K) : Prop :=
    ta_args (d_names st) = names /\ ta_args (d_varnames st) = varnames /\
    ta_args (d_cellvars st) = cellvars /\ ta_args (d_consts st) = ks.

  Variable keq : K -> K -> bool.

  Lemma to_arg_spec op a next st parg st' :
    cfg_ops_wf c = true -> st_ok st -> 0 <= a ->
    to_arg keq c op a next freevars st = OK (parg, st') ->
    raw_val parg = dis_argval c names varnames freevars cellvars ks (next - 2) op
                     (if op >=? cfg_have_argument c then Some a else None)
    /\ st_ok st'.
  Proof.
    intros W [S1 [S2 [S3 S4]]] Ha H.
    destruct (ops_wf_spec c W) as [_ Hop]. specialize (Hop op).
    destruct Hop as [J1 [J2 [J3 [J4 [J5 J6]]]]].
    unfold to_arg in H. unfold dis_argval.
    destruct (zmem op (cfg_hasjabs c)) eqn:E1.
    { destruct (J1 eq_refl) as [G [F2 [F3 [F4 [F5 F6]]]]].
      assert (G' : op >=? cfg_have_argument c = true) by lia. rewrite G', F6, F3.
      inversion H; subst. cbn [raw_val]. split; [f_equal; lia|repeat split; assumption]. }
    destruct (zmem op (cfg_hasjrel c)) eqn:E2.
    { destruct (J2 eq_refl) as [G [F3 [F4 [F5 F6]]]].
      assert (G' : op >=? cfg_have_argument c = true) by lia. rewrite G', F6, F3.
      inversion H; subst. cbn [raw_val]. split; [f_equal; lia|repeat split; assumption]. }
    destruct (zmem op (cfg_hasname c)) eqn:E3.
    { destruct (J3 eq_refl) as [G [F4 [F5 F6]]].
      assert (G' : op >=? cfg_have_argument c = true) by lia. rewrite G', F6.
      destruct (found_index str_eqb (d_names st) a) as [[[s ov] t]|e] eqn:F; [|discriminate].
      apply found_index_spec in F as [F1 F2]. inversion H; subst parg st'. cbn [raw_val].
      rewrite py_index_nonneg in F1 by lia. rewrite S1 in F1. rewrite F1.
      split; [reflexivity|]. unfold st_ok. cbn [d_names d_varnames d_cellvars d_consts].
      rewrite F2. repeat split; assumption. }
    destruct (zmem op (cfg_haslocal c)) eqn:E4.
    { destruct (J4 eq_refl) as [G [F5 F6]].
      assert (G' : op >=? cfg_have_argument c = true) by lia. rewrite G', F6.
      destruct (found_index str_eqb (d_varnames st) a) as [[[s ov] t]|e] eqn:F; [|discriminate].
      apply found_index_spec in F as [F1 F2]. inversion H; subst parg st'. cbn [raw_val].
      rewrite py_index_nonneg in F1 by lia. rewrite S2 in F1. rewrite F1.
      split; [reflexivity|]. unfold st_ok. cbn [d_names d_varnames d_cellvars d_consts].
      rewrite F2. repeat split; assumption. }
    destruct (zmem op (cfg_hasfree c)) eqn:E5.
    { destruct (J5 eq_refl) as [G F6].
      assert (G' : op >=? cfg_have_argument c = true) by lia. rewrite G', F6.
      rewrite S3 in H.
      destruct (a <? zlen cellvars) eqn:L.
      - destruct (found_index str_eqb (d_cellvars st) a) as [[[s ov] t]|e] eqn:F; [|discriminate].
        apply found_index_spec in F as [F1 F2]. inversion H; subst parg st'. cbn [raw_val].
        rewrite py_index_nonneg in F1 by lia. rewrite S3 in F1.
        rewrite znth_nonneg in * by lia.
        rewrite nth_error_app1 by (unfold zlen in L; lia). rewrite F1.
        split; [reflexivity|]. unfold st_ok. cbn [d_names d_varnames d_cellvars d_consts].
        rewrite F2. repeat split; assumption.
      - destruct (py_index freevars (a - zlen cellvars)) as [s|] eqn:F; [|discriminate].
        inversion H; subst parg st'. cbn [raw_val].
        rewrite py_index_nonneg in F by lia.
        rewrite znth_nonneg in * by lia.
        rewrite nth_error_app2 by (unfold zlen in L; lia).
        replace (Z.to_nat a - length cellvars)%nat with (Z.to_nat (a - zlen cellvars))
          by (unfold zlen in *; lia).
        rewrite F. split; [reflexivity|repeat split; assumption]. }
    destruct (zmem op (cfg_hasconst c)) eqn:E6.
    { pose proof (J6 eq_refl) as G.
      assert (G' : op >=? cfg_have_argument c = true) by lia. rewrite G'.
      destruct (found_index keq (d_consts st) a) as [[[s ov] t]|e] eqn:F; [|discriminate].
      apply found_index_spec in F as [F1 F2]. inversion H; subst parg st'. cbn [raw_val].
      rewrite py_index_nonneg in F1 by lia. rewrite S4 in F1. rewrite F1.
      split; [reflexivity|]. unfold st_ok. cbn [d_names d_varnames d_cellvars d_consts].
      rewrite F2. repeat split; assumption. }
    destruct (op <? cfg_have_argument c) eqn:L.
    - assert (G' : op >=? cfg_have_argument c = false) by lia. rewrite G'.
      inversion H; subst. cbn [raw_val]. split; [reflexivity|repeat split; assumption].
    - assert (G' : op >=? cfg_have_argument c = true) by lia. rewrite G'.
      inversion H; subst. cbn [raw_val]. split; [reflexivity|repeat split; assumption].
  Qed.

  (** * 4. decode_instrs: values and lines *)

  Definition oview (oi : Z * instr_ K) : Z * Z * dval K :=
    (fst oi, i_name (snd oi), raw_val (i_arg (snd oi))).

  Lemma decode_instrs_view : cfg_ops_wf c = true -> forall ps lm st ois lm' st',
    st_ok st -> Forall (fun p => 0 <= p_arg p) ps ->
    decode_instrs keq c ps freevars lm st = OK (ois, lm', st') ->
    map oview ois = map pview ps.
  Proof.
    intros W. induction ps as [|[[[[op a] n] off] nx] r IH]; intros lm st ois lm' st' S F H.
    - cbn [decode_instrs] in H. inversion H. reflexivity.
    - cbn [decode_instrs] in H. inversion F as [|? ? F1 F2]; subst. cbn [p_arg] in F1.
      destruct (to_arg keq c op a nx freevars st) as [[parg st1]|e] eqn:T; [|discriminate].
      apply to_arg_spec in T as [T1 T2]; [|assumption..].
      destruct (oget (lm_lines lm) off) as [line|]; [|discriminate].
      match type of H with
      | match ?X with _ => _ end = _ => destruct X as [[[rest lm1] st2]|e] eqn:Er; [|discriminate]
      end.
      inversion H; subst. cbn [map]. f_equal; [|eapply IH; eassumption].
      unfold oview. cbn [fst snd i_name i_arg pview]. rewrite T1. reflexivity.
  Qed.

  Lemma decode_instrs_lines : forall ps s lm st ois lm' st',
    chained s ps ->
    decode_instrs keq c ps freevars lm st = OK (ois, lm', st') ->
    Forall (fun oi : Z * instr_ K => oget (lm_lines lm) (fst oi) = Some (i_line (snd oi))) ois.
  Proof.
    induction ps as [|[[[[op a] n] off] nx] r IH]; intros s lm st ois lm' st' Hc H.
    - cbn [decode_instrs] in H. inversion H. constructor.
    - cbn [decode_instrs] in H. cbn [chained p_first p_next] in Hc. destruct Hc as [Hs [Hlt Hc]].
      destruct (to_arg keq c op a nx freevars st) as [[parg st1]|e] eqn:T; [|discriminate].
      destruct (oget (lm_lines lm) off) as [line|] eqn:L; [|discriminate].
      match type of H with
      | match ?X with _ => _ end = _ => destruct X as [[[rest lm1] st2]|e] eqn:Er; [|discriminate]
      end.
      inversion H; subst ois lm1 st2. clear H. constructor.
      + cbn [fst snd i_line]. exact L.
      + pose proof (decode_instrs_offsets _ _ _ _ _ _ _ _ _ Er) as Hoff.
        pose proof (IH _ _ _ _ _ _ Hc Er) as HF. cbn [lm_lines] in HF.
        rewrite Forall_forall in *. intros oi Hin. specialize (HF oi Hin).
        assert (Hge : nx <= fst oi).
        { apply (chained_lower _ _ Hc). rewrite <- Hoff. now apply in_map. }
        rewrite oget_fold_odel in HF.
        * rewrite oget_odel_neq in HF by lia. exact HF.
        * intros X. apply In_range2_lt in X. lia.
  Qed.

  (** * 8. bytes_to_blocks: the view of the blocks is the dis view *)

  Lemma b2b_view b lm0 first table bt a blocks addl lm' :
    cfg_ops_wf c = true -> code_ok c b = true ->
    targets_ok c b names varnames freevars cellvars ks = true ->
    table_ok c table (zlen b) = true ->
    to_line_mapping (cfg_v310 c) table (zlen b) = OK lm0 ->
    bytes_to_blocks keq c b (modify_line_offsets lm0 first) names varnames freevars cellvars ks bt a
      = OK (blocks, addl, lm') ->
    data_view blocks = dis_view c b names varnames freevars cellvars ks (raw_entries table) first.
  Proof.
    intros W U Tg Tb M H.
    destruct (ops_wf_spec c W) as [HE _].
    unfold bytes_to_blocks in H. cbv zeta in H.
    cbn [d_consts d_names d_varnames d_cellvars] in H.
    match type of H with
    | match ?X with _ => _ end = _ => destruct X as [st1|e] eqn:Est; [|discriminate]
    end.
    assert (S1 : st_ok st1).
    { destruct (has_docstring bt).
      - destruct (found_index keq (toargs_init ks 0) 0) as [[[x ov] t]|] eqn:F; [|discriminate].
        apply found_index_spec in F as [_ F]. inversion Est; subst st1.
        unfold st_ok. cbn [d_consts d_names d_varnames d_cellvars]. rewrite F.
        repeat split; reflexivity.
      - inversion Est; subst. repeat split; reflexivity. }
    destruct (parse_bytes c b 0 0 0) as [ps|e] eqn:Ep; [|discriminate].
    match type of H with
    | match ?X with _ => _ end = _ => destruct X as [[[ois lm1] st2]|e] eqn:Ed; [|discriminate]
    end.
    destruct (split_blocks (sorted_set (0 :: jump_targets ois)) ois [] false)
      as [blocks0|e] eqn:Es; [|discriminate].
    repeat dmatch H. inversion H; subst blocks0 lm1 addl. clear H.
    destruct (parse_dis_gen HE b 0 0 0 ps U ltac:(lia) ltac:(lia) ltac:(reflexivity)
                            ltac:(reflexivity) Ep) as [HL Hnn].
    change (0 =? 0) with true in HL. cbv iota in HL.
    pose proof (decode_instrs_view W _ _ _ _ _ _ S1 Hnn Ed) as Hv.
    pose proof (decode_instrs_offsets _ _ _ _ _ _ _ _ _ Ed) as Hoff.
    pose proof (parse_bytes_chained c b 0 0 0 ps ltac:(lia) Ep) as Hch.
    pose proof (decode_instrs_lines _ _ _ _ _ _ _ Hch Ed) as Hln.
    pose proof (parse_first_range c b 0 0 0 ps ltac:(lia) Ep) as Hrg.
    destruct (parse_bytes_offsets _ _ _ Ep) as [Hinc [Hfirst _]].
    unfold data_view, dis_view. cbv zeta. rewrite HL, <- Hv.
    assert (Hne : ois = [] \/ ois <> []) by (destruct ois; [left; reflexivity|right; discriminate]).
    destruct Hne as [->|Hne].
    { cbn [split_blocks] in Es. inversion Es; subst blocks. reflexivity. }
    assert (Hhd : exists i r, ois = (0, i) :: r).
    { destruct ois as [|[o i] r]; [congruence|].
      destruct ps as [|p ps']; [discriminate|]. cbn [map fst] in Hoff. injection Hoff as Ho _.
      rewrite (Hfirst p ps' eq_refl) in Ho. subst o. eauto. }
    assert (Hoi : offsets_increasing ois) by (unfold offsets_increasing; now rewrite Hoff).
    assert (Hfo : map (fun x : Z * instr_ K => fst (fst (oview x))) ois = map fst ois) by reflexivity.
    assert (Hts : targets_are_starts ois).
    { intros t Ht. apply jump_targets_In in Ht as [o [i [rel [Hin Ei]]]].
      unfold targets_ok in Tg. cbv zeta in Tg. rewrite HL, <- Hv in Tg. rewrite forallb_forall in Tg.
      specialize (Tg (oview (o, i)) (in_map oview _ _ Hin)). unfold oview in Tg at 1.
      cbn [snd fst] in Tg. rewrite Ei in Tg. cbn [raw_val] in Tg. apply zmem_In in Tg.
      rewrite map_map, Hfo in Tg. exact Tg. }
    destruct (split_blocks_partition ois Hne Hoi Hhd Hts) as [blocks' [Es' [Hc [Hnb [Hbs [Hlen Hj]]]]]].
    rewrite Es in Es'. inversion Es'; subst blocks'. clear Es'.
    assert (Hlo : length (map fst ois) = length (concat blocks))
      by (rewrite Hc, !map_length; reflexivity).
    assert (Hnd : NoDup (map fst ois)) by (apply incr_NoDup; exact Hoi).
    rewrite Hc, !map_map. apply map_ext_in. intros [o i] Hin.
    unfold oview at 1. cbn [fst snd]. rewrite retarget_name, retarget_line. f_equal.
    - destruct (i_arg i) eqn:EA;
        try (rewrite retarget_nonjump; [rewrite EA; reflexivity|intros ? ? X; rewrite EA in X; discriminate X]).
      destruct (Hj o i _ _ Hin EA) as [k [Ek [Hk Hn]]]. rewrite Ek. cbn [data_val raw_val]. f_equal.
      destruct (bfi_starts blocks (map fst ois) 0 (Z.to_nat k) target Hnb Hlo Hn) as [j [J1 J2]].
      rewrite znth_nonneg by lia. rewrite J1. unfold index_of_offset. rewrite map_map, Hfo.
      rewrite (index_of_nth _ _ _ Hnd J2). lia.
    - rewrite Forall_forall in Hln, Hrg. specialize (Hln (o, i) Hin). cbn [fst snd] in Hln.
      assert (Hino : In o (map p_first ps)) by (rewrite <- Hoff; apply (in_map fst _ _ Hin)).
      apply in_map_iff in Hino as [p [Hp1 Hp2]]. specialize (Hrg p Hp2). rewrite Hp1 in Hrg.
      destruct Hrg as [Hev Hr].
      rewrite (line_ok c table (zlen b) first lm0 o Tb M ltac:(lia)) in Hln
        by (rewrite <- Hev; f_equal; lia).
      now inversion Hln.
  Qed.

End View.

(** * 9. The theorem *)

Theorem C02_view : S_C02_view.
Proof.
  unfold S_C02_view. intros c code ks d Wf H. unfold view_wf in Wf. split_andb.
  destruct (decode_code_blocks c code ks d H) as [lm0 [bt [a [addl [lm' [M B]]]]]].
  eapply b2b_view; eassumption.
Qed.

Print Assumptions C02_view.
Print Assumptions b2b_view.
Print Assumptions parse_dis_gen.
Print Assumptions to_arg_spec.
Print Assumptions line_ok.
Check C02_view.
