From Coq Require Import String List Bool.
Import ListNotations.
From PCD Require Import Model.DepGraph.

Lemma mem_In x l : mem x l = true <-> In x l.
Proof.
  unfold mem. rewrite existsb_exists. split.
  - intros (y & Hy & E). apply String.eqb_eq in E. subst. exact Hy.
  - intros H. exists x. split; [exact H | apply String.eqb_refl].
Qed.

(* a set that passes the closedness check contains everything reachable from its members *)
Theorem closed_sound : forall g s, closedb g s = true ->
  forall a c, In a s -> path g a c -> In c s.
Proof.
  intros g s Hc a c Ha Hp. induction Hp as [n|a b c Hb Hp IH]; [exact Ha|].
  apply IH. unfold closedb in Hc. rewrite forallb_forall in Hc. specialize (Hc a Ha).
  rewrite forallb_forall in Hc. apply mem_In. apply Hc. exact Hb.
Qed.

(* hence: if the closure computed from the entry points is closed and all of its members are allowed, no
   path of references from an entry point reaches a node that is not allowed *)
Theorem policy_sound : forall g entry s,
  closedb g s = true -> forallb (fun e => mem e s) entry = true -> forallb allowed s = true ->
  forall e n, In e entry -> path g e n -> allowed n = true.
Proof.
  intros g entry s Hc He Ha e n Hin Hp.
  rewrite forallb_forall in He, Ha. apply Ha. apply (closed_sound g s Hc e n); [|exact Hp].
  apply mem_In. apply He. exact Hin.
Qed.
Print Assumptions policy_sound.
