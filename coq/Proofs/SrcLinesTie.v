(* Tie between the hand-written model of the line codec (Model/LineTable.v) and the statement-level
   translation of code_data/_line_mapping.py that harness/translate_lines.py regenerates on every run
   (Gen/SrcLines.v): for ALL inputs the translated loops of expand_items compute the closed forms of the
   model (and terminate within the stated fuel), and the comprehension, split conditions and merge of
   collapse_items are the model's. *)
From PCD Require Import Base.PyBase Base.PyImp Model.LineTable.
From PCD Require Gen.SrcLines.
From Coq Require Import ZifyBool.
Ltac Zify.zify_post_hook ::= Z.to_euclidean_division_equations.

Module E := PCD.Gen.SrcLines.ExpandItems.
Module C := PCD.Gen.SrcLines.CollapseItems.

(** * collapse_items *)

Lemma to_citem_tie : forall lt i, C.to_citem lt i = OK (to_citem lt i).
Proof. intros lt [ln bc]. unfold C.to_citem, to_citem. cbn [fst snd]. reflexivity. Qed.

Lemma bytecode_offset_split_tie : forall lt p i,
  C.bytecode_offset_split lt p i = OK (bytecode_offset_split lt p i).
Proof.
  intros lt [pl pb] [il ib]. unfold C.bytecode_offset_split, bytecode_offset_split, max_bc. cbn [fst snd].
  f_equal. destruct lt, pl as [p|], il as [i|]; cbn [opt_eqz opt_is_zero is_none opt_is_some negb];
    rewrite ?andb_true_r, ?andb_false_r; try reflexivity.
Qed.

Ltac split_cmps :=
  repeat match goal with
  | |- context [Z.eqb ?a ?b] => destruct (Z.eqb a b) eqn:?; cbn
  | |- context [Z.ltb ?a ?b] => destruct (Z.ltb a b) eqn:?; cbn
  | |- context [Z.leb ?a ?b] => destruct (Z.leb a b) eqn:?; cbn
  | |- context [Z.gtb ?a ?b] => destruct (Z.gtb a b) eqn:?; cbn
  | |- context [Z.geb ?a ?b] => destruct (Z.geb a b) eqn:?; cbn
  end.

Lemma line_offset_split_tie : forall lt p i,
  C.line_offset_split lt p i = OK (line_offset_split lt p i).
Proof.
  intros lt [pl pb] [il ib]. unfold C.line_offset_split, line_offset_split, min_line. cbn [fst snd].
  destruct lt, pl as [p|], il as [i|]; cbn; split_cmps; reflexivity.
Qed.

(* the merge is only executed when one of the two conditions holds; both imply prev.line_offset is not None *)
Lemma merge_items_tie : forall lt p i,
  bytecode_offset_split lt p i || line_offset_split lt p i = true ->
  C.merge_items lt p i = OK (merge_items p i).
Proof.
  intros lt [pl pb] [il ib] H.
  assert (Hp : exists p, pl = Some p).
  { destruct pl as [p|]; [eauto|]. exfalso.
    unfold bytecode_offset_split, line_offset_split in H. cbn in H.
    rewrite !andb_false_r in H. discriminate. }
  destruct Hp as [p ->].
  unfold C.merge_items, C.merge, merge_items. cbn [fst snd].
  destruct il as [i|]; cbn [truthy_o].
  - destruct (i =? 0); cbn; reflexivity.
  - cbn. reflexivity.
Qed.

(** * expand_items: the loops *)

(* n-fold iteration, first step first *)
Fixpoint iter_l {St} (n : nat) (step : St -> St) (s : St) : St :=
  match n with O => s | S n' => iter_l n' step (step s) end.

Lemma while_ranked {St} (cond : St -> res bool) (body : St -> res St) (Inv : St -> Prop) (k : St -> nat)
  (step : St -> St) :
  (forall s, Inv s -> k s = O -> cond s = OK false) ->
  (forall s n, Inv s -> k s = S n ->
     cond s = OK true /\ body s = OK (step s) /\ k (step s) = n /\ Inv (step s)) ->
  forall n s fuel, Inv s -> k s = n -> (n <= fuel)%nat ->
  while_ fuel cond body s = OK (iter_l n step s).
Proof.
  intros H0 HS. induction n as [|n IH]; intros s fuel Hi Hk Hf.
  - destruct fuel; cbn; rewrite (H0 s Hi Hk); reflexivity.
  - destruct fuel as [|fuel]; [lia|]. destruct (HS s n Hi Hk) as (Hc & Hb & Hk' & Hi').
    cbn. rewrite Hc, Hb. apply IH; [assumption | assumption | lia].
Qed.

Definition abs (s : E.st) : xstate := (E.v_line_offset s, E.v_bytecode_offset s, E.v_emitted_extra s).

Lemma st_eta : forall s, s = E.mk_st (E.v_bytecode_offset s) (E.v_emitted_extra s) (E.v_line_offset s) (E.v_expanded_items s).
Proof. intros []; reflexivity. Qed.

Lemma repeat_snoc {A} (x : A) n : repeat x n ++ [x] = x :: repeat x n.
Proof. induction n as [|n IH]; cbn; [reflexivity | rewrite IH; reflexivity]. Qed.

(** ** the bytecode loop *)

Definition bc_step (lt : bool) (s : E.st) : E.st :=
  E.mk_st (E.v_bytecode_offset s - max_bc lt) true
    (if lt && negb (is_none (E.v_line_offset s)) then Some 0 else E.v_line_offset s)
    (E.v_expanded_items s ++ [((if lt then lineval (E.v_line_offset s) else 0), max_bc lt)]).

Definition bc_rank (lt : bool) (s : E.st) : nat := Z.to_nat (nsplit (E.v_bytecode_offset s) (max_bc lt)).

Lemma nsplit_zero v m : 0 < m -> nsplit v m = 0 -> (v >? m) = false.
Proof. unfold nsplit. intros Hm H. destruct (v >? m) eqn:E; [|reflexivity]. exfalso. nia. Qed.

Lemma nsplit_nonneg v m : 0 < m -> 0 <= nsplit v m.
Proof. unfold nsplit. intros Hm. destruct (v >? m) eqn:E; [|lia]. apply Z.div_pos; lia. Qed.

Lemma nsplit_step v m n : 0 < m -> Z.to_nat (nsplit v m) = S n ->
  (v >? m) = true /\ Z.to_nat (nsplit (v - m) m) = n.
Proof.
  unfold nsplit. intros Hm H. destruct (v >? m) eqn:E; [|cbn in H; lia]. split; [reflexivity|].
  assert (Hq : (v - 1) / m = (v - m - 1) / m + 1).
  { replace (v - 1) with ((v - m - 1) + 1 * m) by lia. rewrite Z.div_add by lia. reflexivity. }
  destruct (v - m >? m) eqn:E2.
  - lia.
  - assert ((v - m - 1) / m = 0) by (apply Z.div_small; lia). cbn. lia.
Qed.

Lemma max_bc_pos lt : 0 < max_bc lt. Proof. destruct lt; cbn; lia. Qed.

Lemma bc_loop : forall lt item fuel s,
  (bc_rank lt s <= fuel)%nat ->
  E.expand_bytecode fuel lt (max_bc lt) (min_line lt) item s = OK (iter_l (bc_rank lt s) (bc_step lt) s).
Proof.
  intros lt item fuel s Hf. unfold E.expand_bytecode.
  apply (while_ranked _ _ (fun _ => True) (bc_rank lt) (bc_step lt)); try exact I; try reflexivity; try assumption.
  - intros s0 _ Hk. f_equal. apply nsplit_zero; [apply max_bc_pos|].
    unfold bc_rank in Hk. pose proof (nsplit_nonneg (E.v_bytecode_offset s0) (max_bc lt) (max_bc_pos lt)). lia.
  - intros s0 n _ Hk. unfold bc_rank in Hk.
    destruct (nsplit_step _ _ _ (max_bc_pos lt) Hk) as [Hc Hn].
    split; [rewrite Hc; reflexivity|]. split; [|split; [exact Hn | exact I]].
    destruct s0 as [b e l o]. unfold bc_step. cbn [E.v_bytecode_offset E.v_emitted_extra E.v_line_offset E.v_expanded_items].
    destruct lt, l as [l|]; reflexivity.
Qed.

(* closed form of the iterated step: after the first step the state is steady *)
Definition steady (lt : bool) (s : E.st) : Prop :=
  lt = true -> E.v_line_offset s = None \/ E.v_line_offset s = Some 0.

Lemma bc_iter_steady : forall lt n s, steady lt s ->
  iter_l n (bc_step lt) s =
  E.mk_st (E.v_bytecode_offset s - Z.of_nat n * max_bc lt)
          (match n with O => E.v_emitted_extra s | _ => true end)
          (E.v_line_offset s)
          (E.v_expanded_items s ++ repeat ((if lt then lineval (E.v_line_offset s) else 0), max_bc lt) n).
Proof.
  intros lt. induction n as [|n IH]; intros s Hs.
  - cbn [iter_l repeat]. rewrite app_nil_r, Z.sub_0_r. apply st_eta.
  - cbn [iter_l]. rewrite IH.
    + destruct s as [b e l o]. unfold bc_step. cbn [E.v_bytecode_offset E.v_emitted_extra E.v_line_offset E.v_expanded_items].
      assert (Hl : (if lt && negb (is_none l) then Some 0 else l) = l).
      { destruct lt; [|reflexivity]. destruct (Hs eq_refl) as [H|H]; cbn in H; subst l; reflexivity. }
      rewrite Hl. f_equal.
      * lia.
      * destruct n; reflexivity.
      * rewrite <- app_assoc. f_equal.
    + intros ->. destruct s as [b e l o]. unfold bc_step. cbn. destruct l; cbn; auto.
Qed.

Lemma bc_step_steady lt s : steady lt (bc_step lt s).
Proof. intros ->. destruct s as [b e l o]. unfold bc_step. cbn. destruct l; cbn; auto. Qed.

Lemma expand_bytecode_tie : forall lt item fuel s,
  (bc_rank lt s <= fuel)%nat ->
  exists s', E.expand_bytecode fuel lt (max_bc lt) (min_line lt) item s = OK s' /\
    abs s' = snd (expand_bytecode lt (abs s)) /\
    E.v_expanded_items s' = E.v_expanded_items s ++ fst (expand_bytecode lt (abs s)).
Proof.
  intros lt item fuel s Hf. eexists. split; [apply bc_loop; exact Hf|].
  unfold bc_rank in *. unfold expand_bytecode, abs.
  pose proof (nsplit_nonneg (E.v_bytecode_offset s) (max_bc lt) (max_bc_pos lt)) as Hnn.
  destruct (Z.to_nat (nsplit (E.v_bytecode_offset s) (max_bc lt))) as [|n] eqn:En.
  - assert (Hz : nsplit (E.v_bytecode_offset s) (max_bc lt) = 0) by lia. rewrite Hz. cbn.
    rewrite app_nil_r. split; reflexivity.
  - assert (Hz : nsplit (E.v_bytecode_offset s) (max_bc lt) = Z.of_nat (S n)) by lia.
    rewrite Hz. replace (Z.of_nat (S n) =? 0) with false by lia.
    cbn [iter_l]. rewrite (bc_iter_steady lt n _ (bc_step_steady lt s)).
    destruct s as [b e l o]. unfold bc_step.
    cbn [E.v_bytecode_offset E.v_emitted_extra E.v_line_offset E.v_expanded_items fst snd].
    unfold zrepeat. replace (Z.to_nat (Z.of_nat (S n) - 1)) with n by lia.
    split.
    + f_equal; [f_equal|].
      * destruct lt, l; reflexivity.
      * lia.
      * destruct n; reflexivity.
    + rewrite <- app_assoc. f_equal. cbn [app]. f_equal.
      destruct lt, l; reflexivity.
Qed.

(** ** the two line loops *)

Definition lp_step (lt : bool) (s : E.st) : E.st :=
  E.mk_st (if negb lt then 0 else E.v_bytecode_offset s) true
    (match E.v_line_offset s with Some l => Some (l - 127) | None => None end)
    (E.v_expanded_items s ++ [(127, (if lt then 0 else E.v_bytecode_offset s))]).
Definition lp_rank (s : E.st) : nat :=
  match E.v_line_offset s with Some l => Z.to_nat (nsplit l 127) | None => O end.

Definition ln_step (lt : bool) (s : E.st) : E.st :=
  E.mk_st (if negb lt then 0 else E.v_bytecode_offset s) true
    (match E.v_line_offset s with Some l => Some (l - min_line lt) | None => None end)
    (E.v_expanded_items s ++ [(min_line lt, (if lt then 0 else E.v_bytecode_offset s))]).
Definition ln_rank (lt : bool) (s : E.st) : nat :=
  match E.v_line_offset s with Some l => Z.to_nat (nsplit (- l) (- min_line lt)) | None => O end.

Lemma neg_min_pos lt : 0 < - min_line lt. Proof. destruct lt; cbn; lia. Qed.

Definition lp_cond (s : E.st) : res bool :=
  and_r (OK (negb (is_none (E.v_line_offset s)))) (bind (un_o (E.v_line_offset s)) (fun x => OK (x >? 127))).
Definition ln_cond (lt : bool) (s : E.st) : res bool :=
  and_r (OK (negb (is_none (E.v_line_offset s)))) (bind (un_o (E.v_line_offset s)) (fun x => OK (x <? min_line lt))).

Lemma lp_loop : forall lt fuel cond body s,
  (forall s0, cond s0 = lp_cond s0) ->
  (forall s0 l, E.v_line_offset s0 = Some l -> body s0 = OK (lp_step lt s0)) ->
  (lp_rank s <= fuel)%nat ->
  while_ fuel cond body s = OK (iter_l (lp_rank s) (lp_step lt) s).
Proof.
  intros lt fuel cond body s Hc0 Hb Hf.
  apply (while_ranked _ _ (fun _ => True) lp_rank (lp_step lt)); try exact I; try reflexivity; try assumption.
  - intros s0 _ Hk. rewrite Hc0. unfold lp_cond, lp_rank in *. destruct (E.v_line_offset s0) as [l|]; cbn; [|reflexivity].
    f_equal. apply nsplit_zero; [lia|]. pose proof (nsplit_nonneg l 127). lia.
  - intros s0 n _ Hk. rewrite Hc0. unfold lp_cond, lp_rank in *. destruct (E.v_line_offset s0) as [l|] eqn:El; [|discriminate].
    destruct (nsplit_step l 127 n ltac:(lia) Hk) as [Hc Hn]. cbn. rewrite Hc.
    split; [reflexivity|]. split; [apply (Hb s0 l El)|]. split; [|exact I].
    unfold lp_step. cbn. rewrite El. exact Hn.
Qed.

Lemma ln_loop : forall lt fuel cond body s,
  (forall s0, cond s0 = ln_cond lt s0) ->
  (forall s0 l, E.v_line_offset s0 = Some l -> body s0 = OK (ln_step lt s0)) ->
  (ln_rank lt s <= fuel)%nat ->
  while_ fuel cond body s = OK (iter_l (ln_rank lt s) (ln_step lt) s).
Proof.
  intros lt fuel cond body s Hc0 Hb Hf.
  apply (while_ranked _ _ (fun _ => True) (ln_rank lt) (ln_step lt)); try exact I; try reflexivity; try assumption.
  - intros s0 _ Hk. rewrite Hc0. unfold ln_cond, ln_rank in *. destruct (E.v_line_offset s0) as [l|]; cbn; [|reflexivity].
    f_equal. pose proof (nsplit_zero (- l) (- min_line lt) (neg_min_pos lt)) as Hz.
    pose proof (nsplit_nonneg (- l) (- min_line lt) (neg_min_pos lt)).
    assert (Hgt : (- l >? - min_line lt) = false) by (apply Hz; lia). lia.
  - intros s0 n _ Hk. rewrite Hc0. unfold ln_cond, ln_rank in *. destruct (E.v_line_offset s0) as [l|] eqn:El; [|discriminate].
    destruct (nsplit_step (- l) (- min_line lt) n (neg_min_pos lt) Hk) as [Hc Hn]. cbn.
    replace (l <? min_line lt) with true by lia.
    split; [reflexivity|]. split; [apply (Hb s0 l El)|]. split; [|exact I].
    unfold ln_step. cbn. rewrite El. replace (- (l - min_line lt)) with (- l - - min_line lt) by lia. exact Hn.
Qed.

Lemma lp_iter : forall lt n s l, E.v_line_offset s = Some l ->
  iter_l (S n) (lp_step lt) s =
  E.mk_st (if negb lt then 0 else E.v_bytecode_offset s) true (Some (l - Z.of_nat (S n) * 127))
    (E.v_expanded_items s ++ (127, (if lt then 0 else E.v_bytecode_offset s)) :: repeat (127, 0) n).
Proof.
  intros lt. induction n as [|n IH]; intros s l El.
  - cbn [iter_l repeat]. unfold lp_step. rewrite El. replace (l - Z.of_nat 1 * 127) with (l - 127) by lia. reflexivity.
  - change (iter_l (S (S n)) (lp_step lt) s) with (iter_l (S n) (lp_step lt) (lp_step lt s)).
    rewrite (IH (lp_step lt s) (l - 127)); [|unfold lp_step; cbn; rewrite El; reflexivity].
    destruct s as [b e l0 o]. cbn in El. subst l0. unfold lp_step. cbn [E.v_bytecode_offset E.v_emitted_extra E.v_line_offset E.v_expanded_items].
    f_equal.
    + destruct lt; reflexivity.
    + f_equal. lia.
    + rewrite <- app_assoc. f_equal. cbn [app]. f_equal. destruct lt; cbn; reflexivity.
Qed.

Lemma ln_iter : forall lt n s l, E.v_line_offset s = Some l ->
  iter_l (S n) (ln_step lt) s =
  E.mk_st (if negb lt then 0 else E.v_bytecode_offset s) true (Some (l - Z.of_nat (S n) * min_line lt))
    (E.v_expanded_items s ++ (min_line lt, (if lt then 0 else E.v_bytecode_offset s)) :: repeat (min_line lt, 0) n).
Proof.
  intros lt. induction n as [|n IH]; intros s l El.
  - cbn [iter_l repeat]. unfold ln_step. rewrite El. replace (l - Z.of_nat 1 * min_line lt) with (l - min_line lt) by lia. reflexivity.
  - change (iter_l (S (S n)) (ln_step lt) s) with (iter_l (S n) (ln_step lt) (ln_step lt s)).
    rewrite (IH (ln_step lt s) (l - min_line lt)); [|unfold ln_step; cbn; rewrite El; reflexivity].
    destruct s as [b e l0 o]. cbn in El. subst l0. unfold ln_step. cbn [E.v_bytecode_offset E.v_emitted_extra E.v_line_offset E.v_expanded_items].
    f_equal.
    + destruct lt; reflexivity.
    + f_equal. lia.
    + rewrite <- app_assoc. f_equal. cbn [app]. f_equal. destruct lt; cbn; reflexivity.
Qed.

Definition line_rank (lt : bool) (s : E.st) : nat := (lp_rank s + ln_rank lt s)%nat.

Lemma expand_line_tie : forall lt item fuel s,
  (line_rank lt s <= fuel)%nat ->
  exists s', E.expand_line fuel lt (max_bc lt) (min_line lt) item s = OK s' /\
    abs s' = snd (expand_line lt (abs s)) /\
    E.v_expanded_items s' = E.v_expanded_items s ++ fst (expand_line lt (abs s)).
Proof.
  intros lt item fuel s Hf. unfold E.expand_line, line_rank in *.
  match goal with |- context [while_ fuel ?c ?b s] => rewrite (lp_loop lt fuel c b s) end; [| | |lia].
  2:{ intros s0. reflexivity. }
  2:{ intros [b e l0 o] l El. cbn in El. subst l0. unfold lp_step. destruct lt; reflexivity. }
  cbn [bind].
  match goal with |- context [while_ fuel ?c ?b _] =>
    assert (Hln : forall sx, (ln_rank lt sx <= fuel)%nat ->
       while_ fuel c b sx = OK (iter_l (ln_rank lt sx) (ln_step lt) sx)) end.
  { intros s1 H1. apply (ln_loop lt fuel _ _ s1); [| |exact H1].
    - intros s0. reflexivity.
    - intros [b e l0 o] l El. cbn in El. subst l0. unfold ln_step. destruct lt; reflexivity. }
  unfold expand_line, abs.
  destruct s as [b e lo o]. unfold lp_rank, ln_rank in Hf |- *.
  cbn [E.v_bytecode_offset E.v_emitted_extra E.v_line_offset E.v_expanded_items] in *.
  destruct lo as [l|].
  2:{ cbn [iter_l]. eexists. split; [apply Hln; cbn; lia|]. cbn. rewrite app_nil_r. split; reflexivity. }
  pose proof (nsplit_nonneg l 127 ltac:(lia)) as Hp.
  pose proof (nsplit_nonneg (- l) (- min_line lt) (neg_min_pos lt)) as Hn.
  destruct (Z.to_nat (nsplit l 127)) as [|np] eqn:Enp.
  - (* no positive split *)
    assert (Hz : nsplit l 127 = 0) by lia. rewrite Hz. cbn [iter_l Z.eqb negb].
    eexists. split; [apply Hln; cbn; lia|].
    cbn [ln_rank E.v_line_offset].
    destruct (Z.to_nat (nsplit (- l) (- min_line lt))) as [|nn] eqn:Enn.
    + assert (Hz2 : nsplit (- l) (- min_line lt) = 0) by lia. rewrite Hz2. cbn. rewrite app_nil_r. split; reflexivity.
    + assert (Hz2 : nsplit (- l) (- min_line lt) = Z.of_nat (S nn)) by lia. rewrite Hz2.
      replace (negb (Z.of_nat (S nn) =? 0)) with true by lia.
      rewrite ln_iter with (l := l) by reflexivity.
      cbn [E.v_bytecode_offset E.v_emitted_extra E.v_line_offset E.v_expanded_items fst snd].
      unfold zrepeat. replace (Z.to_nat (Z.of_nat (S nn) - 1)) with nn by lia.
      split; [|reflexivity].
      replace (l + Z.of_nat (S nn) * - min_line lt) with (l - Z.of_nat (S nn) * min_line lt) by lia.
      destruct lt; reflexivity.
  - (* positive split: the negative loop does not run *)
    assert (Hz : nsplit l 127 = Z.of_nat (S np)) by lia. rewrite Hz.
    replace (negb (Z.of_nat (S np) =? 0)) with true by lia.
    rewrite lp_iter with (l := l) by reflexivity.
    cbn [E.v_bytecode_offset E.v_emitted_extra E.v_line_offset E.v_expanded_items fst snd].
    assert (Hrest : nsplit (- (l - Z.of_nat (S np) * 127)) (- min_line lt) = 0).
    { unfold nsplit in Hz |- *. destruct (l >? 127) eqn:Eg; [|lia].
      replace (- (l - Z.of_nat (S np) * 127) >? - min_line lt) with false; [reflexivity|].
      symmetry. destruct lt; cbn [min_line]; lia. }
    eexists. split.
    { rewrite Hln; [|cbn [ln_rank E.v_line_offset]; rewrite Hrest; cbn; lia].
      cbn [ln_rank E.v_line_offset]. rewrite Hrest. cbn [Z.to_nat iter_l]. reflexivity. }
    cbn [E.v_bytecode_offset E.v_emitted_extra E.v_line_offset E.v_expanded_items].
    unfold zrepeat. replace (Z.to_nat (Z.of_nat (S np) - 1)) with np by lia.
    split; [|reflexivity]. f_equal. f_equal. destruct lt; reflexivity.
Qed.

(** ** one item, all items *)

Definition item_rank (it : citem) : nat := Z.to_nat (Z.abs (snd it) + Z.abs (lineval (fst it))).

Lemma nsplit_le v m : 0 < m -> nsplit v m <= Z.abs v.
Proof.
  unfold nsplit. intros Hm. destruct (v >? m) eqn:E; [|lia].
  assert ((v - 1) / m <= v - 1) by (apply Z.div_le_upper_bound; nia). lia.
Qed.

Lemma bc_rank_le lt s : (bc_rank lt s <= Z.to_nat (Z.abs (E.v_bytecode_offset s)))%nat.
Proof. unfold bc_rank. pose proof (nsplit_le (E.v_bytecode_offset s) (max_bc lt) (max_bc_pos lt)). lia. Qed.

Lemma line_rank_le lt s : (line_rank lt s <= Z.to_nat (Z.abs (lineval (E.v_line_offset s))))%nat.
Proof.
  unfold line_rank, lp_rank, ln_rank. destruct (E.v_line_offset s) as [l|]; [|cbn; lia]. cbn [lineval].
  pose proof (nsplit_le l 127 ltac:(lia)). pose proof (nsplit_le (- l) (- min_line lt) (neg_min_pos lt)).
  pose proof (nsplit_nonneg l 127 ltac:(lia)). pose proof (nsplit_nonneg (- l) (- min_line lt) (neg_min_pos lt)).
  unfold nsplit in *. destruct (l >? 127) eqn:E1, (- l >? - min_line lt) eqn:E2; destruct lt; cbn [min_line] in *; lia.
Qed.

(* in the co_linetable order the line loops leave the bytecode offset alone; in the co_lnotab order the
   bytecode loop leaves the line offset alone *)
Lemma expand_line_keeps_bc : forall l b e, snd (fst (snd (expand_line true (l, b, e)))) = b.
Proof.
  intros [l|] b e; unfold expand_line; [|reflexivity].
  destruct (negb (nsplit l 127 =? 0)); [reflexivity|].
  destruct (negb (nsplit (- l) (- min_line true) =? 0)); reflexivity.
Qed.
Lemma expand_bytecode_keeps_line : forall l b e, fst (fst (snd (expand_bytecode false (l, b, e)))) = l.
Proof. intros l b e. unfold expand_bytecode. destruct (nsplit b (max_bc false) =? 0); reflexivity. Qed.

Lemma item_body_tie : forall lt fuel s it,
  (item_rank it <= fuel)%nat ->
  exists s', E.item_body fuel lt (max_bc lt) (min_line lt) s it = OK s' /\
    E.v_expanded_items s' = E.v_expanded_items s ++ expand_item lt it.
Proof.
  intros lt fuel [b0 e0 l0 o] [il ib] Hf. unfold item_rank in Hf. cbn [fst snd] in Hf.
  unfold E.item_body. cbn [bind fst snd E.set_v_line_offset E.set_v_bytecode_offset E.set_v_emitted_extra
    E.v_bytecode_offset E.v_emitted_extra E.v_line_offset E.v_expanded_items].
  set (s0 := E.mk_st ib false il o).
  unfold expand_item. cbn [fst snd].
  change (il, ib, false) with (abs s0).
  destruct lt.
  - match goal with |- context [E.expand_line _ _ _ _ _ ?st] => change st with s0 end.
    destruct (expand_line_tie true (il, ib) fuel s0) as (s1 & H1 & A1 & O1).
    { pose proof (line_rank_le true s0). cbn in H. cbn. lia. }
    rewrite H1. cbn [bind].
    destruct (expand_bytecode_tie true (il, ib) fuel s1) as (s2 & H2 & A2 & O2).
    { pose proof (bc_rank_le true s1).
      assert (E.v_bytecode_offset s1 = ib).
      { change (E.v_bytecode_offset s1) with (snd (fst (abs s1))). rewrite A1. apply expand_line_keeps_bc. }
      lia. }
    rewrite H2. cbn [bind].
    destruct (expand_line true (abs s0)) as [e1 x1] eqn:X1. cbn [snd fst] in A1, O1. subst x1.
    destruct (expand_bytecode true (abs s1)) as [e2 x2] eqn:X2. cbn [snd fst] in A2, O2. subst x2.
    destruct s2 as [b2 ex2 l2 o2]. cbn [abs E.v_bytecode_offset E.v_emitted_extra E.v_line_offset E.v_expanded_items] in *.
    subst o2. rewrite O1. cbn [s0 E.v_expanded_items].
    destruct l2 as [l2|]; cbn [opt_eqz opt_is_zero is_none lineval un_o bind].
    + destruct (negb (l2 =? 0) || negb (b2 =? 0) || negb ex2); eexists; (split; [reflexivity|]);
        cbn [E.v_expanded_items E.set_v_expanded_items]; rewrite <- ?app_assoc, ?app_nil_r; reflexivity.
    + cbn [negb orb]. eexists; (split; [reflexivity|]);
        cbn [E.v_expanded_items E.set_v_expanded_items]; rewrite <- ?app_assoc; reflexivity.
  - match goal with |- context [E.expand_bytecode _ _ _ _ _ ?st] => change st with s0 end.
    destruct (expand_bytecode_tie false (il, ib) fuel s0) as (s1 & H1 & A1 & O1).
    { pose proof (bc_rank_le false s0). cbn in H. cbn. lia. }
    rewrite H1. cbn [bind].
    destruct (expand_line_tie false (il, ib) fuel s1) as (s2 & H2 & A2 & O2).
    { pose proof (line_rank_le false s1).
      assert (E.v_line_offset s1 = il).
      { change (E.v_line_offset s1) with (fst (fst (abs s1))). rewrite A1. apply expand_bytecode_keeps_line. }
      rewrite H0 in H. lia. }
    rewrite H2. cbn [bind].
    destruct (expand_bytecode false (abs s0)) as [e1 x1] eqn:X1. cbn [snd fst] in A1, O1. subst x1.
    destruct (expand_line false (abs s1)) as [e2 x2] eqn:X2. cbn [snd fst] in A2, O2. subst x2.
    destruct s2 as [b2 ex2 l2 o2]. cbn [abs E.v_bytecode_offset E.v_emitted_extra E.v_line_offset E.v_expanded_items] in *.
    subst o2. rewrite O1. cbn [s0 E.v_expanded_items].
    destruct l2 as [l2|]; cbn [opt_eqz opt_is_zero is_none lineval un_o bind].
    + destruct (negb (l2 =? 0) || negb (b2 =? 0) || negb ex2); eexists; (split; [reflexivity|]);
        cbn [E.v_expanded_items E.set_v_expanded_items]; rewrite <- ?app_assoc, ?app_nil_r; reflexivity.
    + cbn [negb orb]. eexists; (split; [reflexivity|]);
        cbn [E.v_expanded_items E.set_v_expanded_items]; rewrite <- ?app_assoc; reflexivity.
Qed.

Lemma fold_items_tie : forall lt fuel items s,
  (forall it, In it items -> (item_rank it <= fuel)%nat) ->
  exists s', foldM (E.item_body fuel lt (max_bc lt) (min_line lt)) items s = OK s' /\
    E.v_expanded_items s' = E.v_expanded_items s ++ expand_items lt items.
Proof.
  intros lt fuel. induction items as [|it r IH]; intros s Hf.
  - exists s. cbn. rewrite app_nil_r. split; reflexivity.
  - destruct (item_body_tie lt fuel s it (Hf it (or_introl eq_refl))) as (s1 & H1 & O1).
    destruct (IH s1 (fun x Hx => Hf x (or_intror Hx))) as (s2 & H2 & O2).
    exists s2. cbn [foldM]. rewrite H1. split; [exact H2|].
    rewrite O2, O1. unfold expand_items. cbn [flat_map]. rewrite app_assoc. reflexivity.
Qed.

(* fuel that suffices for every item: the largest |bytecode offset| + |line offset| *)
Definition expand_fuel (items : list citem) : nat := fold_right Nat.max O (map item_rank items).

Lemma expand_fuel_bound items : forall it, In it items -> (item_rank it <= expand_fuel items)%nat.
Proof.
  induction items as [|x r IH]; intros it H; [destruct H|].
  destruct H as [H|H]; unfold expand_fuel in *; cbn [map fold_right].
  - subst. lia.
  - specialize (IH it H). lia.
Qed.

(* The translated expand_items terminates within the stated fuel, never raises, and returns what the model
   returns - for every list of collapsed items, both formats. *)
Theorem expand_items_tie : forall lt items fuel,
  (expand_fuel items <= fuel)%nat ->
  E.expand_items fuel items lt = OK (expand_items lt items).
Proof.
  intros lt items fuel Hf. unfold E.expand_items.
  change (if lt then 254 else 255) with (max_bc lt).
  change (if lt then - (127) else - (128)) with (min_line lt).
  destruct (fold_items_tie lt fuel items E.init) as (s' & H & O).
  { intros it Hin. pose proof (expand_fuel_bound items it Hin). lia. }
  cbv zeta. rewrite H. cbn [bind]. rewrite O. reflexivity.
Qed.

Print Assumptions expand_items_tie.
Print Assumptions line_offset_split_tie.
