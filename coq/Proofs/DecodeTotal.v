(* C01, the "succeeds" clause: from_code (to_code_data / decode_code) succeeds on every code object of
   the round-trip domain whose header is decodable.

   [hdr_ok] below is a boolean on the code object alone (it mentions neither decode_code nor
   to_code_data nor bytes_to_blocks).  Its three parts:
     - [flags_hdr_ok]   the flags word and the parameter counts (what decode_code itself checks);
     - [operands_ok]    every operand that indexes co_names / co_varnames / co_cellvars+co_freevars /
                        co_consts designates an entry (rt_wf constrains jump targets only);
     - [lnotab_within]  before 3.10, the bytecode deltas of co_lnotab sum to at most len(co_code)
                        (otherwise two or more entries lie past the last instruction and
                        pop_additional_line raises NotImplementedError).
   Theorems: decode_total (one level), to_code_data_total (all levels); the converse
   decode_total_conv (under rt_wf and rt_extra, hdr_ok is necessary: decode_total_iff); and
   to_const_total / to_code_data_total_nc, the all-levels theorem from a premise on the code objects
   alone (rt_wf_deep presupposes that the nested constants decode). *)
From Coq Require Import ZArith List Bool Lia ZifyBool.
From PCD Require Import Base.PyBase Base.Cfg Model.Flags Model.Args Model.Data Model.Consts
  Model.LineTable Model.Blocks Model.CodeData Spec.Lnotab Spec.Dis Model.ViewSer
  Proofs.C02_Statements Proofs.C11_Statements Proofs.C01_Statements
  Proofs.FlagsProofs Proofs.ArgsProofs Proofs.RoundTrip1 Proofs.RoundTrip2 Proofs.RoundTrip
  Proofs.Total_Statements Proofs.DecodeTotal1.
From PCD Require Proofs.EncodeLines Proofs.BlocksPartition Proofs.DecodeView Proofs.InstrCodec
  Gen.Cfg39.
Import ListNotations. Open Scope Z_scope.
Ltac Zify.zify_post_hook ::= Z.to_euclidean_division_equations.

(* ------------------------------------------------------------------ *)
(** * 1. The premise *)

Definition b2z (b : bool) : Z := if b then 1 else 0.

(* flags a module / class body may carry, and flags a function may carry *)
Definition MOD_ALLOWED : list flag := [VARARGS; VARKEYWORDS; NOFREE; F_annotations; NESTED].
Definition FN_ALLOWED : list flag :=
  [OPTIMIZED; NEWLOCALS; GENERATOR; COROUTINE; ASYNC_GENERATOR] ++ MOD_ALLOWED.

Definition flags_hdr_ok {K} (c : cfg) (code : pycode_ K) : bool :=
  match to_flags_data c (co_flags code) with
  | Err _ => false                                   (* a bit outside _CodeFlag *)
  | OK fl =>
      let has f := flag_mem f fl in
      let nparams := co_argcount code + co_kwonlyargcount code
                     + b2z (has VARARGS) + b2z (has VARKEYWORDS) in
      (* *args / **kwargs have their slot in co_varnames *)
      (nparams <=? zlen (co_varnames code))
      (* CO_NOFREE iff there are neither free nor cell variables *)
      && Bool.eqb (has NOFREE)
                  (match co_freevars code, co_cellvars code with [], [] => true | _, _ => false end)
      (* CO_OPTIMIZED and CO_NEWLOCALS come together *)
      && Bool.eqb (has OPTIMIZED) (has NEWLOCALS)
      && (if has OPTIMIZED
          then (* a function: at most one of GENERATOR / COROUTINE / ASYNC_GENERATOR, nothing unknown *)
               (b2z (has GENERATOR) + b2z (has COROUTINE) + b2z (has ASYNC_GENERATOR) <=? 1)
               && forallb (fun f => flag_mem f FN_ALLOWED) fl
          else (* not a function: no parameters, no function flags *)
               (nparams =? 0) && forallb (fun f => flag_mem f MOD_ALLOWED) fl)
  end.

Definition operands_ok {K} (c : cfg) (code : pycode_ K) {K'} (ks : list K') : bool :=
  operands_ok_tbl c (co_code code) (co_names code) (co_varnames code) (co_freevars code)
                  (co_cellvars code) ks.

Definition lnotab_within {K} (c : cfg) (code : pycode_ K) : bool :=
  cfg_v310 c || (total_bc (raw_entries (co_linetable code)) <=? zlen (co_code code)).

(* generic in the type of the constants: only their number matters *)
Definition hdr_ok_gen {K'} (c : cfg) (code : pycode) (ks : list K') : bool :=
  flags_hdr_ok c code && operands_ok c code ks && lnotab_within c code.

Definition hdr_ok (c : cfg) (code : pycode) (ks : list const) : bool := hdr_ok_gen c code ks.

Fixpoint hdr_ok_deep (c : cfg) (k : pyconst) : bool :=
  match k with
  | PInner _ => true
  | PCode code =>
      hdr_ok_gen c code (co_consts code)
      && (fix all (l : list pyconst) : bool :=
            match l with [] => true | x :: r => hdr_ok_deep c x && all r end) (co_consts code)
  end.

(* the weakest deep premise: rt_wf_deep already contains "the nested constants decode"
   (mapM (to_const c) (co_consts code) = OK ks), so only the outermost header is needed *)
Definition hdr_ok_top (c : cfg) (k : pyconst) : bool :=
  match k with
  | PInner _ => true
  | PCode code => hdr_ok_gen c code (co_consts code)
  end.

(* ------------------------------------------------------------------ *)
(** * 2. Flag lists *)

Lemma flag_eqb_sym f g : flag_eqb f g = flag_eqb g f.
Proof. unfold flag_eqb. apply Z.eqb_sym. Qed.

Lemma flag_mem_id f g l : flag_eqb f g = true -> flag_mem f l = flag_mem g l.
Proof.
  intros E. unfold flag_mem. induction l as [|h l IH]; [reflexivity|]. cbn [existsb]. rewrite IH.
  f_equal. unfold flag_eqb in *. destruct (flag_id f =? flag_id h) eqn:A, (flag_id g =? flag_id h) eqn:B;
    try reflexivity; lia.
Qed.

Lemma flag_mem_In g l : In g l -> flag_mem g l = true.
Proof.
  intros H. unfold flag_mem. apply existsb_exists. exists g. split; [exact H|].
  unfold flag_eqb. apply Z.eqb_refl.
Qed.

Definition rm (rem fl : list flag) : list flag := fold_right flag_remove fl rem.

Lemma filter_filter2 {A} (p q : A -> bool) l : filter p (filter q l) = filter (fun x => q x && p x) l.
Proof.
  induction l as [|x l IH]; [reflexivity|]. cbn [filter].
  destruct (q x) eqn:Q; cbn [filter andb]; [destruct (p x)|]; rewrite IH; reflexivity.
Qed.

Lemma filter_ext2 {A} (p q : A -> bool) l : (forall x, p x = q x) -> filter p l = filter q l.
Proof. intros H. induction l as [|x l IH]; [reflexivity|]. cbn [filter]. rewrite H, IH. reflexivity. Qed.

Lemma rm_filter rem : forall fl, rm rem fl = filter (fun g => negb (flag_mem g rem)) fl.
Proof.
  induction rem as [|f rem IH]; intros fl; cbn [rm fold_right].
  - induction fl as [|x fl IHf]; [reflexivity|]. cbn [filter flag_mem existsb negb]. f_equal. exact IHf.
  - fold (rm rem fl). rewrite IH. unfold flag_remove. rewrite filter_filter2. apply filter_ext2.
    intros g. unfold flag_mem. cbn [existsb]. rewrite (flag_eqb_sym f g).
    destruct (flag_eqb g f), (existsb (flag_eqb g) rem); reflexivity.
Qed.

Lemma filter_nil_iff {A} (p : A -> bool) l : filter p l = [] <-> forallb (fun x => negb (p x)) l = true.
Proof.
  induction l as [|x l IH]; cbn [filter forallb]; [tauto|].
  destruct (p x); cbn [negb andb]; [split; discriminate | exact IH].
Qed.

Lemma rm_nil_iff rem fl : rm rem fl = [] <-> forallb (fun g => flag_mem g rem) fl = true.
Proof.
  rewrite rm_filter, filter_nil_iff.
  assert (E : forall l, forallb (fun x => negb (negb (flag_mem x rem))) l = forallb (fun g => flag_mem g rem) l).
  { induction l as [|x l IH]; [reflexivity|]. cbn [forallb]. now rewrite negb_involutive, IH. }
  rewrite E. tauto.
Qed.

(* a list of allowed flags can be narrowed by the flags that are known to be absent *)
Lemma allowed_narrow fl (big small : list flag) :
  forallb (fun g => flag_mem g big) fl = true ->
  (forall f, In f big -> flag_mem f small = true \/ flag_mem f fl = false) ->
  forallb (fun g => flag_mem g small) fl = true.
Proof.
  intros H Hs. rewrite forallb_forall in *. intros g Hg. specialize (H g Hg).
  unfold flag_mem in H. apply existsb_exists in H as [f [Hf E]].
  destruct (Hs f Hf) as [X|X].
  - rewrite (flag_mem_id g f small E). exact X.
  - rewrite <- (flag_mem_id g f fl E), (flag_mem_In g fl Hg) in X. discriminate.
Qed.

(* ------------------------------------------------------------------ *)
(** * 3. The block type *)

Definition fl4_of (fl0 : list flag) : list flag :=
  flag_remove NESTED (flag_remove F_annotations (flag_remove NOFREE
    (flag_remove VARKEYWORDS (flag_remove VARARGS fl0)))).

Lemma decode_bt_ok a ks fl0 :
  Bool.eqb (flag_mem OPTIMIZED fl0) (flag_mem NEWLOCALS fl0) = true ->
  (if flag_mem OPTIMIZED fl0
   then (b2z (flag_mem GENERATOR fl0) + b2z (flag_mem COROUTINE fl0)
         + b2z (flag_mem ASYNC_GENERATOR fl0) <=? 1)
        && forallb (fun f => flag_mem f FN_ALLOWED) fl0
   else (args_len a =? 0) && forallb (fun f => flag_mem f MOD_ALLOWED) fl0) = true ->
  exists bt, decode_bt a ks (fl4_of fl0) = OK (bt, []).
Proof.
  intros H1 H2. unfold decode_bt, FN_FLAGS, FN_TYPE_FLAGS. cbn [filter fst].
  unfold fl4_of. rewrite !flag_mem_remove_other by reflexivity.
  apply Bool.eqb_prop in H1. rewrite <- H1.
  assert (NARROW : forall small,
            forallb (fun f => flag_mem f FN_ALLOWED) fl0 = true ->
            (forall f, In f FN_ALLOWED -> flag_mem f small = true \/ flag_mem f fl0 = false) ->
            rm small fl0 = []).
  { intros small A B. apply rm_nil_iff. exact (allowed_narrow fl0 FN_ALLOWED small A B). }
  destruct (flag_mem OPTIMIZED fl0) eqn:EO.
  - apply andb_true_iff in H2 as [H2 H3].
    destruct (flag_mem ASYNC_GENERATOR fl0) eqn:E9, (flag_mem COROUTINE fl0) eqn:E7,
             (flag_mem GENERATOR fl0) eqn:E5; cbn [b2z] in H2; try (exfalso; lia);
      match goal with
      | |- exists bt, OK (_, ?X) = _ =>
          let E := fresh "E" in
          assert (E : X = []); [|rewrite E; eexists; reflexivity]
      end.
    + change (rm [OPTIMIZED; NEWLOCALS; ASYNC_GENERATOR; NESTED; F_annotations; NOFREE; VARKEYWORDS; VARARGS] fl0 = []).
      apply NARROW; [exact H3|]. intros f Hf. unfold FN_ALLOWED, MOD_ALLOWED in Hf. cbn [app In] in Hf.
      decompose [or] Hf; try contradiction; subst f; first [left; reflexivity | right; assumption].
    + change (rm [OPTIMIZED; NEWLOCALS; COROUTINE; NESTED; F_annotations; NOFREE; VARKEYWORDS; VARARGS] fl0 = []).
      apply NARROW; [exact H3|]. intros f Hf. unfold FN_ALLOWED, MOD_ALLOWED in Hf. cbn [app In] in Hf.
      decompose [or] Hf; try contradiction; subst f; first [left; reflexivity | right; assumption].
    + change (rm [OPTIMIZED; NEWLOCALS; GENERATOR; NESTED; F_annotations; NOFREE; VARKEYWORDS; VARARGS] fl0 = []).
      apply NARROW; [exact H3|]. intros f Hf. unfold FN_ALLOWED, MOD_ALLOWED in Hf. cbn [app In] in Hf.
      decompose [or] Hf; try contradiction; subst f; first [left; reflexivity | right; assumption].
    + change (rm [OPTIMIZED; NEWLOCALS; NESTED; F_annotations; NOFREE; VARKEYWORDS; VARARGS] fl0 = []).
      apply NARROW; [exact H3|]. intros f Hf. unfold FN_ALLOWED, MOD_ALLOWED in Hf. cbn [app In] in Hf.
      decompose [or] Hf; try contradiction; subst f; first [left; reflexivity | right; assumption].
  - apply andb_true_iff in H2 as [H2 H3]. rewrite H2. cbn [negb].
    assert (E : rm [NESTED; F_annotations; NOFREE; VARKEYWORDS; VARARGS] fl0 = []).
    { apply rm_nil_iff. apply (allowed_narrow fl0 MOD_ALLOWED); [exact H3|].
      intros f Hf. unfold MOD_ALLOWED in Hf. cbn [In] in Hf.
      decompose [or] Hf; try contradiction; subst f; left; reflexivity. }
    cbn [rm fold_right] in E. rewrite E. eexists; reflexivity.
Qed.

Lemma bt_doc_consts bt a (ks : list const) :
  bt_consistent bt a ks = true -> has_docstring bt = true -> ks <> [].
Proof.
  unfold bt_consistent, has_docstring. destruct bt as [f|]; [|discriminate].
  destruct (fn_doc f), ks; cbn [opt_is_some]; intros H1 H2; try discriminate.
  apply andb_true_iff in H1 as [_ H1]. discriminate.
Qed.

Lemma offsets_ok_even : forall ps i e, IC.offsets_ok i ps e = true -> (e - i) mod 2 = 0.
Proof.
  induction ps as [|[[[[op a] k] f] nx] r IH]; intros i e H; cbn [IC.offsets_ok] in H.
  - assert (e = i) by lia. subst. now rewrite Z.sub_diag.
  - apply andb_true_iff in H as [H H4]. apply IH in H4. lia.
Qed.

(* ------------------------------------------------------------------ *)
(** * 4. One level *)

Theorem decode_total : S_decode_total hdr_ok.
Proof.
  unfold S_decode_total. intros c code ks H. apply andb_true_iff in H as [H Hh]. apply andb_true_iff in H as [Hwf Hx].
  pose proof (rt_wf_facts _ _ _ Hwf) as F.
  unfold hdr_ok, hdr_ok_gen in Hh. apply andb_true_iff in Hh as [Hh Hln].
  apply andb_true_iff in Hh as [Hfl Hop].
  unfold flags_hdr_ok in Hfl.
  destruct (to_flags_data c (co_flags code)) as [fl0|] eqn:Fl; [|discriminate]. cbv zeta in Hfl.
  apply andb_true_iff in Hfl as [Hfl N4]. apply andb_true_iff in Hfl as [Hfl N3].
  apply andb_true_iff in Hfl as [N1 N2].
  destruct F as [Fops Fflags Fcode Ftargets Ftable Fnlocals Fstack Fposonly Fkwonly Fv38 Ffree Fnames Fparse].
  destruct Fparse as (ps & lm0 & P & L & _ & _ & _ & Hne).
  (* the parameters *)
  unfold b2z in N1, N4.
  assert (Htot : co_argcount code + co_kwonlyargcount code
                 + (if flag_mem VARARGS fl0 then 1 else 0) + (if flag_mem VARKEYWORDS fl0 then 1 else 0)
                 <= zlen (co_varnames code)) by lia.
  destruct (args_total (co_argcount code) (co_posonlyargcount code) (co_kwonlyargcount code)
              (co_varnames code) fl0 Fposonly Fkwonly Htot) as (a & fl1 & A).
  assert (Hx1 : co_argcount code + co_kwonlyargcount code <= zlen (co_varnames code))
    by (destruct (flag_mem VARARGS fl0), (flag_mem VARKEYWORDS fl0); lia).
  destruct (args_decode_facts _ _ _ _ _ _ _ (co_freevars code) Fposonly Fkwonly Hx1 Fnames Ffree A)
    as (_ & Hlen & _ & Hfl1 & _).
  subst fl1.
  (* the block type *)
  destruct (decode_bt_ok a ks fl0 N3) as [bt B].
  { destruct (flag_mem OPTIMIZED fl0); [exact N4|]. rewrite Hlen. exact N4. }
  pose proof (decode_bt_consistent _ _ _ _ _ B) as Bc.
  (* the line mapping *)
  destruct (IC.emit_parse_bytes c _ ps (EL.code_ok_wf c _ Fcode) P) as [_ HO].
  pose proof (offsets_ok_even _ _ _ HO) as Heven. rewrite Z.sub_0_r in Heven.
  destruct (lm0_bounds c (co_linetable code) (zlen (co_code code)) lm0 Ftable Heven) as (NL & NA & BL & BA);
    [|exact L|].
  { intros E. unfold lnotab_within in Hln. rewrite E in Hln. cbn [orb] in Hln. lia. }
  pose proof (rt_table_ok_table_ok _ _ _ Ftable) as Tok.
  (* the instructions *)
  destruct (b2b_total key_eqb c (co_names code) (co_varnames code) (co_freevars code) (co_cellvars code)
              ks (co_code code) ps (modify_line_offsets lm0 (co_firstlineno code)) bt a
              Fops Fcode Ftargets Hop (bt_doc_consts bt a ks Bc) P)
    as (blocks & addl & lm' & BB & K1 & K2).
  { rewrite EL.okeys_modify. exact NL. }
  { exact NA. }
  { intros u Hu Hm. apply oget_In.
    rewrite (DV.line_ok c _ _ (co_firstlineno code) lm0 u Tok L Hu Hm). discriminate. }
  (* the additional line *)
  destruct (pop_ok lm' (zlen (co_code code))) as [[next_line lm''] PP].
  { intros u Hu. destruct (K1 u Hu) as [A1 A2]. rewrite EL.okeys_modify in A1.
    destruct (BL u A1). lia. }
  { intros u Hu. destruct (K2 u Hu) as [A1 A2].
    change (lm_adds (modify_line_offsets lm0 (co_firstlineno code))) with (lm_adds lm0) in A1.
    destruct (BA u A1). lia. }
  (* together *)
  unfold decode_code. cbv zeta. rewrite L, Fl, Fv38, A.
  assert (HN : Bool.eqb (flag_mem NOFREE (flag_remove VARKEYWORDS (flag_remove VARARGS fl0)))
                 (match co_freevars code, co_cellvars code with [], [] => true | _, _ => false end) = true).
  { rewrite !flag_mem_remove_other by reflexivity. exact N2. }
  rewrite HN. cbn [negb].
  match goal with
  | |- exists d, match ?X with _ => _ end = _ => change X with (decode_bt a ks (fl4_of fl0))
  end.
  rewrite B, BB, PP. eexists; reflexivity.
Qed.

(* ------------------------------------------------------------------ *)
(** * 5. Only the number of constants matters to [operands_ok] *)

Definition notbad {K} (v : dval K) : bool := match v with DBad => false | _ => true end.

Lemma znth_len_none {A B} (l : list A) (l' : list B) i :
  length l = length l' -> (znth l i = None <-> znth l' i = None).
Proof.
  intros H. unfold znth. destruct (i <? 0); [tauto|]. rewrite !nth_error_None. lia.
Qed.

Section Len.
  Context {K K' : Type} (c : cfg) (names varnames freevars cellvars : list str).
  Variables (ks : list K) (ks' : list K').
  Hypothesis Hlen : length ks = length ks'.

  Lemma argval_notbad_len off op a :
    notbad (dis_argval c names varnames freevars cellvars ks off op a)
    = notbad (dis_argval c names varnames freevars cellvars ks' off op a).
  Proof.
    unfold dis_argval. destruct a as [a|]; [|reflexivity].
    destruct (zmem op (cfg_hasconst c)).
    { pose proof (znth_len_none ks ks' a Hlen) as Z.
      destruct (znth ks a) eqn:E1, (znth ks' a) eqn:E2; try reflexivity; exfalso.
      - destruct Z as [_ Z]. specialize (Z eq_refl). discriminate.
      - destruct Z as [Z _]. specialize (Z eq_refl). discriminate. }
    destruct (zmem op (cfg_hasname c)); [destruct (znth names a); reflexivity|].
    destruct (zmem op (cfg_hasjabs c)); [reflexivity|].
    destruct (zmem op (cfg_hasjrel c)); [reflexivity|].
    destruct (zmem op (cfg_haslocal c)); [destruct (znth varnames a); reflexivity|].
    destruct (zmem op (cfg_hasfree c)); [|reflexivity].
    destruct (znth (cellvars ++ freevars) a); [|reflexivity].
    destruct (a <? zlen cellvars); reflexivity.
  Qed.

  Lemma dis_fold_notbad_len : forall units start,
    forallb (fun x : Z * Z * dval K => notbad (snd x))
            (dis_fold c names varnames freevars cellvars ks units start)
    = forallb (fun x : Z * Z * dval K' => notbad (snd x))
              (dis_fold c names varnames freevars cellvars ks' units start).
  Proof.
    induction units as [|[[off op] a] r IH]; intros start; cbn [dis_fold]; [reflexivity|].
    destruct (op =? cfg_extended_arg c); [apply IH|].
    cbn [forallb snd]. rewrite IH, argval_notbad_len. reflexivity.
  Qed.
End Len.

Lemma operands_ok_len {K K1 K2} c (code : pycode_ K) (ks : list K1) (ks' : list K2) :
  length ks = length ks' -> operands_ok c code ks = operands_ok c code ks'.
Proof. intros H. unfold operands_ok, operands_ok_tbl. now apply dis_fold_notbad_len. Qed.

(* ------------------------------------------------------------------ *)
(** * 6. All nesting levels *)

Lemma mapM_length {A B} (h : A -> res B) l l' : mapM h l = OK l' -> length l' = length l.
Proof. intros H. apply mapM_Forall2 in H. symmetry. eapply Forall2_len. exact H. Qed.

Theorem to_code_data_total_top : S_to_code_data_total hdr_ok_top.
Proof.
  unfold S_to_code_data_total. intros c code H. apply andb_true_iff in H as [H Hh]. apply andb_true_iff in H as [Hwf Hx].
  cbn [rt_wf_deep] in Hwf. cbn [rt_extra_deep] in Hx. cbn [hdr_ok_top] in Hh.
  destruct (mapM (to_const c) (co_consts code)) as [ks|] eqn:M; [|discriminate].
  apply andb_true_iff in Hwf as [Hwf _]. apply andb_true_iff in Hx as [Hx _].
  unfold to_code_data. rewrite M. apply decode_total. rewrite Hwf, Hx. cbn [andb].
  unfold hdr_ok, hdr_ok_gen in *.
  rewrite (operands_ok_len c code ks (co_consts code) (mapM_length _ _ _ M)). exact Hh.
Qed.

Lemma hdr_ok_deep_top c k : hdr_ok_deep c k = true -> hdr_ok_top c k = true.
Proof.
  destruct k as [i|code]; [reflexivity|]. cbn [hdr_ok_deep hdr_ok_top]. intros H.
  apply andb_true_iff in H as [H _]. exact H.
Qed.

Theorem to_code_data_total : S_to_code_data_total hdr_ok_deep.
Proof.
  unfold S_to_code_data_total. intros c code H. apply to_code_data_total_top.
  apply andb_true_iff in H as [H Hh]. rewrite H. cbn [andb]. now apply hdr_ok_deep_top.
Qed.

(* ------------------------------------------------------------------ *)
(** * 7. The premise is necessary: a successful decode implies [hdr_ok] *)

Lemma forallb_widen fl (small big : list flag) :
  forallb (fun g => flag_mem g small) fl = true ->
  (forall f, In f small -> flag_mem f big = true) ->
  forallb (fun g => flag_mem g big) fl = true.
Proof. intros H Hs. apply (allowed_narrow fl small big H). intros f Hf. left. now apply Hs. Qed.

Lemma decode_bt_inv a ks fl0 bt :
  decode_bt a ks (fl4_of fl0) = OK (bt, []) ->
  Bool.eqb (flag_mem OPTIMIZED fl0) (flag_mem NEWLOCALS fl0) = true /\
  (if flag_mem OPTIMIZED fl0
   then (b2z (flag_mem GENERATOR fl0) + b2z (flag_mem COROUTINE fl0)
         + b2z (flag_mem ASYNC_GENERATOR fl0) <=? 1)
        && forallb (fun f => flag_mem f FN_ALLOWED) fl0
   else (args_len a =? 0) && forallb (fun f => flag_mem f MOD_ALLOWED) fl0) = true.
Proof.
  intros H. unfold decode_bt, FN_FLAGS, FN_TYPE_FLAGS in H. cbn [filter fst] in H.
  unfold fl4_of in H. rewrite !flag_mem_remove_other in H by reflexivity.
  assert (WIDE : forall small, rm small fl0 = [] ->
            (forall f, In f small -> flag_mem f FN_ALLOWED = true) ->
            forallb (fun f => flag_mem f FN_ALLOWED) fl0 = true).
  { intros small A B. apply rm_nil_iff in A. exact (forallb_widen fl0 small FN_ALLOWED A B). }
  destruct (flag_mem NEWLOCALS fl0) eqn:E1, (flag_mem OPTIMIZED fl0) eqn:E0; try discriminate H.
  - split; [reflexivity|].
    destruct (flag_mem ASYNC_GENERATOR fl0) eqn:E9, (flag_mem COROUTINE fl0) eqn:E7,
             (flag_mem GENERATOR fl0) eqn:E5; try discriminate H;
      inversion H as [[Hb H5]]; clear H; cbn [b2z];
      match goal with |- (?n <=? 1) && _ = true => replace (n <=? 1) with true by reflexivity end;
      cbn [andb].
    + apply (WIDE [OPTIMIZED; NEWLOCALS; ASYNC_GENERATOR; NESTED; F_annotations; NOFREE; VARKEYWORDS; VARARGS] H5).
      intros f Hf. cbn [In] in Hf. decompose [or] Hf; try contradiction; subst f; reflexivity.
    + apply (WIDE [OPTIMIZED; NEWLOCALS; COROUTINE; NESTED; F_annotations; NOFREE; VARKEYWORDS; VARARGS] H5).
      intros f Hf. cbn [In] in Hf. decompose [or] Hf; try contradiction; subst f; reflexivity.
    + apply (WIDE [OPTIMIZED; NEWLOCALS; GENERATOR; NESTED; F_annotations; NOFREE; VARKEYWORDS; VARARGS] H5).
      intros f Hf. cbn [In] in Hf. decompose [or] Hf; try contradiction; subst f; reflexivity.
    + apply (WIDE [OPTIMIZED; NEWLOCALS; NESTED; F_annotations; NOFREE; VARKEYWORDS; VARARGS] H5).
      intros f Hf. cbn [In] in Hf. decompose [or] Hf; try contradiction; subst f; reflexivity.
  - split; [reflexivity|].
    destruct (args_len a =? 0); cbn [negb] in H; [|discriminate]. inversion H as [[Hb H5]]. cbn [andb].
    assert (A : rm [NESTED; F_annotations; NOFREE; VARKEYWORDS; VARARGS] fl0 = []) by exact H5.
    apply rm_nil_iff in A. apply (forallb_widen fl0 _ MOD_ALLOWED A).
    intros f Hf. cbn [In] in Hf. decompose [or] Hf; try contradiction; subst f; reflexivity.
Qed.

(* a successful bytes_to_blocks: every operand designated something *)
Lemma b2b_operands {K} (keq : K -> K -> bool) c b lm names varnames freevars cellvars (ks : list K)
      bt a blocks addl lm' :
  cfg_ops_wf c = true -> code_ok c b = true ->
  bytes_to_blocks keq c b lm names varnames freevars cellvars ks bt a = OK (blocks, addl, lm') ->
  operands_ok_tbl c b names varnames freevars cellvars ks = true.
Proof.
  intros W U H. destruct (DV.ops_wf_spec c W) as [HE _].
  unfold bytes_to_blocks in H. cbv zeta in H. cbn [d_consts d_names d_varnames d_cellvars] in H.
  match type of H with
  | match ?X with _ => _ end = _ => destruct X as [st1|e] eqn:Est; [|discriminate]
  end.
  assert (S1 : DV.st_ok names varnames cellvars ks st1).
  { destruct (has_docstring bt).
    - destruct (found_index keq (toargs_init ks 0) 0) as [[[x ov] t]|] eqn:F; [|discriminate].
      apply DV.found_index_spec in F as [_ F]. inversion Est; subst st1.
      unfold DV.st_ok. cbn [d_consts d_names d_varnames d_cellvars]. rewrite F.
      repeat split; reflexivity.
    - inversion Est; subst. repeat split; reflexivity. }
  destruct (parse_bytes c b 0 0 0) as [ps|e] eqn:Ep; [|discriminate].
  match type of H with
  | match ?X with _ => _ end = _ => destruct X as [[[ois lm1] st2]|e] eqn:Ed; [|discriminate]
  end.
  clear H.
  destruct (DV.parse_dis_gen c names varnames freevars cellvars ks HE b 0 0 0 ps U ltac:(lia) ltac:(lia)
              ltac:(reflexivity) ltac:(reflexivity) Ep) as [HL Hnn].
  change (0 =? 0) with true in HL. cbv iota in HL.
  pose proof (DV.decode_instrs_view c names varnames freevars cellvars ks keq W _ _ _ _ _ _ S1 Hnn Ed) as Hv.
  unfold operands_ok_tbl. rewrite HL, <- Hv. apply forallb_forall. intros x Hx.
  apply in_map_iff in Hx as [[o i] [<- _]]. unfold DV.oview. cbn [snd].
  destruct (i_arg i); reflexivity.
Qed.

(* decode_instrs leaves the entries at and past the end of the code alone *)
Lemma decode_instrs_keeps {K} (keq : K -> K -> bool) c fv : forall ps i e L Ad st ois lm1 st',
  IC.offsets_ok i ps e = true ->
  decode_instrs keq c ps fv {| lm_lines := L; lm_adds := Ad |} st = OK (ois, lm1, st') ->
  forall u, e <= u -> oget (lm_lines lm1) u = oget L u.
Proof.
  induction ps as [|[[[[op a] k] first] next] r IH]; intros i e L Ad st ois lm1 st' HO HD u Hu.
  - cbn [decode_instrs] in HD. inversion HD; subst. reflexivity.
  - cbn [IC.offsets_ok] in HO.
    apply andb_true_iff in HO as [HO HO']. apply andb_true_iff in HO as [HO H3].
    apply andb_true_iff in HO as [H1 H2].
    pose proof (EL.offsets_ok_le _ _ _ HO') as Hie.
    apply EL.decode_step in HD. destruct HD as (ins & st1 & line0 & rest & _ & _ & _ & _ & ER).
    cbn [lm_lines lm_adds] in ER.
    rewrite (IH _ _ _ _ _ _ _ _ HO' ER u Hu).
    rewrite DV.oget_fold_odel.
    + apply DV.oget_odel_neq. lia.
    + intros X. apply DV.In_range2_lt in X. lia.
Qed.

(* the bytecode deltas of the items written back from a mapping sum to at most its largest key *)
Lemma m2i_sumbc adds M : forall lines ll lb items,
  mapping_to_items_lnotab lines adds ll lb = OK items ->
  lb <= M -> (forall u, In u (okeys lines) -> u <= M) ->
  LN.sumbc items <= M - lb.
Proof.
  induction lines as [|[bo [line|]] r IH]; intros ll lb items H HM HK.
  - cbn [mapping_to_items_lnotab] in H. inversion H. unfold LN.sumbc. cbn. lia.
  - rewrite LN.m2i_cons in H. cbv zeta in H.
    assert (Hbo : bo <= M) by (apply HK; now left).
    assert (HK' : forall u, In u (okeys r) -> u <= M) by (intros u Hu; apply HK; now right).
    set (all := if line - ll - sumZ (LN.addl adds bo) =? 0 then LN.addl adds bo
                else line - ll - sumZ (LN.addl adds bo) :: LN.addl adds bo) in *.
    destruct all as [|lo rest].
    + destruct (mapping_to_items_lnotab r adds line lb) as [its|] eqn:E; [|discriminate].
      inversion H; subst items. cbn [app]. eapply IH; eassumption.
    + destruct (mapping_to_items_lnotab r adds line bo) as [its|] eqn:E; [|discriminate].
      inversion H; subst items. cbn [app]. rewrite LN.sumbc_cons, LN.sumbc_app, LN.sumbc_zw.
      pose proof (IH _ _ _ E Hbo HK'). lia.
  - cbn [mapping_to_items_lnotab] in H. discriminate.
Qed.

Theorem decode_total_conv : forall c code ks d,
    rt_wf c code ks && rt_extra c code = true ->
    decode_code c code ks = OK d -> hdr_ok c code ks = true.
Proof.
  intros c code ks d H D. apply andb_true_iff in H as [Hwf Hx].
  pose proof (rt_wf_facts _ _ _ Hwf) as F.
  unfold rt_extra in Hx. apply andb_true_iff in Hx as [Hx1 _].
  destruct F as [Fops Fflags Fcode Ftargets Ftable Fnlocals Fstack Fposonly Fkwonly Fv38 Ffree Fnames Fparse].
  destruct Fparse as (ps & lm0' & P & L' & _ & _ & _ & Hne).
  destruct (decode_code_inv _ _ _ _ D)
    as (lm0 & fl0 & a & fl1 & bt & lm' & next_line & lm'' & L & Fl & A & N & B & BB & PP & _).
  rewrite L in L'. inversion L'; subst lm0'. clear L'.
  rewrite Fv38 in A.
  assert (Hx1' : co_argcount code + co_kwonlyargcount code <= zlen (co_varnames code)) by lia.
  destruct (args_decode_facts _ _ _ _ _ _ _ (co_freevars code) Fposonly Fkwonly Hx1' Fnames Ffree A)
    as (Ht & Hlen & _ & Hfl1 & _).
  subst fl1.
  unfold hdr_ok, hdr_ok_gen. apply andb_true_iff. split; [apply andb_true_iff; split|].
  - (* the flags *)
    unfold flags_hdr_ok. rewrite Fl. cbv zeta. unfold b2z.
    change (decode_bt a ks (fl4_of fl0) = OK (bt, [])) in B.
    destruct (decode_bt_inv _ _ _ _ B) as [I1 I2]. unfold b2z in I2.
    rewrite !flag_mem_remove_other in N by reflexivity.
    rewrite I1, N, Bool.eqb_reflx. rewrite !andb_true_r.
    apply andb_true_iff. split; [lia|].
    destruct (flag_mem OPTIMIZED fl0); [exact I2|]. rewrite Hlen in I2. exact I2.
  - (* the operands *)
    unfold operands_ok. eapply b2b_operands; eassumption.
  - (* the line table *)
    unfold lnotab_within. destruct (cfg_v310 c) eqn:V; [reflexivity|]. cbn [orb].
    destruct (total_bc (raw_entries (co_linetable code)) <=? zlen (co_code code)) eqn:LE; [reflexivity|].
    exfalso. set (e := zlen (co_code code)) in *.
    destruct (IC.emit_parse_bytes c _ ps (EL.code_ok_wf c _ Fcode) P) as [_ HO]. fold e in HO.
    pose proof (offsets_ok_even _ _ _ HO) as Heven. rewrite Z.sub_0_r in Heven.
    pose proof (EL.offsets_ok_le _ _ _ HO) as He0.
    destruct (EL.lm0_char c _ e lm0 Ftable ltac:(rewrite V; exact L)) as [[k0 HK] _].
    unfold rt_table_ok in Ftable. rewrite V in Ftable.
    apply andb_true_iff in Ftable as [T T3]. apply andb_true_iff in T as [T1 T2].
    apply andb_true_iff in T3 as [T4 T5].
    destruct (LT_ExpandCollapse.bytes_items _ T1 T2) as (t & B1 & B2 & B3).
    assert (R : raw_entries (co_linetable code) = t) by (unfold raw_entries; now rewrite B1).
    rewrite R in *. unfold to_line_mapping in L. rewrite B1 in L.
    destruct (LN.i2m_ok _ e T5) as (lines' & adds' & H1 & H2 & _).
    rewrite H1 in L. inversion L; subst lm0. clear L. cbn [lm_lines] in HK.
    pose proof (m2i_sumbc adds' (Z.max 0 (2 * Z.of_nat k0 - 2)) lines' 0 0 _ H2 ltac:(lia)) as HS.
    rewrite collapse_sumbc in HS.
    assert (HS' : total_bc t <= Z.max 0 (2 * Z.of_nat k0 - 2) - 0).
    { apply HS. intros u Hu. rewrite HK in Hu. apply L310.In_range2_fuel in Hu. lia. }
    assert (Hin : forall u, (u = e \/ u = e + 2) ->
              oget (lm_lines (modify_line_offsets {| lm_lines := lines'; lm_adds := adds' |}
                                                  (co_firstlineno code))) u <> None).
    { intros u Hu. apply oget_In. rewrite EL.okeys_modify. cbn [lm_lines]. rewrite HK.
      apply L310.In_range2_fuel. lia. }
    destruct (BP.bytes_to_blocks_partition key_eqb c _ _ _ _ _ _ _ _ _ _ _ _ BB)
      as (ps' & ois & st1 & st2 & P' & Dd & _).
    rewrite P in P'. inversion P'; subst ps'. clear P'.
    assert (Hkeep : forall u, e <= u ->
              oget (lm_lines lm') u
              = oget (lm_lines (modify_line_offsets {| lm_lines := lines'; lm_adds := adds' |}
                                                    (co_firstlineno code))) u).
    { intros u Hu.
      exact (decode_instrs_keeps key_eqb c (co_freevars code) ps 0 e _ _ st1 ois lm' st2 HO Dd u Hu). }
    unfold pop_additional_line in PP. destruct (negb _); [discriminate|].
    destruct (lm_lines lm') as [|[k1 v1] r1] eqn:EL1.
    + apply (Hin e); [now left|]. rewrite <- Hkeep by lia. reflexivity.
    + destruct (keys_are_exactly ((k1, v1) :: r1) e) eqn:KE; [|discriminate].
      unfold keys_are_exactly in KE. rewrite forallb_forall in KE.
      assert (X : In (e + 2) (okeys ((k1, v1) :: r1))).
      { apply oget_In. rewrite Hkeep by lia. apply Hin. now right. }
      specialize (KE _ X). lia.
Qed.

(* under rt_wf and rt_extra, decoding succeeds exactly on the code objects with [hdr_ok] *)
Corollary decode_total_iff : forall c code ks,
    rt_wf c code ks && rt_extra c code = true ->
    (hdr_ok c code ks = true <-> exists d, decode_code c code ks = OK d).
Proof.
  intros c code ks H. split.
  - intros Hh. apply decode_total. rewrite H, Hh. reflexivity.
  - intros [d D]. eapply decode_total_conv; eassumption.
Qed.

(* ------------------------------------------------------------------ *)
(** * 8. All nesting levels, without presupposing that the nested constants decode

   [rt_wf_deep] asks for [mapM (to_const c) (co_consts code) = OK ks] at every level, i.e. it already
   contains the success of every nested decode.  The constants enter [rt_wf] only through
   [targets_ok], which does not look at them; so the well-formedness of a level can be stated on the
   code object alone ([rt_wf_p]), and the totality theorem proved by induction on the nesting. *)

Definition jview {K} (x : Z * Z * dval K) : Z * option Z :=
  (fst (fst x), match snd x with DJump t _ => Some t | _ => None end).

Lemma forallb_map' {A B} (f : B -> bool) (g : A -> B) l : forallb f (map g l) = forallb (fun x => f (g x)) l.
Proof. induction l as [|x l IH]; [reflexivity|]. cbn [map forallb]. now rewrite IH. Qed.

Lemma forallb_ext' {A} (f g : A -> bool) l : (forall x, f x = g x) -> forallb f l = forallb g l.
Proof. intros H. induction l as [|x l IH]; [reflexivity|]. cbn [forallb]. now rewrite H, IH. Qed.

Section Indep.
  Context {K K' : Type} (c : cfg) (names varnames freevars cellvars : list str).
  Variables (ks : list K) (ks' : list K').

  Lemma argval_jump_indep off op a :
    match dis_argval c names varnames freevars cellvars ks off op a with DJump t _ => Some t | _ => None end
    = match dis_argval c names varnames freevars cellvars ks' off op a with DJump t _ => Some t | _ => None end.
  Proof.
    unfold dis_argval. destruct a as [a|]; [|reflexivity].
    destruct (zmem op (cfg_hasconst c)); [destruct (znth ks a), (znth ks' a); reflexivity|].
    destruct (zmem op (cfg_hasname c)); [destruct (znth names a); reflexivity|].
    destruct (zmem op (cfg_hasjabs c)); [reflexivity|].
    destruct (zmem op (cfg_hasjrel c)); [reflexivity|].
    destruct (zmem op (cfg_haslocal c)); [destruct (znth varnames a); reflexivity|].
    destruct (zmem op (cfg_hasfree c)); [|reflexivity].
    destruct (znth (cellvars ++ freevars) a); [|reflexivity].
    destruct (a <? zlen cellvars); reflexivity.
  Qed.

  Lemma dis_fold_jview : forall units start,
    map jview (dis_fold c names varnames freevars cellvars ks units start)
    = map jview (dis_fold c names varnames freevars cellvars ks' units start).
  Proof.
    induction units as [|[[off op] a] r IH]; intros start; cbn [dis_fold]; [reflexivity|].
    destruct (op =? cfg_extended_arg c); [apply IH|].
    cbn [map]. rewrite IH. f_equal. unfold jview. cbn [fst snd]. f_equal. apply argval_jump_indep.
  Qed.
End Indep.

Lemma targets_ok_jview {K} c b names varnames freevars cellvars (ks : list K) :
  targets_ok c b names varnames freevars cellvars ks
  = (let jl := map jview (dis_fold c names varnames freevars cellvars ks (dis_unpack c b 0 0) None) in
     forallb (fun j : Z * option Z => match snd j with Some t => zmem t (map fst jl) | None => true end) jl).
Proof.
  unfold targets_ok. cbv zeta.
  set (l := dis_fold c names varnames freevars cellvars ks (dis_unpack c b 0 0) None).
  rewrite forallb_map', map_map. apply forallb_ext'. intros x. unfold jview. cbn [fst snd].
  destruct (snd x); reflexivity.
Qed.

Lemma targets_ok_indep {K K'} c b names varnames freevars cellvars (ks : list K) (ks' : list K') :
  targets_ok c b names varnames freevars cellvars ks = targets_ok c b names varnames freevars cellvars ks'.
Proof. rewrite !targets_ok_jview. cbv zeta. rewrite (dis_fold_jview c _ _ _ _ ks ks'). reflexivity. Qed.

(* [rt_wf] with the code object's own constants in the place of the decoded ones *)
Definition rt_wf_p (c : cfg) (code : pycode) : bool :=
  cfg_ops_wf c && flags_wf (cfg_flags c)
  && code_ok c (co_code code)
  && targets_ok c (co_code code) (co_names code) (co_varnames code) (co_freevars code) (co_cellvars code)
                (co_consts code)
  && rt_table_ok c (co_linetable code) (zlen (co_code code))
  && (co_nlocals code =? zlen (co_varnames code))
  && (0 <=? co_stacksize code) && (0 <=? co_posonlyargcount code)
  && (co_posonlyargcount code <=? co_argcount code) && (0 <=? co_kwonlyargcount code)
  && (if cfg_v38 c then true else co_posonlyargcount code =? 0)
  && nodup_str (co_freevars code) && names_ok (co_varnames code)
  && match parse_bytes c (co_code code) 0 0 0, to_line_mapping (cfg_v310 c) (co_linetable code) (zlen (co_code code)) with
     | OK ps, OK lm0 => lines_on_instrs lm0 ps && minimal_widths c ps
                        && forallb (fun p => zmem (p_op p) (cfg_opcodes c)) ps
                        && negb (match ps with [] => true | _ => false end)
     | _, _ => false
     end.

Lemma rt_wf_p_eq c code ks : rt_wf c code ks = rt_wf_p c code.
Proof.
  unfold rt_wf, rt_wf_p.
  rewrite (targets_ok_indep c (co_code code) (co_names code) (co_varnames code) (co_freevars code)
             (co_cellvars code) ks (co_consts code)).
  reflexivity.
Qed.

(* everything the totality theorem needs, at every nesting level, on the code objects alone *)
Fixpoint total_wf_deep (c : cfg) (k : pyconst) : bool :=
  match k with
  | PInner _ => true
  | PCode code =>
      rt_wf_p c code && rt_extra c code && hdr_ok_gen c code (co_consts code)
      && (fix all (l : list pyconst) : bool :=
            match l with [] => true | x :: r => total_wf_deep c x && all r end) (co_consts code)
  end.

Theorem to_const_total c : forall k, total_wf_deep c k = true -> exists k', to_const c k = OK k'.
Proof.
  induction k as [i|code IH] using pyconst_ind'; intros H.
  - eexists; reflexivity.
  - cbn [total_wf_deep] in H. apply andb_true_iff in H as [H Hall]. apply all_fix_Forall in Hall.
    apply andb_true_iff in H as [H Hh]. apply andb_true_iff in H as [Hwf Hx].
    destruct (mapM_ok (to_const c) (co_consts code)) as [ks M].
    { rewrite Forall_forall in *. intros x Hx'. apply (IH x Hx'). now apply Hall. }
    destruct (decode_total c code ks) as [d D].
    { rewrite rt_wf_p_eq, Hwf, Hx. cbn [andb]. unfold hdr_ok, hdr_ok_gen in *.
      rewrite (operands_ok_len c code ks (co_consts code) (mapM_length _ _ _ M)). exact Hh. }
    cbn [to_const]. rewrite M, D. eexists; reflexivity.
Qed.

Theorem to_code_data_total_nc : forall c code,
    total_wf_deep c (PCode code) = true -> exists d, to_code_data c code = OK d.
Proof.
  intros c code H. destruct (to_const_total c _ H) as [k' E]. cbn [to_const] in E.
  unfold to_code_data. destruct (mapM (to_const c) (co_consts code)) as [ks|]; [|discriminate].
  destruct (decode_code c code ks) as [d|]; [eauto | discriminate].
Qed.

(* and it implies the three deep premises of S_to_code_data_total: they are satisfiable without
   assuming any decode *)
Lemma Forall_all_fix (f : pyconst -> bool) : forall l,
  Forall (fun x => f x = true) l ->
  (fix all (l : list pyconst) : bool := match l with [] => true | x :: r => f x && all r end) l = true.
Proof. induction 1 as [|x l Hx _ IH]; [reflexivity|]. now rewrite Hx, IH. Qed.

Theorem total_wf_deep_premises c : forall k,
  total_wf_deep c k = true ->
  rt_wf_deep c k = true /\ rt_extra_deep c k = true /\ hdr_ok_deep c k = true.
Proof.
  induction k as [i|code IH] using pyconst_ind'; intros H; [repeat split; reflexivity|].
  destruct (to_const_total c _ H) as [k' E]. cbn [to_const] in E.
  cbn [total_wf_deep] in H. apply andb_true_iff in H as [H Hall]. apply all_fix_Forall in Hall.
  apply andb_true_iff in H as [H Hh]. apply andb_true_iff in H as [Hwf Hx].
  assert (HF : Forall (fun x => rt_wf_deep c x = true /\ rt_extra_deep c x = true /\ hdr_ok_deep c x = true)
                      (co_consts code)).
  { rewrite Forall_forall in *. intros x Hx'. apply (IH x Hx'). now apply Hall. }
  cbn [rt_wf_deep rt_extra_deep hdr_ok_deep].
  destruct (mapM (to_const c) (co_consts code)) as [ks|]; [|discriminate].
  rewrite rt_wf_p_eq, Hwf, Hx, Hh. cbn [andb].
  repeat split; apply Forall_all_fix; (eapply Forall_impl; [|exact HF]); cbv beta; tauto.
Qed.

(* the first test of [flags_hdr_ok] in words: the flags word has no bit outside _CodeFlag *)
Lemma to_flags_ok_iff c w : flags_wf (cfg_flags c) = true ->
  ((exists fl, to_flags_data c w = OK fl) <-> Z.land w (Z.lnot (known_mask c)) = 0).
Proof.
  intros Hwf. split.
  - intros [fl H]. destruct (Z.eq_dec (Z.land w (Z.lnot (known_mask c))) 0) as [E|E]; [exact E|].
    rewrite (unknown_raises c w Hwf E) in H. discriminate.
  - intros E. rewrite (known_converts c w Hwf E). eauto.
Qed.

(* ------------------------------------------------------------------ *)
(** * 9. Non-vacuity, and each part of the premise is needed (checked by computation) *)

Module Examples.
  Definition c39 : cfg := PCD.Gen.Cfg39.cfg.

  (* [def f(a, b, *d, c, **e): return None] under the real 3.9 configuration: CodeRoundTrip.cex1_code
     with the name of the *args parameter non-empty (rt_wf asks for non-empty distinct names) *)
  Definition fn_code : pycode :=
    mkCode 2 0 1 5 1 79 [100; 0; 83; 0] [PInner INone] [] [[97]; [98]; [99]; [100]; [101]]
           [60] [102] 1 [0; 1] [] [].
  (* a module body: LOAD_CONST 0; RETURN_VALUE, flags = CO_NOFREE *)
  Definition mod_code : pycode :=
    mkCode 0 0 0 0 1 64 [100; 0; 83; 0] [PInner INone] [] [] [60] [60] 1 [0; 1] [] [].
  (* the same with a co_lnotab entry exactly at the end of the code (the "additional line") *)
  Definition mod_code_addline : pycode :=
    mkCode 0 0 0 0 1 64 [100; 0; 83; 0] [PInner INone] [] [] [60] [60] 1 [4; 1] [] [].

  Example fn_premises :
    rt_wf c39 fn_code [KInner INone] && rt_extra c39 fn_code && hdr_ok c39 fn_code [KInner INone] = true.
  Proof. vm_compute. reflexivity. Qed.
  Example mod_premises :
    rt_wf c39 mod_code [KInner INone] && rt_extra c39 mod_code && hdr_ok c39 mod_code [KInner INone] = true.
  Proof. vm_compute. reflexivity. Qed.
  Example mod_addline_premises :
    rt_wf c39 mod_code_addline [KInner INone] && rt_extra c39 mod_code_addline
    && hdr_ok c39 mod_code_addline [KInner INone] = true.
  Proof. vm_compute. reflexivity. Qed.
  Example deep_premises :
    rt_wf_deep c39 (PCode fn_code) && rt_extra_deep c39 (PCode fn_code) && hdr_ok_deep c39 (PCode fn_code) = true
    /\ total_wf_deep c39 (PCode fn_code) = true.
  Proof. vm_compute. split; reflexivity. Qed.

  (* a module body that has a function nested in its constants *)
  Definition nested_code : pycode :=
    mkCode 0 0 0 0 1 64 [100; 0; 83; 0] [PInner INone; PCode fn_code] [] [] [60] [60] 1 [0; 1] [] [].
  Example nested_premises :
    rt_wf_deep c39 (PCode nested_code) && rt_extra_deep c39 (PCode nested_code)
    && hdr_ok_deep c39 (PCode nested_code) = true
    /\ total_wf_deep c39 (PCode nested_code) = true.
  Proof. vm_compute. split; reflexivity. Qed.

  (* each of the following satisfies rt_wf and rt_extra, fails exactly one part of hdr_ok, and
     decode_code raises *)
  Definition err_of (code : pycode) : option exn :=
    match decode_code c39 code [KInner INone] with OK _ => None | Err e => Some e end.
  Definition pre (code : pycode) : bool := rt_wf c39 code [KInner INone] && rt_extra c39 code.

  (* operand: LOAD_CONST 1 with a single constant *)
  Definition bad_operand : pycode :=
    mkCode 0 0 0 0 1 64 [100; 1; 83; 0] [PInner INone] [] [] [60] [60] 1 [0; 1] [] [].
  (* co_lnotab reaches two bytes past the end of the code *)
  Definition bad_lnotab : pycode :=
    mkCode 0 0 0 0 1 64 [100; 0; 83; 0] [PInner INone] [] [] [60] [60] 1 [6; 1] [] [].
  (* CO_VARARGS without a slot in co_varnames *)
  Definition bad_varargs : pycode :=
    mkCode 1 0 0 1 1 71 [100; 0; 83; 0] [PInner INone] [] [[97]] [60] [102] 1 [0; 1] [] [].
  (* CO_NOFREE missing although there are no free / cell variables *)
  Definition bad_nofree : pycode :=
    mkCode 0 0 0 0 1 0 [100; 0; 83; 0] [PInner INone] [] [] [60] [60] 1 [0; 1] [] [].
  (* CO_OPTIMIZED without CO_NEWLOCALS *)
  Definition bad_fnflags : pycode :=
    mkCode 0 0 0 0 1 65 [100; 0; 83; 0] [PInner INone] [] [] [60] [60] 1 [0; 1] [] [].
  (* GENERATOR and COROUTINE together *)
  Definition bad_two_types : pycode :=
    mkCode 0 0 0 0 1 227 [100; 0; 83; 0] [PInner INone] [] [] [60] [102] 1 [0; 1] [] [].
  (* a known flag the library has no field for: CO_ITERABLE_COROUTINE.  These are the flags (0x163) of
     g.__code__ for [@types.coroutine def g(): yield] on CPython 3.7-3.10, where from_code raises
     ValueError: Unknown flags: {'ITERABLE_COROUTINE'} *)
  Definition bad_iterable_coroutine : pycode :=
    mkCode 0 0 0 0 1 355 [100; 0; 83; 0] [PInner INone] [] [] [60] [102] 1 [0; 1] [] [].
  (* a future flag other than annotations.  [from __future__ import barry_as_FLUFL] is the one
     non-mandatory feature left in 3.7-3.10: compile() gives the module co_flags = 0x400040 (3.8-3.10)
     and from_code raises ValueError: Unknown flags: {'barry_as_FLUFL'} *)
  Definition bad_future : pycode :=
    mkCode 0 0 0 0 1 4194368 [100; 0; 83; 0] [PInner INone] [] [] [60] [60] 1 [0; 1] [] [].
  (* a module body with a parameter *)
  Definition bad_mod_param : pycode :=
    mkCode 1 0 0 1 1 64 [100; 0; 83; 0] [PInner INone] [] [[97]] [60] [60] 1 [0; 1] [] [].
  (* a bit outside _CodeFlag *)
  Definition bad_unknown_bit : pycode :=
    mkCode 0 0 0 0 1 1088 [100; 0; 83; 0] [PInner INone] [] [] [60] [60] 1 [0; 1] [] [].

  Example needed :
    map (fun code => (pre code, hdr_ok c39 code [KInner INone], err_of code))
        [bad_operand; bad_lnotab; bad_varargs; bad_nofree; bad_fnflags; bad_two_types;
         bad_iterable_coroutine; bad_future; bad_mod_param; bad_unknown_bit]
    = [(true, false, Some IndexError); (true, false, Some NotImplementedError);
       (true, false, Some IndexError); (true, false, Some AssertionError);
       (true, false, Some ValueError); (true, false, Some AssertionError);
       (true, false, Some ValueError); (true, false, Some ValueError);
       (true, false, Some ValueError); (true, false, Some ValueError)].
  Proof. vm_compute. reflexivity. Qed.
End Examples.

Check (decode_total : S_decode_total hdr_ok).
Check (to_code_data_total : S_to_code_data_total hdr_ok_deep).
Check (to_code_data_total_top : S_to_code_data_total hdr_ok_top).
Check (decode_total : forall c code ks,
  rt_wf c code ks && rt_extra c code && hdr_ok c code ks = true -> exists d, decode_code c code ks = OK d).
Check (to_code_data_total : forall c code,
  rt_wf_deep c (PCode code) && rt_extra_deep c (PCode code) && hdr_ok_deep c (PCode code) = true ->
  exists d, to_code_data c code = OK d).

Print Assumptions decode_total.
Print Assumptions to_code_data_total.
Print Assumptions to_code_data_total_top.
Print Assumptions decode_total_conv.
Print Assumptions decode_total_iff.
Print Assumptions to_const_total.
Print Assumptions to_code_data_total_nc.
Print Assumptions total_wf_deep_premises.
Print Assumptions to_flags_ok_iff.
