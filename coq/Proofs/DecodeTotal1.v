(* Totality of the decoder, part 1: the pieces below decode_code.
   - keys of ordered dicts under odel / oset;
   - the keys of the decoded line mapping never lie past the end of the code (3.10: the table
     covers the code exactly; co_lnotab: provided the table's bytecode deltas sum to at most the
     length of the code);
   - decode_instrs, additional_args, bytes_to_blocks and pop_additional_line succeed. *)
From Coq Require Import ZArith List Bool Lia ZifyBool.
From PCD Require Import Base.PyBase Base.Cfg Model.Flags Model.Args Model.Data Model.Consts
  Model.LineTable Model.Blocks Model.CodeData Spec.Lnotab Spec.Dis Model.ViewSer
  Proofs.C02_Statements Proofs.C11_Statements Proofs.C01_Statements.
From PCD Require Proofs.EncodeLines Proofs.BlocksPartition Proofs.DecodeView Proofs.InstrCodec
  Proofs.LT_Lnotab Proofs.LT_310 Proofs.LT_ExpandCollapse.
Import ListNotations. Open Scope Z_scope.
Ltac Zify.zify_post_hook ::= Z.to_euclidean_division_equations.

Module BP := Proofs.BlocksPartition.
Module DV := Proofs.DecodeView.
Module EL := Proofs.EncodeLines.
Module IC := Proofs.InstrCodec.
Module LN := Proofs.LT_Lnotab.
Module L310 := Proofs.LT_310.

Ltac split_andb :=
  repeat match goal with
         | H : _ && _ = true |- _ => apply andb_true_iff in H; destruct H
         end.

(* ------------------------------------------------------------------ *)
(** * 1. Keys of ordered dicts *)

Section OD.
  Context {V : Type}.
  Implicit Types d : odict V.

  Lemma oget_In d k : oget d k <> None <-> In k (okeys d).
  Proof.
    unfold okeys. induction d as [|[k0 v0] d IH]; cbn [oget map fst In].
    - split; [congruence | tauto].
    - destruct (k0 =? k) eqn:E.
      + split; [intros _; left; lia | discriminate].
      + rewrite IH. split; [tauto | intros [H|H]; [lia | exact H]].
  Qed.

  Lemma In_oget d k : In k (okeys d) -> exists v, oget d k = Some v.
  Proof. intros H. apply oget_In in H. destruct (oget d k) as [v|]; [eauto | congruence]. Qed.

  Lemma okeys_odel d k u : NoDup (okeys d) -> In u (okeys (odel d k)) -> In u (okeys d) /\ u <> k.
  Proof.
    unfold okeys. induction d as [|[k0 v0] d IH]; cbn [odel map fst In]; intros Hnd H; [destruct H|].
    inversion Hnd as [|? ? Hn Hd]; subst. destruct (k0 =? k) eqn:E.
    - assert (k0 = k) by lia. subst k0. split; [now right|]. intros ->. now apply Hn.
    - cbn [map fst In] in H. destruct H as [H|H]; [subst; split; [now left | lia]|].
      destruct (IH Hd H) as [H1 H2]. split; [now right | exact H2].
  Qed.

  Lemma NoDup_odel d k : NoDup (okeys d) -> NoDup (okeys (odel d k)).
  Proof.
    unfold okeys. induction d as [|[k0 v0] d IH]; cbn [odel map fst]; intros Hnd; [constructor|].
    inversion Hnd as [|? ? Hn Hd]; subst. destruct (k0 =? k); [exact Hd|].
    cbn [map fst]. constructor; [|now apply IH].
    intros H. apply Hn. exact (proj1 (okeys_odel d k k0 Hd H)).
  Qed.

  Lemma NoDup_fold_odel l : forall d, NoDup (okeys d) ->
    NoDup (okeys (fold_left (fun d k => odel d k) l d)).
  Proof.
    induction l as [|k l IH]; intros d H; [exact H|]. cbn [fold_left]. apply IH. now apply NoDup_odel.
  Qed.

  Lemma okeys_fold_odel l : forall d u, NoDup (okeys d) ->
    In u (okeys (fold_left (fun d k => odel d k) l d)) -> In u (okeys d) /\ ~ In u l.
  Proof.
    induction l as [|k l IH]; intros d u Hnd H; [split; [exact H | intros []]|].
    cbn [fold_left] in H. destruct (IH _ _ (NoDup_odel d k Hnd) H) as [H1 H2].
    destruct (okeys_odel d k u Hnd H1) as [H3 H4]. split; [exact H3|].
    intros [X|X]; [now apply H4 | now apply H2].
  Qed.

  Lemma okeys_oset d k v u : In u (okeys (oset d k v)) -> u = k \/ In u (okeys d).
  Proof.
    unfold okeys. induction d as [|[k0 v0] d IH]; cbn [oset map fst In]; intros H.
    - destruct H as [H|[]]; left; now symmetry.
    - destruct (k0 =? k) eqn:E; cbn [map fst In] in H.
      + destruct H as [H|H]; [left; now symmetry | right; now right].
      + destruct H as [H|H]; [right; now left|]. destruct (IH H) as [X|X]; [now left | right; now right].
  Qed.

  Lemma NoDup_oset d k v : NoDup (okeys d) -> NoDup (okeys (oset d k v)).
  Proof.
    unfold okeys. induction d as [|[k0 v0] d IH]; cbn [oset map fst]; intros Hnd.
    - constructor; [intros [] | constructor].
    - inversion Hnd as [|? ? Hn Hd]; subst. destruct (k0 =? k) eqn:E; cbn [map fst].
      + assert (k0 = k) by lia. subst k0. constructor; assumption.
      + constructor; [|now apply IH]. intros H. apply okeys_oset in H as [H|H]; [lia | now apply Hn].
  Qed.
End OD.

Lemma okeys_adds_append d k x u : In u (okeys (adds_append d k x)) -> u = k \/ In u (okeys d).
Proof. unfold adds_append. destruct (oget d k); apply okeys_oset. Qed.

Lemma NoDup_adds_append d k x : NoDup (okeys d) -> NoDup (okeys (adds_append d k x)).
Proof. unfold adds_append. destruct (oget d k); apply NoDup_oset. Qed.

Lemma NoDup_evens : forall k a, NoDup (range2_fuel k a).
Proof.
  induction k as [|k IH]; intros a; cbn [range2_fuel]; constructor; [|apply IH].
  intros H. apply DV.In_range2_fuel_lt in H. lia.
Qed.

(* ------------------------------------------------------------------ *)
(** * 2. The decoded line mapping does not reach past the end of its table *)

(** ** 3.10 *)

Lemma sum_snd_repeat (x : eitem) n : sumZ (map snd (repeat x n)) = snd x * Z.of_nat n.
Proof.
  induction n as [|n IH]; cbn [repeat map]; [cbn; lia|]. rewrite LN.sumZ_cons, IH, Nat2Z.inj_succ. ring.
Qed.

Lemma total_bc_app a b : total_bc (a ++ b) = total_bc a + total_bc b.
Proof. unfold total_bc. rewrite map_app. apply LN.sumZ_app. Qed.

Lemma total_bc_zrepeat (x : eitem) n : 0 <= n -> total_bc (zrepeat x n) = snd x * n.
Proof. intros H. unfold total_bc, zrepeat. rewrite sum_snd_repeat, Z2Nat.id by lia. reflexivity. Qed.

Lemma total_bc_cons x t : total_bc (x :: t) = snd x + total_bc t.
Proof. reflexivity. Qed.

Lemma total_bc_emit bd line prev : 0 < bd -> total_bc (emit_310 bd line prev) = bd.
Proof.
  intros Hbd. unfold emit_310. cbv zeta. rewrite !total_bc_app.
  assert (Hnn : forall v m, 0 <= nsplit v m \/ m <= 0).
  { intros v m. unfold nsplit. destruct (v >? m) eqn:E; [|left; lia].
    destruct (Z_le_gt_dec m 0); [now right | left]. apply Z.div_pos; lia. }
  assert (Z1 : forall x n, snd x = 0 -> total_bc (zrepeat x n) = 0).
  { intros x n Hx. unfold total_bc, zrepeat. rewrite sum_snd_repeat, Hx. lia. }
  rewrite !Z1 by reflexivity.
  destruct (L310.nsplit_254 bd) as [[Hb1 Hb2]|[Hb1 [Hb2 Hb3]]].
  - rewrite Hb2. cbn [Z.eqb]. rewrite total_bc_cons. cbn [snd]. unfold total_bc; cbn; lia.
  - destruct (nsplit bd 254 =? 0) eqn:E; [lia|].
    rewrite total_bc_cons, total_bc_app, total_bc_zrepeat by lia. rewrite total_bc_cons.
    cbn [snd]. unfold total_bc at 1. cbn [map sumZ fold_right]. lia.
Qed.

Lemma total_bc_asm p : forall prev, ranges_ok p = true -> total_bc (asm_310 p prev) = sumZ (map fst p).
Proof.
  induction p as [|[bd line] r IH]; intros prev Hok; [reflexivity|].
  apply L310.ranges_ok_cons in Hok as (Hbd & _ & Hr & _).
  cbn [asm_310 map fst]. replace (bd =? 0) with false by lia.
  rewrite total_bc_app, total_bc_emit by exact Hbd. rewrite IH by exact Hr. rewrite LN.sumZ_cons. reflexivity.
Qed.

Lemma mapping_of_ranges_keys p : forall a u, ranges_ok p = true ->
  In u (okeys (mapping_of_ranges p a)) -> a <= u < a + sumZ (map fst p).
Proof.
  induction p as [|[bd line] r IH]; intros a u Hok H; [destruct H|].
  apply L310.ranges_ok_cons in Hok as (Hbd & Hev & Hr & _).
  cbn [mapping_of_ranges] in H. rewrite EL.okeys_app, EL.okeys_cells in H.
  cbn [map fst]. rewrite LN.sumZ_cons.
  assert (Hs : 0 <= sumZ (map fst r)).
  { clear - Hr. induction r as [|[b l] r IH]; [cbn; lia|].
    apply L310.ranges_ok_cons in Hr as (Hb & _ & Hr & _). cbn [map fst]. rewrite LN.sumZ_cons.
    specialize (IH Hr). lia. }
  apply in_app_iff in H as [H|H].
  - apply L310.In_range2 in H; [lia | unfold L310.wfw; lia].
  - apply IH in H; [lia | exact Hr].
Qed.

(** ** co_lnotab *)

Notation loop := items_to_mapping_lnotab.

Lemma czw_keys bo : forall items cur adds items2 cur2 adds2,
  consume_zero_width items bo cur adds = OK (items2, cur2, adds2) ->
  (forall u, In u (okeys adds2) -> u = bo \/ In u (okeys adds)) /\
  (NoDup (okeys adds) -> NoDup (okeys adds2)) /\
  LN.sumbc items2 = LN.sumbc items /\
  (exists zs, items = LN.zw zs ++ items2) /\
  match items2 with [] => True | (_, ib) :: _ => ib <> 0 end.
Proof.
  induction items as [|[l b] r IH]; intros cur adds items2 cur2 adds2 H; cbn [consume_zero_width] in H.
  - inversion H; subst. split; [auto|]. split; [auto|]. split; [reflexivity|].
    split; [exists []; reflexivity | exact I].
  - destruct (b =? 0) eqn:E.
    + destruct l as [lo|]; [|discriminate]. apply IH in H as (H1 & H2 & H3 & [zs H4] & H5).
      split; [|split; [|split; [|split]]].
      * intros u Hu. apply H1 in Hu as [Hu|Hu]; [now left|]. now apply okeys_adds_append in Hu.
      * intros Hn. apply H2. now apply NoDup_adds_append.
      * rewrite H3, LN.sumbc_cons. lia.
      * exists (lo :: zs). cbn [LN.zw map app]. unfold LN.zw in H4. rewrite <- H4. f_equal. f_equal. lia.
      * exact H5.
    + inversion H; subst. split; [auto|]. split; [auto|]. split; [reflexivity|].
      split; [exists []; reflexivity | lia].
Qed.

(* every key the loop adds lies in [bo, n) or at most at the offset where the last item is consumed *)
Lemma loop_bounds n : forall fuel items last_bo cur bo lines adds m,
  wfc_lnotab items = true ->
  (exists k, bo = 2 * k) -> (exists k, last_bo = 2 * k) -> last_bo <= bo ->
  LN.head_ok items (bo - last_bo) ->
  loop fuel items n last_bo cur bo lines adds = OK m ->
  (forall u, In u (okeys (lm_lines m)) ->
     In u (okeys lines) \/ (bo <= u /\ (u < n \/ (items <> [] /\ u <= last_bo + LN.sumbc items)))) /\
  (forall u, In u (okeys (lm_adds m)) ->
     In u (okeys adds) \/ (items <> [] /\ bo <= u <= last_bo + LN.sumbc items /\ u mod 2 = 0)) /\
  (NoDup (okeys adds) -> NoDup (okeys (lm_adds m))).
Proof.
  induction fuel as [|fuel IH]; intros items last_bo cur bo lines adds m W [mb Eb] [ml El] Hle Hh H.
  - cbn [items_to_mapping_lnotab] in H. destruct (negb _); [|discriminate].
    inversion H; subst m. cbn [lm_lines lm_adds]. auto.
  - rewrite LN.loop_S in H. destruct (negb _) eqn:Ecnd.
    + inversion H; subst m. cbn [lm_lines lm_adds]. auto.
    + destruct items as [|[il ib] r].
      * assert (Hn : bo < n) by (destruct (bo <? n) eqn:E; [lia | discriminate Ecnd]).
        apply IH in H as (K1 & K2 & K3); [|reflexivity|exists (mb + 1); lia|exists ml; lia|lia|exact I].
        split; [|split; [|exact K3]].
        -- intros u Hu. apply K1 in Hu as [Hu|Hu].
           ++ apply okeys_oset in Hu as [->|Hu]; [right; lia | now left].
           ++ right. destruct Hu as [A [B|[B _]]]; [lia | congruence].
        -- intros u Hu. apply K2 in Hu as [Hu|[B _]]; [now left | congruence].
      * pose proof (LN.wfc_cons _ _ _ W) as ([lo ->] & Hb & [m' Em] & Wr).
        cbn [LN.head_ok] in Hh. cbv zeta in H.
        pose proof (LN.wfc_sumbc_nonneg _ Wr) as Hsr.
        destruct (bo - last_bo =? ib) eqn:E.
        -- set (adds1 := if lo =? 0 then adds_append adds bo 0 else adds) in *.
           destruct (consume_zero_width r bo (cur + lo) adds1) as [[[items2 cur2] adds2]|] eqn:C; [|discriminate].
           destruct (czw_keys _ _ _ _ _ _ _ C) as (C1 & C2 & C3 & [zs C4] & C5).
           assert (W2 : wfc_lnotab items2 = true).
           { rewrite C4, LN.wfc_app in Wr. apply andb_true_iff in Wr. tauto. }
           apply IH in H as (K1 & K2 & K3);
             [|exact W2|exists (mb + 1); lia|exists mb; lia|lia|].
           2:{ destruct items2 as [|[l2 b2] r2]; [exact I|]. cbn [LN.head_ok].
               apply LN.wfc_cons in W2 as (_ & Hb2 & [m2 Em2] & _).
               lia. }
           rewrite LN.sumbc_cons.
           assert (A1 : forall u, In u (okeys adds1) -> u = bo \/ In u (okeys adds)).
           { intros u Hu. unfold adds1 in Hu. destruct (lo =? 0); [|now right].
             now apply okeys_adds_append in Hu. }
           split; [|split].
           ++ intros u Hu. apply K1 in Hu as [Hu|Hu].
              ** apply okeys_oset in Hu as [->|Hu]; [|now left].
                 right. split; [lia|]. right. split; [discriminate | lia].
              ** right. destruct Hu as [A [B|[B B']]]; [lia|].
                 split; [lia|]. right. split; [discriminate | lia].
           ++ intros u Hu. apply K2 in Hu as [Hu|Hu].
              ** apply C1 in Hu as [->|Hu].
                 --- right. split; [discriminate|]. split; [lia | lia].
                 --- apply A1 in Hu as [->|Hu]; [|now left].
                     right. split; [discriminate|]. split; [lia | lia].
              ** right. destruct Hu as (B & B1 & B2). split; [discriminate|]. split; [lia | exact B2].
           ++ intros Hn. apply K3, C2. unfold adds1. destruct (lo =? 0); [|exact Hn].
              now apply NoDup_adds_append.
        -- assert (Hb0 : ib =? 0 = false) by lia.
           cbn [consume_zero_width] in H. rewrite Hb0 in H.
           apply IH in H as (K1 & K2 & K3);
             [|exact W|exists (mb + 1); lia|exists ml; lia|lia|cbn [LN.head_ok]; lia].
           rewrite LN.sumbc_cons in *.
           split; [|split; [|exact K3]].
           ++ intros u Hu. apply K1 in Hu as [Hu|Hu].
              ** apply okeys_oset in Hu as [->|Hu]; [|now left].
                 right. split; [lia|]. right. split; [discriminate | lia].
              ** right. destruct Hu as [A [B|[B B']]]; [lia|].
                 split; [lia|]. right. split; [discriminate | lia].
           ++ intros u Hu. apply K2 in Hu as [Hu|Hu]; [now left|].
              right. destruct Hu as (B & B1 & B2). split; [discriminate|]. split; [lia | exact B2].
Qed.

Lemma collapse_step_sumbc prev acc :
  LN.sumbc (collapse_step false prev acc) = snd prev + LN.sumbc acc.
Proof.
  destruct acc as [|[il ib] tl]; [destruct prev; reflexivity|].
  unfold collapse_step.
  destruct (bytecode_offset_split false prev (il, ib) || line_offset_split false prev (il, ib)).
  - destruct prev as [pl pb]. unfold merge_items.
    rewrite !LN.sumbc_cons. cbn [snd]. lia.
  - destruct prev as [pl pb]. rewrite !LN.sumbc_cons. reflexivity.
Qed.

Lemma collapse_sumbc t : LN.sumbc (collapse_items false t) = total_bc t.
Proof.
  induction t as [|[ld bd] t IH]; [reflexivity|].
  change (collapse_items false ((ld, bd) :: t))
    with (collapse_step false (Some ld, bd) (collapse_items false t)).
  rewrite collapse_step_sumbc, IH. reflexivity.
Qed.

(** ** both formats *)

Lemma rt_table_ok_table_ok c table n : rt_table_ok c table n = true -> table_ok c table n = true.
Proof.
  unfold rt_table_ok, table_ok. intros T.
  apply andb_true_iff in T as [T T3]. rewrite T. cbn [andb].
  destruct (cfg_v310 c); [|exact T3].
  apply andb_true_iff in T3 as [T3 T4]. unfold is_asm310_image in T3.
  apply andb_true_iff in T3 as [T3 T6]. apply andb_true_iff in T3 as [T5 _].
  apply EL.list_eqb_eitem in T6.
  destruct (L310.asm_310_raw _ 0 T5) as [R1 R2]. rewrite T6 in R1, R2. rewrite R1, R2, T4. reflexivity.
Qed.

(* the keys of the decoded mapping: distinct, even, non-negative, at most the length of the code *)
Lemma lm0_bounds c table n lm0 :
  rt_table_ok c table n = true -> n mod 2 = 0 ->
  (cfg_v310 c = false -> total_bc (raw_entries table) <= n) ->
  to_line_mapping (cfg_v310 c) table n = OK lm0 ->
  NoDup (okeys (lm_lines lm0)) /\ NoDup (okeys (lm_adds lm0)) /\
  (forall u, In u (okeys (lm_lines lm0)) -> 0 <= u <= n /\ u mod 2 = 0) /\
  (forall u, In u (okeys (lm_adds lm0)) -> 0 <= u <= n /\ u mod 2 = 0).
Proof.
  intros T Hn Hle M.
  destruct (EL.lm0_char c table n lm0 T M) as [[k0 HK] _].
  assert (Hev : forall u, In u (okeys (lm_lines lm0)) -> 0 <= u /\ u mod 2 = 0).
  { intros u Hu. rewrite HK in Hu. apply DV.In_range2_fuel_lt in Hu. lia. }
  split; [rewrite HK; apply NoDup_evens|].
  unfold rt_table_ok in T.
  apply andb_true_iff in T as [T T3]. apply andb_true_iff in T as [T1 T2].
  destruct (LT_ExpandCollapse.bytes_items table T1 T2) as (t & B1 & B2 & B3).
  assert (R : raw_entries table = t) by (unfold raw_entries; now rewrite B1).
  rewrite R in T3, Hle. unfold to_line_mapping in M. rewrite B1 in M.
  destruct (cfg_v310 c).
  - apply andb_true_iff in T3 as [T3 T4]. unfold is_asm310_image in T3.
    apply andb_true_iff in T3 as [T3 T6]. apply andb_true_iff in T3 as [T5 _].
    apply EL.list_eqb_eitem in T6.
    set (p := ranges_of_from t 0) in *.
    rewrite <- T6 in M. rewrite (L310.mapping_of_asm310 p n T5) in M.
    inversion M; subst lm0. cbn [lm_lines lm_adds].
    split; [constructor|]. split; [|intros u []].
    intros u Hu. destruct (Hev u Hu) as [E1 E2]. split; [|exact E2].
    cbn [lm_lines] in Hu. apply mapping_of_ranges_keys in Hu; [|exact T5].
    rewrite <- (total_bc_asm p 0 T5), T6 in Hu. lia.
  - apply andb_true_iff in T3 as [T4 T5]. specialize (Hle eq_refl).
    unfold items_to_mapping in M.
    destruct (loop_bounds n (lnotab_fuel (collapse_items false t) n) (collapse_items false t)
                0 0 0 [] [] lm0 T5) as (K1 & K2 & K3);
      [exists 0; lia|exists 0; lia|lia| |exact M|].
    { destruct (collapse_items false t) as [|[l b] r]; [exact I|]. cbn [LN.head_ok].
      apply LN.wfc_cons in T5 as (_ & Hb & _ & _). lia. }
    rewrite collapse_sumbc in K1, K2.
    split; [apply K3; constructor|]. split.
    + intros u Hu. destruct (Hev u Hu) as [E1 E2]. split; [|exact E2].
      apply K1 in Hu as [[]|Hu]. lia.
    + intros u Hu. apply K2 in Hu as [[]|Hu]. lia.
Qed.

(* ------------------------------------------------------------------ *)
(** * 3. pop_additional_line succeeds when every remaining key is the end of the code *)

Lemma pop_ok m e :
  (forall u, In u (okeys (lm_lines m)) -> u = e) ->
  (forall u, In u (okeys (lm_adds m)) -> u = e) ->
  exists r, pop_additional_line m e = OK r.
Proof.
  intros HL HA. unfold pop_additional_line.
  assert (KE : forall V (d : odict V), d <> [] -> (forall u, In u (okeys d) -> u = e) ->
                 keys_are_exactly d e = true).
  { intros V d Hne H. unfold keys_are_exactly. destruct d as [|x d]; [congruence|].
    apply forallb_forall. intros k Hk. apply H in Hk. lia. }
  assert (A : (match lm_adds m with _ :: _ => keys_are_exactly (lm_adds m) e | [] => true end) = true).
  { destruct (lm_adds m) as [|x d]; [reflexivity|]. apply KE; [discriminate | exact HA]. }
  rewrite A. cbn [negb].
  destruct (lm_lines m) as [|[k0 v0] d]; [eauto|].
  rewrite KE; [|discriminate|exact HL].
  assert (k0 = e) by (apply HL; now left). subst k0.
  cbn [oget]. rewrite Z.eqb_refl. eauto.
Qed.

(* ------------------------------------------------------------------ *)
(** * 4. The table lookups of the decoder *)

Lemma found_index_ok {T} (keq : T -> T -> bool) (st : toargs T) i a :
  py_index (ta_args st) i = Some a -> exists ov st', found_index keq st i = OK (a, ov, st').
Proof. intros H. unfold found_index. rewrite H. eauto. Qed.

Lemma py_index_in_range {A} (l : list A) i : 0 <= i < zlen l -> exists a, py_index l i = Some a.
Proof.
  intros H. rewrite DV.py_index_nonneg, DV.znth_nonneg by lia.
  destruct (nth_error l (Z.to_nat i)) as [a|] eqn:E; [eauto|].
  apply nth_error_None in E. unfold zlen in H. lia.
Qed.

Lemma additional_args_from_total {T} (keq : T -> T -> bool) : forall idxs (st : toargs T),
  (forall i, In i idxs -> 0 <= i < zlen (ta_args st)) ->
  exists l, additional_args_from keq st idxs = OK l.
Proof.
  induction idxs as [|i r IH]; intros st H; cbn [additional_args_from]; [eauto|].
  destruct (omem (ta_order st) i).
  - apply IH. intros j Hj. apply H. now right.
  - destruct (py_index_in_range (ta_args st) i (H i (or_introl eq_refl))) as [a Ha].
    destruct (found_index_ok keq st i a Ha) as (ov & st' & F). rewrite F.
    apply DV.found_index_spec in F as [_ F2].
    destruct (IH st') as [l El]; [|rewrite El; eauto].
    intros j Hj. rewrite F2. apply H. now right.
Qed.

Lemma additional_args_total {T} (keq : T -> T -> bool) (st : toargs T) :
  exists l, additional_args keq st = OK l.
Proof.
  unfold additional_args. apply additional_args_from_total.
  intros i Hi. apply in_map_iff in Hi as [n [<- Hn]]. apply in_seq in Hn. unfold zlen. lia.
Qed.

Section DecTotal.
  Context {K : Type} (keq : K -> K -> bool) (c : cfg).
  Variables names varnames freevars cellvars : list str.
  Variable ks : list K.

  Notation st_ok := (DV.st_ok names varnames cellvars ks).
  Notation pview := (DV.pview c names varnames freevars cellvars ks).

  Lemma to_arg_ok op a next st :
    cfg_ops_wf c = true -> st_ok st -> 0 <= a ->
    dis_argval c names varnames freevars cellvars ks (next - 2) op
      (if op >=? cfg_have_argument c then Some a else None) <> DBad ->
    exists parg st', to_arg keq c op a next freevars st = OK (parg, st').
  Proof.
    intros W [S1 [S2 [S3 S4]]] Ha H.
    destruct (DV.ops_wf_spec c W) as [_ Hop]. specialize (Hop op).
    destruct Hop as [J1 [J2 [J3 [J4 [J5 J6]]]]].
    unfold to_arg. cbv zeta. unfold dis_argval in H.
    destruct (zmem op (cfg_hasjabs c)) eqn:E1; [eauto|].
    destruct (zmem op (cfg_hasjrel c)) eqn:E2; [eauto|].
    destruct (zmem op (cfg_hasname c)) eqn:E3.
    { destruct (J3 eq_refl) as [G [F4 [F5 F6]]].
      assert (G' : op >=? cfg_have_argument c = true) by lia. rewrite G', F6 in H.
      destruct (znth names a) as [s|] eqn:Z; [|congruence].
      destruct (found_index_ok str_eqb (d_names st) a s) as (ov & t & F).
      { rewrite DV.py_index_nonneg by lia. rewrite S1. exact Z. }
      rewrite F. eauto. }
    destruct (zmem op (cfg_haslocal c)) eqn:E4.
    { destruct (J4 eq_refl) as [G [F5 F6]].
      assert (G' : op >=? cfg_have_argument c = true) by lia. rewrite G', F6 in H.
      destruct (znth varnames a) as [s|] eqn:Z; [|congruence].
      destruct (found_index_ok str_eqb (d_varnames st) a s) as (ov & t & F).
      { rewrite DV.py_index_nonneg by lia. rewrite S2. exact Z. }
      rewrite F. eauto. }
    destruct (zmem op (cfg_hasfree c)) eqn:E5.
    { destruct (J5 eq_refl) as [G F6].
      assert (G' : op >=? cfg_have_argument c = true) by lia. rewrite G', F6 in H.
      rewrite S3.
      destruct (znth (cellvars ++ freevars) a) as [s|] eqn:Z; [|congruence].
      rewrite DV.znth_nonneg in Z by lia.
      destruct (a <? zlen cellvars) eqn:L.
      - rewrite nth_error_app1 in Z by (unfold zlen in L; lia).
        destruct (found_index_ok str_eqb (d_cellvars st) a s) as (ov & t & F).
        { rewrite DV.py_index_nonneg, DV.znth_nonneg by lia. rewrite S3. exact Z. }
        rewrite F. eauto.
      - rewrite nth_error_app2 in Z by (unfold zlen in L; lia).
        rewrite DV.py_index_nonneg, DV.znth_nonneg by lia.
        replace (Z.to_nat (a - zlen cellvars)) with (Z.to_nat a - length cellvars)%nat
          by (unfold zlen in *; lia).
        rewrite Z. eauto. }
    destruct (zmem op (cfg_hasconst c)) eqn:E6.
    { pose proof (J6 eq_refl) as G.
      assert (G' : op >=? cfg_have_argument c = true) by lia. rewrite G' in H.
      destruct (znth ks a) as [s|] eqn:Z; [|congruence].
      destruct (found_index_ok keq (d_consts st) a s) as (ov & t & F).
      { rewrite DV.py_index_nonneg by lia. rewrite S4. exact Z. }
      rewrite F. eauto. }
    destruct (op <? cfg_have_argument c); eauto.
  Qed.

  (* an instruction whose operand designates something *)
  Definition good (p : pinstr) : Prop := 0 <= DV.p_arg p /\ snd (pview p) <> DBad.

  Lemma decode_instrs_total : cfg_ops_wf c = true -> forall ps i e L Ad st,
    IC.offsets_ok i ps e = true ->
    (forall u, i <= u < e -> (u - i) mod 2 = 0 -> In u (okeys L)) ->
    NoDup (okeys L) -> NoDup (okeys Ad) ->
    st_ok st -> Forall good ps ->
    exists ois lm1 st',
      decode_instrs keq c ps freevars {| lm_lines := L; lm_adds := Ad |} st = OK (ois, lm1, st') /\
      (forall u, In u (okeys (lm_lines lm1)) ->
                 In u (okeys L) /\ ~ (i <= u < e /\ (u - i) mod 2 = 0)) /\
      (forall u, In u (okeys (lm_adds lm1)) ->
                 In u (okeys Ad) /\ ~ (i <= u < e /\ (u - i) mod 2 = 0)).
  Proof.
    intros W. induction ps as [|[[[[op a] k] first] next] r IH]; intros i e L Ad st HO HP NL NA S G.
    - cbn [IC.offsets_ok] in HO. assert (e = i) by lia. subst e.
      cbn [decode_instrs]. do 3 eexists. split; [reflexivity|]. cbn [lm_lines lm_adds].
      split; intros u Hu; (split; [exact Hu | lia]).
    - cbn [IC.offsets_ok] in HO. split_andb.
      assert (first = i) by lia. subst first.
      assert (next = i + 2 * k) by lia. subst next.
      assert (Hk : 1 <= k) by lia.
      match goal with U : IC.offsets_ok _ r e = true |- _ => rename U into HO' end.
      pose proof (EL.offsets_ok_le _ _ _ HO') as Hie.
      inversion G as [|? ? [G0 G1] G']; subst. cbn [DV.p_arg] in G0. cbn [DV.pview snd] in G1.
      destruct (to_arg_ok op a (i + 2 * k) st W S G0 G1) as (parg & st1 & T).
      destruct (DV.to_arg_spec c names varnames freevars cellvars ks keq op a _ st parg st1 W S G0 T)
        as [_ S1].
      destruct (In_oget L i) as [line EL0]; [apply HP; [lia | now rewrite Z.sub_diag]|].
      set (X := range2 (i + 2) (i + 2 * k)).
      set (L' := fold_left (fun d u => odel d u) X (odel L i)).
      set (Ad' := fold_left (fun d u => odel d u) X (odel Ad i)).
      assert (HX : forall u, In u X <-> i + 2 <= u < i + 2 * k /\ (u - i) mod 2 = 0).
      { intros u. unfold X. rewrite EL.range2_units by exact Hk. rewrite L310.In_range2_fuel. lia. }
      destruct (IH (i + 2 * k) e L' Ad' st1 HO') as (rest & lm1 & st' & E & K1 & K2).
      { intros u Hu Hm. apply oget_In. unfold L'.
        rewrite DV.oget_fold_odel by (rewrite HX; lia).
        rewrite DV.oget_odel_neq by lia. apply oget_In. apply HP; lia. }
      { unfold L'. apply NoDup_fold_odel, NoDup_odel, NL. }
      { unfold Ad'. apply NoDup_fold_odel, NoDup_odel, NA. }
      { exact S1. }
      { exact G'. }
      cbn [decode_instrs]. rewrite T. cbn [lm_lines lm_adds]. rewrite EL0.
      fold X. fold L'. fold Ad'. rewrite E.
      do 3 eexists. split; [reflexivity|].
      assert (KK : forall V (d : odict V) u, NoDup (okeys d) ->
                   In u (okeys (fold_left (fun d u => odel d u) X (odel d i))) ->
                   ~ (i + 2 * k <= u < e /\ (u - (i + 2 * k)) mod 2 = 0) ->
                   In u (okeys d) /\ ~ (i <= u < e /\ (u - i) mod 2 = 0)).
      { intros V d u Hnd Hu Hn.
        destruct (okeys_fold_odel X _ u (NoDup_odel d i Hnd) Hu) as [Q1 Q2].
        destruct (okeys_odel d i u Hnd Q1) as [Q3 Q4]. split; [exact Q3|].
        rewrite HX in Q2. lia. }
      split; intros u Hu.
      + destruct (K1 u Hu) as [A B]. exact (KK _ L u NL A B).
      + destruct (K2 u Hu) as [A B]. exact (KK _ Ad u NA A B).
  Qed.
End DecTotal.

(* ------------------------------------------------------------------ *)
(** * 5. bytes_to_blocks succeeds *)

(* every operand that indexes a table designates an entry of it (dis would print it) *)
Definition operands_ok_tbl {K} (c : cfg) (b : list Z) (names varnames freevars cellvars : list str)
  (ks : list K) : bool :=
  forallb (fun x : Z * Z * dval K => match snd x with DBad => false | _ => true end)
          (dis_fold c names varnames freevars cellvars ks (dis_unpack c b 0 0) None).

Section B2B.
  Context {K : Type} (keq : K -> K -> bool) (c : cfg).
  Variables names varnames freevars cellvars : list str.
  Variable ks : list K.

  Lemma b2b_total b ps lm bt a :
    cfg_ops_wf c = true -> code_ok c b = true ->
    targets_ok c b names varnames freevars cellvars ks = true ->
    operands_ok_tbl c b names varnames freevars cellvars ks = true ->
    (has_docstring bt = true -> ks <> []) ->
    parse_bytes c b 0 0 0 = OK ps ->
    NoDup (okeys (lm_lines lm)) -> NoDup (okeys (lm_adds lm)) ->
    (forall u, 0 <= u < zlen b -> u mod 2 = 0 -> In u (okeys (lm_lines lm))) ->
    exists blocks addl lm',
      bytes_to_blocks keq c b lm names varnames freevars cellvars ks bt a = OK (blocks, addl, lm') /\
      (forall u, In u (okeys (lm_lines lm')) ->
                 In u (okeys (lm_lines lm)) /\ ~ (0 <= u < zlen b /\ u mod 2 = 0)) /\
      (forall u, In u (okeys (lm_adds lm')) ->
                 In u (okeys (lm_adds lm)) /\ ~ (0 <= u < zlen b /\ u mod 2 = 0)).
  Proof.
    intros W U Tg Op Hdoc P NL NA HP.
    destruct (DV.ops_wf_spec c W) as [HE _].
    unfold bytes_to_blocks. cbv zeta. cbn [d_consts d_names d_varnames d_cellvars].
    match goal with
    | |- exists _ _ _, match ?X with _ => _ end = _ /\ _ =>
        assert (HX : exists st1, X = OK st1 /\ DV.st_ok names varnames cellvars ks st1)
    end.
    { destruct (has_docstring bt) eqn:D.
      - destruct ks as [|k0 ks'] eqn:Eks; [exfalso; now apply Hdoc|].
        destruct (found_index_ok keq (toargs_init (k0 :: ks') 0) 0 k0 eq_refl) as (ov & t & F).
        rewrite F. eexists. split; [reflexivity|].
        apply DV.found_index_spec in F as [_ F]. unfold DV.st_ok.
        cbn [d_consts d_names d_varnames d_cellvars]. rewrite F. repeat split; reflexivity.
      - eexists. split; [reflexivity|]. repeat split; reflexivity. }
    destruct HX as (st1 & -> & S1). rewrite P.
    destruct (DV.parse_dis_gen c names varnames freevars cellvars ks HE b 0 0 0 ps U
                ltac:(lia) ltac:(lia) ltac:(reflexivity) ltac:(reflexivity) P) as [HL Hnn].
    change (0 =? 0) with true in HL. cbv iota in HL.
    assert (G : Forall (good c names varnames freevars cellvars ks) ps).
    { unfold operands_ok_tbl in Op. rewrite HL in Op. rewrite forallb_forall in Op.
      rewrite Forall_forall in Hnn |- *. intros p Hp. split; [now apply Hnn|].
      specialize (Op _ (in_map _ _ _ Hp)). intros X. rewrite X in Op. discriminate. }
    destruct (IC.emit_parse_bytes c b ps (EL.code_ok_wf c b U) P) as [_ HO].
    destruct lm as [L Ad]. cbn [lm_lines lm_adds] in *.
    destruct (decode_instrs_total keq c names varnames freevars cellvars ks W ps 0 (zlen b) L Ad st1
                HO) as (ois & lm1 & st2 & Ed & K1 & K2);
      [intros u Hu Hm; apply HP; lia|exact NL|exact NA|exact S1|exact G|].
    rewrite Ed.
    assert (HS : exists blocks, split_blocks (sorted_set (0 :: jump_targets ois)) ois [] false = OK blocks).
    { pose proof (DV.decode_instrs_view c names varnames freevars cellvars ks keq W _ _ _ _ _ _ S1 Hnn Ed) as Hv.
      pose proof (BP.decode_instrs_offsets _ _ _ _ _ _ _ _ _ Ed) as Hoff.
      destruct (BP.parse_bytes_offsets _ _ _ P) as [Hinc [Hfirst _]].
      assert (Hne : ois = [] \/ ois <> []) by (destruct ois; [left; reflexivity|right; discriminate]).
      destruct Hne as [->|Hne]; [eexists; reflexivity|].
      assert (Hhd : exists i r, ois = (0, i) :: r).
      { destruct ois as [|[o i] r]; [congruence|].
        destruct ps as [|p ps']; [discriminate|]. cbn [map fst] in Hoff. injection Hoff as Ho _.
        rewrite (Hfirst p ps' eq_refl) in Ho. subst o. eauto. }
      assert (Hoi : BP.offsets_increasing ois) by (unfold BP.offsets_increasing; now rewrite Hoff).
      assert (Hfo : map (fun x : Z * instr_ K => fst (fst (DV.oview x))) ois = map fst ois) by reflexivity.
      assert (Hts : BP.targets_are_starts ois).
      { intros t Ht. apply BP.jump_targets_In in Ht as [o [i [rel [Hin Ei]]]].
        unfold targets_ok in Tg. cbv zeta in Tg. rewrite HL, <- Hv in Tg. rewrite forallb_forall in Tg.
        specialize (Tg (DV.oview (o, i)) (in_map DV.oview _ _ Hin)). unfold DV.oview in Tg at 1.
        cbn [snd fst] in Tg. rewrite Ei in Tg. cbn [DV.raw_val] in Tg. apply BP.zmem_In in Tg.
        rewrite map_map, Hfo in Tg. exact Tg. }
      destruct (BP.split_blocks_partition ois Hne Hoi Hhd Hts) as [blocks' [Es' _]].
      eauto. }
    destruct HS as [blocks ->].
    destruct (additional_args_total str_eqb (d_names st2)) as [an ->].
    destruct (additional_args_total str_eqb (d_varnames st2)) as [av ->].
    destruct (additional_args_total str_eqb (d_cellvars st2)) as [ac ->].
    destruct (additional_args_total keq (d_consts st2)) as [ak ->].
    do 3 eexists. split; [reflexivity|].
    split; intros u Hu.
    - destruct (K1 u Hu) as [A B]. split; [exact A | lia].
    - destruct (K2 u Hu) as [A B]. split; [exact A | lia].
  Qed.
End B2B.

Print Assumptions loop_bounds.
Print Assumptions lm0_bounds.
Print Assumptions b2b_total.
