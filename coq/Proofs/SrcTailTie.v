(* Tie of what from_code_data does around the header (Gen/SrcTail.v, regenerated from code_data/_code_data.py on every
   run): with the header of SrcHeaderTie it is the whole of Model/CodeData.encode_code after blocks_to_bytes. *)
From PCD Require Import Base.PyBase Base.Cfg Model.Flags Model.Args Model.Data Model.Consts Model.LineTable Model.Blocks
  Model.CodeData Proofs.SrcLineMapTie Proofs.SrcHeaderTie.
From PCD Require Gen.SrcLineMap Gen.SrcTail.
From Coq Require Import Lia ZifyBool.

Lemma tail_tie : forall c d code lm0 names varnames cellvars constants argcount posonly kwonly fl,
  PCD.Gen.SrcTail.tail c d code lm0 names varnames cellvars constants argcount posonly kwonly fl =
  let lm1 := match cd_addline d with
             | Some al => add_additional_line lm0 (al_line al) (al_offs al) (zlen code)
             | None => lm0
             end in
  match from_flags_data c fl with
  | Err e => Err e
  | OK flags =>
      match from_line_mapping (cfg_v310 c) (modify_line_offsets lm1 (- cd_firstline d)) with
      | Err e => Err e
      | OK table =>
          if negb (cfg_v38 c) && negb (posonly =? 0) then Err NotImplementedError
          else pycode_new c argcount posonly kwonly (zlen varnames) (cd_stacksize d) flags code (map snd constants)
                          names varnames (cd_filename d) (cd_name d) (cd_firstline d) table
                          (cd_freevars d) cellvars
      end
  end.
Proof.
  intros. unfold PCD.Gen.SrcTail.tail. cbv zeta.
  destruct (from_flags_data c fl) as [flags|e]; [|reflexivity].
  rewrite modify_line_offsets_tie.
  assert (E : match cd_addline d with
              | Some al => PCD.Gen.SrcLineMap.add_additional_line lm0 (al_line al) (al_offs al) (zlen code)
              | None => lm0 end
            = match cd_addline d with
              | Some al => add_additional_line lm0 (al_line al) (al_offs al) (zlen code)
              | None => lm0 end).
  { destruct (cd_addline d); [apply add_additional_line_tie | reflexivity]. }
  rewrite E.
  destruct (from_line_mapping _ _) as [table|e]; [|reflexivity].
  destruct (cfg_v38 c); cbn [negb andb]; [reflexivity|].
  destruct (posonly =? 0) eqn:Ep; cbn [negb]; [|reflexivity].
  assert (posonly = 0) by lia. subst posonly. reflexivity.
Qed.

(* hence: encode_code is blocks_to_bytes, then the translated header, then the translated tail *)
Theorem encode_code_is_the_source : forall c d code lm0 names varnames cellvars constants,
  blocks_to_bytes pkey_eqb (fun k => is_str_const (fst k)) (KInner INone, PInner INone)
     (fun s => (KInner (IStr s), PInner (IStr s))) c (cd_blocks d) (cd_addargs d) (cd_freevars d) (cd_type d)
  = OK (code, lm0, names, varnames, cellvars, constants) ->
  encode_code c d =
  match PCD.Gen.SrcHeader.EncodeHeader.header (cd_type d) varnames
          (match cd_freevars d with [] => true | _ => false end) (match cellvars with [] => true | _ => false end)
          (cd_future_annotations d) (cd_nested d) with
  | Err e => Err e
  | OK (argcount, posonly, kwonly, fl) =>
      PCD.Gen.SrcTail.tail c d code lm0 names varnames cellvars constants argcount posonly kwonly fl
  end.
Proof.
  intros c d code lm0 names varnames cellvars constants H.
  rewrite (encode_code_header c d code lm0 names varnames cellvars constants H).
  rewrite encode_header_tie.
  destruct (model_encode_header _ _ _ _ _ _) as [[[[ac pc] kc] fl]|e]; [|reflexivity].
  rewrite tail_tie. reflexivity.
Qed.

(* to_code_data around its header: Gen/SrcTail.decode_code - the version split of posonlyargcount, to_line_mapping and the
   shift by co_firstlineno, to_flags_data, the keywords of ArgsInput, the translated header (Gen/SrcHeader.v), the nine
   arguments of bytes_to_blocks, pop_additional_line(len(co_code)) and the keywords of the returned CodeData - is the
   model's decode_code, for every configuration, code object and constants table. *)
Theorem decode_code_is_the_source : forall c code constants,
  PCD.Gen.SrcTail.decode_code c code constants = decode_code c code constants.
Proof.
  intros c code constants. rewrite decode_code_factors. unfold PCD.Gen.SrcTail.decode_code. cbv zeta.
  destruct (to_line_mapping _ _ _) as [lm0|e]; [|reflexivity].
  rewrite modify_line_offsets_tie.
  destruct (to_flags_data _ _) as [fl0|e]; [|reflexivity].
  destruct (args_from_input _ _ _ _ _) as [[a fl1]|e]; [|reflexivity].
  change (match constants with KInner (IStr s) :: _ => Some s | _ => None end) with (doc_of constants).
  rewrite header_tie.
  destruct (model_header _ _ _ _) as [[[bt ann] nest]|e]; [|reflexivity].
  destruct (bytes_to_blocks _ _ _ _ _ _ _ _ _ _ _) as [[[blocks additional] lm']|e]; [|reflexivity].
  pose proof (pop_additional_line_tie lm' (zlen (co_code code))) as Hp. unfold seen in Hp.
  destruct (PCD.Gen.SrcLineMap.pop_additional_line lm' (zlen (co_code code))) as [[nl1 m1]|e1];
    destruct (pop_additional_line lm' (zlen (co_code code))) as [[nl2 m2]|e2]; try discriminate Hp.
  - injection Hp as ->. reflexivity.
  - injection Hp as ->. reflexivity.
Qed.
