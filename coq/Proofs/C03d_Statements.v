(* Statements for the re-decode clause of C03 and the code-round-trip stability clause of C06. *)
From PCD Require Import Base.PyBase Base.Cfg Model.Flags Model.Args Model.Data Model.Consts
  Model.LineTable Model.Blocks Model.CodeData Spec.Lnotab Spec.Dis Model.ViewSer
  Proofs.C02_Statements Proofs.C11_Statements Proofs.C01_Statements Proofs.C03_Statements
  Proofs.C03b_Statements Proofs.C03c_Statements Proofs.C06_Statements.

(* the code object emitted for well-formed data satisfies the premise of the decoder theorem (C02) *)
Definition S_emitted_view_wf : Prop := forall c (d : code_data_ pconst) code,
  data_wf c d = true ->
  encode_code c d = OK code ->
  zlen (co_code code) < 1073741824 ->
  exists kst : list pconst,
    map snd kst = co_consts code /\
    view_wf c code (map fst kst) = true.

(* views of plain constants, compared up to key equality *)
Definition fst_view (v : list (vinstr pconst)) : list (vinstr const) := map_view fst v.

(* decoding the emitted code gives data whose instruction stream is the input's (flattened: hand-built
   data may cut its blocks differently from the jump-target partition), constants up to key equality *)
Definition S_C03_redecode : Prop := forall c (d : code_data_ pconst) code,
  data_wf c d = true ->
  encode_code c d = OK code ->
  zlen (co_code code) < 1073741824 ->
  exists kst : list pconst,
    map snd kst = co_consts code /\
    forall d2, decode_code c code (map fst kst) = OK d2 ->
      view_agrees key_eqb (fst_view (data_view (cd_blocks d))) (data_view (cd_blocks d2)) = true.
