(* C02 through all nesting levels: every code object nested in the constants, at any depth, is decoded
   into data that reads as CPython's own reading of that nested code object. *)
From PCD Require Import Base.PyBase Base.Cfg Model.Flags Model.Args Model.Data Model.Consts
  Model.LineTable Model.Blocks Model.CodeData Spec.Lnotab Spec.Dis Model.ViewSer Proofs.C02_Statements.

(* the decoder's domain at every level (the constants of each level are the decodings of its co_consts) *)
Fixpoint view_wf_deep (c : cfg) (k : pyconst) : bool :=
  match k with
  | PInner _ => true
  | PCode code =>
      match mapM (to_const c) (co_consts code) with
      | OK ks =>
          view_wf c code ks
          && (fix all (l : list pyconst) : bool :=
                match l with [] => true | x :: r => view_wf_deep c x && all r end) (co_consts code)
      | Err _ => false
      end
  end.

(* a constant of the code object and its decoding agree at every level *)
Inductive reads_as (c : cfg) : pyconst -> const -> Prop :=
| RA_inner : forall i, reads_as c (PInner i) (KInner i)
| RA_code : forall code ks d,
    Forall2 (reads_as c) (co_consts code) ks ->
    data_view (cd_blocks d)
    = dis_view c (co_code code) (co_names code) (co_varnames code) (co_freevars code) (co_cellvars code)
               ks (raw_entries (co_linetable code)) (co_firstlineno code) ->
    reads_as c (PCode code) (KCode d).

Definition S_C02_deep : Prop := forall c k k',
  view_wf_deep c k = true -> to_const c k = OK k' -> reads_as c k k'.

(* in particular for from_code of a top-level code object *)
Definition S_C02_deep_top : Prop := forall c code d,
  view_wf_deep c (PCode code) = true -> to_code_data c code = OK d -> reads_as c (PCode code) (KCode d).
