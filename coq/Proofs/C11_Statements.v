(* Statements for C11 (flags) and C04 (signature) lemmas. *)
From PCD Require Import Base.PyBase Base.Cfg Model.Flags Model.Args Spec.Sig.

(* well-formed flag table: names distinct, every value a power of two, values distinct *)
Definition is_pow2 (v : Z) : bool := (0 <? v) && (Z.land v (v - 1) =? 0).
Fixpoint distinct_Z (l : list Z) : bool :=
  match l with [] => true | x :: r => negb (existsb (Z.eqb x) r) && distinct_Z r end.
Definition flags_wf (tbl : list (flag * Z)) : bool :=
  distinct_Z (map (fun fv : flag * Z => flag_id (fst fv)) tbl)
  && forallb (fun fv : flag * Z => is_pow2 (snd fv)) tbl
  && distinct_Z (map snd tbl).
Definition known_mask (c : cfg) : Z := fold_left Z.lor (map snd (cfg_flags c)) 0.

(* word -> names -> word *)
Definition S_from_to_flags : Prop := forall c w fs,
  flags_wf (cfg_flags c) = true ->
  to_flags_data c w = OK fs -> from_flags_data c fs = OK w.

(* a bit outside the table is never dropped: the conversion raises *)
Definition S_unknown_raises : Prop := forall c w,
  flags_wf (cfg_flags c) = true ->
  Z.land w (Z.lnot (known_mask c)) <> 0 -> to_flags_data c w = Err ValueError.

(* every word of known flags converts, to exactly the names whose bit is set *)
Definition S_known_converts : Prop := forall c w,
  flags_wf (cfg_flags c) = true ->
  Z.land w (Z.lnot (known_mask c)) = 0 ->
  to_flags_data c w
  = OK (map fst (filter (fun fv : flag * Z => negb (Z.land (snd fv) w =? 0)) (cfg_flags c))).

(* names -> word -> names (as sets: same sorted ids) for duplicate-free lists of known names *)
Definition S_to_from_flags : Prop := forall c fs w,
  flags_wf (cfg_flags c) = true ->
  distinct_Z (map flag_id fs) = true ->
  from_flags_data c fs = OK w ->
  exists fs', to_flags_data c w = OK fs' /\ flag_ids fs' = flag_ids fs.

(* C04: the decoded Args are CPython's binding of co_varnames *)
Definition names_ok (l : list str) : bool :=
  forallb (fun s : str => match s with [] => false | _ => true end) l
  && (fix nd (l : list str) : bool :=
        match l with [] => true | x :: r => negb (existsb (str_eqb x) r) && nd r end) l.

Definition S_args_is_inspect : Prop := forall argcount posonly kwonly varnames fl a fl',
  0 <= posonly <= argcount -> 0 <= kwonly ->
  let total := argcount + kwonly + (if flag_mem VARARGS fl then 1 else 0)
               + (if flag_mem VARKEYWORDS fl then 1 else 0) in
  total <= zlen varnames ->
  names_ok (take total varnames) = true ->
  args_from_input argcount posonly kwonly varnames fl = OK (a, fl') ->
  inspect_parameters argcount posonly kwonly (flag_mem VARARGS fl) (flag_mem VARKEYWORDS fl) varnames
    = Some (args_to_parameters a)
  /\ args_len a = total
  /\ args_to_varnames a = take total varnames
  /\ fl' = flag_remove VARKEYWORDS (flag_remove VARARGS fl).

(* and it always succeeds when co_varnames is long enough *)
Definition S_args_total : Prop := forall argcount posonly kwonly varnames fl,
  0 <= posonly <= argcount -> 0 <= kwonly ->
  argcount + kwonly + (if flag_mem VARARGS fl then 1 else 0)
    + (if flag_mem VARKEYWORDS fl then 1 else 0) <= zlen varnames ->
  exists a fl', args_from_input argcount posonly kwonly varnames fl = OK (a, fl').

(* encoder side: counts, names and flags are reproduced *)
Definition S_args_roundtrip : Prop := forall argcount posonly kwonly varnames fl a fl',
  0 <= posonly <= argcount -> 0 <= kwonly ->
  let total := argcount + kwonly + (if flag_mem VARARGS fl then 1 else 0)
               + (if flag_mem VARKEYWORDS fl then 1 else 0) in
  total <= zlen varnames ->
  names_ok (take total varnames) = true ->
  args_from_input argcount posonly kwonly varnames fl = OK (a, fl') ->
  let '(ac, pc, kc, vn, fl2) := args_to_input a fl' in
  ac = argcount /\ pc = posonly /\ kc = kwonly /\ vn = take total varnames
  /\ flag_mem VARARGS fl2 = flag_mem VARARGS fl /\ flag_mem VARKEYWORDS fl2 = flag_mem VARKEYWORDS fl.
