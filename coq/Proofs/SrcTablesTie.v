(* Tie between the operand tables of Model/Blocks.v (found_index, fa_setitem, fa_add) and their translation from
   code_data/_blocks.py regenerated on every run (Gen/SrcTables.v): equal for all tables, indices, values and key
   equalities.  found_index_rank_present: the rank read back right after registration is always there, so the KeyError of
   self._index_to_order[index] cannot arise (the totalisation of TableOps.order_at is never used). *)
From PCD Require Import Base.PyBase Base.PyImp Base.Cfg Model.Flags Model.Args Model.Data Model.LineTable Model.Blocks Model.TableOps.
From PCD Require Gen.SrcTables.

Section Tie.
  Context {T : Type} (keq : T -> T -> bool).

  Lemma omem_oset {V} (d : odict V) k v : omem (oset d k v) k = true.
  Proof.
    unfold omem. induction d as [|[k' v'] r IH]; cbn [oset oget].
    - rewrite Z.eqb_refl. reflexivity.
    - destruct (k' =? k) eqn:E; cbn [oget]; rewrite ?E; [rewrite Z.eqb_refl; reflexivity | exact IH].
  Qed.

  Theorem found_index_tie : forall (st : toargs T) index,
    PCD.Gen.SrcTables.found_index keq st index = found_index keq st index.
  Proof.
    intros st index. unfold PCD.Gen.SrcTables.found_index, found_index.
    destruct (py_index (ta_args st) index) as [a|]; [|reflexivity].
    cbv zeta. destruct (omem (ta_order st) index) eqn:Em; cbn [negb].
    - unfold order_at. destruct (oget (ta_order st) index) as [o|] eqn:Eo.
      + reflexivity.
      + unfold omem in Em. rewrite Eo in Em. discriminate.
    - unfold setdefault, dup_add. destruct (key_lookup keq (ta_keys st) a) as [first|];
        cbn [ta_order ta_dups ta_args ta_keys].
      + unfold order_at.
        assert (Ho : omem (oset (ta_order st) index (zlen (ta_order st))) index = true) by apply omem_oset.
        unfold omem in Ho. destruct (oget (oset (ta_order st) index (zlen (ta_order st))) index) as [o|]; [|discriminate].
        destruct (first =? index); cbn [negb]; reflexivity.
      + unfold order_at.
        assert (Ho : omem (oset (ta_order st) index (zlen (ta_order st))) index = true) by apply omem_oset.
        unfold omem in Ho. destruct (oget (oset (ta_order st) index (zlen (ta_order st))) index) as [o|]; [|discriminate].
        rewrite Z.eqb_refl. cbn [negb]. reflexivity.
  Qed.

  (* the rank that found_index reads back is always present *)
  Theorem found_index_rank_present : forall (st : toargs T) index a ov st',
    found_index keq st index = OK (a, ov, st') -> omem (ta_order st') index = true.
  Proof.
    intros st index a ov st' H. unfold found_index in H.
    destruct (py_index (ta_args st) index) as [x|]; [|discriminate]. cbv zeta in H.
    destruct (omem (ta_order st) index) eqn:Em.
    - inversion H; subst. exact Em.
    - destruct (key_lookup keq (ta_keys st) x); inversion H; subst; cbn [ta_order]; apply omem_oset.
  Qed.

  (* additional_args: the generator run to the end is the model's walk over the indices *)
  Lemma additional_gen : forall idxs st out,
    match foldM (fun (acc : toargs T * list (T * option Z)) (i : Z) =>
                   if negb (omem (ta_order (fst acc)) i) then
                     match PCD.Gen.SrcTables.found_index keq (fst acc) i with
                     | OK (a, ov, st') => OK (st', snd acc ++ [(a, ov)])
                     | Err e => Err e
                     end
                   else OK acc) idxs (st, out) with
    | OK acc => OK (snd acc)
    | Err e => Err e
    end = match additional_args_from keq st idxs with OK l => OK (out ++ l) | Err e => Err e end.
  Proof.
    induction idxs as [|i r IH]; intros st out; cbn [foldM additional_args_from fst snd].
    - rewrite app_nil_r. reflexivity.
    - destruct (omem (ta_order st) i); cbn [negb].
      + apply IH.
      + rewrite found_index_tie. destruct (found_index keq st i) as [[[a ov] st']|e]; [|reflexivity].
        rewrite IH. destruct (additional_args_from keq st' r); [|reflexivity]. rewrite <- app_assoc. reflexivity.
  Qed.

  Theorem additional_args_tie : forall (st : toargs T),
    PCD.Gen.SrcTables.additional_args keq st = additional_args keq st.
  Proof.
    intros st. unfold PCD.Gen.SrcTables.additional_args, additional_args. rewrite additional_gen.
    destruct (additional_args_from keq st _); reflexivity.
  Qed.

  Theorem fa_setitem_tie : forall (st : fromargs T) i a,
    PCD.Gen.SrcTables.fa_setitem keq st i a = fa_setitem keq st i a.
  Proof. intros. reflexivity. Qed.

  Theorem fa_add_tie : forall (st : fromargs T) a ov,
    PCD.Gen.SrcTables.fa_add keq st a ov = fa_add keq st a ov.
  Proof. intros. reflexivity. Qed.
End Tie.

Print Assumptions found_index_tie.
Print Assumptions fa_add_tie.
