(* The instruction codec of code_data/_blocks.py: _parse_bytes (decoder) against the unit
   emitter of blocks_to_bytes (encoder), and the tie of the translated _instrsize / C-int
   constants (Gen/Src.v, regenerated on every run) to the hand-written model. *)
From Coq Require Import ZArith List Bool Lia ZifyBool.
From PCD Require Import Base.PyBase Base.Cfg Model.Data Model.Blocks.
From PCD Require Gen.Src Gen.Cfg39.
Import ListNotations. Open Scope Z_scope.
Ltac Zify.zify_post_hook ::= Z.to_euclidean_division_equations.

(* ------------------------------------------------------------------ *)
(** * 1. Tie of the translated source to the model                     *)

Ltac split_ifs :=
  repeat match goal with
         | |- context [if ?b then _ else _] => destruct b eqn:?
         end.

Lemma src_instrsize_tie : forall a, PCD.Gen.Src.instrsize a = PCD.Model.Blocks.instrsize a.
Proof.
  intros a. unfold PCD.Gen.Src.instrsize, PCD.Model.Blocks.instrsize.
  split_ifs; lia.
Qed.

Lemma src_c_int_tie :
  PCD.Gen.Src.c_int_upper_limit = PCD.Model.Blocks.c_int_upper_limit /\
  PCD.Gen.Src.c_int_length = PCD.Model.Blocks.c_int_length.
Proof. split; vm_compute; reflexivity. Qed.

(* ------------------------------------------------------------------ *)
(** * Bit-level bridges                                                *)

(* the byte the encoder writes at position j *)
Lemma byte_at a j : 0 <= j -> Z.land (Z.shiftr a (8 * j)) 255 = (a / 256 ^ j) mod 256.
Proof.
  intros Hj. rewrite Z.shiftr_div_pow2 by lia.
  change 255 with (Z.ones 8). rewrite Z.land_ones by lia.
  rewrite Z.pow_mul_r by lia. change (2 ^ 8) with 256. reflexivity.
Qed.

Lemma land_shl8_byte x b : 0 <= b < 256 -> Z.land (Z.shiftl x 8) b = 0.
Proof.
  intros Hb. apply Z.bits_inj'. intros n Hn. rewrite Z.land_spec, Z.bits_0.
  destruct (Z.ltb_spec n 8) as [Hlt|Hge].
  - rewrite Z.shiftl_spec_low by lia. reflexivity.
  - replace b with (b mod 2 ^ 8) by (apply Z.mod_small; change (2 ^ 8) with 256; lia).
    rewrite Z.mod_pow2_bits_high by lia. apply andb_false_r.
Qed.

(* [arg | byte] when the low byte of arg is clear *)
Lemma lor_add arg b : arg mod 256 = 0 -> 0 <= b < 256 -> Z.lor arg b = arg + b.
Proof.
  intros Ha Hb.
  assert (E : arg = Z.shiftl (arg / 256) 8).
  { rewrite Z.shiftl_mul_pow2 by lia. change (2 ^ 8) with 256. lia. }
  assert (L : Z.land arg b = 0) by (rewrite E; apply land_shl8_byte; exact Hb).
  rewrite <- Z.lxor_lor by exact L. symmetry. apply Z.add_nocarry_lxor. exact L.
Qed.

Lemma shl8 x : Z.shiftl x 8 = x * 256.
Proof. rewrite Z.shiftl_mul_pow2 by lia. reflexivity. Qed.

Definition wrap32 (x : Z) : Z := if x >? c_int_upper_limit then x - c_int_length else x.

Section Codec.
  Variable c : cfg.
  Let EXT := cfg_extended_arg c.

  Lemma parse_ext_step byte r i n arg :
    parse_bytes c (cfg_extended_arg c :: byte :: r) i n arg =
    parse_bytes c r (i + 2) (n + 1) (wrap32 (Z.shiftl (Z.lor arg byte) 8)).
  Proof. cbn [parse_bytes]. rewrite Z.eqb_refl. reflexivity. Qed.

  Lemma parse_op_step op byte r i n arg :
    op <> cfg_extended_arg c ->
    parse_bytes c (op :: byte :: r) i n arg =
    match parse_bytes c r (i + 2) 0 0 with
    | OK rest => OK ((op, Z.lor arg byte, n + 1, i - (n + 1 - 1) * 2, i + 2) :: rest)
    | Err e => Err e
    end.
  Proof.
    intros Hop. cbn [parse_bytes].
    destruct (op =? cfg_extended_arg c) eqn:E; [lia|]. reflexivity.
  Qed.

  (* ---------------------------------------------------------------- *)
  (** * 3. Encode after decode                                         *)

  Definition byte_ok (x : Z) : bool := (0 <=? x) && (x <? 256).
  Definition bytes_ok (b : list Z) : bool := forallb byte_ok b.

  (* even length, never more than three EXTENDED_ARG units in a row (n is the number of
     pending ones), and no pending EXTENDED_ARG at the end *)
  Fixpoint shape_ok (b : list Z) (n : Z) : bool :=
    match b with
    | [] => n =? 0
    | [_] => false
    | op :: _ :: r =>
        if op =? cfg_extended_arg c then (n <? 3) && shape_ok r (n + 1) else shape_ok r 0
    end.

  Definition wf_units (b : list Z) : bool := bytes_ok b && shape_ok b 0.

  Definition emit_pinstr (p : pinstr) : list Z :=
    match p with (opcode, arg, n_args, _, _) => emit_units c opcode arg (Z.to_nat n_args) end.

  (* instructions tile [i, e): each starts where the previous one ended and occupies
     2 * n_args bytes *)
  Fixpoint offsets_ok (i : Z) (ps : list pinstr) (e : Z) : bool :=
    match ps with
    | [] => i =? e
    | (_, _, k, first, next) :: r =>
        (first =? i) && (next =? first + 2 * k) && (1 <=? k) && offsets_ok next r e
    end.

  (* big-endian value of a byte list *)
  Fixpoint beval (bs : list Z) : Z :=
    match bs with
    | [] => 0
    | x :: r => x * 256 ^ zlen r + beval r
    end.

  Definition ext_units (pre : list Z) : list Z :=
    flat_map (fun x => [cfg_extended_arg c; x]) pre.

  Lemma zlen_cons {A} (x : A) l : zlen (x :: l) = zlen l + 1.
  Proof. unfold zlen. cbn [length]. lia. Qed.
  Lemma zlen_app1 {A} (l : list A) x : zlen (l ++ [x]) = zlen l + 1.
  Proof. unfold zlen. rewrite app_length. cbn [length]. lia. Qed.
  Lemma zlen_nonneg {A} (l : list A) : 0 <= zlen l.
  Proof. unfold zlen. lia. Qed.

  Lemma pow256_succ n : 0 <= n -> 256 ^ (n + 1) = 256 * 256 ^ n.
  Proof. intros. rewrite Z.pow_add_r by lia. lia. Qed.
  Lemma pow256_pos n : 0 <= n -> 0 < 256 ^ n.
  Proof. intros. apply Z.pow_pos_nonneg; lia. Qed.

  Lemma beval_snoc bs y : beval (bs ++ [y]) = beval bs * 256 + y.
  Proof.
    induction bs as [|x bs IH]; cbn [app beval].
    - change (zlen (@nil Z)) with 0. lia.
    - rewrite IH, zlen_app1, pow256_succ by apply zlen_nonneg. lia.
  Qed.

  Lemma beval_bound bs : bytes_ok bs = true -> 0 <= beval bs < 256 ^ zlen bs.
  Proof.
    induction bs as [|x bs IH]; cbn [bytes_ok forallb beval]; intros H.
    - change (zlen (@nil Z)) with 0. cbn. lia.
    - apply andb_true_iff in H as [Hx Hbs]. specialize (IH Hbs).
      rewrite zlen_cons, pow256_succ by apply zlen_nonneg.
      unfold byte_ok in Hx. pose proof (pow256_pos (zlen bs) (zlen_nonneg bs)). nia.
  Qed.

  Lemma bytes_ok_snoc bs y : bytes_ok bs = true -> byte_ok y = true -> bytes_ok (bs ++ [y]) = true.
  Proof.
    intros H1 H2. unfold bytes_ok. rewrite forallb_app. cbn [forallb].
    unfold bytes_ok in H1. rewrite H1, H2. reflexivity.
  Qed.

  (* the encoder gives back the bytes of any value congruent to them modulo 256^k *)
  Lemma emit_beval op pre : forall y A q,
    bytes_ok (pre ++ [y]) = true ->
    A = beval (pre ++ [y]) + q * 256 ^ zlen (pre ++ [y]) ->
    emit_units c op A (length (pre ++ [y])) = ext_units pre ++ [op; y].
  Proof.
    induction pre as [|x pre IH]; intros y A q Hb HA.
    - cbn [app length emit_units Nat.eqb ext_units flat_map].
      cbn [app beval] in HA. change (zlen [y]) with 1 in HA. change (zlen (@nil Z)) with 0 in HA.
      cbn [app bytes_ok forallb] in Hb. unfold byte_ok in Hb.
      rewrite byte_at by lia. change (Z.of_nat 0) with 0.
      rewrite Z.pow_0_r in *. rewrite Z.pow_1_r in HA. rewrite Z.div_1_r.
      f_equal. f_equal. lia.
    - cbn [app length emit_units ext_units flat_map].
      change (flat_map (fun x0 : Z => [cfg_extended_arg c; x0]) pre) with (ext_units pre).
      cbn [app bytes_ok forallb] in Hb. apply andb_true_iff in Hb as [Hx Hb].
      change (forallb byte_ok (pre ++ [y])) with (bytes_ok (pre ++ [y])) in Hb.
      pose proof (beval_bound _ Hb) as Hbd.
      cbn [app beval] in HA. rewrite zlen_cons in HA.
      rewrite pow256_succ in HA by apply zlen_nonneg.
      assert (Hlen : Z.of_nat (length (pre ++ [y])) = zlen (pre ++ [y])) by reflexivity.
      pose proof (pow256_pos _ (zlen_nonneg (pre ++ [y]))) as Hpos.
      set (P := 256 ^ zlen (pre ++ [y])) in *.
      assert (HA' : A = beval (pre ++ [y]) + (x + q * 256) * P) by lia.
      rewrite byte_at by lia. rewrite Hlen. fold P.
      assert (Hdiv : A / P = x + q * 256).
      { rewrite HA'. rewrite Z.div_add by lia. rewrite Z.div_small by lia. lia. }
      rewrite Hdiv.
      assert (Hne : (length (pre ++ [y]) =? 0)%nat = false).
      { rewrite app_length. cbn [length]. apply Nat.eqb_neq. lia. }
      rewrite Hne.
      unfold byte_ok in Hx.
      replace ((x + q * 256) mod 256) with x by lia.
      rewrite (IH y A (x + q * 256) Hb HA'). reflexivity.
  Qed.

  Lemma list_ind2 {A} (P : list A -> Prop) :
    P [] -> (forall x, P [x]) -> (forall x y r, P r -> P (x :: y :: r)) -> forall l, P l.
  Proof.
    intros H0 H1 H2. fix IH 1. intros [|x [|y r]]; [exact H0 | apply H1 | apply H2, IH].
  Qed.

  Lemma parse_emit_gen : forall b pre i arg ps,
    bytes_ok b = true -> bytes_ok pre = true -> shape_ok b (zlen pre) = true ->
    zlen pre <= 3 ->
    (exists q, arg = beval pre * 256 + q * 4294967296) ->
    parse_bytes c b i (zlen pre) arg = OK ps ->
    flat_map emit_pinstr ps = ext_units pre ++ b /\
    offsets_ok (i - 2 * zlen pre) ps (i + zlen b) = true.
  Proof.
    induction b as [| x | op byte r IH] using list_ind2; intros pre i arg ps Hb Hpre Hsh Hlen [q Hq] Hp.
    - cbn [parse_bytes] in Hp. inversion Hp; subst ps. cbn [shape_ok] in Hsh.
      assert (Hz : length pre = 0%nat) by (unfold zlen in Hsh; lia).
      apply length_zero_iff_nil in Hz. subst pre.
      cbn. split; [reflexivity|]. change (zlen (@nil Z)) with 0. lia.
    - cbn [shape_ok] in Hsh. discriminate.
    - cbn [bytes_ok forallb] in Hb.
      apply andb_true_iff in Hb as [Hop Hb]. apply andb_true_iff in Hb as [Hbyte Hb].
      change (forallb byte_ok r) with (bytes_ok r) in Hb.
      assert (Hbyte' : 0 <= byte < 256) by (unfold byte_ok in Hbyte; lia).
      assert (Hmod : arg mod 256 = 0) by lia.
      cbn [shape_ok] in Hsh.
      rewrite !zlen_cons.
      destruct (op =? cfg_extended_arg c) eqn:Eop.
      + apply Z.eqb_eq in Eop. subst op.
        apply andb_true_iff in Hsh as [Hn Hsh].
        rewrite parse_ext_step in Hp. rewrite lor_add, shl8 in Hp by assumption.
        rewrite <- zlen_app1 with (x := byte) in Hp, Hsh.
        assert (Hinv : exists q', wrap32 ((arg + byte) * 256)
                                  = beval (pre ++ [byte]) * 256 + q' * 4294967296).
        { rewrite beval_snoc. unfold wrap32, c_int_upper_limit, c_int_length.
          destruct (_ >? _); [exists (q * 256 - 1) | exists (q * 256)]; lia. }
        destruct (IH (pre ++ [byte]) (i + 2) _ ps Hb (bytes_ok_snoc _ _ Hpre Hbyte) Hsh
                     ltac:(rewrite zlen_app1; lia) Hinv Hp) as [E1 E2].
        split.
        * rewrite E1. unfold ext_units. rewrite flat_map_app. cbn [flat_map app].
          rewrite <- app_assoc. reflexivity.
        * rewrite zlen_app1 in E2.
          replace (i - 2 * zlen pre) with (i + 2 - 2 * (zlen pre + 1)) by lia.
          replace (i + (zlen r + 1 + 1)) with (i + 2 + zlen r) by lia. exact E2.
      + assert (Hne : op <> cfg_extended_arg c) by lia.
        rewrite (parse_op_step op byte r i (zlen pre) arg Hne) in Hp.
        destruct (parse_bytes c r (i + 2) 0 0) as [rest|e] eqn:Er; [|discriminate].
        inversion Hp; subst ps. clear Hp.
        destruct (IH [] (i + 2) 0 rest Hb eq_refl Hsh ltac:(change (zlen (@nil Z)) with 0; lia)
                     ltac:(exists 0; cbn; lia) Er) as [E1 E2].
        rewrite lor_add by assumption.
        cbn [flat_map emit_pinstr offsets_ok].
        split.
        * rewrite E1. cbn [ext_units flat_map app].
          replace (Z.to_nat (zlen pre + 1)) with (length (pre ++ [byte]))
            by (unfold zlen; rewrite app_length; cbn [length]; lia).
          assert (Hk : exists t, 4294967296 = t * 256 ^ zlen (pre ++ [byte]) /\ 0 <= t).
          { rewrite zlen_app1. pose proof (zlen_nonneg pre) as Hnn.
            assert (Hc : zlen pre = 0 \/ zlen pre = 1 \/ zlen pre = 2 \/ zlen pre = 3) by lia.
            destruct Hc as [-> | [-> | [-> | ->]]];
              [exists 16777216 | exists 65536 | exists 256 | exists 1]; cbn; lia. }
          destruct Hk as [t [Ht _]].
          rewrite (emit_beval op pre byte (arg + byte) (q * t)).
          -- rewrite <- app_assoc. reflexivity.
          -- apply bytes_ok_snoc; assumption.
          -- rewrite beval_snoc. rewrite Hq. rewrite Ht. lia.
        * change (zlen (@nil Z)) with 0 in E2.
          replace (i + 2 - 2 * 0) with (i + 2) in E2 by lia.
          replace (i + (zlen r + 1 + 1)) with (i + 2 + zlen r) by lia.
          rewrite E2. pose proof (zlen_nonneg pre). lia.
  Qed.

  (* Main statement of 3: under wf_units, emitting the parsed instructions gives back the
     bytes, and the instructions tile [0, len b) *)
  Theorem emit_parse_bytes b ps :
    wf_units b = true ->
    parse_bytes c b 0 0 0 = OK ps ->
    flat_map (fun p : pinstr =>
                match p with (opcode, arg, n_args, _, _) =>
                  emit_units c opcode arg (Z.to_nat n_args) end) ps = b
    /\ offsets_ok 0 ps (zlen b) = true.
  Proof.
    intros Hwf Hp. unfold wf_units in Hwf. apply andb_true_iff in Hwf as [Hb Hsh].
    destruct (parse_emit_gen b [] 0 0 ps Hb eq_refl Hsh
                ltac:(change (zlen (@nil Z)) with 0; lia) ltac:(exists 0; cbn; lia) Hp) as [E1 E2].
    split; [exact E1 | exact E2].
  Qed.

  (* the decoder fails only on an odd number of bytes *)
  Lemma parse_bytes_ok : forall b n i m arg,
    shape_ok b n = true -> exists ps, parse_bytes c b i m arg = OK ps.
  Proof.
    induction b as [| x | op byte r IH] using list_ind2; intros n i m arg Hsh.
    - exists []. reflexivity.
    - cbn [shape_ok] in Hsh. discriminate.
    - cbn [shape_ok] in Hsh. cbn [parse_bytes].
      destruct (op =? cfg_extended_arg c).
      + apply andb_true_iff in Hsh as [_ Hsh]. eapply IH; exact Hsh.
      + destruct (IH 0 (i + 2) 0 0 Hsh) as [rest Hr]. rewrite Hr. eexists; reflexivity.
  Qed.

  Theorem emit_parse_roundtrip b :
    wf_units b = true ->
    exists ps, parse_bytes c b 0 0 0 = OK ps /\ flat_map emit_pinstr ps = b /\
               offsets_ok 0 ps (zlen b) = true.
  Proof.
    intros Hwf. pose proof Hwf as Hwf'. unfold wf_units in Hwf'.
    apply andb_true_iff in Hwf' as [_ Hsh].
    destruct (parse_bytes_ok b 0 0 0 0 Hsh) as [ps Hp]. exists ps. split; [exact Hp|].
    exact (emit_parse_bytes b ps Hwf Hp).
  Qed.

  (* what offsets_ok says, in words *)
  Definition p_nargs (p : pinstr) : Z := match p with (_, _, k, _, _) => k end.
  Definition p_first (p : pinstr) : Z := match p with (_, _, _, f, _) => f end.
  Definition p_next (p : pinstr) : Z := match p with (_, _, _, _, n) => n end.

  Lemma last_nonempty_default (l : list Z) : forall x d d', last (x :: l) d = last (x :: l) d'.
  Proof.
    induction l as [|y l IH]; intros x d d'; [reflexivity|].
    change (last (x :: y :: l) d) with (last (y :: l) d).
    change (last (x :: y :: l) d') with (last (y :: l) d'). apply IH.
  Qed.

  Lemma offsets_ok_props : forall ps i e,
    offsets_ok i ps e = true ->
    match ps with [] => i = e | p :: _ => p_first p = i end /\
    last (map p_next ps) i = e /\
    Forall (fun p => p_next p - p_first p = 2 * p_nargs p /\ 1 <= p_nargs p) ps /\
    (forall j p p', nth_error ps j = Some p -> nth_error ps (S j) = Some p' ->
                    p_next p = p_first p').
  Proof.
    induction ps as [|[[[[op a] k] f] nx] r IH]; intros i e H; cbn [offsets_ok] in H.
    - split; [lia|]. split; [cbn; lia|]. split; [constructor|].
      intros [|j] p p' H1; discriminate.
    - apply andb_true_iff in H as [H H4]. apply andb_true_iff in H as [H H3].
      apply andb_true_iff in H as [H1 H2].
      destruct (IH nx e H4) as (I1 & I2 & I3 & I4).
      split; [cbn [p_first]; lia|]. split; [|split].
      + cbn [map]. destruct r as [|p r'].
        * cbn in *. lia.
        * cbn [map] in *.
          change (last (nx :: p_next p :: map p_next r') i) with (last (p_next p :: map p_next r') i).
          rewrite (last_nonempty_default _ _ i nx). exact I2.
      + constructor; [cbn [p_next p_first p_nargs]; lia | exact I3].
      + intros [|j] p p' Hp Hp'.
        * cbn in Hp. inversion Hp; subst p. cbn [nth_error] in Hp'.
          destruct r as [|p0 r']; [discriminate|]. cbn in Hp'. inversion Hp'; subst p0.
          cbn [p_next]. lia.
        * cbn [nth_error] in Hp, Hp'. eapply I4; eassumption.
  Qed.

  Corollary emit_parse_offsets b ps :
    wf_units b = true -> parse_bytes c b 0 0 0 = OK ps ->
    match ps with [] => b = [] | p :: _ => p_first p = 0 end /\
    last (map p_next ps) 0 = zlen b /\
    Forall (fun p => p_next p - p_first p = 2 * p_nargs p /\ 1 <= p_nargs p) ps /\
    (forall j p p', nth_error ps j = Some p -> nth_error ps (S j) = Some p' ->
                    p_next p = p_first p').
  Proof.
    intros Hwf Hp. destruct (emit_parse_bytes b ps Hwf Hp) as [_ Ho].
    destruct (offsets_ok_props ps 0 (zlen b) Ho) as (I1 & I2 & I3 & I4).
    repeat split; try assumption.
    destruct ps; [|exact I1]. destruct b; [reflexivity|]. rewrite zlen_cons in I1.
    pose proof (zlen_nonneg b). lia.
  Qed.

  (* ---------------------------------------------------------------- *)
  (** * 2. Decode after encode                                         *)

  Lemma pinstr_eq (a a' b b' d d' e e' f f' : Z) :
    a = a' -> b = b' -> d = d' -> e = e' -> f = f' -> (a, b, d, e, f) = (a', b', d', e', f').
  Proof. intros; subst; reflexivity. Qed.

  Lemma wrap32_small x : x <= 2147483647 -> wrap32 x = x.
  Proof. intros. unfold wrap32, c_int_upper_limit. destruct (_ >? _) eqn:E; lia. Qed.
  Lemma wrap32_big x : 2147483647 < x -> wrap32 x = x - 4294967296.
  Proof. intros. unfold wrap32, c_int_upper_limit, c_int_length. destruct (_ >? _) eqn:E; lia. Qed.

  Lemma div_step a P : 0 <= a -> 0 < P -> a / P = (a / (256 * P)) * 256 + (a / P) mod 256.
  Proof.
    intros Ha HP. rewrite (Z.mul_comm 256 P). rewrite <- Z.div_div by lia.
    pose proof (Z.div_mod (a / P) 256). lia.
  Qed.

  Lemma parse_emit_units_nonneg :
    forall (j : nat) op a rest i n acc,
      op <> cfg_extended_arg c -> 0 <= a < 2147483648 ->
      acc = (a / 256 ^ Z.of_nat j) * 256 -> (j > 0)%nat ->
      parse_bytes c (emit_units c op a j ++ rest) i n acc =
      match parse_bytes c rest (i + 2 * Z.of_nat j) 0 0 with
      | OK r => OK ((op, a, n + Z.of_nat j, i - 2 * n, i + 2 * Z.of_nat j) :: r)
      | Err e => Err e
      end.
  Proof.
    induction j as [|j IH]; intros op a rest i n acc Hop Ha Hacc Hj; [lia|].
    cbn [emit_units app].
    destruct j as [|j'].
    - cbn [Nat.eqb emit_units app].
      rewrite parse_op_step by assumption.
      rewrite byte_at by lia.
      change (Z.of_nat 0) with 0. change (Z.of_nat 1) with 1 in *.
      rewrite Z.pow_0_r, Z.div_1_r. rewrite Z.pow_1_r in Hacc.
      rewrite lor_add by lia.
      replace (i + 2 * 1) with (i + 2) by lia.
      destruct (parse_bytes c rest (i + 2) 0 0); [|reflexivity].
      f_equal. f_equal. apply pinstr_eq; lia.
    - cbn [Nat.eqb]. rewrite parse_ext_step.
      set (J := S j') in *.
      assert (HJ : 256 ^ Z.of_nat (S J) = 256 * 256 ^ Z.of_nat J)
        by (rewrite Nat2Z.inj_succ, Z.pow_succ_r; lia).
      assert (Hp : 0 < 256 ^ Z.of_nat J) by (apply Z.pow_pos_nonneg; lia).
      rewrite byte_at by lia.
      rewrite HJ in Hacc.
      assert (HSJ : Z.of_nat (S J) = Z.of_nat J + 1) by lia.
      assert (H256 : 256 <= 256 ^ Z.of_nat J).
      { subst J. rewrite Nat2Z.inj_succ, Z.pow_succ_r by lia.
        assert (0 < 256 ^ Z.of_nat j') by (apply Z.pow_pos_nonneg; lia). lia. }
      set (P := 256 ^ Z.of_nat J) in *.
      assert (Hnew : acc + (a / P) mod 256 = a / P) by (rewrite (div_step a P); lia).
      rewrite lor_add by lia. rewrite Hnew, shl8.
      assert (Hsmall : a / P * 256 <= 2147483647).
      { assert (a / P * P <= a) by (rewrite Z.mul_comm; apply Z.mul_div_le; lia).
        assert (0 <= a / P) by (apply Z.div_pos; lia). nia. }
      rewrite wrap32_small by exact Hsmall.
      rewrite (IH op a rest (i + 2) (n + 1) (a / P * 256)); try assumption; try reflexivity;
        try lia.
      rewrite HSJ.
      replace (i + 2 + 2 * Z.of_nat J) with (i + 2 * (Z.of_nat J + 1)) by lia.
      destruct (parse_bytes c rest (i + 2 * (Z.of_nat J + 1)) 0 0); [|reflexivity].
      f_equal. f_equal. apply pinstr_eq; lia.
  Qed.

  (* one instruction, non-negative argument, any number k >= instrsize of units *)
  Lemma parse_emit_one_nonneg op a k rest i :
    op <> cfg_extended_arg c -> 0 <= a < 2147483648 -> 1 <= k -> a < 256 ^ k ->
    parse_bytes c (emit_units c op a (Z.to_nat k) ++ rest) i 0 0 =
    match parse_bytes c rest (i + 2 * k) 0 0 with
    | OK r => OK ((op, a, k, i, i + 2 * k) :: r)
    | Err e => Err e
    end.
  Proof.
    intros Hop Ha Hk Hlt.
    rewrite (parse_emit_units_nonneg (Z.to_nat k) op a rest i 0 0); try assumption; try lia.
    - rewrite Z2Nat.id by lia.
      destruct (parse_bytes c rest (i + 2 * k) 0 0); [|reflexivity].
      f_equal. f_equal. apply pinstr_eq; lia.
    - rewrite Z2Nat.id by lia. rewrite Z.div_small; lia.
  Qed.

  (* one instruction, negative argument: four units carrying the two's complement bytes,
     the decoder's C-int wrap gives back the negative number *)
  Lemma parse_emit_one_neg op a rest i :
    op <> cfg_extended_arg c -> -2147483648 <= a < 0 ->
    parse_bytes c (emit_units c op a (Z.to_nat 4) ++ rest) i 0 0 =
    match parse_bytes c rest (i + 2 * 4) 0 0 with
    | OK r => OK ((op, a, 4, i, i + 2 * 4) :: r)
    | Err e => Err e
    end.
  Proof.
    intros Hop Ha.
    change (Z.to_nat 4) with 4%nat. cbn [emit_units Nat.eqb app].
    rewrite !byte_at by lia.
    change (256 ^ Z.of_nat 3) with 16777216. change (256 ^ Z.of_nat 2) with 65536.
    change (256 ^ Z.of_nat 1) with 256. change (256 ^ Z.of_nat 0) with 1.
    rewrite Z.div_1_r.
    set (b3 := (a / 16777216) mod 256). set (b2 := (a / 65536) mod 256).
    set (b1 := (a / 256) mod 256). set (b0 := a mod 256).
    assert (H3 : 128 <= b3 < 256) by (subst b3; lia).
    assert (H2 : 0 <= b2 < 256) by (subst b2; lia).
    assert (H1 : 0 <= b1 < 256) by (subst b1; lia).
    assert (H0 : 0 <= b0 < 256) by (subst b0; lia).
    assert (Hdec : a = b0 + 256 * b1 + 65536 * b2 + 16777216 * b3 - 4294967296)
      by (subst b0 b1 b2 b3; lia).
    clearbody b0 b1 b2 b3.
    rewrite parse_ext_step, lor_add, shl8, wrap32_small by lia.
    rewrite parse_ext_step, lor_add, shl8, wrap32_small by lia.
    rewrite parse_ext_step, lor_add, shl8, wrap32_big by lia.
    rewrite parse_op_step, lor_add by (assumption || lia).
    replace (i + 2 + 2 + 2 + 2) with (i + 2 * 4) by lia.
    destruct (parse_bytes c rest (i + 2 * 4) 0 0); [|reflexivity].
    f_equal. f_equal. apply pinstr_eq; lia.
  Qed.

  (* instruction lists *)
  Definition ispec := (Z * Z * Z)%type.     (* opcode, arg, number of units *)
  Definition ispec_ok (s : ispec) : bool :=
    match s with (op, a, k) =>
      negb (op =? cfg_extended_arg c) &&
      (((0 <=? a) && (a <? 2147483648) && (1 <=? k) && (a <? 256 ^ k))
       || ((-2147483648 <=? a) && (a <? 0) && (k =? 4)))
    end.
  Definition emit_ispec (s : ispec) : list Z :=
    match s with (op, a, k) => emit_units c op a (Z.to_nat k) end.
  Fixpoint layout (i : Z) (l : list ispec) : list pinstr :=
    match l with
    | [] => []
    | (op, a, k) :: r => (op, a, k, i, i + 2 * k) :: layout (i + 2 * k) r
    end.

  Lemma parse_emit_ispec s rest i :
    ispec_ok s = true ->
    parse_bytes c (emit_ispec s ++ rest) i 0 0 =
    match s with (op, a, k) =>
      match parse_bytes c rest (i + 2 * k) 0 0 with
      | OK r => OK ((op, a, k, i, i + 2 * k) :: r)
      | Err e => Err e
      end
    end.
  Proof.
    destruct s as [[op a] k]. cbn [ispec_ok emit_ispec]. intros H.
    apply andb_true_iff in H as [Hop H].
    assert (Hop' : op <> cfg_extended_arg c) by lia.
    apply orb_true_iff in H as [H|H].
    - apply andb_true_iff in H as [H H4]. apply Z.ltb_lt in H4.
      apply parse_emit_one_nonneg; try assumption; lia.
    - assert (k = 4) by lia. subst k. apply parse_emit_one_neg; try assumption; lia.
  Qed.

  Theorem parse_emit_list : forall l i,
    forallb ispec_ok l = true ->
    parse_bytes c (flat_map emit_ispec l) i 0 0 = OK (layout i l).
  Proof.
    induction l as [|s l IH]; intros i H; [reflexivity|].
    cbn [forallb] in H. apply andb_true_iff in H as [Hs Hl].
    cbn [flat_map]. rewrite (parse_emit_ispec s _ i Hs).
    destruct s as [[op a] k]. rewrite (IH _ Hl). reflexivity.
  Qed.

End Codec.

(* ------------------------------------------------------------------ *)
(** * Counterexamples: every precondition is needed (checked on the 3.9 configuration,
      EXTENDED_ARG = 144, LOAD_CONST = 100)                              *)

Definition c39 := PCD.Gen.Cfg39.cfg.
Definition reemit (c : cfg) (b : list Z) : res (list Z) :=
  match parse_bytes c b 0 0 0 with
  | OK ps => OK (flat_map (emit_pinstr c) ps)
  | Err e => Err e
  end.

(* five units: the byte shifted out by the C-int wrap is lost *)
Example cex_five_units :
  parse_bytes c39 [144; 1; 144; 2; 144; 3; 144; 4; 100; 5] 0 0 0 = OK [(100, 33752069, 5, 0, 10)]
  /\ reemit c39 [144; 1; 144; 2; 144; 3; 144; 4; 100; 5]
     = OK [144; 0; 144; 2; 144; 3; 144; 4; 100; 5].
Proof. split; vm_compute; reflexivity. Qed.

(* trailing EXTENDED_ARG units are silently dropped by the decoder *)
Example cex_trailing_ext : reemit c39 [100; 1; 144; 2] = OK [100; 1].
Proof. vm_compute; reflexivity. Qed.

(* odd length *)
Example cex_odd : parse_bytes c39 [100; 1; 100] 0 0 0 = Err IndexError.
Proof. vm_compute; reflexivity. Qed.

(* an argument "byte" outside 0..255 *)
Example cex_big_byte : reemit c39 [100; 256] = OK [100; 0].
Proof. vm_compute; reflexivity. Qed.

(* decode-after-encode: too few units truncate the argument, a negative argument needs four
   units, arguments >= 2^31 come back negative, EXTENDED_ARG itself is not an instruction *)
Example cex_too_few_units :
  parse_bytes c39 (emit_units c39 100 256 1) 0 0 0 = OK [(100, 0, 1, 0, 2)].
Proof. vm_compute; reflexivity. Qed.
Example cex_neg_short :
  parse_bytes c39 (emit_units c39 100 (-1) 1) 0 0 0 = OK [(100, 255, 1, 0, 2)].
Proof. vm_compute; reflexivity. Qed.
Example cex_too_big :
  parse_bytes c39 (emit_units c39 100 2147483648 4) 0 0 0 = OK [(100, -2147483648, 4, 0, 8)].
Proof. vm_compute; reflexivity. Qed.
Example cex_ext_opcode : parse_bytes c39 (emit_units c39 144 7 1) 0 0 0 = OK [].
Proof. vm_compute; reflexivity. Qed.
(* (not a counterexample) a negative argument also survives a fifth, redundant 0xff prefix:
   the wrap happens after the third prefix and -256 | 255 = -1 stays negative *)
Example ex_neg_five :
  parse_bytes c39 (emit_units c39 100 (-1) 5) 0 0 0 = OK [(100, -1, 5, 0, 10)].
Proof. vm_compute; reflexivity. Qed.

Print Assumptions src_instrsize_tie.
Print Assumptions src_c_int_tie.
Print Assumptions emit_parse_bytes.
Print Assumptions emit_parse_roundtrip.
Print Assumptions emit_parse_offsets.
Print Assumptions parse_emit_one_nonneg.
Print Assumptions parse_emit_one_neg.
Print Assumptions parse_emit_list.
