(* Line-table half of the re-decode clause of C03: the table written by from_line_mapping for an
   instruction layout lies inside the domain of the decoder theorem (C02_Statements.table_ok). *)
From Coq Require Import ZArith List Bool Lia ZifyBool.
From PCD Require Import Base.PyBase Base.Cfg Model.LineTable Spec.Lnotab Spec.Dis Model.ViewSer
  Proofs.C10_Statements Proofs.C02_Statements Proofs.C03_Statements.
From PCD Require Proofs.LT_ExpandCollapse Proofs.LT_310 Proofs.LT_Lnotab Proofs.LinesCarried.
Import ListNotations. Open Scope Z_scope.
Ltac Zify.zify_post_hook ::= Z.to_euclidean_division_equations.

Module EC := LT_ExpandCollapse.
Module LN := LT_Lnotab.
Module LC := LinesCarried.

(* ------------------------------------------------------------------ *)
(** * 1. co_lnotab: collapse is a left inverse of expand on items with non-zero line delta *)

Definition tc := to_citem false.

(* the accumulator does not absorb a preceding entry whose line delta is not 0 *)
Definition acc_ok (acc : list citem) : Prop :=
  match acc with [] => True | (_, ib) :: _ => 0 < ib end.

Lemma step_nomerge l b acc : l <> 0 -> acc_ok acc ->
  collapse_step false (Some l, b) acc = (Some l, b) :: acc.
Proof.
  intros Hl Ha. destruct acc as [|[il ib] tl]; [reflexivity|].
  cbn [acc_ok] in Ha. unfold collapse_step.
  assert (E1 : bytecode_offset_split false (Some l, b) (il, ib) = false).
  { unfold bytecode_offset_split. cbn [opt_is_zero].
    destruct (l =? 0) eqn:E; [lia|]. reflexivity. }
  assert (E2 : line_offset_split false (Some l, b) (il, ib) = false).
  { unfold line_offset_split. destruct (ib =? 0) eqn:E; [lia|]. reflexivity. }
  rewrite E1, E2. reflexivity.
Qed.

Lemma step_merge_pos b l' acc : 0 < l' ->
  collapse_step false (Some 127, b) ((Some l', 0) :: acc) = (Some (127 + l'), b) :: acc.
Proof.
  intros H. unfold collapse_step.
  assert (E2 : line_offset_split false (Some 127, b) (Some l', 0) = true).
  { unfold line_offset_split. cbn [min_line Z.eqb andb].
    destruct (l' >? 0) eqn:E; [reflexivity|lia]. }
  rewrite E2, orb_true_r. unfold merge_items.
  destruct (l' =? 0) eqn:E; [lia|]. rewrite Z.add_0_r. reflexivity.
Qed.

Lemma step_merge_neg b l' acc : l' < 0 ->
  collapse_step false (Some (-128), b) ((Some l', 0) :: acc) = (Some (-128 + l'), b) :: acc.
Proof.
  intros H. unfold collapse_step.
  assert (E2 : line_offset_split false (Some (-128), b) (Some l', 0) = true).
  { unfold line_offset_split. cbn [min_line Z.eqb andb].
    destruct (l' <? 0) eqn:E; [reflexivity|lia]. }
  rewrite E2, orb_true_r. unfold merge_items.
  destruct (l' =? 0) eqn:E; [lia|]. rewrite Z.add_0_r. reflexivity.
Qed.

Lemma ph2_fold_pos acc : acc_ok acc -> forall (m : nat) l b ex,
  0 < l <= 127 * (Z.of_nat m + 1) ->
  LN.cfold (map tc (EC.ph2 false (Some l, b, ex))) acc = (Some l, b) :: acc.
Proof.
  intros Ha. induction m as [|m IH]; intros l b ex Hl.
  - rewrite EC.ph2_false_small by lia. rewrite EC.fin_some_nz by lia.
    cbn [map]. unfold tc. rewrite LN.to_citem_false, LN.cfold_cons. cbn [LN.cfold fold_right].
    apply step_nomerge; [lia|exact Ha].
  - destruct (Z_le_gt_dec l 127) as [Hs|Hb].
    + rewrite EC.ph2_false_small by lia. rewrite EC.fin_some_nz by lia.
      cbn [map]. unfold tc. rewrite LN.to_citem_false, LN.cfold_cons. cbn [LN.cfold fold_right].
      apply step_nomerge; [lia|exact Ha].
    + replace l with (127 + (l - 127)) by lia.
      rewrite (EC.ph2_false_pos (l - 127) b ex true) by lia.
      cbn [map]. unfold tc at 1. rewrite LN.to_citem_false, LN.cfold_cons.
      rewrite IH by lia. apply step_merge_pos. lia.
Qed.

Lemma ph2_fold_neg acc : acc_ok acc -> forall (m : nat) l b ex,
  - 128 * (Z.of_nat m + 1) <= l < 0 ->
  LN.cfold (map tc (EC.ph2 false (Some l, b, ex))) acc = (Some l, b) :: acc.
Proof.
  intros Ha. induction m as [|m IH]; intros l b ex Hl.
  - rewrite EC.ph2_false_small by lia. rewrite EC.fin_some_nz by lia.
    cbn [map]. unfold tc. rewrite LN.to_citem_false, LN.cfold_cons. cbn [LN.cfold fold_right].
    apply step_nomerge; [lia|exact Ha].
  - destruct (Z_le_gt_dec (-128) l) as [Hs|Hb].
    + rewrite EC.ph2_false_small by lia. rewrite EC.fin_some_nz by lia.
      cbn [map]. unfold tc. rewrite LN.to_citem_false, LN.cfold_cons. cbn [LN.cfold fold_right].
      apply step_nomerge; [lia|exact Ha].
    + replace l with (-128 + (l + 128)) by lia.
      rewrite (EC.ph2_false_neg (l + 128) b ex true) by lia.
      cbn [map]. unfold tc at 1. rewrite LN.to_citem_false, LN.cfold_cons.
      rewrite IH by lia. apply step_merge_neg. lia.
Qed.

Lemma ph2_fold acc l b ex : acc_ok acc -> l <> 0 ->
  LN.cfold (map tc (EC.ph2 false (Some l, b, ex))) acc = (Some l, b) :: acc.
Proof.
  intros Ha Hl. destruct (Z_lt_le_dec l 0) as [Hn|Hp].
  - apply (ph2_fold_neg acc Ha (Z.to_nat (- l))). lia.
  - apply (ph2_fold_pos acc Ha (Z.to_nat l)). lia.
Qed.

Lemma item_fold acc l b : acc_ok acc -> l <> 0 -> 0 <= b ->
  LN.cfold (map tc (expand_item false (Some l, b))) acc = (Some l, b) :: acc.
Proof.
  intros Ha Hl Hb. rewrite EC.expand_item_eq. cbv iota. rewrite EC.eb_false.
  destruct (LC.nsplit_255 b) as [[Hb1 Hb2]|[Hb1 [Hb2 Hb3]]].
  - rewrite Hb2. cbn [Z.eqb app]. apply ph2_fold; assumption.
  - replace (nsplit b 255 =? 0) with false by lia.
    set (n := nsplit b 255) in *.
    rewrite EC.zrepeat_pred by lia.
    rewrite map_app, LN.cfold_app. rewrite ph2_fold by assumption.
    unfold zrepeat. rewrite LN.map_repeat'. unfold tc. rewrite LN.to_citem_false.
    rewrite LN.cfold_rep_pos by lia. f_equal. f_equal. lia.
Qed.

Definition nz (it : citem) : Prop := exists l b, it = (Some l, b) /\ l <> 0 /\ 0 <= b.
Definition posb (it : citem) : Prop := 0 < snd it.
Definition evb (it : citem) : Prop := Z.even (snd it) = true.

Lemma collapse_expand_id c :
  Forall nz c -> Forall posb (tl c) -> collapse_items false (expand_items false c) = c.
Proof.
  induction c as [|it c IH]; intros Hn Hp; [reflexivity|].
  inversion Hn as [|? ? (l & b & -> & Hl & Hb) Hn']; subst. cbn [tl] in Hp.
  rewrite EC.expand_items_cons, LN.collapse_items_app.
  rewrite IH; [|exact Hn'|destruct c; [constructor|inversion Hp; assumption]].
  apply item_fold; [|exact Hl|exact Hb].
  destruct c as [|[il ib] r]; [exact I|]. inversion Hp as [|? ? H1 _]; subst. exact H1.
Qed.

Lemma wfc_of_shape c : Forall nz c -> Forall evb c -> wfc_lnotab c = true.
Proof.
  induction 1 as [|it c (l & b & -> & Hl & Hb) Hc IH]; intros He; [reflexivity|].
  inversion He as [|? ? H1 H2]; subst. unfold evb in H1. cbn [snd] in H1.
  unfold wfc_lnotab in *. cbn [forallb]. rewrite (IH H2), andb_true_r.
  unfold wfc_lnotab_item. cbn [fst snd opt_is_some]. rewrite H1. lia.
Qed.

(* ------------------------------------------------------------------ *)
(** * 2. the items mapping_to_items builds for a mapping with increasing even keys *)

Definition evkeys (L : odict (option Z)) : Prop :=
  Forall (fun kv : Z * option Z => Z.even (fst kv) = true) L.

Lemma Forall_posb_tl c : Forall posb c -> Forall posb (tl c).
Proof. destruct c; [constructor|]. intros H; inversion H; assumption. Qed.

Lemma m2i_shape : forall L a0 ll lb c,
  LC.sorted_from L a0 -> evkeys L -> Z.even lb = true -> 0 <= lb <= a0 ->
  mapping_to_items_lnotab L [] ll lb = OK c ->
  Forall nz c /\ Forall evb c /\ (lb < a0 -> Forall posb c) /\ Forall posb (tl c).
Proof.
  induction L as [|[k v] r IH]; intros a0 ll lb c Hs He Hlb Hr H.
  - cbn [mapping_to_items_lnotab] in H. inversion H; subst.
    repeat split; intros; constructor.
  - cbn [LC.sorted_from] in Hs. destruct Hs as [Hk Hs].
    inversion He as [|? ? Hek He']; subst. cbn [fst] in Hek.
    destruct v as [line0|]; [|cbn [mapping_to_items_lnotab] in H; discriminate].
    rewrite LC.m2i_step in H.
    destruct (line0 - ll =? 0) eqn:E.
    + destruct (mapping_to_items_lnotab r [] line0 lb) as [rest|] eqn:Er; [|discriminate].
      cbn [app] in H. inversion H; subst rest.
      destruct (IH (k + 1) line0 lb c Hs He' Hlb ltac:(lia) Er) as (I1 & I2 & I3 & I4).
      split; [exact I1|]. split; [exact I2|]. split; [intros _; apply I3; lia|exact I4].
    + destruct (mapping_to_items_lnotab r [] line0 k) as [rest|] eqn:Er; [|discriminate].
      cbn [app] in H. inversion H; subst c.
      destruct (IH (k + 1) line0 k rest Hs He' Hek ltac:(lia) Er) as (I1 & I2 & I3 & I4).
      assert (Hev : Z.even (k - lb) = true).
      { apply LT_310.even_mod2. apply LT_310.even_mod2 in Hek. apply LT_310.even_mod2 in Hlb. lia. }
      split; [|split; [|split]].
      * constructor; [|exact I1]. exists (line0 - ll), (k - lb). split; [reflexivity|]. lia.
      * constructor; [exact Hev|exact I2].
      * intros Hlt. constructor; [unfold posb; cbn [snd]; lia|apply I3; lia].
      * cbn [tl]. apply I3. lia.
Qed.

Lemma evkeys_ranges : forall p a, Forall LC.pe p -> a mod 2 = 0 -> evkeys (mapping_of_ranges p a).
Proof.
  induction p as [|[bd line] r IH]; intros a H Ha; [constructor|].
  inversion H as [|x y [H1 H2] H3]; subst. cbn [fst] in H1, H2.
  cbn [mapping_of_ranges]. unfold evkeys. apply Forall_app. split.
  - apply Forall_forall. intros kv Hin. apply in_map_iff in Hin as (o & <- & Hin). cbn [fst].
    apply LT_310.In_range2 in Hin; [|unfold LT_310.wfw; lia].
    apply LT_310.even_mod2. lia.
  - apply IH; [assumption|lia].
Qed.

(* ------------------------------------------------------------------ *)
(** * 3. total bytecode length of a 3.10 assembler image *)

Lemma total_bc_app a b : total_bc (a ++ b) = total_bc a + total_bc b.
Proof. unfold total_bc. rewrite map_app. apply LN.sumZ_app. Qed.

Lemma total_bc_cons l b r : total_bc ((l, b) :: r) = b + total_bc r.
Proof. reflexivity. Qed.

Lemma total_bc_zrepeat l b n : 0 <= n -> total_bc (zrepeat (l, b) n) = n * b.
Proof.
  intros Hn. unfold zrepeat. rewrite <- (Z2Nat.id n) at 2 by lia.
  induction (Z.to_nat n) as [|k IH]; [reflexivity|].
  cbn [repeat]. rewrite total_bc_cons, IH. lia.
Qed.

Lemma total_bc_zrepeat0 l n : total_bc (zrepeat (l, 0) n) = 0.
Proof.
  unfold zrepeat. induction (Z.to_nat n) as [|k IH]; [reflexivity|].
  cbn [repeat]. rewrite total_bc_cons, IH. lia.
Qed.

Lemma total_bc_emit bd line prev : 0 < bd -> total_bc (emit_310 bd line prev) = bd.
Proof.
  intros Hbd. unfold emit_310. cbv zeta.
  rewrite !total_bc_app, !total_bc_zrepeat0.
  destruct (LT_310.nsplit_254 bd) as [[H1 H2]|[H1 [H2 H3]]].
  - rewrite H2. cbn [Z.eqb]. rewrite total_bc_cons. unfold total_bc. cbn. lia.
  - replace (nsplit bd 254 =? 0) with false by lia.
    rewrite total_bc_cons, total_bc_app, total_bc_zrepeat by lia.
    rewrite total_bc_cons. unfold total_bc at 1. cbn [map sumZ fold_right]. lia.
Qed.

Lemma total_bc_asm : forall p prev, ranges_ok p = true ->
  total_bc (asm_310 p prev) = sumZ (map fst p).
Proof.
  induction p as [|[bd line] r IH]; intros prev Hok; [reflexivity|].
  apply LT_310.ranges_ok_cons in Hok. destruct Hok as [Hbd [Hev [Hr _]]].
  cbn [asm_310 map fst]. destruct (bd =? 0) eqn:E; [lia|].
  rewrite total_bc_app, total_bc_emit by lia. rewrite IH by assumption.
  rewrite LN.sumZ_cons. reflexivity.
Qed.

Lemma sum_merge : forall p, sumZ (map fst (LC.merge p)) = sumZ (map fst p).
Proof.
  induction p as [|[bd line] r IH]; [reflexivity|].
  cbn [LC.merge]. destruct (LC.merge r) as [|[bd' line'] r'] eqn:E.
  - cbn [map fst] in *. rewrite !LN.sumZ_cons, <- IH. reflexivity.
  - destruct (option_eqb Z.eqb line line'); cbn [map fst] in *;
      rewrite !LN.sumZ_cons in *; lia.
Qed.

(* the byte length a layout covers *)
Definition layout_len (l : list layout_item) : Z :=
  sumZ (map (fun x : layout_item => 2 * snd (fst x)) l).

Lemma sum_rawp d l : sumZ (map fst (LC.rawp d l)) = layout_len l.
Proof. unfold LC.rawp, layout_len. rewrite map_map. reflexivity. Qed.

(* ------------------------------------------------------------------ *)
(** * 4. table_ok of the table written for a layout *)

Lemma table_ok_310 l d table :
  layout_ok l 0 = true -> l <> [] ->
  from_line_mapping true
    (modify_line_offsets {| lm_lines := lines_of_layout l; lm_adds := [] |} d) = OK table ->
  forallb byte_ok table = true /\ Nat.even (length table) = true /\
  raw_ok true (raw_entries table) = true /\ raw_even (raw_entries table) = true /\
  total_bc (raw_entries table) = layout_len l.
Proof.
  intros Hl Hne Ht.
  destruct (LC.merge_spec (LC.rawp d l) (LC.rawp_pe d l 0 Hl)) as (Hok & Hmap & Hnn).
  pose proof (sum_merge (LC.rawp d l)) as Hsum.
  set (p := LC.merge (LC.rawp d l)) in *.
  assert (Hp : p <> []).
  { apply Hnn. destruct l; [congruence|discriminate]. }
  destruct (LT_310.asm_310_raw p 0 Hok) as [R1 R2].
  destruct (LC.bytes_of_raw (asm_310 p 0) (LT_310.raw_ok_true_false _ R1)) as (b & B1 & B2 & B3 & B4).
  assert (E : from_line_mapping true
                (modify_line_offsets {| lm_lines := lines_of_layout l; lm_adds := [] |} d) = OK b).
  { unfold modify_line_offsets. cbn [lm_lines lm_adds].
    rewrite (LC.modify_layout d l 0 Hl). rewrite <- (Hmap 0).
    unfold from_line_mapping.
    rewrite (LT_310.items_of_mapping_310 p Hok Hp).
    rewrite (LT_310.expand_deltas p 0 Hok). exact B1. }
  rewrite E in Ht. inversion Ht; subst table.
  rewrite B4. repeat (split; [assumption|]).
  rewrite total_bc_asm by assumption. rewrite Hsum. apply sum_rawp.
Qed.

Lemma table_ok_lnotab l d table :
  layout_ok l 0 = true ->
  forallb (fun x : layout_item => opt_is_some (snd x)) l = true ->
  from_line_mapping false
    (modify_line_offsets {| lm_lines := lines_of_layout l; lm_adds := [] |} d) = OK table ->
  forallb byte_ok table = true /\ Nat.even (length table) = true /\
  raw_ok false (raw_entries table) = true /\
  wfc_lnotab (collapse_items false (raw_entries table)) = true.
Proof.
  intros Hl Hsome Ht.
  pose proof (LC.rawp_pe d l 0 Hl) as Hpe.
  destruct (LC.m2i_spec (mapping_of_ranges (LC.rawp d l) 0) 0 0 0
              (LC.sorted_ranges _ 0 Hpe) (LC.allsome_ranges _ 0 (LC.rawp_allsome d l Hsome)) ltac:(lia))
    as (c & C1 & C2 & _ & _).
  destruct (m2i_shape _ 0 0 0 c (LC.sorted_ranges _ 0 Hpe) (evkeys_ranges _ 0 Hpe eq_refl)
              eq_refl ltac:(lia) C1) as (S1 & S2 & _ & S4).
  destruct (LC.bytes_of_raw _ (LC.raw_expand c C2)) as (b & B1 & B2 & B3 & B4).
  assert (E : from_line_mapping false
                (modify_line_offsets {| lm_lines := lines_of_layout l; lm_adds := [] |} d) = OK b).
  { unfold modify_line_offsets. cbn [lm_lines lm_adds].
    rewrite (LC.modify_layout d l 0 Hl).
    unfold from_line_mapping, mapping_to_items. cbn [lm_lines lm_adds].
    rewrite C1. exact B1. }
  rewrite E in Ht. inversion Ht; subst table.
  rewrite B4. split; [assumption|]. split; [assumption|]. split; [apply LC.raw_expand; exact C2|].
  rewrite (collapse_expand_id c S1 S4). apply wfc_of_shape; assumption.
Qed.

Theorem table_ok_layout c l first table :
  layout_ok l 0 = true -> l <> [] ->
  (cfg_v310 c = false -> forallb (fun x : layout_item => opt_is_some (snd x)) l = true) ->
  from_line_mapping (cfg_v310 c)
    (modify_line_offsets {| lm_lines := lines_of_layout l; lm_adds := [] |} (- first)) = OK table ->
  table_ok c table (layout_len l) = true.
Proof.
  intros Hl Hne Hsome Ht. unfold table_ok.
  destruct (cfg_v310 c) eqn:E.
  - destruct (table_ok_310 l (- first) table Hl Hne Ht) as (T1 & T2 & T3 & T4 & T5).
    rewrite T1, T2, T3, T4, T5, Z.eqb_refl. reflexivity.
  - destruct (table_ok_lnotab l (- first) table Hl (Hsome eq_refl) Ht) as (T1 & T2 & T3 & T4).
    rewrite T1, T2, T3, T4. reflexivity.
Qed.

Print Assumptions table_ok_layout.
