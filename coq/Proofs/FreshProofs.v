(* Soundness of the fresh-document check (Model/FreshDoc.v). *)
From Coq Require Import List Bool Arith Lia.
Import ListNotations.
From PCD Require Import Model.FreshDoc.

Lemma all_fix_In (l : list fexp) :
  (fix all (l : list fexp) : bool := match l with [] => true | x :: r => no_global x && all r end) l = true ->
  forall e, In e l -> no_global e = true.
Proof.
  induction l as [|x r IH]; intros H e Hin; [destruct Hin|].
  apply andb_true_iff in H as [Hx Hr]. destruct Hin as [->|Hin]; [exact Hx|now apply IH].
Qed.

Lemma prog_ok_body P f body e :
  prog_ok P = true -> nth_error P f = Some body -> In e body -> no_global e = true.
Proof.
  intros HP Hn Hin. unfold prog_ok in HP. rewrite forallb_forall in HP.
  specialize (HP body (nth_error_In _ _ Hn)). rewrite forallb_forall in HP. now apply HP.
Qed.

Section Sound.
  Variable P : prog.
  Variable bound : nat.
  Variable genv : list val.
  Hypothesis HP : prog_ok P = true.

  (* every container of the result is new (address at or above [bound]) or a container of the argument *)
  Fixpoint fresh_sound arg e v (D : eval P bound genv arg e v) {struct D} :
    no_global e = true -> forall a, In a (addrs v) -> bound <= a \/ In a (addrs arg).
  Proof.
    destruct D as [arg|arg v Hs|arg g v Hg Hs|arg items a0 vs Hb HF|arg f body e0 arg' v Hn Hin Hs D'|arg x y v D'|arg x y v D'];
      intros Hng a Ha.
    - destruct Ha.
    - right. exact (subval_addrs _ _ Hs a Ha).
    - discriminate.
    - rewrite addrs_con in Ha. destruct Ha as [<-|Ha]; [left; exact Hb|].
      cbn [no_global] in Hng. pose proof (all_fix_In items Hng) as Hall.
      unfold addrs_list in Ha. apply in_flat_map in Ha as [v [Hv Hav]].
      revert v Hv Hav.
      refine ((fix go (ws : list val)
                 (HF : Forall (fun v => exists e, In e items /\ eval P bound genv arg e v) ws) {struct HF} :
                 forall v, In v ws -> In a (addrs v) -> bound <= a \/ In a (addrs arg) :=
                 match HF with
                 | Forall_nil _ => fun v Hv _ => match Hv with end
                 | @Forall_cons _ _ w ws' Hw HF' => fun v Hv Hav =>
                     match Hv with
                     | or_introl Heq =>
                         match Hw with
                         | ex_intro _ e1 (conj He1 D1) =>
                             fresh_sound arg e1 w D1 (Hall e1 He1) a (eq_ind_r (fun x => In a (addrs x)) Hav Heq)
                         end
                     | or_intror Hv' => go ws' HF' v Hv' Hav
                     end
                 end) vs HF).
    - destruct (fresh_sound arg' e0 v D' (prog_ok_body P f body e0 HP Hn Hin) a Ha) as [H|H]; [now left|].
      right. exact (subval_addrs _ _ Hs a H).
    - cbn [no_global] in Hng. apply andb_true_iff in Hng as [Hx _]. exact (fresh_sound arg x v D' Hx a Ha).
    - cbn [no_global] in Hng. apply andb_true_iff in Hng as [_ Hy]. exact (fresh_sound arg y v D' Hy a Ha).
  Qed.
End Sound.

(* the form used for to_json_data: the argument is frozen data without any container, so every dict and
   list of the result was allocated by this call - none existed before it, whatever the globals hold *)
Theorem fresh_document : forall (P : prog) bound genv f body e arg v,
  prog_ok P = true ->
  nth_error P f = Some body -> In e body ->
  addrs arg = [] ->
  eval P bound genv arg e v ->
  forall a, In a (addrs v) -> bound <= a.
Proof.
  intros P bound genv f body e arg v HP Hn Hin Harg D a Ha.
  destruct (fresh_sound P bound genv HP arg e v D (prog_ok_body P f body e HP Hn Hin) a Ha) as [H|H]; [exact H|].
  rewrite Harg in H. destruct H.
Qed.
Print Assumptions fresh_sound.
Print Assumptions fresh_document.

(* the check is not vacuous: returning a module-level object is rejected, and such a program really can
   return a container that existed before the call *)
Example global_is_rejected : prog_ok [[FChoice (FNew [FImm]) FGlobal]] = false.
Proof. reflexivity. Qed.
Example global_really_escapes :
  eval [[FGlobal]] 10 [VCon 3 []] VImm FGlobal (VCon 3 []) /\ ~ 10 <= 3.
Proof. split; [apply EGlobal with (g := VCon 3 []); [now left|apply SubRefl]|lia]. Qed.
