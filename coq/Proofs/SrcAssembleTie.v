(* Tie between Model/Blocks.assemble (the final loop of blocks_to_bytes) and the body of that loop in
   code_data/_blocks.py as re-translated on every run (Gen/SrcLines.v, AssembleStep): for every instruction, operand value
   and state of the output, with a positive number of code units, the translated body writes the line entry of the
   instruction, its extra line offsets, the line entries of its EXTENDED_ARG prefixes (the repair of D10) and the code units
   emit_units writes - or raises KeyError for an opcode name the interpreter does not know. *)
From PCD Require Import Base.PyBase Base.PyImp Base.Cfg Model.Flags Model.Args Model.Data Model.LineTable Model.Blocks
  Proofs.InstrCodec.
From PCD Require Gen.Src Gen.SrcLines.
From Coq Require Import ZifyBool.
Ltac Zify.zify_post_hook ::= Z.to_euclidean_division_equations.

Module A := PCD.Gen.SrcLines.AssembleStep.

Ltac anorm :=
  unfold A.set_v_offset, A.set_v_arg_value, A.set_v_n_args, A.set_v_bytes_, A.set_v_lines, A.set_v_adds;
  cbn [A.v_offset A.v_arg_value A.v_n_args A.v_bytes_ A.v_lines A.v_adds bind].

(* k-1, ..., 0 *)
Fixpoint down (k : nat) : list Z := match k with O => [] | S j => Z.of_nat j :: down j end.

Lemma zrange_fuel_snoc : forall n a, zrange_fuel (S n) a = zrange_fuel n a ++ [a + Z.of_nat n].
Proof.
  induction n as [|n IH]; intros a.
  - cbn. rewrite Z.add_0_r. reflexivity.
  - change (zrange_fuel (S (S n)) a) with (a :: zrange_fuel (S n) (a + 1)). rewrite IH.
    cbn [zrange_fuel app]. f_equal. f_equal. f_equal. lia.
Qed.

Lemma rev_zrange_0 : forall k, rev (zrange 0 (Z.of_nat k)) = down k.
Proof.
  intros k. unfold zrange. rewrite Z.sub_0_r, Nat2Z.id.
  induction k as [|k IH]; [reflexivity|].
  rewrite zrange_fuel_snoc, rev_app_distr. cbn [rev app down]. rewrite IH. reflexivity.
Qed.

Lemma lines_targets : forall n offset, (1 <= n)%nat ->
  map (fun i => offset + i * 2) (zrange 1 (Z.of_nat n)) = range2 (offset + 2) (offset + 2 * Z.of_nat n).
Proof.
  intros n offset Hn. unfold zrange, range2.
  destruct (offset + 2 * Z.of_nat n <=? offset + 2) eqn:E.
  - assert (n = 1%nat) by lia. subst. reflexivity.
  - replace (Z.to_nat (Z.of_nat n - 1)) with (n - 1)%nat by lia.
    replace (Z.to_nat ((offset + 2 * Z.of_nat n - (offset + 2) + 1) / 2)) with (n - 1)%nat by lia.
    generalize (n - 1)%nat as m. intros m.
    assert (G : forall m a, map (fun i => offset + i * 2) (zrange_fuel m a) = range2_fuel m (offset + a * 2)).
    { induction m0 as [|m0 IH]; intros a; [reflexivity|]. cbn [zrange_fuel map range2_fuel]. f_equal.
      rewrite IH. f_equal; lia. }
    rewrite G. f_equal; lia.
Qed.

Section Tie.
  Context {C : Type}.
  Variable c : cfg.

  Lemma lines_fold : forall (line : option Z) l off av na by_ ln ad,
    foldM (fun s i => OK (A.set_v_lines s (oset (A.v_lines s) (Z.add (A.v_offset s) (Z.mul i 2)) line))) l
          (A.mk_st off av na by_ ln ad)
    = OK (A.mk_st off av na by_ (fold_left (fun d k => oset d k line) (map (fun i => off + i * 2) l) ln) ad).
  Proof.
    intros line. induction l as [|i r IH]; intros off av na by_ ln ad; [reflexivity|].
    cbn [foldM map fold_left]. anorm. apply IH.
  Qed.

  Lemma emit_fold : forall (opc : Z) k off av na by_ ln ad,
    foldM (fun s i => bind (bind (ite_r (OK (Z.eqb i 0)) (OK opc) (OK (cfg_extended_arg c)))
                                 (fun x1 => OK (A.set_v_bytes_ s (A.v_bytes_ s ++ [x1]))))
                           (fun s => OK (A.set_v_bytes_ s (A.v_bytes_ s ++ [Z.land (Z.shiftr (A.v_arg_value s) (Z.mul 8 i)) 255]))))
          (down k) (A.mk_st off av na by_ ln ad)
    = OK (A.mk_st off av na (by_ ++ emit_units c opc av k) ln ad).
  Proof.
    intros opc. induction k as [|k IH]; intros off av na by_ ln ad.
    - cbn. rewrite app_nil_r. reflexivity.
    - cbn [down foldM emit_units]. anorm.
      assert (E : ite_r (OK (Z.of_nat k =? 0)) (OK opc) (OK (cfg_extended_arg c)) = OK (if (k =? 0)%nat then opc else cfg_extended_arg c)).
      { destruct k; reflexivity. }
      rewrite E. anorm. rewrite IH. rewrite <- !app_assoc. reflexivity.
  Qed.

  Lemma emit_err : forall e ext k off av na by_ ln ad, (1 <= k)%nat ->
    foldM (fun s i => bind (bind (ite_r (OK (Z.eqb i 0)) (@Err Z e) (OK ext))
                                 (fun x1 => OK (A.set_v_bytes_ s (A.v_bytes_ s ++ [x1]))))
                           (fun s => OK (A.set_v_bytes_ s (A.v_bytes_ s ++ [Z.land (Z.shiftr (A.v_arg_value s) (Z.mul 8 i)) 255]))))
          (down k) (A.mk_st off av na by_ ln ad) = Err e.
  Proof.
    intros e ext. induction k as [|k IH]; intros off av na by_ ln ad Hk; [lia|].
    cbn [down foldM]. destruct k as [|k].
    - cbn. reflexivity.
    - assert (E : ite_r (OK (Z.of_nat (S k) =? 0)) (@Err Z e) (OK ext) = OK ext) by reflexivity.
      rewrite E. anorm. apply IH. lia.
  Qed.

  Theorem assemble_step_tie : forall (i : instr_ C) v off0 av0 na0 by_ ln ad,
    0 < n_units (i_nargs i) v ->
    let n := n_units (i_nargs i) v in
    let offset := zlen by_ in
    A.step (if zmem (i_name i) (cfg_opcodes c) then OK (i_name i) else Err KeyError) (cfg_extended_arg c)
           (i_line i) (i_lineoffs i) (i_nargs i) v (A.mk_st off0 av0 na0 by_ ln ad)
    = if negb (zmem (i_name i) (cfg_opcodes c)) then Err KeyError
      else OK (A.mk_st offset v n (by_ ++ emit_units c (i_name i) v (Z.to_nat n))
                 (fold_left (fun d k => oset d k (i_line i)) (range2 (offset + 2) (offset + 2 * n)) (oset ln offset (i_line i)))
                 (match i_lineoffs i with [] => ad | l => oset ad offset l end)).
  Proof.
    intros i v off0 av0 na0 by_ ln ad Hn n offset. unfold A.step. anorm.
    rewrite !src_instrsize_tie.
    change (match i_nargs i with Some n__ => if n__ =? 0 then instrsize v else n__ | None => instrsize v end) with n.
    assert (Ead : (if match i_lineoffs i with [] => false | _ :: _ => true end
                   then OK (A.mk_st (zlen by_) av0 na0 by_ (oset ln (zlen by_) (i_line i)) (oset ad (zlen by_) (i_lineoffs i)))
                   else OK (A.mk_st (zlen by_) av0 na0 by_ (oset ln (zlen by_) (i_line i)) ad))
                  = OK (A.mk_st (zlen by_) av0 na0 by_ (oset ln (zlen by_) (i_line i))
                          (match i_lineoffs i with [] => ad | l => oset ad (zlen by_) l end))).
    { destruct (i_lineoffs i); reflexivity. }
    rewrite Ead. anorm. clear Ead.
    assert (Hnn : n = Z.of_nat (Z.to_nat n)) by (unfold n in *; lia).
    pose proof (lines_fold (i_line i) (zrange 1 n) (zlen by_) v n by_ (oset ln (zlen by_) (i_line i))
                  (match i_lineoffs i with [] => ad | l => oset ad (zlen by_) l end)) as Hl.
    unfold A.set_v_lines in Hl. rewrite Hl. clear Hl. anorm.
    assert (Hlt : map (fun i0 : Z => zlen by_ + i0 * 2) (zrange 1 n) = range2 (zlen by_ + 2) (zlen by_ + 2 * n)).
    { rewrite Hnn. rewrite lines_targets by lia. reflexivity. }
    rewrite Hlt. clear Hlt.
    assert (Hrv : rev (zrange 0 n) = down (Z.to_nat n)) by (rewrite Hnn at 1; apply rev_zrange_0).
    rewrite Hrv. clear Hrv.
    destruct (zmem (i_name i) (cfg_opcodes c)); cbn [negb].
    - pose proof (emit_fold (i_name i) (Z.to_nat n) (zlen by_) v n by_
                    (fold_left (fun d k => oset d k (i_line i)) (range2 (zlen by_ + 2) (zlen by_ + 2 * n)) (oset ln (zlen by_) (i_line i)))
                    (match i_lineoffs i with [] => ad | l => oset ad (zlen by_) l end)) as He.
      unfold A.set_v_bytes_ in He. rewrite He. reflexivity.
    - pose proof (emit_err KeyError (cfg_extended_arg c) (Z.to_nat n) (zlen by_) v n by_
                    (fold_left (fun d k => oset d k (i_line i)) (range2 (zlen by_ + 2) (zlen by_ + 2 * n)) (oset ln (zlen by_) (i_line i)))
                    (match i_lineoffs i with [] => ad | l => oset ad (zlen by_) l end)) as He.
      unfold A.set_v_bytes_ in He. apply He. unfold n in *. lia.
  Qed.
End Tie.

Print Assumptions assemble_step_tie.
