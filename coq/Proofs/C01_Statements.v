(* Statements for C01 (K3): code -> data -> code is the identity, and its components. *)
From PCD Require Import Base.PyBase Base.Cfg Model.Flags Model.Args Model.Data Model.Consts
  Model.LineTable Model.Blocks Model.CodeData Spec.Lnotab Spec.Dis Model.ViewSer
  Proofs.C02_Statements Proofs.C11_Statements.

(** * blocks_to_bytes in two halves: operand values, then assembly *)
Section Halves.
  Context {C : Type} (keq : C -> C -> bool) (is_str : C -> bool) (none_c : C) (str_c : str -> C).

  (* everything of blocks_to_bytes before the final assembly loop: the integer operand of every
     instruction (free variables offset by the number of cell variables, then jumps relaxed) and the tables *)
  Definition encode_values (c : cfg) (blocks : list (list (instr_ C))) (additional : list (arg_ C))
    (freevars : list str) (block_type : option function) : res (list Z * encstate C) :=
    match enc_init keq str_c block_type with
    | Err e => Err e
    | OK st0 =>
        let instrs := concat blocks in
        match first_args keq is_str none_c instrs block_type freevars st0 with
        | Err e => Err e
        | OK (vals0, st1) =>
            match add_additional keq is_str none_c additional block_type freevars st1 with
            | Err e => Err e
            | OK st2 =>
                match relax (3 * length instrs + 2) c blocks
                        (add_freevar_offset (zlen (fa_items (e_cellvars st2))) instrs vals0) with
                | Err e => Err e
                | OK vals2 => OK (vals2, st2)
                end
            end
        end
    end.
End Halves.

(* blocks_to_bytes = encode_values ; assemble ; to_tuple of the four tables *)
Definition S_blocks_to_bytes_halves : Prop :=
  forall (C : Type) keq is_str none_c str_c c (blocks : list (list (instr_ C))) additional freevars bt,
  blocks_to_bytes keq is_str none_c str_c c blocks additional freevars bt =
  match encode_values keq is_str none_c str_c c blocks additional freevars bt with
  | Err e => Err e
  | OK (vals, st) =>
      match assemble c (concat blocks) vals 0 empty_linemap with
      | Err e => Err e
      | OK (code, lm) =>
          match fa_to_tuple (e_names st), fa_to_tuple (e_varnames st),
                fa_to_tuple (e_cellvars st), fa_to_tuple (e_consts st) with
          | OK n, OK v, OK cv, OK k => OK (code, lm, n, v, cv, k)
          | Err e, _, _, _ => Err e
          | _, Err e, _, _ => Err e
          | _, _, Err e, _ => Err e
          | _, _, _, Err e => Err e
          end
      end
  end.

(** * Well-formedness of the tables and of the block type w.r.t. the constants *)

(* parameter names occur nowhere else in co_varnames; free variable names are distinct *)
Fixpoint nodup_str (l : list str) : bool :=
  match l with [] => true | x :: r => negb (existsb (str_eqb x) r) && nodup_str r end.
Definition tables_wf (varnames freevars : list str) (a : args) : bool :=
  let p := args_len a in
  (p <=? zlen varnames)
  && forallb (fun x => negb (existsb (str_eqb x) (drop p varnames))) (take p varnames)
  && nodup_str (take p varnames)
  && list_eqb str_eqb (args_to_varnames a) (take p varnames)
  && nodup_str freevars.

(* the block type decode_code builds: docstring = first constant when it is a string *)
Definition bt_consistent (bt : option function) (a : args) (ks : list const) : bool :=
  match bt with
  | None => args_len a =? 0
  | Some f =>
      args_eqb (fn_args f) a &&
      match fn_doc f, ks with
      | Some s, KInner (IStr s') :: _ => str_eqb s s'
      | None, KInner (IStr _) :: _ => false
      | None, _ => true
      | Some _, _ => false
      end
  end.

Definition p_op (p : pinstr) : Z := fst (fst (fst (fst p))).
Definition p_arg (p : pinstr) : Z := snd (fst (fst (fst p))).
Definition p_nargs (p : pinstr) : Z := snd (fst (fst p)).
Definition p_first (p : pinstr) : Z := snd (fst p).
Definition p_next (p : pinstr) : Z := snd p.

(* every instruction that is not a jump uses the minimal number of code units for its operand (only
   jumps record redundant EXTENDED_ARG prefixes in _n_args_override) *)
Definition is_jump_op (c : cfg) (op : Z) : bool := zmem op (cfg_hasjabs c) || zmem op (cfg_hasjrel c).
Definition minimal_widths (c : cfg) (ps : list pinstr) : bool :=
  forallb (fun p => is_jump_op c (p_op p) || (p_nargs p =? instrsize (p_arg p))) ps.

(** * Component 1: re-encoding decoded blocks reproduces every operand value and every table *)
Definition S_K3_values : Prop :=
  forall c b lm names varnames freevars cellvars (ks : list const) bt a blocks addl lm' ps,
  cfg_ops_wf c = true -> code_ok c b = true ->
  targets_ok c b names varnames freevars cellvars ks = true ->
  tables_wf varnames freevars a = true -> bt_consistent bt a ks = true ->
  parse_bytes c b 0 0 0 = OK ps -> minimal_widths c ps = true ->
  bytes_to_blocks key_eqb c b lm names varnames freevars cellvars ks bt a = OK (blocks, addl, lm') ->
  exists st,
    encode_values key_eqb is_str_const (KInner INone) (fun s => KInner (IStr s))
                  c blocks addl freevars bt = OK (map p_arg ps, st) /\
    fa_to_tuple (e_names st) = OK names /\ fa_to_tuple (e_varnames st) = OK varnames /\
    fa_to_tuple (e_cellvars st) = OK cellvars /\ fa_to_tuple (e_consts st) = OK ks /\
    Forall2 (fun (i : instr_ const) (p : pinstr) =>
               i_name i = p_op p /\ n_units (i_nargs i) (p_arg p) = p_nargs p)
            (concat blocks) ps.

(** * Component 2: assembling those values gives back the code string *)
Definition S_K3_bytes : Prop :=
  forall (C : Type) c b ps (instrs : list (instr_ C)) lm0,
  code_ok c b = true -> parse_bytes c b 0 0 0 = OK ps ->
  Forall (fun p => zmem (p_op p) (cfg_opcodes c) = true) ps ->
  Forall2 (fun (i : instr_ C) (p : pinstr) =>
             i_name i = p_op p /\ n_units (i_nargs i) (p_arg p) = p_nargs p) instrs ps ->
  exists lm, assemble c instrs (map p_arg ps) 0 lm0 = OK (b, lm).

(** * Component 3: the line mapping is split over the instructions and joined again without loss *)

(* every entry of the decoded mapping that lies inside the code sits on an instruction's first code
   unit, or repeats that instruction's line on one of its EXTENDED_ARG units (no additional offsets there) *)
Definition lines_on_instrs (lm : linemap) (ps : list pinstr) : bool :=
  forallb (fun p : pinstr =>
             forallb (fun o => option_eqb (option_eqb Z.eqb) (oget (lm_lines lm) o) (oget (lm_lines lm) (p_first p))
                               && negb (omem (lm_adds lm) o))
                     (range2 (p_first p + 2) (p_next p))) ps.

(* the 3.10 table is something assemble_line_range can emit: re-assembling the ranges it denotes
   gives it back *)
Fixpoint ranges_of_from (t : list eitem) (line : Z) : list (Z * option Z) :=
  match t with
  | [] => []
  | (ld, bd) :: r =>
      let l := if ld =? -128 then None else Some (line + ld) in
      let line' := if ld =? -128 then line else line + ld in
      if bd =? 0 then ranges_of_from r line'
      else match ranges_of_from r line' with
           | (bd', l') :: rest => if option_eqb Z.eqb l l' then (bd + bd', l) :: rest
                                  else (bd, l) :: (bd', l') :: rest
           | [] => [(bd, l)]
           end
  end.
Definition eitem_eqb (x y : eitem) : bool := (fst x =? fst y) && (snd x =? snd y).
Definition is_asm310_image (t : list eitem) : bool :=
  let p := ranges_of_from t 0 in
  ranges_ok p && negb (match p with [] => true | _ => false end) && list_eqb eitem_eqb (asm_310 p 0) t.

Definition rt_table_ok (c : cfg) (table : list Z) (len_code : Z) : bool :=
  forallb byte_ok table && Nat.even (length table) &&
  let t := raw_entries table in
  if cfg_v310 c then is_asm310_image t && (total_bc t =? len_code)
  else raw_ok false t && wfc_lnotab (collapse_items false t).

(* the line mapping an instruction list carries (the lm half of [assemble]) *)
Definition S_K3_lines : Prop :=
  forall (C : Type) (keq : C -> C -> bool) c b table first lm0 ps freevars st ois lm1 st' next_line lm2
         (instrs : list (instr_ C)) vals code lm3,
  code_ok c b = true -> rt_table_ok c table (zlen b) = true ->
  parse_bytes c b 0 0 0 = OK ps -> ps <> [] ->
  to_line_mapping (cfg_v310 c) table (zlen b) = OK lm0 ->
  lines_on_instrs lm0 ps = true ->
  decode_instrs keq c ps freevars (modify_line_offsets lm0 first) st = OK (ois, lm1, st') ->
  pop_additional_line lm1 (zlen b) = OK (next_line, lm2) ->
  (* any instruction list with the same lines, line offsets and sizes as the decoded one *)
  Forall2 (fun (i : instr_ C) (oi : Z * instr_ C) =>
             i_line i = i_line (snd oi) /\ i_lineoffs i = i_lineoffs (snd oi)) instrs ois ->
  Forall2 (fun (iv : instr_ C * Z) (p : pinstr) =>
             n_units (i_nargs (fst iv)) (snd iv) = p_nargs p) (combine instrs vals) ps ->
  length vals = length instrs ->
  assemble c instrs vals 0 empty_linemap = OK (code, lm3) ->
  from_line_mapping (cfg_v310 c)
    (modify_line_offsets
       (match next_line with
        | Some (l, offs) => add_additional_line lm3 l offs (zlen code)
        | None => lm3
        end) (- first)) = OK table.

(** * The whole: one code object whose constants round-trip *)

Definition rt_wf (c : cfg) (code : pycode) (ks : list const) : bool :=
  cfg_ops_wf c && flags_wf (cfg_flags c)
  && code_ok c (co_code code)
  && targets_ok c (co_code code) (co_names code) (co_varnames code) (co_freevars code) (co_cellvars code) ks
  && rt_table_ok c (co_linetable code) (zlen (co_code code))
  && (co_nlocals code =? zlen (co_varnames code))
  && (0 <=? co_stacksize code) && (0 <=? co_posonlyargcount code)
  && (co_posonlyargcount code <=? co_argcount code) && (0 <=? co_kwonlyargcount code)
  && (if cfg_v38 c then true else co_posonlyargcount code =? 0)
  && nodup_str (co_freevars code) && names_ok (co_varnames code)
  && match parse_bytes c (co_code code) 0 0 0, to_line_mapping (cfg_v310 c) (co_linetable code) (zlen (co_code code)) with
     | OK ps, OK lm0 => lines_on_instrs lm0 ps && minimal_widths c ps
                        && forallb (fun p => zmem (p_op p) (cfg_opcodes c)) ps
                        && negb (match ps with [] => true | _ => false end)
     | _, _ => false
     end.

(* pairing every constant with its encoded form, as from_const does *)
Definition pair_consts (ks : list const) (ps : list pyconst) : list pconst := combine ks ps.

(* K3 for one level: if the constants re-encode to the originals, the code object re-encodes to itself *)
Definition S_K3_level : Prop := forall c code ks d d',
  rt_wf c code ks = true ->
  decode_code c code ks = OK d ->
  Forall2 (fun k p => from_const c k = OK p) ks (co_consts code) ->
  mapM_cd (fun k' => match from_const c k' with OK p => OK (k', p) | Err e => Err e end) d = OK d' ->
  encode_code c d' = OK code.

(* well-formedness through all nesting levels (parameters and names of parameters are checked by
   decode itself: tables_wf is derived for the args it builds) *)
Fixpoint rt_wf_deep (c : cfg) (k : pyconst) : bool :=
  match k with
  | PInner _ => true
  | PCode code =>
      match mapM (to_const c) (co_consts code) with
      | OK ks =>
          rt_wf c code ks
          && (fix all (l : list pyconst) : bool :=
                match l with [] => true | x :: r => rt_wf_deep c x && all r end) (co_consts code)
      | Err _ => false
      end
  end.

(* C01: for every well-formed code object, at any nesting depth: decoding succeeds or not - if it
   does, encoding the result gives back the identical code object *)
Definition S_C01 : Prop := forall c code d,
  rt_wf_deep c (PCode code) = true ->
  to_code_data c code = OK d ->
  from_code_data c d = OK code.
