(* Tie between the model of normalize (Model/CodeData.v: map_arg_norm, map_instr_norm, map_cd_norm) and the
   per-class functions re-translated from code_data/_normalize.py on every run (Gen/SrcNorm.v): equal for every
   recursive normalizer of constants, hence normalize itself is the source's. *)
From PCD Require Import Base.PyBase Base.Cfg Model.Flags Model.Args Model.Data Model.Consts Model.LineTable
  Model.Blocks Model.CodeData.
From PCD Require Gen.SrcNorm.

Module N := PCD.Gen.SrcNorm.Norm.

Lemma norm_arg_tie : forall nk a, N.norm_arg nk a = map_arg_norm nk a.
Proof. intros nk a. destruct a; reflexivity. Qed.

Lemma norm_instr_tie : forall nk i, N.norm_instr nk i = map_instr_norm nk i.
Proof. intros nk i. unfold N.norm_instr, map_instr_norm. f_equal; try apply norm_arg_tie. Qed.

Lemma norm_cd_tie : forall nk d, N.norm_cd nk d = map_cd_norm nk d.
Proof.
  intros nk d. unfold N.norm_cd, map_cd_norm. f_equal;
    try (apply map_ext; intros b; apply map_ext; intros i; apply norm_instr_tie).
Qed.

(* normalize is the source's per-class functions closed under the recursion through nested code *)
Theorem normalize_tie : forall d, normalize d = N.norm_cd normalize_const d.
Proof. intros d. unfold normalize. symmetry. apply norm_cd_tie. Qed.

Theorem normalize_const_tie : forall k,
  normalize_const k = match k with KInner i => KInner i | KCode d => KCode (N.norm_cd normalize_const d) end.
Proof. intros [i|d]; cbn [normalize_const]; [reflexivity|]. f_equal; try (symmetry; apply norm_cd_tie). Qed.

Print Assumptions normalize_tie.
