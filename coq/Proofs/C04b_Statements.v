(* Statements for the docstring / kind / type-None clauses of C04. *)
From PCD Require Import Base.PyBase Base.Cfg Model.Flags Model.Args Model.Data Model.Consts
  Model.LineTable Model.Blocks Model.CodeData Spec.Sig Spec.FuncKind Proofs.C11_Statements.

(* whenever decoding succeeds (flag table well-formed): the data has a function type exactly when the
   code is function-like; then its docstring is CPython's __doc__, its type is inspect's classification,
   and its args are the decoder's reading of the header (which C04_args_is_inspect_signature equates
   with inspect.signature).  Module and class-body code (not function-like) decodes with type None. *)
Definition S_C04_header : Prop := forall c code ks d,
  flags_wf (cfg_flags c) = true ->
  mapM (to_const c) (co_consts code) = OK ks ->
  decode_code c code ks = OK d ->
  match cd_type d with
  | None => function_like c (co_flags code) = false
  | Some f =>
      function_like c (co_flags code) = true
      /\ fn_doc f = cpy_doc (co_consts code)
      /\ fn_type f = inspect_kind c (co_flags code)
      /\ exists fl0 fl1,
           to_flags_data c (co_flags code) = OK fl0
           /\ args_from_input (co_argcount code) (if cfg_v38 c then co_posonlyargcount code else 0)
                              (co_kwonlyargcount code) (co_varnames code) fl0 = OK (fn_args f, fl1)
           /\ flag_mem VARARGS fl0 = bit_set c VARARGS (co_flags code)
           /\ flag_mem VARKEYWORDS fl0 = bit_set c VARKEYWORDS (co_flags code)
  end.
