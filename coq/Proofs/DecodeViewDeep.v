(* C02 through all nesting levels (statements: Proofs/C02deep_Statements.v).
   The one-level theorem DecodeView.C02_view is lifted through every code object nested in the
   constants by induction on the nested inductive [pyconst]. *)
From Coq Require Import ZArith List Bool Lia.
From PCD Require Import Base.PyBase Base.Cfg Model.Flags Model.Args Model.Data Model.Consts
  Model.LineTable Model.Blocks Model.CodeData Spec.Lnotab Spec.Dis Model.ViewSer
  Proofs.C02_Statements Proofs.C02deep_Statements.
From PCD Require Proofs.DecodeView.
From PCD Require Gen.Cfg39.
Import ListNotations. Open Scope Z_scope.

(* ------------------------------------------------------------------ *)
(** * 1. Induction principle for the nested inductive, and list facts *)

Section PyconstInd.
  Context (P : pyconst -> Prop).
  Context (HInner : forall i, P (PInner i)).
  Context (HCode : forall code, Forall P (co_consts code) -> P (PCode code)).

  Fixpoint pyconst_ind' (k : pyconst) : P k :=
    match k as k0 return P k0 with
    | PInner i => HInner i
    | PCode code =>
        HCode code
          (match code as c0 return Forall P (co_consts c0) with
           | mkCode _ _ _ _ _ _ _ consts _ _ _ _ _ _ _ _ =>
               (fix go (l : list pyconst) : Forall P l :=
                  match l with
                  | [] => Forall_nil P
                  | x :: xs => Forall_cons x (pyconst_ind' x) (go xs)
                  end) consts
           end)
    end.
End PyconstInd.

Lemma all_fix_Forall (f : pyconst -> bool) : forall l,
  (fix all (l : list pyconst) : bool := match l with [] => true | x :: r => f x && all r end) l = true ->
  Forall (fun x => f x = true) l.
Proof.
  induction l as [|x l IH]; intros H; [constructor|].
  apply andb_true_iff in H as [H1 H2]. constructor; [exact H1|now apply IH].
Qed.

Lemma mapM_cons_eq {A B} (h : A -> res B) x xs :
  mapM h (x :: xs) = match h x with
                     | Err e => Err e
                     | OK y => match mapM h xs with Err e => Err e | OK ys => OK (y :: ys) end
                     end.
Proof. reflexivity. Qed.

Lemma mapM_F2 {A B} (h : A -> res B) : forall l l',
  mapM h l = OK l' -> Forall2 (fun x y => h x = OK y) l l'.
Proof.
  induction l as [|x l IH]; intros l' H.
  - inversion H. constructor.
  - rewrite mapM_cons_eq in H. destruct (h x) as [y|] eqn:E; [|discriminate].
    destruct (mapM h l) as [ys|] eqn:E2; [|discriminate]. inversion H; subst. constructor; auto.
Qed.

(* ------------------------------------------------------------------ *)
(** * 2. Every nesting level *)

Theorem C02_deep : S_C02_deep.
Proof.
  unfold S_C02_deep. intros c k.
  induction k as [i|code IH] using pyconst_ind'; intros k' Hwf Hto.
  - cbn [to_const] in Hto. inversion Hto; subst k'. constructor.
  - cbn [view_wf_deep] in Hwf. cbn [to_const] in Hto.
    destruct (mapM (to_const c) (co_consts code)) as [ks|] eqn:M; [|discriminate].
    apply andb_true_iff in Hwf as [Hwf Hall]. apply all_fix_Forall in Hall.
    destruct (decode_code c code ks) as [d|] eqn:D; [|discriminate].
    inversion Hto; subst k'. clear Hto.
    apply RA_code with (ks := ks).
    + apply mapM_F2 in M. clear D Hwf.
      induction M as [|p k ps ks' Hpk _ IHM]; [constructor|].
      inversion IH; subst. inversion Hall; subst.
      constructor; [auto|]. apply IHM; assumption.
    + exact (Proofs.DecodeView.C02_view c code ks d Hwf D).
Qed.

Theorem C02_deep_top : S_C02_deep_top.
Proof.
  unfold S_C02_deep_top. intros c code d Hwf Hto.
  apply C02_deep; [exact Hwf|].
  cbn [to_const]. unfold to_code_data in Hto.
  destruct (mapM (to_const c) (co_consts code)) as [ks|]; [|discriminate]. now rewrite Hto.
Qed.

(* ------------------------------------------------------------------ *)
(** * 3. Non-vacuity (checked by computation on closed terms) *)

Module Examples.
  Definition c39 : cfg := PCD.Gen.Cfg39.cfg.

  (* [def f(a, b, *d, c, **e): return None] under the real 3.9 configuration *)
  Definition fn_code : pycode :=
    mkCode 2 0 1 5 1 79 [100; 0; 83; 0] [PInner INone] [] [[97]; [98]; [99]; [100]; [101]]
           [60] [102] 1 [0; 1] [] [].
  (* a module body (LOAD_CONST 0; RETURN_VALUE, flags = CO_NOFREE) with the function nested in its
     constants *)
  Definition nested_code : pycode :=
    mkCode 0 0 0 0 1 64 [100; 0; 83; 0] [PInner INone; PCode fn_code] [] [] [60] [60] 1 [0; 1] [] [].
  (* and a module two levels deep *)
  Definition nested2_code : pycode :=
    mkCode 0 0 0 0 1 64 [100; 0; 83; 0] [PInner INone; PCode nested_code] [] [] [60] [60] 1 [0; 1] [] [].

  Example nested_is_nested : In (PCode fn_code) (co_consts nested_code).
  Proof. right. left. reflexivity. Qed.

  Example nested_view_wf_deep : view_wf_deep c39 (PCode nested_code) = true.
  Proof. vm_compute. reflexivity. Qed.

  Example nested_decodes :
    match to_code_data c39 nested_code with
    | OK d => match to_const c39 (PCode fn_code) with OK _ => true | Err _ => false end
    | Err _ => false
    end = true.
  Proof. vm_compute. reflexivity. Qed.

  Example nested2_view_wf_deep : view_wf_deep c39 (PCode nested2_code) = true.
  Proof. vm_compute. reflexivity. Qed.

  (* the theorem applies: both premises hold for the nested module *)
  Example nested_reads_as : exists d, to_code_data c39 nested_code = OK d /\ reads_as c39 (PCode nested_code) (KCode d).
  Proof.
    destruct (to_code_data c39 nested_code) as [d|] eqn:E.
    - exists d. split; [reflexivity|]. apply C02_deep_top; [exact nested_view_wf_deep|exact E].
    - exfalso. pose proof nested_decodes as H. rewrite E in H. discriminate.
  Qed.
End Examples.

Check (C02_deep : forall c k k',
  view_wf_deep c k = true -> to_const c k = OK k' -> reads_as c k k').
Check (C02_deep_top : forall c code d,
  view_wf_deep c (PCode code) = true -> to_code_data c code = OK d -> reads_as c (PCode code) (KCode d)).

Print Assumptions C02_deep.
Print Assumptions C02_deep_top.
Print Assumptions Examples.nested_reads_as.
