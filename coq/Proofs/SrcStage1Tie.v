(* Tie of stage 1 of the line-table codec: the translations of bytes_to_items and items_to_bytes of
   code_data/_line_mapping.py (Gen/SrcStage1.v, regenerated from the source on every run) equal Model/LineTable.v
   for ALL byte strings and ALL item lists, errors included. *)
From PCD Require Import Base.PyBase Base.PyImp Model.LineTable Proofs.SrcBytesTie.
From PCD Require Gen.SrcStage1.
From Coq Require Import ZifyBool.
Ltac Zify.zify_post_hook ::= Z.to_euclidean_division_equations.

Lemma from_one_byte_signed y : from_one_byte true y = signed_byte y.
Proof. unfold from_one_byte, signed_byte. cbn [andb]. destruct (128 <=? y) eqn:E1, (y <? 128) eqn:E2; lia. Qed.

Definition b2i_elt (b : list Z) (i : Z) : res eitem :=
  do x0__ <- (byte_at b i); do x1__ <- (do y__ <- (byte_at b (i + (1))); OK (from_one_byte true y__)); OK (x1__, x0__).

Lemma byte_at_past (pre : list Z) : byte_at pre (zlen pre) = Err IndexError.
Proof.
  unfold byte_at. pose proof (zlen_nonneg pre). replace (zlen pre <? 0) with false by lia.
  rewrite znth_app_past. reflexivity.
Qed.

Lemma mapM_cons {A B} (f : A -> res B) x xs :
  mapM f (x :: xs) = match f x with Err e => Err e | OK y => match mapM f xs with Err e => Err e | OK ys => OK (y :: ys) end end.
Proof. reflexivity. Qed.

Lemma b2i_aux : forall n r p, (length r <= n)%nat ->
  mapM (b2i_elt (p ++ r)) (zrange_step_fuel (Nat.div2 (S (length r))) (zlen p) 2) = LineTable.bytes_to_items r.
Proof.
  induction n as [|n IH]; intros r p Hn.
  - destruct r; [reflexivity | cbn in Hn; lia].
  - destruct r as [|x [|y r']].
    + reflexivity.
    + cbn [length Nat.div2 zrange_step_fuel]. rewrite mapM_cons. unfold b2i_elt at 1.
      rewrite byte_at_app. cbn [bind].
      replace (zlen p + 1) with (zlen (p ++ [x])) by (rewrite zlen_app; reflexivity).
      rewrite byte_at_past. reflexivity.
    + cbn [length Nat.div2 zrange_step_fuel]. cbn [LineTable.bytes_to_items].
      rewrite mapM_cons.
      assert (E1 : b2i_elt (p ++ x :: y :: r') (zlen p) = OK (signed_byte y, x)).
      { unfold b2i_elt. rewrite byte_at_app. cbn [bind].
        replace (p ++ x :: y :: r') with ((p ++ [x]) ++ y :: r') by (rewrite <- app_assoc; reflexivity).
        replace (zlen p + 1) with (zlen (p ++ [x])) by (rewrite zlen_app; reflexivity).
        rewrite byte_at_app. cbn [bind]. rewrite from_one_byte_signed. reflexivity. }
      rewrite E1.
      replace (p ++ x :: y :: r') with ((p ++ [x; y]) ++ r') by (rewrite <- app_assoc; reflexivity).
      replace (zlen p + 2) with (zlen (p ++ [x; y])) by (rewrite zlen_app; reflexivity).
      rewrite IH by (cbn in Hn; lia). reflexivity.
Qed.

Lemma half_up n : Z.to_nat ((Z.of_nat n - 0 + 2 - 1) / 2) = Nat.div2 (S n).
Proof.
  rewrite Nat.div2_div. apply Nat2Z.inj. rewrite Nat2Z.inj_div. rewrite Z2Nat.id by lia.
  replace (Z.of_nat (S n)) with (Z.of_nat n - 0 + 2 - 1) by lia. reflexivity.
Qed.

Lemma bytes_to_items_tie : forall b, SrcStage1.bytes_to_items b = LineTable.bytes_to_items b.
Proof.
  intros b. unfold SrcStage1.bytes_to_items, zrange_step. cbn [Z.leb Z.compare].
  unfold zlen at 1. rewrite half_up.
  exact (b2i_aux (length b) b [] (le_n _)).
Qed.

(* items_to_bytes *)
Lemma land_255 z : Z.land z 255 = z mod 256.
Proof. change 255 with (Z.ones 8). rewrite Z.land_ones by lia. reflexivity. Qed.

Lemma items_to_bytes_tie : forall items, SrcStage1.items_to_bytes items = LineTable.items_to_bytes items.
Proof.
  unfold SrcStage1.items_to_bytes. induction items as [|[ln bc] r IH]; [reflexivity|].
  cbn [map concat app LineTable.items_to_bytes fst snd]. rewrite <- IH. unfold bytes_of. cbn [forallb].
  rewrite ?land_255. unfold byte_ok.   (* `& 255` or `% 256` *)
  assert (Hm : (0 <=? ln mod 256) && (ln mod 256 <=? 255) = true) by lia. rewrite Hm.
  destruct ((0 <=? bc) && (bc <=? 255)); cbn [andb]; [|reflexivity].
  destruct (forallb _ _); reflexivity.
Qed.
