(* Tie between Model/Blocks.to_arg and the translation of code_data/_blocks.py:to_arg regenerated on every run
   (Gen/SrcToArg.v): equal for all opcodes, operands, offsets, free-variable tuples and table states. *)
From PCD Require Import Base.PyBase Base.Cfg Model.Flags Model.Args Model.Data Model.LineTable Model.Blocks.
From PCD Require Gen.SrcToArg.

Theorem to_arg_tie : forall {C} (keq : C -> C -> bool) c opcode a next_offset freevars st,
  PCD.Gen.SrcToArg.to_arg keq c opcode a next_offset freevars st = to_arg keq c opcode a next_offset freevars st.
Proof.
  intros C keq c opcode a next_offset freevars st.
  unfold PCD.Gen.SrcToArg.to_arg, to_arg. cbv zeta.
  repeat match goal with
         | |- (if ?b then _ else _) = (if ?b then _ else _) => destruct b
         | |- context [cfg_v310 c] => destruct (cfg_v310 c)
         end; try reflexivity;
    repeat match goal with
           | |- context [found_index ?e ?t ?i] => destruct (found_index e t i) as [[[? ?] ?]|]
           | |- context [py_index ?l ?i] => destruct (py_index l i)
           end; try reflexivity; try (f_equal; f_equal; f_equal; ring).
Qed.
Print Assumptions to_arg_tie.
