(* Tie between Model/Json.iconst_to_json and the constant branches of code_data/_json_data.py:value_to_json as re-translated
   on every run (Gen/SrcToJson.v): equal for all inner constants at any nesting. *)
From Coq Require Import String.
From PCD Require Import Base.PyBase Base.Cfg Model.Flags Model.Args Model.Data Model.Consts Model.Json Proofs.ConstsProofs.
From PCD Require Gen.Src Gen.SrcToJson.
Open Scope Z_scope.

Module J := PCD.Gen.SrcToJson.

Lemma float_json_tie bits : J.float_json bits = float_to_json bits.
Proof. reflexivity. Qed.

Theorem to_json_tie : forall k, J.to_json k = iconst_to_json k.
Proof.
  induction k as [ |b|z|f|r i|s|bs| |l IH|l IH] using iconst_ind'; cbn [J.to_json iconst_to_json]; try reflexivity;
    try (destruct b; vm_compute; reflexivity);
    (replace (map J.to_json l) with (map iconst_to_json l); [reflexivity|];
     symmetry; apply map_ext_in; intros x Hx; rewrite Forall_forall in IH; apply IH; exact Hx).
Qed.
Print Assumptions to_json_tie.
