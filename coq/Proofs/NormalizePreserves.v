(* C05: composition of the normal-form well-formedness (NormalFormWf.v), the encoder-correctness
   theorem (EncodeCorrect.v) and the decoder-correctness theorem (DecodeView.v). *)
From Coq Require Import ZArith List Bool Lia.
From PCD Require Import Base.PyBase Base.Cfg Model.Args Model.Data Model.Consts Model.LineTable Model.Blocks
  Model.CodeData Spec.Lnotab Spec.Dis Model.ViewSer Proofs.C02_Statements Proofs.C01_Statements
  Proofs.C03_Statements Proofs.C03b_Statements Proofs.C03c_Statements Proofs.C06_Statements
  Proofs.DecodeView Proofs.EncodeCorrect Proofs.NormalFormWf.
From PCD Require Proofs.RoundTrip2.
Import ListNotations.
Open Scope Z_scope.

(* block_first_indices only depends on the block lengths *)
Lemma bfi_map {K L} (g : instr_ K -> instr_ L) (blocks : list (list (instr_ K))) i :
  block_first_indices (map (map g) blocks) i = block_first_indices blocks i.
Proof.
  revert i; induction blocks as [|b r IH]; intros i; cbn [map block_first_indices]; [reflexivity|].
  f_equal. unfold zlen. rewrite map_length. apply IH.
Qed.

(* the view of normalized blocks is the view of the blocks with constants normalized *)
Lemma data_view_normalize {K L} (f : K -> L) (blocks : list (list (instr_ K))) :
  data_view (map (map (map_instr_norm f)) blocks) = map_view f (data_view blocks).
Proof.
  unfold data_view, map_view. rewrite bfi_map, <- concat_map, !map_map.
  apply map_ext. intros i. unfold map_instr_norm. cbn [i_name i_arg i_line v_op v_val v_line].
  f_equal. destruct (i_arg i); reflexivity.
Qed.

Definition S_C05_view : Prop := forall c code ks d d' code',
  view_wf c code ks && ops_known c (co_code code) = true -> co_code code <> [] ->
  zlen (co_freevars code) < 1073741824 -> zlen (co_varnames code) < 1073741824 ->
  nodup_str (co_freevars code) = true ->
  (0 <=? cfg_extended_arg c) && (cfg_extended_arg c <? 256) = true ->
  decode_code c code ks = OK d ->
  mapM_cd (fun k' => match from_const c k' with OK p => OK (k', p) | Err e => Err e end) (normalize d) = OK d' ->
  encode_code c d' = OK code' ->
  zlen (co_code code') < 1073741824 ->
  (* the normal form reads as the original with constants normalized ... *)
  data_view (cd_blocks (normalize d))
  = map_view normalize_const
      (dis_view c (co_code code) (co_names code) (co_varnames code) (co_freevars code) (co_cellvars code)
                ks (raw_entries (co_linetable code)) (co_firstlineno code)) /\
  (* ... and CPython reads the re-encoded normal form as that same stream *)
  exists kst : list pconst,
    map snd kst = co_consts code' /\
    view_agrees pkey_eqb (data_view (cd_blocks d'))
      (dis_view c (co_code code') (co_names code') (co_varnames code') (co_freevars code')
                (co_cellvars code') kst (raw_entries (co_linetable code')) (co_firstlineno code')) = true /\
    co_freevars code' = co_freevars code /\ co_stacksize code' = co_stacksize code /\
    co_firstlineno code' = co_firstlineno code /\ co_name code' = co_name code /\
    co_filename code' = co_filename code.

Lemma decode_header c code ks d : decode_code c code ks = OK d ->
  cd_freevars d = co_freevars code /\ cd_stacksize d = co_stacksize code /\
  cd_firstline d = co_firstlineno code /\ cd_name d = co_name code /\ cd_filename d = co_filename code.
Proof.
  intros H. destruct (PCD.Proofs.RoundTrip2.decode_code_inv _ _ _ _ H)
    as (lm0 & fl0 & a & fl1 & bt & lm' & nl & lm'' & _ & _ & _ & _ & _ & _ & _ & Hd).
  rewrite Hd. cbn. repeat split; reflexivity.
Qed.

Lemma mapM_cd_header {C D} (f : C -> res D) (d : code_data_ C) d' : mapM_cd f d = OK d' ->
  cd_freevars d' = cd_freevars d /\ cd_stacksize d' = cd_stacksize d /\ cd_firstline d' = cd_firstline d
  /\ cd_name d' = cd_name d /\ cd_filename d' = cd_filename d.
Proof.
  unfold mapM_cd. intros H.
  destruct (mapM (mapM (mapM_instr f)) (cd_blocks d)); [|discriminate].
  destruct (mapM (mapM_arg f) (cd_addargs d)); [|discriminate].
  inversion H; subst; cbn; repeat split; reflexivity.
Qed.

Theorem C05_view : S_C05_view.
Proof.
  intros c code ks d d' code' Hwf Hne Hfv Hvn Hnd Hext Hdec Hpair Henc Hlen.
  assert (Hwf' := Hwf). apply andb_true_iff in Hwf' as [Hv Hops].
  split.
  - unfold normalize, map_cd_norm. cbn [cd_blocks].
    rewrite data_view_normalize. f_equal. exact (C02_view c code ks d Hv Hdec).
  - pose proof (C05_normal_form_wf_b c code ks d d' Hwf Hne Hfv Hvn Hnd Hdec Hpair Hext) as Hdw.
    destruct (C03_level c d' code' Hdw Henc Hlen)
      as (kst & Hk & Hview & _ & Hf & Hs & Hl & Hn & Hfn & _).
    destruct (decode_header _ _ _ _ Hdec) as (D1 & D2 & D3 & D4 & D5).
    destruct (mapM_cd_header _ _ _ Hpair) as (M1 & M2 & M3 & M4 & M5).
    unfold normalize, map_cd_norm in M1, M2, M3, M4, M5.
    cbn [cd_freevars cd_stacksize cd_firstline cd_name cd_filename] in M1, M2, M3, M4, M5.
    exists kst. split; [exact Hk|]. split; [exact Hview|].
    split; [exact (eq_trans Hf (eq_trans M1 D1))|].
    split; [exact (eq_trans Hs (eq_trans M2 D2))|].
    split; [exact (eq_trans Hl (eq_trans M3 D3))|].
    split; [exact (eq_trans Hn (eq_trans M4 D4))|].
    exact (eq_trans Hfn (eq_trans M5 D5)).
Qed.
Print Assumptions C05_view.
