(* C12: soundness of the static purity check of Model/HeapOps.v.
   A program accepted by [safe] never modifies an object that existed before it started. *)
From Coq Require Import List Bool Arith Lia.
Import ListNotations.
From PCD Require Import Model.HeapOps.

(** * Sanity examples *)
Example safe_ex1 : safe [0] [HFresh 1; HMutate 1] = true.
Proof. vm_compute. reflexivity. Qed.
Example safe_ex2 : safe [0] [HGet 1 0; HMutate 1] = false.
Proof. vm_compute. reflexivity. Qed.
Example safe_ex3 : safe [0] [HFresh 0; HLoop [HGet 1 1; HIf [HMutate 0] []]] = true.
Proof. vm_compute. reflexivity. Qed.
(* a variable that becomes an input alias in one iteration and is mutated in the next *)
Example safe_ex4 : safe [0] [HLoop [HIf [HMutate 1] []; HAlias 1 0]] = false.
Proof. vm_compute. reflexivity. Qed.

(** * Unfolding lemmas for [aexec] *)
(* the loop iteration of [aexec], as a top-level function *)
Definition iter (f : nat) (vars : list var) (body : list hop) : nat -> aenv -> bool * aenv :=
  fix it (n : nat) (cur : aenv) : bool * aenv :=
    match n with
    | O => (true, cur)
    | S n' =>
        let '(okb, eb) := aexec f vars body cur in
        if okb then it n' (ajoin vars cur eb) else (false, cur)
    end.

Lemma iter_0 : forall f vars body cur, iter f vars body 0 cur = (true, cur).
Proof. reflexivity. Qed.
Lemma iter_S : forall f vars body n cur,
  iter f vars body (S n) cur =
  let '(okb, eb) := aexec f vars body cur in
  if okb then iter f vars body n (ajoin vars cur eb) else (false, cur).
Proof. reflexivity. Qed.

Lemma aexec_nil : forall f vars e, aexec (S f) vars [] e = (true, e).
Proof. reflexivity. Qed.
Lemma aexec_fresh : forall f vars d r e,
  aexec (S f) vars (HFresh d :: r) e = aexec f vars r (aset e d true).
Proof. reflexivity. Qed.
Lemma aexec_alias : forall f vars d s r e,
  aexec (S f) vars (HAlias d s :: r) e = aexec f vars r (aset e d (alook e s)).
Proof. reflexivity. Qed.
Lemma aexec_get : forall f vars d s r e,
  aexec (S f) vars (HGet d s :: r) e = aexec f vars r (aset e d false).
Proof. reflexivity. Qed.
Lemma aexec_mutate : forall f vars t r e,
  aexec (S f) vars (HMutate t :: r) e = if alook e t then aexec f vars r e else (false, e).
Proof. reflexivity. Qed.
Lemma aexec_if : forall f vars a b r e,
  aexec (S f) vars (HIf a b :: r) e =
  let '(oka, ea) := aexec f vars a e in
  let '(okb, eb) := aexec f vars b e in
  if oka && okb then aexec f vars r (ajoin vars ea eb) else (false, e).
Proof. reflexivity. Qed.
Lemma aexec_loop : forall f vars body r e,
  aexec (S f) vars (HLoop body :: r) e =
  let '(okl, el) := iter f vars body (S (length vars)) (ajoin vars e e) in
  if okl then
    let '(okb, _) := aexec f vars body el in
    if okb then aexec f vars r el else (false, e)
  else (false, e).
Proof. reflexivity. Qed.

(** * Abstract environments *)
Lemma alook_map_in : forall (g : var -> bool) vars x,
  In x vars -> alook (map (fun y => (y, g y)) vars) x = g x.
Proof.
  induction vars as [|v vars IH]; intros x Hin; simpl in *.
  - contradiction.
  - destruct (Nat.eqb_spec v x) as [->|Hne]; [reflexivity|].
    apply IH. destruct Hin as [Hin|Hin]; [contradiction|exact Hin].
Qed.

Lemma alook_map_true : forall (g : var -> bool) vars x,
  alook (map (fun y => (y, g y)) vars) x = true -> In x vars /\ g x = true.
Proof.
  induction vars as [|v vars IH]; intros x H; simpl in *.
  - discriminate.
  - destruct (Nat.eqb_spec v x) as [->|Hne].
    + split; [left; reflexivity|exact H].
    + destruct (IH x H) as [Hin Hg]. split; [right; exact Hin|exact Hg].
Qed.

Lemma alook_ajoin_true : forall vars a b x,
  alook (ajoin vars a b) x = true -> In x vars /\ alook a x = true /\ alook b x = true.
Proof.
  intros vars a b x H. unfold ajoin in H.
  apply (alook_map_true (fun y => alook a y && alook b y)) in H.
  destruct H as [Hin H]. apply andb_true_iff in H. tauto.
Qed.

Lemma alook_ajoin_in : forall vars a b x,
  In x vars -> alook (ajoin vars a b) x = alook a x && alook b x.
Proof.
  intros vars a b x Hin. unfold ajoin.
  apply (alook_map_in (fun y => alook a y && alook b y)). exact Hin.
Qed.

(* environments of the form produced by [ajoin] *)
Definition canon (vars : list var) (cur : aenv) : Prop :=
  cur = map (fun x => (x, alook cur x)) vars.

Lemma canon_ajoin : forall vars a b, canon vars (ajoin vars a b).
Proof.
  intros vars a b. unfold canon. unfold ajoin at 1.
  apply map_ext_in. intros x Hin. rewrite alook_ajoin_in by exact Hin. reflexivity.
Qed.

Lemma canon_true_in : forall vars cur x, canon vars cur -> alook cur x = true -> In x vars.
Proof.
  intros vars cur x Hc H. rewrite Hc in H.
  apply (alook_map_true (fun y => alook cur y)) in H. tauto.
Qed.

(** * Counting *)
Lemma filter_length_le : forall (f g : var -> bool) l,
  (forall x, In x l -> g x = true -> f x = true) ->
  length (filter g l) <= length (filter f l).
Proof.
  induction l as [|v l IH]; intros Hle; simpl.
  - lia.
  - assert (IH' : length (filter g l) <= length (filter f l)).
    { apply IH. intros x Hin. apply Hle. right; exact Hin. }
    destruct (g v) eqn:Eg.
    + rewrite (Hle v (or_introl eq_refl) Eg). simpl. lia.
    + destruct (f v); simpl; lia.
Qed.

Lemma filter_length_lt : forall (f g : var -> bool) l,
  (forall x, In x l -> g x = true -> f x = true) ->
  (exists x, In x l /\ f x = true /\ g x = false) ->
  length (filter g l) < length (filter f l).
Proof.
  induction l as [|v l IH]; intros Hle [x [Hin [Hf Hg]]]; simpl in *.
  - contradiction.
  - assert (Hle' : forall y, In y l -> g y = true -> f y = true).
    { intros y Hy. apply Hle. right; exact Hy. }
    destruct Hin as [->|Hin].
    + rewrite Hf, Hg. simpl. pose proof (filter_length_le f g l Hle'). lia.
    + assert (IH' : length (filter g l) < length (filter f l)).
      { apply IH; [exact Hle'|]. exists x. tauto. }
      destruct (g v) eqn:Eg.
      * rewrite (Hle v (or_introl eq_refl) Eg). simpl. lia.
      * destruct (f v); simpl; lia.
Qed.

Lemma filter_length_bound : forall (f : var -> bool) l, length (filter f l) <= length l.
Proof.
  induction l as [|v l IH]; simpl; [lia|]. destruct (f v); simpl; lia.
Qed.

(** * The loop iteration reaches a fixpoint *)
Lemma iter_fix : forall f vars body cur eb n,
  aexec f vars body cur = (true, eb) ->
  ajoin vars cur eb = cur ->
  iter f vars body n cur = (true, cur).
Proof.
  intros f vars body cur eb n Ha Hj. induction n as [|n IH].
  - reflexivity.
  - rewrite iter_S. rewrite Ha. rewrite Hj. exact IH.
Qed.

Lemma iter_stable : forall f vars body n cur el,
  canon vars cur ->
  length (filter (alook cur) vars) < n ->
  iter f vars body n cur = (true, el) ->
  (forall x, alook el x = true -> alook cur x = true) /\
  (forall eb, aexec f vars body el = (true, eb) ->
              forall x, alook el x = true -> alook eb x = true).
Proof.
  intros f vars body n. induction n as [|n IH]; intros cur el Hc Hm Hi.
  - lia.
  - rewrite iter_S in Hi.
    destruct (aexec f vars body cur) as [okb eb] eqn:Ea.
    destruct okb; [|discriminate].
    destruct (forallb (fun x => implb (alook cur x) (alook eb x)) vars) eqn:Fa.
    + (* already stable *)
      assert (Hj : ajoin vars cur eb = cur).
      { rewrite Hc at 2. unfold ajoin. apply map_ext_in. intros x Hin.
        rewrite forallb_forall in Fa. specialize (Fa x Hin).
        destruct (alook cur x); simpl in *; [rewrite Fa|]; reflexivity. }
      rewrite Hj in Hi. rewrite (iter_fix f vars body cur eb n Ea Hj) in Hi.
      injection Hi as <-. split; [auto|].
      intros eb0 Ha0 x Hx. rewrite Ea in Ha0. injection Ha0 as <-.
      rewrite forallb_forall in Fa.
      specialize (Fa x (canon_true_in vars cur x Hc Hx)).
      rewrite Hx in Fa. exact Fa.
    + (* some variable drops *)
      assert (Hex : exists x, In x vars /\ alook cur x = true /\ alook eb x = false).
      { clear - Fa. induction vars as [|v vars IHv]; simpl in Fa; [discriminate|].
        apply andb_false_iff in Fa. destruct Fa as [Fa|Fa].
        - exists v. split; [left; reflexivity|].
          destruct (alook cur v); destruct (alook eb v); simpl in Fa;
            try discriminate; auto.
        - destruct (IHv Fa) as [x [Hin Hx]]. exists x. split; [right; exact Hin|exact Hx]. }
      assert (Hlt : length (filter (alook (ajoin vars cur eb)) vars)
                    < length (filter (alook cur) vars)).
      { apply filter_length_lt.
        - intros x Hin Hx. apply alook_ajoin_true in Hx. tauto.
        - destruct Hex as [x [Hin [Hx1 Hx2]]]. exists x. split; [exact Hin|].
          split; [exact Hx1|]. rewrite alook_ajoin_in by exact Hin.
          rewrite Hx1, Hx2. reflexivity. }
      destruct (IH (ajoin vars cur eb) el (canon_ajoin vars cur eb)) as [H1 H2];
        [lia|exact Hi|].
      split; [|exact H2].
      intros x Hx. apply H1 in Hx. apply alook_ajoin_true in Hx. tauto.
Qed.

(** * Concretisation *)
Definition okv (n0 : nat) (ae : aenv) (e : env) : Prop :=
  forall x a, alook ae x = true -> e x = Some a -> n0 <= a.

(* [h0] is the initial heap *)
Definition R (h0 : heap) (ae : aenv) (s : heap * env) : Prop :=
  length h0 <= length (fst s) /\
  firstn (length h0) (fst s) = h0 /\
  okv (length h0) ae (snd s).

Lemma R_mono : forall h0 ae ae' s,
  (forall x, alook ae' x = true -> alook ae x = true) ->
  R h0 ae s -> R h0 ae' s.
Proof.
  intros h0 ae ae' s Hle [Hl [Hf Hv]]. split; [exact Hl|]. split; [exact Hf|].
  intros x a Hx He. apply (Hv x a); [apply Hle; exact Hx|exact He].
Qed.

Lemma okv_upd : forall n0 ae e d b v,
  okv n0 ae e ->
  (b = true -> forall a, v = Some a -> n0 <= a) ->
  okv n0 (aset ae d b) (upd e d v).
Proof.
  intros n0 ae e d b v Hv Hb x a. unfold upd. simpl. rewrite (Nat.eqb_sym d x).
  destruct (Nat.eqb x d).
  - intros Hx Ha. exact (Hb Hx a Ha).
  - apply Hv.
Qed.

Lemma firstn_mutate : forall (A : Type) n0 a (h : list A) x,
  n0 <= a -> a < length h ->
  firstn n0 (firstn a h ++ [x] ++ skipn (S a) h) = firstn n0 h.
Proof.
  intros A n0 a h x Hle Hlt.
  rewrite firstn_app. rewrite firstn_firstn. rewrite firstn_length.
  replace (Nat.min n0 a) with n0 by lia.
  replace (n0 - Nat.min a (length h)) with 0 by lia.
  simpl. apply app_nil_r.
Qed.

Lemma length_mutate : forall (A : Type) a (h : list A) x,
  a < length h ->
  length (firstn a h ++ [x] ++ skipn (S a) h) = length h.
Proof.
  intros A a h x Hlt. rewrite !app_length, firstn_length, skipn_length. simpl. lia.
Qed.

Lemma step_sound : forall h0 ae s op s1,
  step s op s1 -> R h0 ae s ->
  match op with
  | HFresh d => R h0 (aset ae d true) s1
  | HAlias d src => R h0 (aset ae d (alook ae src)) s1
  | HGet d _ => R h0 (aset ae d false) s1
  | HMutate t => alook ae t = true -> R h0 ae s1
  | _ => True
  end.
Proof.
  intros h0 ae s op s1 Hs [Hl [Hf Hv]].
  destruct Hs as [h e dst items Hit | h e dst src | h e dst src a items item He Hn Hin
                 | h e dst src | h e target a items' He Ha Hit | h e target He];
    unfold R; cbn [fst snd] in *.
  - (* fresh *)
    split; [|split].
    + rewrite app_length. simpl. lia.
    + rewrite firstn_app. replace (length h0 - length h) with 0 by lia.
      simpl. rewrite app_nil_r. exact Hf.
    + apply okv_upd; [exact Hv|]. intros _ a Ha. injection Ha as <-. exact Hl.
  - (* alias *)
    split; [exact Hl|]. split; [exact Hf|].
    apply okv_upd; [exact Hv|]. intros Hb a Ha. exact (Hv src a Hb Ha).
  - (* get *)
    split; [exact Hl|]. split; [exact Hf|].
    apply okv_upd; [exact Hv|]. intros Hb. discriminate.
  - (* get, missing *)
    split; [exact Hl|]. split; [exact Hf|].
    apply okv_upd; [exact Hv|]. intros Hb. discriminate.
  - (* mutate *)
    intros Ht. pose proof (Hv target a Ht He) as Hge.
    split; [|split].
    + rewrite length_mutate by exact Ha. exact Hl.
    + rewrite firstn_mutate by assumption. exact Hf.
    + exact Hv.
  - (* mutate, unbound *)
    intros _. split; [exact Hl|]. split; [exact Hf|exact Hv].
Qed.

(** * Soundness of the abstract execution *)
Lemma loop_exec_sound : forall h0 body r el eb ae',
  (forall s s1, R h0 el s -> exec s body s1 -> R h0 eb s1) ->
  (forall s s', R h0 el s -> exec s r s' -> R h0 ae' s') ->
  (forall x, alook el x = true -> alook eb x = true) ->
  forall s s', exec s (HLoop body :: r) s' -> R h0 el s -> R h0 ae' s'.
Proof.
  intros h0 body r el eb ae' Hbody Hr Hstab s s' Hex.
  remember (HLoop body :: r) as p eqn:Hp.
  induction Hex as [s | s s1 s2 op r0 Hstep Hex IH | s s1 s2 a b r0 Hex1 IH1 Hex2 IH2
                   | s s1 s2 a b r0 Hex1 IH1 Hex2 IH2 | s s2 body0 r0 Hex IH
                   | s s1 s2 body0 r0 Hex1 IH1 Hex2 IH2];
    try discriminate Hp.
  - injection Hp as -> ->. inversion Hstep.
  - injection Hp as -> ->. intros HR. eapply Hr; eassumption.
  - injection Hp as -> ->. intros HR. apply IH2; [reflexivity|].
    eapply R_mono; [exact Hstab|]. eapply Hbody; eassumption.
Qed.

Lemma aexec_sound : forall h0 fuel vars p ae ae' s s',
  aexec fuel vars p ae = (true, ae') ->
  R h0 ae s -> exec s p s' -> R h0 ae' s'.
Proof.
  intros h0 fuel. induction fuel as [|f IH]; intros vars p ae ae' s s' Ha HR Hex.
  - simpl in Ha. discriminate.
  - destruct p as [|op r].
    + rewrite aexec_nil in Ha. injection Ha as <-. inversion Hex; subst. exact HR.
    + destruct op as [d | d src | d src | t | a b | body].
      * rewrite aexec_fresh in Ha. inversion Hex as [|? s1 ? ? ? Hstep Hex'| | | |]; subst.
        eapply IH; [exact Ha| |exact Hex'].
        exact (step_sound h0 ae _ _ _ Hstep HR).
      * rewrite aexec_alias in Ha. inversion Hex as [|? s1 ? ? ? Hstep Hex'| | | |]; subst.
        eapply IH; [exact Ha| |exact Hex'].
        exact (step_sound h0 ae _ _ _ Hstep HR).
      * rewrite aexec_get in Ha. inversion Hex as [|? s1 ? ? ? Hstep Hex'| | | |]; subst.
        eapply IH; [exact Ha| |exact Hex'].
        exact (step_sound h0 ae _ _ _ Hstep HR).
      * rewrite aexec_mutate in Ha. destruct (alook ae t) eqn:Et; [|discriminate].
        inversion Hex as [|? s1 ? ? ? Hstep Hex'| | | |]; subst.
        eapply IH; [exact Ha| |exact Hex'].
        exact (step_sound h0 ae _ _ _ Hstep HR Et).
      * rewrite aexec_if in Ha.
        destruct (aexec f vars a ae) as [oka ea] eqn:Ea.
        destruct (aexec f vars b ae) as [okb eb] eqn:Eb.
        destruct oka; destruct okb; simpl in Ha; try discriminate.
        inversion Hex as [|? s1 ? ? ? Hstep Hex'|? s1 ? ? ? ? Hex1 Hex2
                         |? s1 ? ? ? ? Hex1 Hex2| |]; subst.
        -- inversion Hstep.
        -- eapply IH; [exact Ha| |exact Hex2].
           eapply R_mono; [|eapply IH; [exact Ea|exact HR|exact Hex1]].
           intros x Hx. apply alook_ajoin_true in Hx. tauto.
        -- eapply IH; [exact Ha| |exact Hex2].
           eapply R_mono; [|eapply IH; [exact Eb|exact HR|exact Hex1]].
           intros x Hx. apply alook_ajoin_true in Hx. tauto.
      * rewrite aexec_loop in Ha.
        destruct (iter f vars body (S (length vars)) (ajoin vars ae ae)) as [okl el] eqn:Ei.
        destruct okl; [|discriminate].
        destruct (aexec f vars body el) as [okb eb] eqn:Eb.
        destruct okb; [|discriminate].
        destruct (iter_stable f vars body (S (length vars)) (ajoin vars ae ae) el
                    (canon_ajoin vars ae ae)) as [Hle Hstab].
        { pose proof (filter_length_bound (alook (ajoin vars ae ae)) vars). lia. }
        { exact Ei. }
        eapply (loop_exec_sound h0 body r el eb ae').
        -- intros s0 s1 HR0 Hex0. eapply IH; [exact Eb|exact HR0|exact Hex0].
        -- intros s0 s1 HR0 Hex0. eapply IH; [exact Ha|exact HR0|exact Hex0].
        -- exact (Hstab eb Eb).
        -- exact Hex.
        -- eapply R_mono; [|exact HR]. intros x Hx. apply Hle in Hx.
           apply alook_ajoin_true in Hx. tauto.
Qed.

(** * Main theorem *)
Lemma nth_error_firstn_lt : forall (A : Type) n (l : list A) a,
  a < n -> nth_error (firstn n l) a = nth_error l a.
Proof.
  induction n as [|n IH]; intros l a H.
  - lia.
  - destruct l as [|y l]; simpl; [reflexivity|].
    destruct a as [|a]; simpl; [reflexivity|]. apply IH. lia.
Qed.

(* strongest form: no side condition on the initial environment is needed, because every
   initially bound variable has abstract value false (parameters explicitly, others by default) *)
Theorem safe_sound_firstn : forall params p h e h' e',
  safe params p = true ->
  exec (h, e) p (h', e') ->
  length h <= length h' /\ firstn (length h) h' = h.
Proof.
  intros params p h e h' e' Hs Hex. unfold safe in Hs.
  destruct (aexec (size p * (length (params ++ vars_of p) + 4) + 8) (params ++ vars_of p) p
              (map (fun x => (x, false)) params)) as [ok ae'] eqn:Ea.
  simpl in Hs. subst ok.
  assert (HR : R h (map (fun x => (x, false)) params) (h, e)).
  { split; [simpl; lia|]. split; [simpl; apply firstn_all|].
    intros x a Hx. apply (alook_map_true (fun _ => false)) in Hx.
    destruct Hx as [_ Hx]. discriminate. }
  destruct (aexec_sound h _ _ _ _ _ _ _ Ea HR Hex) as [Hl [Hf _]].
  simpl in *. split; assumption.
Qed.

Theorem safe_sound : forall params p h e h' e',
  safe params p = true ->
  exec (h, e) p (h', e') ->
  length h <= length h' /\
  forall a, a < length h -> nth_error h' a = nth_error h a.
Proof.
  intros params p h e h' e' Hs Hex.
  destruct (safe_sound_firstn params p h e h' e' Hs Hex) as [Hl Hf].
  split; [exact Hl|]. intros a Ha.
  rewrite <- (nth_error_firstn_lt _ (length h) h' a Ha). rewrite Hf. reflexivity.
Qed.

(* the statement exactly as originally posed (both side conditions are superfluous) *)
Corollary safe_sound_as_posed : forall params p h e h' e',
  safe params p = true ->
  (forall x, ~ In x params -> e x = None) ->
  (forall x a, e x = Some a -> a < length h) ->
  exec (h, e) p (h', e') ->
  length h <= length h' /\
  forall a, a < length h -> nth_error h' a = nth_error h a.
Proof.
  intros params p h e h' e' Hs _ _ Hex. exact (safe_sound params p h e h' e' Hs Hex).
Qed.

Print Assumptions safe_sound_firstn.
Print Assumptions safe_sound.
Print Assumptions safe_sound_as_posed.
