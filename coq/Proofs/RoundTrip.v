(* C01 (K3): code -> data -> code is the identity on well-formed code objects, through all nesting
   levels.  Uses the proved components (EncodeValues, EncodeLines, FlagsProofs, ArgsProofs) and the
   general lemmas of RoundTrip1 (encoder simulation, table invariant) and RoundTrip2 (flags, header).

   The statements S_K3_level / S_C01 of C01_Statements.v are false as written (two counterexamples
   at the end of this file, checked by computation); the theorems here carry the additional boolean
   premise [rt_extra]. *)
From Coq Require Import ZArith List Bool Lia ZifyBool.
From PCD Require Import Base.PyBase Base.Cfg Model.Flags Model.Args Model.Data Model.Consts
  Model.LineTable Model.Blocks Model.CodeData Spec.Lnotab Spec.Dis Model.ViewSer
  Proofs.C02_Statements Proofs.C11_Statements Proofs.C01_Statements
  Proofs.FlagsProofs Proofs.ArgsProofs Proofs.RoundTrip1 Proofs.RoundTrip2.
From PCD Require Proofs.EncodeValues Proofs.EncodeLines Proofs.BlocksPartition Proofs.DecodeView
  Proofs.ConstsProofs Gen.Cfg37 Gen.Cfg38 Gen.Cfg39 Gen.Cfg310.
Import ListNotations. Open Scope Z_scope.
Ltac Zify.zify_post_hook ::= Z.to_euclidean_division_equations.

(** * The additional premise *)

(* (1) the parameters have names: CPython's constructor rejects a code object whose co_varnames is
       shorter than its parameter counts ("code: varnames is too small");
   (2) the interpreter's flag table has CO_NOFREE (types.CodeType sets or clears that bit itself). *)
Definition rt_extra (c : cfg) (code : pycode) : bool :=
  (co_argcount code + co_kwonlyargcount code <=? zlen (co_varnames code))
  && match flag_value (cfg_flags c) NOFREE with Some _ => true | None => false end.

Module BP := Proofs.BlocksPartition.
Module DV := Proofs.DecodeView.

(* ------------------------------------------------------------------ *)
(** * 1. Small facts *)

Lemma split_blocks_concat {C} T : forall (l : list (Z * instr_ C)) cur started blocks,
  split_blocks T l cur started = OK blocks -> (started = false -> cur = []) ->
  concat blocks = rev cur ++ map (retarget T) (map snd l).
Proof.
  induction l as [|[o i] r IH]; intros cur started blocks H Hc.
  - cbn [split_blocks] in H. inversion H; subst. cbn [map]. rewrite app_nil_r.
    destruct started; cbn [concat]; [now rewrite app_nil_r|]. now rewrite (Hc eq_refl).
  - cbn [split_blocks] in H. cbn [map snd]. destruct (zmem o T).
    + destruct (split_blocks T r [retarget T i] true) as [rest|] eqn:E; [|discriminate].
      apply IH in E; [|discriminate]. cbn [rev app] in E. inversion H; subst.
      destruct started; cbn [concat]; [now rewrite E|]. rewrite (Hc eq_refl). cbn [rev app]. exact E.
    + destruct started; [|discriminate]. apply IH in H; [|discriminate].
      rewrite H. cbn [rev]. now rewrite <- app_assoc.
Qed.

Lemma retarget_lineoffs {C} T (i : instr_ C) : i_lineoffs (retarget T i) = i_lineoffs i.
Proof. unfold retarget. destruct (i_arg i); reflexivity. Qed.

Lemma Forall2_map_self {A B} (R : B -> A -> Prop) (g : A -> B) (l : list A) :
  (forall x, R (g x) x) -> Forall2 R (map g l) l.
Proof. intros H. induction l; constructor; auto. Qed.

Lemma Forall2_combine_vals {C} (instrs : list (instr_ C)) (ps : list pinstr) :
  Forall2 (fun (i : instr_ C) (p : pinstr) =>
             i_name i = p_op p /\ n_units (i_nargs i) (p_arg p) = p_nargs p) instrs ps ->
  Forall2 (fun (iv : instr_ C * Z) (p : pinstr) => n_units (i_nargs (fst iv)) (snd iv) = p_nargs p)
          (combine instrs (map p_arg ps)) ps.
Proof. induction 1 as [|i p l ps [_ H] _ IH]; cbn [map combine]; constructor; auto. Qed.

Lemma Forall2_len {A B} (R : A -> B -> Prop) l l' : Forall2 R l l' -> length l = length l'.
Proof. induction 1; cbn; auto. Qed.

Ltac split_andb :=
  repeat match goal with
         | H : _ && _ = true |- _ => apply andb_true_iff in H; destruct H
         end.

(* ------------------------------------------------------------------ *)
(** * 2. The encoder on the decoded data (plain constants) *)

Record rt_facts (c : cfg) (code : pycode) (ks : list const) : Prop := {
  rf_ops : cfg_ops_wf c = true;
  rf_flags : flags_wf (cfg_flags c) = true;
  rf_code : code_ok c (co_code code) = true;
  rf_targets : targets_ok c (co_code code) (co_names code) (co_varnames code) (co_freevars code)
                 (co_cellvars code) ks = true;
  rf_table : rt_table_ok c (co_linetable code) (zlen (co_code code)) = true;
  rf_nlocals : co_nlocals code = zlen (co_varnames code);
  rf_stack : 0 <= co_stacksize code;
  rf_posonly : 0 <= co_posonlyargcount code <= co_argcount code;
  rf_kwonly : 0 <= co_kwonlyargcount code;
  rf_v38 : (if cfg_v38 c then co_posonlyargcount code else 0) = co_posonlyargcount code;
  rf_free : nodup_str (co_freevars code) = true;
  rf_names : names_ok (co_varnames code) = true;
  rf_parse : exists ps lm0,
      parse_bytes c (co_code code) 0 0 0 = OK ps /\
      to_line_mapping (cfg_v310 c) (co_linetable code) (zlen (co_code code)) = OK lm0 /\
      lines_on_instrs lm0 ps = true /\ minimal_widths c ps = true /\
      Forall (fun p => zmem (p_op p) (cfg_opcodes c) = true) ps /\ ps <> []
}.

Lemma rt_wf_facts c code ks : rt_wf c code ks = true -> rt_facts c code ks.
Proof.
  unfold rt_wf. intros H. split_andb.
  destruct (parse_bytes c (co_code code) 0 0 0) as [ps|] eqn:P; [|discriminate].
  destruct (to_line_mapping (cfg_v310 c) (co_linetable code) (zlen (co_code code))) as [lm0|] eqn:L;
    [|discriminate].
  split_andb.
  constructor; try assumption; try lia.
  - destruct (cfg_v38 c); [reflexivity|lia].
  - exists ps, lm0. repeat split; try assumption.
    + apply Forall_forall; apply forallb_forall; assumption.
    + destruct ps; [discriminate|discriminate].
Qed.

Lemma const_side c code ks bt a blocks addl lm0 lm' next_line lm'' :
  rt_facts c code ks ->
  tables_wf (co_varnames code) (co_freevars code) a = true ->
  bt_consistent bt a ks = true ->
  to_line_mapping (cfg_v310 c) (co_linetable code) (zlen (co_code code)) = OK lm0 ->
  bytes_to_blocks key_eqb c (co_code code) (modify_line_offsets lm0 (co_firstlineno code))
    (co_names code) (co_varnames code) (co_freevars code) (co_cellvars code) ks bt a
    = OK (blocks, addl, lm') ->
  pop_additional_line lm' (zlen (co_code code)) = OK (next_line, lm'') ->
  exists lm3,
    blocks_to_bytes key_eqb is_str_const (KInner INone) (fun s => KInner (IStr s)) c blocks addl
      (co_freevars code) bt
    = OK (co_code code, lm3, co_names code, co_varnames code, co_cellvars code, ks) /\
    from_line_mapping (cfg_v310 c)
      (modify_line_offsets
         (match next_line with
          | Some (l, offs) => add_additional_line lm3 l offs (zlen (co_code code))
          | None => lm3
          end) (- co_firstlineno code)) = OK (co_linetable code).
Proof.
  intros F Twf Bc L B PP. destruct F.
  destruct rf_parse0 as (ps & lm0' & P & L' & Hlines & Hmin & Hops & Hne).
  rewrite L in L'. inversion L'; subst lm0'. clear L'.
  destruct (EncodeValues.K3_values c _ _ _ _ _ _ ks bt a blocks addl lm' ps rf_ops0 rf_code0 rf_targets0
              Twf Bc P Hmin B) as (st & Hev & Tn & Tv & Tc & Tk & HF).
  destruct (EncodeLines.K3_bytes const c (co_code code) ps (concat blocks) empty_linemap rf_code0 P Hops HF)
    as [lm3 Has].
  exists lm3. split.
  - rewrite EncodeValues.blocks_to_bytes_halves, Hev, Has, Tn, Tv, Tc, Tk. reflexivity.
  - destruct (BP.bytes_to_blocks_partition key_eqb c _ _ _ _ _ _ _ _ _ _ _ _ B)
      as (ps' & ois & st1 & st2 & P' & D & _ & _ & _ & S & _).
    rewrite P in P'. inversion P'; subst ps'. clear P'.
    apply split_blocks_concat in S; [|reflexivity]. cbn [rev app] in S.
    eapply (EncodeLines.K3_lines const key_eqb c (co_code code) (co_linetable code) (co_firstlineno code)
              lm0 ps (co_freevars code) st1 ois lm' st2 next_line lm'' (concat blocks) (map p_arg ps)
              (co_code code) lm3); try eassumption.
    + rewrite S, map_map. apply Forall2_map_self. intros [o i]. cbn [snd].
      split; [apply DV.retarget_line|apply retarget_lineoffs].
    + apply Forall2_combine_vals. exact HF.
    + rewrite map_length. symmetry. eapply Forall2_len. exact HF.
Qed.

(* ------------------------------------------------------------------ *)
(** * 3. mapM over the data classes *)

Lemma mapM_cons {A B} (h : A -> res B) x xs :
  mapM h (x :: xs) = match h x with
                     | Err e => Err e
                     | OK y => match mapM h xs with Err e => Err e | OK ys => OK (y :: ys) end
                     end.
Proof. reflexivity. Qed.

Lemma mapM_Forall2 {A B} (h : A -> res B) : forall l l',
  mapM h l = OK l' -> Forall2 (fun x y => h x = OK y) l l'.
Proof.
  induction l as [|x l IH]; intros l' H.
  - inversion H. constructor.
  - rewrite mapM_cons in H. destruct (h x) as [y|] eqn:E; [|discriminate].
    destruct (mapM h l) as [ys|] eqn:E2; [|discriminate]. inversion H; subst. constructor; auto.
Qed.

Lemma mapM_ok {A B} (h : A -> res B) : forall l,
  Forall (fun x => exists y, h x = OK y) l -> exists l', mapM h l = OK l'.
Proof.
  induction l as [|x l IH]; intros H; [exists []; reflexivity|].
  inversion H as [|? ? [y Hy] Hl]; subst. destruct (IH Hl) as [l' E]. exists (y :: l').
  rewrite mapM_cons, Hy, E. reflexivity.
Qed.

Section PairFacts.
  Context {C D : Type} (g : C -> res D) (f : D -> C) (P : D -> Prop).
  Hypothesis Hg : forall k k', g k = OK k' -> f k' = k /\ P k'.

  Lemma mapM_arg_facts a a' : mapM_arg g a = OK a' -> amap f a' = a /\ arg_all P a'.
  Proof.
    destruct a; cbn [mapM_arg]; intros H; try (inversion H; subst; split; [reflexivity|exact I]).
    destruct (g c) as [k'|] eqn:E; [|discriminate]. inversion H; subst. cbn [amap arg_all].
    destruct (Hg _ _ E) as [-> Hp]. split; [reflexivity|exact Hp].
  Qed.

  Lemma mapM_instr_facts i i' : mapM_instr g i = OK i' -> imap f i' = i /\ arg_all P (i_arg i').
  Proof.
    unfold mapM_instr. destruct (mapM_arg g (i_arg i)) as [a'|] eqn:E; [|discriminate].
    intros H. inversion H; subst. cbn [i_arg]. destruct (mapM_arg_facts _ _ E) as [Ea Hp].
    split; [|exact Hp]. unfold imap. cbn [i_name i_arg i_nargs i_line i_lineoffs]. rewrite Ea.
    destruct i; reflexivity.
  Qed.

  Lemma mapM_instrs_facts : forall l l', mapM (mapM_instr g) l = OK l' ->
    map (imap f) l' = l /\ Forall (fun i : instr_ D => arg_all P (i_arg i)) l'.
  Proof.
    intros l l' H. apply mapM_Forall2 in H. induction H as [|x y l l' Hxy _ [IH1 IH2]].
    - split; [reflexivity|constructor].
    - destruct (mapM_instr_facts _ _ Hxy) as [E Hp]. cbn [map]. rewrite E, IH1.
      split; [reflexivity|constructor; assumption].
  Qed.

  Lemma mapM_blocks_facts : forall bl bl', mapM (mapM (mapM_instr g)) bl = OK bl' ->
    map (map (imap f)) bl' = bl /\ Forall (fun i : instr_ D => arg_all P (i_arg i)) (concat bl').
  Proof.
    intros bl bl' H. apply mapM_Forall2 in H. induction H as [|x y l l' Hxy _ [IH1 IH2]].
    - split; [reflexivity|constructor].
    - destruct (mapM_instrs_facts _ _ Hxy) as [E Hp]. cbn [map concat]. rewrite E, IH1.
      split; [reflexivity|]. apply Forall_app. split; assumption.
  Qed.

  Lemma mapM_args_facts : forall l l', mapM (mapM_arg g) l = OK l' ->
    map (amap f) l' = l /\ Forall (arg_all P) l'.
  Proof.
    intros l l' H. apply mapM_Forall2 in H. induction H as [|x y l l' Hxy _ [IH1 IH2]].
    - split; [reflexivity|constructor].
    - destruct (mapM_arg_facts _ _ Hxy) as [E Hp]. cbn [map]. rewrite E, IH1.
      split; [reflexivity|constructor; assumption].
  Qed.
End PairFacts.

Section MapMOk.
  Context {C D : Type} (g : C -> res D) (Q : C -> Prop).
  Hypothesis Hq : forall k, Q k -> exists k', g k = OK k'.

  Lemma mapM_arg_ok a : arg_all Q a -> exists a', mapM_arg g a = OK a'.
  Proof.
    destruct a; cbn [mapM_arg arg_all]; intros H; try (eexists; reflexivity).
    destruct (Hq _ H) as [k' ->]. eexists; reflexivity.
  Qed.

  Lemma mapM_instr_ok i : arg_all Q (i_arg i) -> exists i', mapM_instr g i = OK i'.
  Proof. intros H. unfold mapM_instr. destruct (mapM_arg_ok _ H) as [a' ->]. eexists; reflexivity. Qed.

  Lemma mapM_cd_ok (d : code_data_ C) :
    Forall (fun i : instr_ C => arg_all Q (i_arg i)) (concat (cd_blocks d)) ->
    Forall (arg_all Q) (cd_addargs d) -> exists d', mapM_cd g d = OK d'.
  Proof.
    intros Hb Ha. unfold mapM_cd.
    assert (Eb : exists bl', mapM (mapM (mapM_instr g)) (cd_blocks d) = OK bl').
    { apply mapM_ok. induction (cd_blocks d) as [|b r IH]; [constructor|].
      cbn [concat] in Hb. apply Forall_app in Hb as [H1 H2]. constructor; [|now apply IH].
      apply mapM_ok. eapply Forall_impl; [|exact H1]. intros i Hi. now apply mapM_instr_ok. }
    destruct Eb as [bl' ->].
    assert (Ea : exists aa, mapM (mapM_arg g) (cd_addargs d) = OK aa).
    { apply mapM_ok. eapply Forall_impl; [|exact Ha]. intros a Hq'. now apply mapM_arg_ok. }
    destruct Ea as [aa ->]. eexists; reflexivity.
  Qed.
End MapMOk.

(* ------------------------------------------------------------------ *)
(** * 4. One level *)

Definition enc_ok (c : cfg) (kp : pconst) : Prop := from_const c (fst kp) = OK (snd kp).

Lemma snd_table c : forall (kst : list pconst) consts,
  Forall (enc_ok c) kst -> Forall2 (fun k p => from_const c k = OK p) (map fst kst) consts ->
  map snd kst = consts.
Proof.
  induction kst as [|kp kst IH]; intros consts HP HF; cbn [map] in *.
  - inversion HF. reflexivity.
  - inversion HF; subst. inversion HP; subst. cbn [map]. f_equal; [|now apply IH].
    unfold enc_ok in *. congruence.
Qed.

Theorem K3_level_x : forall c code ks d d',
  rt_wf c code ks && rt_extra c code = true ->
  decode_code c code ks = OK d ->
  Forall2 (fun k p => from_const c k = OK p) ks (co_consts code) ->
  mapM_cd (fun k' => match from_const c k' with OK p => OK (k', p) | Err e => Err e end) d = OK d' ->
  encode_code c d' = OK code.
Proof.
  intros c code ks d d' Hwf Hdec Hks Hmap.
  apply andb_true_iff in Hwf as [Hwf Hx]. pose proof (rt_wf_facts _ _ _ Hwf) as F.
  unfold rt_extra in Hx. apply andb_true_iff in Hx as [Hx1 Hx2].
  destruct (flag_value (cfg_flags c) NOFREE) as [nf|] eqn:Hnf; [|discriminate]. clear Hx2.
  destruct (decode_code_inv _ _ _ _ Hdec)
    as (lm0 & fl0 & a & fl1 & bt & lm' & next_line & lm'' & L & Fl & A & N & B & BB & PP & Ed).
  rewrite (rf_v38 _ _ _ F) in A.
  assert (Hx1' : co_argcount code + co_kwonlyargcount code <= zlen (co_varnames code)) by lia.
  destruct (args_decode_facts _ _ _ _ _ _ _ (co_freevars code) (rf_posonly _ _ _ F) (rf_kwonly _ _ _ F)
              Hx1' (rf_names _ _ _ F) (rf_free _ _ _ F) A)
    as (Ht & Hlen & Hvn & Hfl1 & Hac & Hpo & Hkw & Hvp & Hvk & Twf).
  pose proof (decode_bt_consistent _ _ _ _ _ B) as Bc.
  destruct (const_side _ _ _ _ _ _ _ _ _ _ _ F Twf Bc L BB PP) as (lm3 & Hbb & Hlines).
  (* flags *)
  assert (Hz : args_len a = 0 -> str_truthy (a_varpos a) = false /\ str_truthy (a_varkw a) = false).
  { intros Z0. rewrite Hlen in Z0. rewrite Hvp, Hvk.
    pose proof (rf_posonly _ _ _ F). pose proof (rf_kwonly _ _ _ F).
    destruct (flag_mem VARARGS fl0), (flag_mem VARKEYWORDS fl0); split; try reflexivity; lia. }
  subst fl1.
  pose proof (flags_equiv a ks fl0 bt _ _ (eq_sym Hvp) (eq_sym Hvk) Hz B) as Heq. cbv zeta in Heq.
  pose proof (from_to_flags c _ _ (rf_flags _ _ _ F) Fl) as Hff.
  pose proof (ffd_set_eq c _ _ _ Heq Hff) as Hflags.
  pose proof (ffd_nonneg c fl0 (rf_flags _ _ _ F) _ Hff) as Hfnn.
  assert (Hnfm : flag_mem NOFREE (flag_remove VARKEYWORDS (flag_remove VARARGS fl0)) = flag_mem NOFREE fl0).
  { rewrite !flag_mem_remove_other by reflexivity. reflexivity. }
  (* the paired data *)
  set (g := fun k' : const => match from_const c k' with OK p => OK (k', p) | Err e => Err e end) in *.
  assert (Hg : forall k k', g k = OK k' -> fst k' = k /\ enc_ok c k').
  { intros k k' E. unfold g in E. destruct (from_const c k) as [p|] eqn:Ek; [|discriminate].
    inversion E; subst. split; [reflexivity|exact Ek]. }
  unfold mapM_cd in Hmap.
  destruct (mapM (mapM (mapM_instr g)) (cd_blocks d)) as [bl'|] eqn:Mb; [|discriminate].
  destruct (mapM (mapM_arg g) (cd_addargs d)) as [aa'|] eqn:Ma; [|discriminate].
  inversion Hmap; subst d'. clear Hmap.
  destruct (mapM_blocks_facts g fst (enc_ok c) Hg _ _ Mb) as [Eb Pb].
  destruct (mapM_args_facts g fst (enc_ok c) Hg _ _ Ma) as [Ea Pa].
  (* the encoder on the paired data *)
  pose proof (blocks_to_bytes_map fst pkey_eqb key_eqb (fun k : pconst => is_str_const (fst k)) is_str_const
                (KInner INone, PInner INone) (KInner INone)
                (fun s => (KInner (IStr s), PInner (IStr s))) (fun s => KInner (IStr s))
                (fun x y => eq_refl) (fun x => eq_refl) eq_refl (fun s => eq_refl)
                c bl' aa' (co_freevars code) bt) as Sim.
  rewrite Eb, Ea, Hbb in Sim.
  match type of Sim with _ = rmap _ ?X =>
    destruct X as [[[[[[code' lmx] n'] v'] cv'] kst]|] eqn:Ebb; cbn [rmap] in Sim; [|discriminate] end.
  cbv beta iota zeta in Sim.
  injection Sim as S1 S2 S3 S4 S5 S6. subst code' lmx n' v' cv'.
  assert (Pk : Forall (enc_ok c) kst).
  { eapply (blocks_to_bytes_consts_all pkey_eqb (fun k : pconst => is_str_const (fst k))
              (KInner INone, PInner INone) (fun s => (KInner (IStr s), PInner (IStr s))) (enc_ok c));
      [reflexivity|intros s; reflexivity|exact Pb|exact Pa|exact Ebb]. }
  assert (Hconsts : map snd kst = co_consts code).
  { apply (snd_table c); [exact Pk|]. rewrite <- S6. exact Hks. }
  rewrite Ed. cbn [cd_filename cd_firstline cd_name cd_stacksize cd_type cd_freevars cd_future_annotations
                   cd_nested cd_addline].
  unfold encode_code.
  cbn [cd_blocks cd_addargs cd_filename cd_firstline cd_name cd_stacksize cd_type cd_freevars
       cd_future_annotations cd_nested cd_addline].
  match goal with |- match ?X with _ => _ end = _ =>
    assert (EX : X = OK (co_code code, lm3, co_names code, co_varnames code, co_cellvars code, kst))
      by exact Ebb; rewrite EX; clear EX end.
  set (vpb := str_truthy (a_varpos a)) in *. set (vkb := str_truthy (a_varkw a)) in *.
  (* counts *)
  match goal with |- match ?X with _ => _ end = _ =>
    assert (Hargs : X = OK (co_argcount code, co_posonlyargcount code, co_kwonlyargcount code,
                            enc_fn_flags bt vpb vkb)) end.
  { destruct (decode_bt_shape _ _ _ _ _ B) as [[-> Z0]|[doc [tp ->]]].
    - cbn [enc_fn_flags]. rewrite Hlen in Z0.
      pose proof (rf_posonly _ _ _ F). pose proof (rf_kwonly _ _ _ F).
      assert (co_argcount code = 0 /\ co_posonlyargcount code = 0 /\ co_kwonlyargcount code = 0)
        as (-> & -> & ->)
        by (destruct (flag_mem VARARGS fl0), (flag_mem VARKEYWORDS fl0); lia).
      reflexivity.
    - cbn [fn_args fn_type]. unfold args_to_input. cbv beta iota zeta.
      rewrite Hvn.
      set (total := co_argcount code + co_kwonlyargcount code + (if flag_mem VARARGS fl0 then 1 else 0)
                    + (if flag_mem VARKEYWORDS fl0 then 1 else 0)) in *.
      assert (Htot : 0 <= total).
      { pose proof (rf_posonly _ _ _ F). pose proof (rf_kwonly _ _ _ F). subst total.
        destruct (flag_mem VARARGS fl0), (flag_mem VARKEYWORDS fl0); lia. }
      assert (Hzt : zlen (take total (co_varnames code)) = total).
      { unfold zlen, take in *. rewrite firstn_length. lia. }
      rewrite Hzt. rewrite (proj2 (ConstsProofs.strlist_eqb_spec _ _) eq_refl).
      rewrite Hac, Hpo, Hkw. reflexivity. }
  rewrite Hargs. clear Hargs.
  (* flags *)
  match goal with |- match from_flags_data c ?X with _ => _ end = _ =>
    replace X with (enc_flags bt vpb vkb
                      (flag_mem NOFREE (flag_remove VARKEYWORDS (flag_remove VARARGS fl0)))
                      (flag_mem F_annotations (flag_remove NOFREE (flag_remove VARKEYWORDS (flag_remove VARARGS fl0))))
                      (flag_mem NESTED (flag_remove F_annotations (flag_remove NOFREE (flag_remove VARKEYWORDS (flag_remove VARARGS fl0))))))
  end.
  2:{ unfold enc_flags. cbv zeta. rewrite N.
      destruct (co_freevars code), (co_cellvars code); reflexivity. }
  rewrite Hflags.
  (* lines *)
  match goal with |- match from_line_mapping _ ?X with _ => _ end = _ =>
    assert (Hl : from_line_mapping (cfg_v310 c) X = OK (co_linetable code))
      by (destruct next_line as [[l offs]|]; exact Hlines) end.
  rewrite Hl. clear Hl.
  (* the constructor *)
  assert (Hv38 : negb (cfg_v38 c) && negb (co_posonlyargcount code =? 0) = false).
  { pose proof (rf_v38 _ _ _ F) as V. destruct (cfg_v38 c); [reflexivity|]. rewrite <- V. reflexivity. }
  rewrite Hv38. unfold pycode_new.
  pose proof (rf_posonly _ _ _ F). pose proof (rf_kwonly _ _ _ F). pose proof (rf_stack _ _ _ F).
  pose proof (zlen_nonneg (co_varnames code)).
  match goal with |- (if ?b then _ else _) = _ => assert (Hb : b = false) by lia; rewrite Hb; clear Hb end.
  rewrite Hnf. cbv zeta.
  assert (Hfl' : (if match co_freevars code, co_cellvars code with [], [] => true | _, _ => false end
                  then Z.lor (co_flags code) nf else Z.land (co_flags code) (Z.lnot nf)) = co_flags code).
  { rewrite <- N, Hnfm. destruct (flag_mem NOFREE fl0) eqn:En.
    - exact (nofree_bit_set c fl0 _ nf (rf_flags _ _ _ F) Hff Hnf En).
    - exact (nofree_bit_clear c fl0 _ nf (rf_flags _ _ _ F) Hff Hnf En). }
  rewrite Hfl', Hconsts. f_equal. rewrite <- (rf_nlocals _ _ _ F). destruct code; reflexivity.
Qed.

(* ------------------------------------------------------------------ *)
(** * 5. Every constant of the decoded data is an entry of the constants table *)

Lemma py_index_In {A} (l : list A) i a : py_index l i = Some a -> In a l.
Proof.
  unfold py_index, znth. intros H.
  destruct (i <? 0).
  - destruct (- i <=? zlen l); [|discriminate]. destruct (zlen l + i <? 0); [discriminate|].
    eapply nth_error_In; exact H.
  - eapply nth_error_In; exact H.
Qed.

Lemma found_index_In {T} (keq : T -> T -> bool) st i a ov st' :
  found_index keq st i = OK (a, ov, st') -> In a (ta_args st) /\ ta_args st' = ta_args st.
Proof.
  intros H. apply DV.found_index_spec in H as [H1 H2]. split; [eapply py_index_In; exact H1|exact H2].
Qed.

Section ConstsIn.
  Context {C : Type} (keq : C -> C -> bool).

  Lemma to_arg_consts c op a nx fv (st : decstate C) parg st1 :
    to_arg keq c op a nx fv st = OK (parg, st1) ->
    ta_args (d_consts st1) = ta_args (d_consts st) /\
    arg_all (fun k => In k (ta_args (d_consts st))) parg.
  Proof.
    unfold to_arg. intros H.
    destruct (zmem op (cfg_hasjabs c)); [inversion H; subst; split; [reflexivity|exact I]|].
    destruct (zmem op (cfg_hasjrel c)); [inversion H; subst; split; [reflexivity|exact I]|].
    destruct (zmem op (cfg_hasname c)).
    { destruct (found_index str_eqb (d_names st) a) as [[[s ov] t]|]; [|discriminate].
      inversion H; subst. split; [reflexivity|exact I]. }
    destruct (zmem op (cfg_haslocal c)).
    { destruct (found_index str_eqb (d_varnames st) a) as [[[s ov] t]|]; [|discriminate].
      inversion H; subst. split; [reflexivity|exact I]. }
    destruct (zmem op (cfg_hasfree c)).
    { destruct (a <? zlen (ta_args (d_cellvars st))).
      - destruct (found_index str_eqb (d_cellvars st) a) as [[[s ov] t]|]; [|discriminate].
        inversion H; subst. split; [reflexivity|exact I].
      - destruct (py_index fv (a - zlen (ta_args (d_cellvars st)))); [|discriminate].
        inversion H; subst. split; [reflexivity|exact I]. }
    destruct (zmem op (cfg_hasconst c)).
    { destruct (found_index keq (d_consts st) a) as [[[k ov] t]|] eqn:E; [|discriminate].
      inversion H; subst. apply found_index_In in E as [E1 E2]. cbn [d_consts arg_all].
      split; assumption. }
    destruct (op <? cfg_have_argument c); inversion H; subst; split; try reflexivity; exact I.
  Qed.

  Lemma decode_instrs_consts c : forall ps fv lm (st : decstate C) ois lm' st',
    decode_instrs keq c ps fv lm st = OK (ois, lm', st') ->
    ta_args (d_consts st') = ta_args (d_consts st) /\
    Forall (fun oi : Z * instr_ C => arg_all (fun k => In k (ta_args (d_consts st))) (i_arg (snd oi))) ois.
  Proof.
    induction ps as [|[[[[op a] n] off] nx] r IH]; intros fv lm st ois lm' st' H.
    - cbn [decode_instrs] in H. inversion H; subst. split; [reflexivity|constructor].
    - cbn [decode_instrs] in H.
      destruct (to_arg keq c op a nx fv st) as [[parg st1]|] eqn:T; [|discriminate].
      destruct (oget (lm_lines lm) off) as [line|]; [|discriminate].
      match type of H with
      | match ?X with _ => _ end = _ => destruct X as [[[rest lm1] st2]|] eqn:Er; [|discriminate]
      end.
      inversion H; subst. apply to_arg_consts in T as [T1 T2]. apply IH in Er as [E1 E2].
      rewrite T1 in E1, E2. split; [exact E1|]. constructor; [exact T2|exact E2].
  Qed.

  Lemma retarget_arg_all (Q : C -> Prop) T (i : instr_ C) :
    arg_all Q (i_arg i) -> arg_all Q (i_arg (retarget T i)).
  Proof. unfold retarget. destruct (i_arg i) eqn:E; cbn [i_arg]; try rewrite E; auto. Qed.

  Lemma additional_args_from_In : forall idxs (st : toargs C) l,
    additional_args_from keq st idxs = OK l -> Forall (fun p : C * option Z => In (fst p) (ta_args st)) l.
  Proof.
    induction idxs as [|i r IH]; intros st l H; cbn [additional_args_from] in H.
    - inversion H. constructor.
    - destruct (omem (ta_order st) i); [now apply IH|].
      destruct (found_index keq st i) as [[[a ov] st']|] eqn:E; [|discriminate].
      destruct (additional_args_from keq st' r) as [rest|] eqn:R; [|discriminate].
      inversion H; subst. apply found_index_In in E as [E1 E2]. apply IH in R. rewrite E2 in R.
      constructor; [exact E1|exact R].
  Qed.

  Lemma bytes_to_blocks_consts_in c b lm names varnames freevars cellvars (ks : list C) bt a blocks addl lm' :
    bytes_to_blocks keq c b lm names varnames freevars cellvars ks bt a = OK (blocks, addl, lm') ->
    Forall (fun i : instr_ C => arg_all (fun k => In k ks) (i_arg i)) (concat blocks) /\
    Forall (arg_all (fun k => In k ks)) addl.
  Proof.
    unfold bytes_to_blocks. cbv zeta. cbn [d_consts d_names d_varnames d_cellvars]. intros H.
    match type of H with
    | match ?X with _ => _ end = _ => destruct X as [st1|] eqn:Est; [|discriminate]
    end.
    assert (H1 : ta_args (d_consts st1) = ks).
    { destruct (has_docstring bt).
      - destruct (found_index keq (toargs_init ks 0) 0) as [[[x ov] t]|] eqn:E; [|discriminate].
        inversion Est; subst. apply found_index_In in E as [_ E]. exact E.
      - inversion Est; subst. reflexivity. }
    destruct (parse_bytes c b 0 0 0) as [ps|]; [|discriminate].
    destruct (decode_instrs keq c ps freevars lm st1) as [[[ois lm1] st2]|] eqn:Ed; [|discriminate].
    destruct (split_blocks (sorted_set (0 :: jump_targets ois)) ois [] false) as [blocks0|] eqn:Es; [|discriminate].
    destruct (additional_args str_eqb (d_names st2)) as [an|]; [|discriminate].
    destruct (additional_args str_eqb (d_varnames st2)) as [av|]; [|discriminate].
    destruct (additional_args str_eqb (d_cellvars st2)) as [ac|]; [|discriminate].
    destruct (additional_args keq (d_consts st2)) as [ak|] eqn:Ak; [|discriminate].
    injection H as Hb Ha Hl. subst blocks addl lm'.
    apply decode_instrs_consts in Ed as [E1 E2]. rewrite H1 in E1, E2.
    apply split_blocks_concat in Es; [|reflexivity]. cbn [rev app] in Es. split.
    - rewrite Es, map_map. apply Forall_forall. intros i Hi. apply in_map_iff in Hi as [oi [<- Hoi]].
      apply retarget_arg_all. rewrite Forall_forall in E2. now apply E2.
    - unfold additional_args in Ak. apply additional_args_from_In in Ak. rewrite E1 in Ak.
      unfold arg_of_additional. rewrite !Forall_app. repeat split;
        try (apply Forall_forall; intros x Hx; apply in_map_iff in Hx as [p [<- _]]; exact I).
      apply Forall_forall. intros x Hx. apply in_map_iff in Hx as [p [<- Hp]]. cbn [arg_all].
      rewrite Forall_forall in Ak. now apply Ak.
  Qed.
End ConstsIn.

(* ------------------------------------------------------------------ *)
(** * 6. All nesting levels *)

Section PyconstInd.
  Context (P : pyconst -> Prop).
  Context (HInner : forall i, P (PInner i)).
  Context (HCode : forall code, Forall P (co_consts code) -> P (PCode code)).

  Fixpoint pyconst_ind' (k : pyconst) : P k :=
    match k as k0 return P k0 with
    | PInner i => HInner i
    | PCode code =>
        HCode code
          (match code as c0 return Forall P (co_consts c0) with
           | mkCode _ _ _ _ _ _ _ consts _ _ _ _ _ _ _ _ =>
               (fix go (l : list pyconst) : Forall P l :=
                  match l with
                  | [] => Forall_nil P
                  | x :: xs => Forall_cons x (pyconst_ind' x) (go xs)
                  end) consts
           end)
    end.
End PyconstInd.

(* the additional premise at every nesting level *)
Fixpoint rt_extra_deep (c : cfg) (k : pyconst) : bool :=
  match k with
  | PInner _ => true
  | PCode code =>
      rt_extra c code
      && (fix all (l : list pyconst) : bool :=
            match l with [] => true | x :: r => rt_extra_deep c x && all r end) (co_consts code)
  end.

Lemma all_fix_Forall (f : pyconst -> bool) : forall l,
  (fix all (l : list pyconst) : bool := match l with [] => true | x :: r => f x && all r end) l = true ->
  Forall (fun x => f x = true) l.
Proof.
  induction l as [|x l IH]; intros H; [constructor|].
  apply andb_true_iff in H as [H1 H2]. constructor; [exact H1|now apply IH].
Qed.

Lemma Forall2_In_r {A B} (R : A -> B -> Prop) l l' y : Forall2 R l l' -> In y l' -> exists x, R x y.
Proof.
  induction 1 as [|a b l l' Hab _ IH]; intros Hin; [destruct Hin|].
  destruct Hin as [<-|Hin]; [eauto|auto].
Qed.

Lemma deep_roundtrip c : forall k,
  rt_wf_deep c k = true -> rt_extra_deep c k = true ->
  forall k', to_const c k = OK k' -> from_const c k' = OK k.
Proof.
  induction k as [i|code IH] using pyconst_ind'; intros Hwf Hx k' Hto.
  - cbn [to_const] in Hto. inversion Hto; subst. reflexivity.
  - cbn [rt_wf_deep] in Hwf. cbn [rt_extra_deep] in Hx. cbn [to_const] in Hto.
    destruct (mapM (to_const c) (co_consts code)) as [ks|] eqn:M; [|discriminate].
    apply andb_true_iff in Hwf as [Hwf Hall]. apply andb_true_iff in Hx as [Hx Hxall].
    apply all_fix_Forall in Hall. apply all_fix_Forall in Hxall.
    destruct (decode_code c code ks) as [d|] eqn:D; [|discriminate]. inversion Hto; subst k'. clear Hto.
    (* the constants re-encode to the originals *)
    assert (Hks : Forall2 (fun k p => from_const c k = OK p) ks (co_consts code)).
    { apply mapM_Forall2 in M. clear D Hwf Hx.
      induction M as [|p k ps ks' Hpk _ IHM]; [constructor|].
      inversion IH; subst. inversion Hall; subst. inversion Hxall; subst.
      constructor; [auto|]. apply IHM; assumption. }
    (* pairing succeeds: every constant of d is in ks *)
    destruct (decode_code_inv _ _ _ _ D)
      as (lm0 & fl0 & a & fl1 & bt & lm' & next_line & lm'' & _ & _ & _ & _ & _ & BB & _ & _).
    destruct (bytes_to_blocks_consts_in _ _ _ _ _ _ _ _ _ _ _ _ _ _ BB) as [Cb Ca].
    destruct (mapM_cd_ok (fun k' : const => match from_const c k' with OK p => OK (k', p) | Err e => Err e end)
                (fun k => In k ks)) with (d := d) as [d' Hd'].
    { intros k Hk. apply In_nth_error in Hk as [n Hn].
      assert (exists p, from_const c k = OK p) as [p Hp].
      { clear - Hks Hn. revert n Hn. induction Hks as [|k0 p0 ks' ps' H0 _ IHk]; intros [|n] Hn; try discriminate.
        - cbn in Hn. inversion Hn; subst. eauto.
        - cbn in Hn. eauto. }
      rewrite Hp. eauto. }
    { exact Cb. }
    { exact Ca. }
    cbn [from_const]. rewrite Hd'.
    rewrite (K3_level_x c code ks d d'); [reflexivity| |exact D|exact Hks|exact Hd'].
    now rewrite Hwf, Hx.
Qed.

Theorem C01_roundtrip_x : forall c code d,
  rt_wf_deep c (PCode code) && rt_extra_deep c (PCode code) = true ->
  to_code_data c code = OK d ->
  from_code_data c d = OK code.
Proof.
  intros c code d H Hto. apply andb_true_iff in H as [Hwf Hx].
  assert (Hc : to_const c (PCode code) = OK (KCode d)).
  { cbn [to_const]. unfold to_code_data in Hto.
    destruct (mapM (to_const c) (co_consts code)) as [ks|]; [|discriminate]. now rewrite Hto. }
  unfold from_code_data. rewrite (deep_roundtrip c _ Hwf Hx _ Hc). reflexivity.
Qed.

(* ------------------------------------------------------------------ *)
(** * 7. The statements of C01_Statements.v need the additional premise (checked by computation) *)

Module NeedsExtraPremise.
  (* (1) 3.8 configuration; a function code object (OPTIMIZED | NEWLOCALS | NOFREE) that claims one
     positional parameter but has an empty co_varnames; body LOAD_CONST 0; RETURN_VALUE.
     rt_wf_deep holds, decoding succeeds (python slices truncate: Args is empty), and encoding gives
     co_argcount = 0.  CPython's constructor rejects such an object ("code: varnames is too small"). *)
  Definition c1 : cfg := PCD.Gen.Cfg38.cfg.
  Definition code1 : pycode :=
    mkCode 1 0 0 0 1 67 [100; 0; 83; 0] [PInner INone] [] [] [102] [102] 1 [] [] [].

  Example premises1 : rt_wf_deep c1 (PCode code1) = true /\ rt_wf c1 code1 [KInner INone] = true
                      /\ rt_extra c1 code1 = false.
  Proof. vm_compute. repeat split; reflexivity. Qed.

  Example result1 :
    match to_code_data c1 code1 with
    | OK d => match from_code_data c1 d with
              | OK code' => co_argcount code' = 0 /\ co_argcount code1 = 1
              | Err _ => False
              end
    | Err _ => False
    end.
  Proof. vm_compute. split; reflexivity. Qed.

  Theorem S_C01_is_false : ~ S_C01.
  Proof.
    intros H.
    assert (X : match to_code_data c1 code1 with
                | OK d => from_code_data c1 d = OK code1
                | Err _ => True
                end).
    { destruct (to_code_data c1 code1) as [d|] eqn:E; [|exact I].
      apply H; [vm_compute; reflexivity|exact E]. }
    vm_compute in X. discriminate X.
  Qed.

  Theorem S_K3_level_is_false : ~ S_K3_level.
  Proof.
    intros H.
    assert (X : match decode_code c1 code1 [KInner INone] with
                | OK d =>
                    match mapM_cd (fun k' => match from_const c1 k' with OK p => OK (k', p) | Err e => Err e end) d with
                    | OK d' => encode_code c1 d' = OK code1
                    | Err _ => True
                    end
                | Err _ => True
                end).
    { destruct (decode_code c1 code1 [KInner INone]) as [d|] eqn:E; [|exact I].
      destruct (mapM_cd _ d) as [d'|] eqn:E'; [|exact I].
      apply (H c1 code1 [KInner INone] d d'); [vm_compute; reflexivity|exact E| |exact E'].
      repeat constructor. }
    vm_compute in X. discriminate X.
  Qed.

  (* (2) a flag table without CO_NOFREE in which another flag has the value 64 that
     types.CodeType assumes for it: the constructor clears that flag *)
  Definition c2 : cfg :=
    {| cfg_v310 := cfg_v310 c1; cfg_v38 := cfg_v38 c1; cfg_hasjabs := cfg_hasjabs c1;
       cfg_hasjrel := cfg_hasjrel c1; cfg_hasname := cfg_hasname c1; cfg_haslocal := cfg_haslocal c1;
       cfg_hasfree := cfg_hasfree c1; cfg_hasconst := cfg_hasconst c1;
       cfg_have_argument := cfg_have_argument c1; cfg_extended_arg := cfg_extended_arg c1;
       cfg_opcodes := cfg_opcodes c1;
       cfg_flags := [(OPTIMIZED, 1); (NEWLOCALS, 2); (GENERATOR, 64)] |}.
  Definition code2 : pycode :=
    mkCode 0 0 0 0 1 67 [100; 0; 83; 0] [PInner INone] [] [] [102] [102] 1 [] [[120]] [].

  Example premises2 : rt_wf_deep c2 (PCode code2) = true /\ rt_extra c2 code2 = false.
  Proof. vm_compute. split; reflexivity. Qed.

  Example result2 :
    match to_code_data c2 code2 with
    | OK d => match from_code_data c2 d with
              | OK code' => co_flags code' = 3 /\ co_flags code2 = 67
              | Err _ => False
              end
    | Err _ => False
    end.
  Proof. vm_compute. split; reflexivity. Qed.

  (* the premise holds for the four interpreters' tables *)
  Example nofree_in_tables :
    (flag_value (cfg_flags PCD.Gen.Cfg37.cfg) NOFREE, flag_value (cfg_flags PCD.Gen.Cfg38.cfg) NOFREE,
     flag_value (cfg_flags PCD.Gen.Cfg39.cfg) NOFREE, flag_value (cfg_flags PCD.Gen.Cfg310.cfg) NOFREE)
    = (Some 64, Some 64, Some 64, Some 64).
  Proof. vm_compute. reflexivity. Qed.
End NeedsExtraPremise.

(* the statements proved: S_K3_level and S_C01 with [rt_extra] added to the well-formedness premise *)
Check (K3_level_x : forall c code ks d d',
  rt_wf c code ks && rt_extra c code = true ->
  decode_code c code ks = OK d ->
  Forall2 (fun k p => from_const c k = OK p) ks (co_consts code) ->
  mapM_cd (fun k' => match from_const c k' with OK p => OK (k', p) | Err e => Err e end) d = OK d' ->
  encode_code c d' = OK code).
Check (C01_roundtrip_x : forall c code d,
  rt_wf_deep c (PCode code) && rt_extra_deep c (PCode code) = true ->
  to_code_data c code = OK d ->
  from_code_data c d = OK code).

Print Assumptions K3_level_x.
Print Assumptions C01_roundtrip_x.
Print Assumptions NeedsExtraPremise.S_C01_is_false.
Print Assumptions NeedsExtraPremise.S_K3_level_is_false.
