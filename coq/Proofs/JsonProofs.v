(* C07: JSON form round trip.  The proofs are in JsonProofs1.v (decimal text, inner constants,
   strict JSON, object readers) and JsonProofs2.v (CodeData round trip); compile those two first. *)
From PCD Require Import Model.Json Proofs.C07_Statements.
From PCD Require Export Proofs.JsonProofs1 Proofs.JsonProofs2.

Check (decimal_roundtrip : S_decimal_roundtrip).
Check (iconst_roundtrip : S_iconst_roundtrip).
Check (json_roundtrip : S_json_roundtrip).
Check (json_roundtrip_exact : S_json_roundtrip_exact).
Check (json_plain_thm : S_json_plain).
Print Assumptions C07_all.
