(* C03 composed: encode_code on well-formed data (S_C03_level) and termination (S_C03_terminates). *)
From Coq Require Import ZArith List Bool Lia ZifyBool.
From PCD Require Import Base.PyBase Base.Cfg Model.Flags Model.Args Model.Data Model.Consts
  Model.LineTable Model.Blocks Model.CodeData Spec.Lnotab Spec.Dis Model.ViewSer
  Proofs.C02_Statements Proofs.C11_Statements Proofs.C01_Statements Proofs.C03_Statements
  Proofs.C03b_Statements Proofs.C03c_Statements.
From PCD Require Proofs.ConstsProofs Proofs.RelaxProofs Proofs.EncodeView Proofs.LinesCarried.
Import ListNotations. Open Scope Z_scope.
Ltac Zify.zify_post_hook ::= Z.to_euclidean_division_equations.

Module RP := RelaxProofs.
Module EVw := EncodeView.
Module LC := LinesCarried.

(* ------------------------------------------------------------------ *)
(** * 1. Termination: which errors the stages of encode_code can return *)

Section Errors.
  Context {C : Type} (keq : C -> C -> bool) (is_str : C -> bool) (none_c : C) (str_c : str -> C).

  Lemma fa_setitem_err {T} (kq : T -> T -> bool) st i a e :
    fa_setitem kq st i a = Err e -> e = ValueError.
  Proof.
    unfold fa_setitem. destruct (match oget (fa_items st) i with Some old => negb (kq old a) | None => false end);
      intros H; inversion H; reflexivity.
  Qed.

  Lemma fa_add_err {T} (kq : T -> T -> bool) st a ov e :
    fa_add kq st a ov = Err e -> e = ValueError.
  Proof.
    unfold fa_add. destruct ov as [i|].
    - destruct (fa_setitem kq st i a) eqn:E; intros H; inversion H; subst. eapply fa_setitem_err; eauto.
    - destruct (key_lookup kq (fa_index st) a); [discriminate|].
      destruct (fa_setitem kq st (zlen (fa_items st)) a) eqn:E; intros H; inversion H; subst.
      eapply fa_setitem_err; eauto.
  Qed.

  Lemma from_arg_err a bt fv st e :
    from_arg keq is_str none_c a bt fv st = Err e -> e = ValueError.
  Proof.
    destruct a; cbn [from_arg]; intros H; try discriminate.
    - destruct (fa_add str_eqb (e_names st) s ov) as [[? ?]|] eqn:E; inversion H; subst.
      eapply fa_add_err; eauto.
    - destruct (fa_add str_eqb (e_varnames st) s ov) as [[? ?]|] eqn:E; inversion H; subst.
      eapply fa_add_err; eauto.
    - destruct (if _ : bool then _ else _) as [cs|] eqn:E0.
      + destruct (fa_add keq cs c ov) as [[? ?]|] eqn:E; inversion H; subst. eapply fa_add_err; eauto.
      + inversion H; subst.
        destruct (_ && _ && _ && _) in E0; [|discriminate]. eapply fa_setitem_err; eauto.
    - destruct (index_of str_eqb s fv); inversion H; reflexivity.
    - destruct (fa_add str_eqb (e_cellvars st) s ov) as [[? ?]|] eqn:E; inversion H; subst.
      eapply fa_add_err; eauto.
  Qed.

  Lemma first_args_err bt fv : forall l st e,
    first_args keq is_str none_c l bt fv st = Err e -> e = ValueError.
  Proof.
    induction l as [|i r IH]; intros st e H; cbn [first_args] in H; [discriminate|].
    destruct (from_arg keq is_str none_c (i_arg i) bt fv st) as [[v st1]|] eqn:Ea.
    - destruct (first_args keq is_str none_c r bt fv st1) as [[vs st2]|] eqn:Er; [discriminate|].
      inversion H; subst. eapply IH; eauto.
    - inversion H; subst. eapply from_arg_err; eauto.
  Qed.

  Lemma add_additional_err bt fv : forall l st e,
    add_additional keq is_str none_c l bt fv st = Err e -> e = ValueError.
  Proof.
    induction l as [|a r IH]; intros st e H; cbn [add_additional] in H; [discriminate|].
    destruct (from_arg keq is_str none_c a bt fv st) as [[v st1]|] eqn:Ea.
    - eapply IH; eauto.
    - inversion H; subst. eapply from_arg_err; eauto.
  Qed.

  Lemma enc_init_err bt e : enc_init keq str_c bt = Err e -> e = ValueError.
  Proof.
    unfold enc_init. destruct bt as [f|]; [|discriminate].
    match goal with |- context [(fix go (l : list str) (i : Z) (t : fromargs str) {struct l} := _) ?l0 ?i0 ?t0] =>
      set (go := fix go (l : list str) (i : Z) (t : fromargs str) {struct l} : res (fromargs str) :=
                   match l with
                   | [] => OK t
                   | k :: r => match fa_setitem str_eqb t i k with OK t' => go r (i + 1) t' | Err e => Err e end
                   end)
    end.
    assert (G : forall l i t e, go l i t = Err e -> e = ValueError).
    { induction l as [|k r IH]; intros i t e0 H; cbn in H; [discriminate|].
      destruct (fa_setitem str_eqb t i k) eqn:E; [eapply IH; eauto|].
      inversion H; subst. eapply fa_setitem_err; eauto. }
    destruct (go _ _ _) eqn:E.
    - destruct (fn_doc f).
      + destruct (fa_setitem keq fromargs_empty 0 (str_c s)) eqn:E1; intros H; inversion H; subst.
        eapply fa_setitem_err; eauto.
      + discriminate.
    - intros H; inversion H; subst. eapply G; eauto.
  Qed.

  Lemma assemble_err c : forall l vals o lm e,
    assemble (C:=C) c l vals o lm = Err e -> e = KeyError.
  Proof.
    induction l as [|i r IH]; intros vals o lm e H; cbn [assemble] in H; [discriminate|].
    destruct vals as [|v vs]; [inversion H; reflexivity|].
    destruct (negb (zmem (i_name i) (cfg_opcodes c))); [inversion H; reflexivity|].
    destruct (assemble c r vs _ _) as [[? ?]|] eqn:E; [discriminate|].
    inversion H; subst. eapply IH; eauto.
  Qed.

  Lemma fa_to_tuple_err {T} (st : fromargs T) e : fa_to_tuple st = Err e -> e = ValueError.
  Proof. unfold fa_to_tuple. destruct (collect _ _ _); intros H; inversion H; reflexivity. Qed.

  (* jumps get the value 1 at the first evaluation *)
  Lemma first_args_jumps bt fv : forall l st vals st',
    first_args keq is_str none_c l bt fv st = OK (vals, st') ->
    forall i v, In (i, v) (combine l vals) -> (exists t r, i_arg i = AJump t r) -> v = 1.
  Proof.
    induction l as [|i r IH]; intros st vals st' H; cbn [first_args] in H.
    - inversion H; subst. intros i v [].
    - destruct (from_arg keq is_str none_c (i_arg i) bt fv st) as [[v st1]|] eqn:Ea; [|discriminate].
      destruct (first_args keq is_str none_c r bt fv st1) as [[vs st2]|] eqn:Er; [|discriminate].
      inversion H; subst. intros j w [Hin|Hin] (t & rl & Hj).
      + inversion Hin; subst. rewrite Hj in Ea. cbn in Ea. inversion Ea; reflexivity.
      + eapply IH; eauto.
  Qed.

  Lemma first_args_length bt fv : forall l st vals st',
    first_args keq is_str none_c l bt fv st = OK (vals, st') -> length vals = length l.
  Proof.
    induction l as [|i r IH]; intros st vals st' H; cbn [first_args] in H.
    - inversion H; reflexivity.
    - destruct (from_arg keq is_str none_c (i_arg i) bt fv st) as [[v st1]|] eqn:Ea; [|discriminate].
      destruct (first_args keq is_str none_c r bt fv st1) as [[vs st2]|] eqn:Er; [|discriminate].
      inversion H; subst. cbn. f_equal. eapply IH; eauto.
  Qed.

  Lemma afo_jumps nc : forall (l : list (instr_ C)) vals,
    (forall i v, In (i, v) (combine l vals) -> (exists t r, i_arg i = AJump t r) -> v = 1) ->
    forall i v, In (i, v) (combine l (add_freevar_offset nc l vals)) ->
                (exists t r, i_arg i = AJump t r) -> v = 1.
  Proof.
    unfold add_freevar_offset.
    induction l as [|i r IH]; intros vals H j w Hin Hj; [destruct Hin|].
    destruct vals as [|v vs]; [destruct Hin|].
    cbn [combine map fst snd] in Hin. destruct Hin as [Hin|Hin].
    - inversion Hin; subst. destruct Hj as (t & rl & Hj). rewrite Hj.
      apply (H j v); [left; reflexivity|eauto].
    - eapply (IH vs); eauto. intros i' v' Hi'. apply H. right. exact Hi'.
  Qed.

  Lemma b2b_no_fuel c blocks addl fv bt e :
    (forall i n, In i (concat blocks) -> i_nargs i = Some n -> 0 <= n) ->
    blocks_to_bytes keq is_str none_c str_c c blocks addl fv bt = Err e -> e <> OutOfFuel.
  Proof.
    intros Hov H. unfold blocks_to_bytes in H.
    destruct (enc_init keq str_c bt) as [st0|] eqn:Hi;
      [|inversion H; subst; rewrite (enc_init_err _ _ Hi); discriminate].
    destruct (first_args keq is_str none_c (concat blocks) bt fv st0) as [[vals0 st1]|] eqn:Hf;
      [|inversion H; subst; rewrite (first_args_err _ _ _ _ _ Hf); discriminate].
    destruct (add_additional keq is_str none_c addl bt fv st1) as [st2|] eqn:Had;
      [|inversion H; subst; rewrite (add_additional_err _ _ _ _ _ Had); discriminate].
    cbv zeta in H.
    destruct (relax _ c blocks _) as [vals2|] eqn:Hr.
    2:{ inversion H; subst. intros ->. revert Hr.
        apply RP.relax_terminates.
        - unfold add_freevar_offset. rewrite map_length, combine_length.
          pose proof (first_args_length _ _ _ _ _ _ Hf). lia.
        - apply afo_jumps. eapply first_args_jumps; eauto.
        - exact Hov. }
    destruct (assemble _ _ _ _ _) as [[code' lm']|] eqn:Ha;
      [|inversion H; subst; rewrite (assemble_err _ _ _ _ _ _ Ha); discriminate].
    destruct (fa_to_tuple (e_names st2)) as [n|] eqn:T1;
      [|inversion H; subst; rewrite (fa_to_tuple_err _ _ T1); discriminate].
    destruct (fa_to_tuple (e_varnames st2)) as [vn|] eqn:T2;
      [|inversion H; subst; rewrite (fa_to_tuple_err _ _ T2); discriminate].
    destruct (fa_to_tuple (e_cellvars st2)) as [cv|] eqn:T3;
      [|inversion H; subst; rewrite (fa_to_tuple_err _ _ T3); discriminate].
    destruct (fa_to_tuple (e_consts st2)) as [k|] eqn:T4;
      [discriminate|inversion H; subst; rewrite (fa_to_tuple_err _ _ T4); discriminate].
  Qed.
End Errors.

Lemma from_flags_data_err c : forall fs e, from_flags_data c fs = Err e -> e = AttributeError.
Proof.
  induction fs as [|f r IH]; intros e H; cbn [from_flags_data] in H; [discriminate|].
  destruct (flag_value (cfg_flags c) f); [|inversion H; reflexivity].
  destruct (from_flags_data c r) eqn:E; [discriminate|]. inversion H; subst. eapply IH; eauto.
Qed.

Lemma m2i_lnotab_err adds : forall lines ll lb e,
  mapping_to_items_lnotab lines adds ll lb = Err e -> e = TypeError.
Proof.
  induction lines as [|[bo [line|]] r IH]; intros ll lb e H; cbn [mapping_to_items_lnotab] in H;
    [discriminate| |inversion H; reflexivity].
  cbv zeta in H.
  destruct (mapping_to_items_lnotab r adds line _) eqn:E; [discriminate|].
  inversion H; subst. eapply IH; eauto.
Qed.

Lemma items_to_bytes_err : forall l e, items_to_bytes l = Err e -> e = ValueError.
Proof.
  induction l as [|[ln bc] r IH]; intros e H; cbn [items_to_bytes] in H; [discriminate|].
  destruct (byte_ok bc); [|inversion H; reflexivity].
  destruct (items_to_bytes r) eqn:E; [discriminate|]. inversion H; subst. eapply IH; eauto.
Qed.

Lemma from_line_mapping_err lt m e : from_line_mapping lt m = Err e -> e <> OutOfFuel.
Proof.
  unfold from_line_mapping, mapping_to_items. destruct lt.
  - destruct (lm_lines m) as [|[bo line] r].
    + intros H; inversion H; discriminate.
    + intros H. apply items_to_bytes_err in H. subst; discriminate.
  - destruct (mapping_to_items_lnotab _ _ _ _) eqn:E.
    + intros H. apply items_to_bytes_err in H. subst; discriminate.
    + intros H; inversion H; subst. apply m2i_lnotab_err in E. subst; discriminate.
Qed.

Lemma pycode_new_err c a p k n s f code consts names vn fn nm fl tb fv cv e :
  pycode_new c a p k n s f code consts names vn fn nm fl tb fv cv = Err e -> e = ValueError.
Proof. unfold pycode_new. destruct (_ || _); intros H; inversion H; reflexivity. Qed.

Theorem C03_terminates : S_C03_terminates.
Proof.
  unfold S_C03_terminates. intros c d Hov H. unfold encode_code in H.
  destruct (blocks_to_bytes _ _ _ _ c (cd_blocks d) (cd_addargs d) (cd_freevars d) (cd_type d))
    as [[[[[[code lm0] names] varnames] cellvars] constants]|e] eqn:HB.
  2:{ inversion H; subst. revert HB. intros HB. eapply b2b_no_fuel in HB; [congruence|exact Hov]. }
  cbv zeta in H.
  destruct (match cd_type d with Some f => _ | None => _ end) as [[[[ac pc] kc] fl1]|e] eqn:Ha.
  2:{ inversion H; subst. destruct (cd_type d) as [f|]; [|discriminate].
      destruct (args_to_input (fn_args f) _) as [[[[? ?] ?] ?] ?].
      destruct (list_eqb _ _ _); discriminate. }
  destruct (from_flags_data c _) as [flags|e] eqn:Hfl.
  2:{ inversion H; subst. apply from_flags_data_err in Hfl. discriminate. }
  destruct (from_line_mapping _ _) as [table|e] eqn:Hlt.
  2:{ inversion H; subst. apply from_line_mapping_err in Hlt. congruence. }
  destruct (negb (cfg_v38 c) && negb (pc =? 0)); [discriminate|].
  apply pycode_new_err in H. discriminate.
Qed.

(* ------------------------------------------------------------------ *)
(** * 2. pkey_eqb is an equivalence *)

Lemma pkey_refl x : pkey_eqb x x = true.
Proof. apply ConstsProofs.key_eqb_refl. Qed.
Lemma pkey_sym x y : pkey_eqb x y = pkey_eqb y x.
Proof. apply ConstsProofs.key_eqb_sym_eq. Qed.
Lemma pkey_trans x y z : pkey_eqb x y = true -> pkey_eqb y z = true -> pkey_eqb x z = true.
Proof. apply ConstsProofs.key_eqb_trans. Qed.

(* ------------------------------------------------------------------ *)
(** * 3. What encode_code returns *)

Definition b2b (c : cfg) (d : code_data_ pconst) :=
  blocks_to_bytes pkey_eqb (fun k : pconst => is_str_const (fst k)) (KInner INone, PInner INone)
    (fun s => (KInner (IStr s), PInner (IStr s))) c (cd_blocks d) (cd_addargs d) (cd_freevars d) (cd_type d).

Lemma encode_inv c d code :
  cd_addline d = None ->
  encode_code c d = OK code ->
  exists code0 lm0 names varnames cellvars constants ac pc kc flags table,
    b2b c d = OK (code0, lm0, names, varnames, cellvars, constants) /\
    match cd_type d with
    | Some f => ac = zlen (a_posonly (fn_args f)) + zlen (a_poskw (fn_args f)) /\
                pc = zlen (a_posonly (fn_args f)) /\ kc = zlen (a_kwonly (fn_args f)) /\
                take (zlen (args_to_varnames (fn_args f))) varnames = args_to_varnames (fn_args f)
    | None => ac = 0 /\ pc = 0 /\ kc = 0
    end /\
    from_line_mapping (cfg_v310 c) (modify_line_offsets lm0 (- cd_firstline d)) = OK table /\
    code = mkCode ac pc kc (zlen varnames) (cd_stacksize d) flags code0 (map snd constants) names varnames
                  (cd_filename d) (cd_name d) (cd_firstline d) table (cd_freevars d) cellvars.
Proof.
  intros Hal H. unfold encode_code in H. fold (b2b c d) in H.
  destruct (b2b c d) as [[[[[[code0 lm0] names] varnames] cellvars] constants]|e] eqn:HB; [|discriminate].
  cbv zeta in H. rewrite Hal in H.
  destruct (match cd_type d with Some f => _ | None => _ end) as [[[[ac pc] kc] fl1]|e] eqn:Ha; [|discriminate].
  destruct (from_flags_data c _) as [flags|e] eqn:Hfl; [|discriminate].
  destruct (from_line_mapping _ _) as [table|e] eqn:Hlt; [|discriminate].
  destruct (negb (cfg_v38 c) && negb (pc =? 0)); [discriminate|].
  unfold pycode_new in H. destruct (_ || _); [discriminate|]. cbv zeta in H.
  inversion H as [Hc]. clear H.
  eexists code0, lm0, names, varnames, cellvars, constants, ac, pc, kc, _, table.
  split; [reflexivity|]. split; [|split; [exact Hlt|reflexivity]].
  destruct (cd_type d) as [f|].
  - unfold args_to_input in Ha.
    destruct (list_eqb str_eqb _ _) eqn:El; [|discriminate].
    inversion Ha; subst. repeat (split; [reflexivity|]).
    apply (list_eqb_spec str_eqb str_eqb_spec) in El. exact El.
  - inversion Ha; subst. repeat split.
Qed.

(* ------------------------------------------------------------------ *)
(** * 4. Layout facts *)

Lemma forallb_concat {A} (P : A -> bool) : forall ls,
  forallb (forallb P) ls = true -> forallb P (concat ls) = true.
Proof.
  induction ls as [|l r IH]; intros H; cbn in *; [reflexivity|].
  apply andb_true_iff in H as [H1 H2]. rewrite forallb_app, H1, IH; auto.
Qed.

Lemma layout_lines_some {C} : forall (l : list (instr_ C)) vals o,
  forallb (fun i : instr_ C => opt_is_some (i_line i)) l = true ->
  forallb (fun x : layout_item => opt_is_some (snd x)) (layout_of l vals o) = true.
Proof.
  induction l as [|i r IH]; intros vals o H; [reflexivity|].
  destruct vals as [|v vs]; [reflexivity|].
  cbn [layout_of]. cbv zeta. cbn [forallb snd] in *.
  apply andb_true_iff in H as [H1 H2]. rewrite H1, IH; auto.
Qed.

Lemma layout_of_nth {C} : forall (l : list (instr_ C)) vals o k i,
  length vals = length l -> nth_error l k = Some i ->
  exists o' n, nth_error (layout_of l vals o) k = Some (o', n, i_line i).
Proof.
  induction l as [|j r IH]; intros vals o k i Hl Hk; [destruct k; discriminate|].
  destruct vals as [|v vs]; [discriminate|].
  cbn [layout_of]. cbv zeta. destruct k as [|k].
  - inversion Hk; subst. cbn. eauto.
  - cbn [nth_error] in *. apply IH; [cbn in Hl; lia|exact Hk].
Qed.

Lemma layout_of_nonempty {C} (l : list (instr_ C)) vals o :
  length vals = length l -> l <> [] -> layout_of l vals o <> [].
Proof.
  destruct l as [|i r]; [congruence|]. destruct vals as [|v vs]; [discriminate|].
  intros _ _. cbn. discriminate.
Qed.

Lemma concat_nonempty {A} (ls : list (list A)) :
  ls <> [] -> Forall (fun b => b <> []) ls -> concat ls <> [].
Proof.
  destruct ls as [|l r]; [congruence|]. intros _ H. inversion H; subst.
  destruct l; [congruence|]. cbn. discriminate.
Qed.

Lemma Forall2_of_list_eqb {A} (R : A -> A -> bool) : forall l1 l2,
  list_eqb R l1 l2 = true -> Forall2 (fun x y => R x y = true) l1 l2.
Proof.
  induction l1 as [|a l1 IH]; intros [|b l2] H; cbn in H; try discriminate; constructor.
  - apply andb_true_iff in H as [H _]. exact H.
  - apply andb_true_iff in H as [_ H]. apply IH, H.
Qed.

Lemma Forall2_nth {A B} (R : A -> B -> Prop) : forall l1 l2, Forall2 R l1 l2 ->
  forall k x y, nth_error l1 k = Some x -> nth_error l2 k = Some y -> R x y.
Proof.
  induction 1; intros k x0 y0 Hx Hy; destruct k; try discriminate.
  - inversion Hx; inversion Hy; subst. assumption.
  - eapply IHForall2; eauto.
Qed.

Lemma Forall2_len {A B} (R : A -> B -> Prop) l1 l2 : Forall2 R l1 l2 -> length l1 = length l2.
Proof. induction 1; cbn; congruence. Qed.

Lemma option_eqb_Z_refl a : option_eqb Z.eqb a a = true.
Proof. destruct a; cbn; [apply Z.eqb_refl|reflexivity]. Qed.

(* the op/val agreement plus the line agreement give the three-way agreement *)
Lemma view_combine {K} (keq : K -> K -> bool) c (blocks : list (list (instr_ K))) vals
  code names varnames freevars cellvars (consts : list K) table first :
  length vals = length (concat blocks) ->
  map (fun x : layout_item => fst (fst x)) (layout_of (concat blocks) vals 0)
  = map (fun x : Z * Z * dval K => fst (fst x))
        (dis_fold c names varnames freevars cellvars consts (dis_unpack c code 0 0) None) ->
  (forall o n line, In (o, n, line) (layout_of (concat blocks) vals 0) ->
     dis_line c table first o = line) ->
  list_eqb (fun (x y : vinstr K) => (v_op x =? v_op y) && val_match keq (v_val x) (v_val y))
           (data_view blocks)
           (dis_view c code names varnames freevars cellvars consts table first) = true ->
  view_agrees keq (data_view blocks)
           (dis_view c code names varnames freevars cellvars consts table first) = true.
Proof.
  intros Hlen Hfirsts Hlines H2.
  apply Forall2_of_list_eqb in H2.
  unfold view_agrees. apply EVw.list_eqb_Forall2.
  apply EVw.Forall2_of_nth; [eapply Forall2_len; eauto|].
  intros k x y Hx Hy.
  pose proof (Forall2_nth _ _ _ H2 k x y Hx Hy) as HR. cbv beta in HR. rewrite HR. cbn [andb].
  unfold data_view in Hx. rewrite nth_error_map in Hx.
  destruct (nth_error (concat blocks) k) as [i|] eqn:Ei; [|discriminate]. cbn in Hx.
  inversion Hx; subst x. clear Hx. cbn [v_line].
  unfold dis_view in Hy. cbv zeta in Hy. rewrite nth_error_map in Hy.
  destruct (nth_error (dis_fold c names varnames freevars cellvars consts (dis_unpack c code 0 0) None) k)
    as [[[fo op] v]|] eqn:Ez; [|discriminate].
  cbn in Hy. inversion Hy; subst y. clear Hy. cbn [v_line].
  destruct (layout_of_nth (concat blocks) vals 0 k i Hlen Ei) as (o' & n & Hn).
  assert (Ho : o' = fo).
  { pose proof (f_equal (fun l => nth_error l k) Hfirsts) as Hf. cbv beta in Hf.
    rewrite !nth_error_map, Hn, Ez in Hf. cbn in Hf. congruence. }
  subst o'. rewrite (Hlines fo n (i_line i) (nth_error_In _ _ Hn)).
  apply option_eqb_Z_refl.
Qed.

(* ------------------------------------------------------------------ *)
(** * 5. C03, one level *)

Theorem C03_level : S_C03_level.
Proof.
  unfold S_C03_level. intros c d code Hwf Henc Hlen.
  unfold data_wf in Hwf.
  apply andb_true_iff in Hwf as [Hwf Hty]. apply andb_true_iff in Hwf as [Hwf Hfvl].
  apply andb_true_iff in Hwf as [Hwf Hnd]. apply andb_true_iff in Hwf as [Hwf Hsome].
  apply andb_true_iff in Hwf as [Hwf Hal]. apply andb_true_iff in Hwf as [Hwf Haa].
  apply andb_true_iff in Hwf as [Hwf Hbw]. apply andb_true_iff in Hwf as [Hwf Hx2].
  apply andb_true_iff in Hwf as [Hcfg Hx1].
  assert (Haa' : cd_addargs d = []) by (destruct (cd_addargs d); [reflexivity|discriminate]).
  assert (Hal' : cd_addline d = None) by (destruct (cd_addline d); [discriminate|reflexivity]).
  destruct (encode_inv c d code Hal' Henc)
    as (code0 & lm0 & names & varnames & cellvars & constants & ac & pc & kc & flags & table
        & HB & Hargs & Hlt & ->).
  cbn [co_code co_consts co_names co_varnames co_freevars co_cellvars co_linetable co_firstlineno
       co_stacksize co_name co_filename co_nlocals co_argcount co_posonlyargcount co_kwonlyargcount] in *.
  unfold b2b in HB. rewrite Haa' in HB.
  assert (Hx : EVw.k2_extra c (cd_type d) (cd_freevars d) = true).
  { unfold EVw.k2_extra. rewrite Hx1, Hx2, Hfvl. exact Hty. }
  destruct (EVw.K2_code pconst pkey_eqb (fun k : pconst => is_str_const (fst k)) (KInner INone, PInner INone)
              (fun s => (KInner (IStr s), PInner (IStr s))) pkey_refl pkey_sym pkey_trans
              c (cd_blocks d) (cd_freevars d) (cd_type d) code0 lm0 names varnames cellvars constants
              Hcfg Hbw Hnd Hx HB Hlen)
    as (Hcode & (vals & Hvl & -> & Hlok & Hfirsts) & Hview).
  set (L := layout_of (concat (cd_blocks d)) vals 0) in *.
  assert (HLne : L <> []).
  { apply layout_of_nonempty; [exact Hvl|].
    apply concat_nonempty; [|eapply EVw.wf_nonempty; exact Hbw].
    unfold blocks_wf in Hbw. apply andb_true_iff in Hbw as [_ Hb].
    destruct (cd_blocks d); [discriminate|discriminate]. }
  assert (HLs : cfg_v310 c = false -> forallb (fun x : layout_item => opt_is_some (snd x)) L = true).
  { intros E. rewrite E in Hsome. cbn [orb] in Hsome.
    apply layout_lines_some. apply forallb_concat. exact Hsome. }
  destruct (LC.K2_lines c L (cd_firstline d) table Hlok HLne HLs Hlt) as (_ & _ & Hlines).
  exists constants. split; [reflexivity|]. split.
  { apply (view_combine pkey_eqb c (cd_blocks d) vals); [exact Hvl|exact Hfirsts|exact Hlines|apply Hview]. }
  split; [exact Hcode|].
  repeat (split; [reflexivity|]).
  destruct (cd_type d) as [f|]; cbv zeta.
  - destruct Hargs as (-> & -> & -> & Ht). repeat (split; [reflexivity|]). exact Ht.
  - destruct Hargs as (-> & -> & ->). repeat split.
Qed.

Print Assumptions C03_level.
Print Assumptions C03_terminates.
