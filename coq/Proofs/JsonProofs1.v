(* C07: the JSON form of CodeData loads back to equal data (Model/Json.v). *)
From Coq Require Import ZArith List Bool Lia ZifyBool String.
From PCD Require Import Base.PyBase Base.Cfg Model.Flags Model.Args Model.Data Model.Consts Model.Json
  Proofs.ConstsProofs Proofs.C07_Statements.
Import ListNotations. Open Scope Z_scope. Open Scope list_scope.
Ltac Zify.zify_post_hook ::= Z.to_euclidean_division_equations.

(* ------------------------------------------------------------------ *)
(* 1. decimal text                                                      *)

Lemma parse_pos_digits : forall f n acc,
  0 <= n < 10 ^ Z.of_nat f ->
  parse_digits (pos_digits f n acc) 0 = parse_digits acc n.
Proof.
  induction f as [|f IH]; intros n acc H.
  - cbn in H. assert (n = 0) by lia. subst. reflexivity.
  - cbn [pos_digits]. destruct (Z.ltb_spec n 10) as [L|L].
    + cbn [parse_digits].
      replace ((48 <=? 48 + n) && (48 + n <=? 57)) with true by lia.
      f_equal. lia.
    + rewrite IH.
      * cbn [parse_digits].
        replace ((48 <=? 48 + n mod 10) && (48 + n mod 10 <=? 57)) with true by lia.
        f_equal. lia.
      * rewrite Nat2Z.inj_succ, Z.pow_succ_r in H by lia. lia.
Qed.

Definition head_digit (l : str) : Prop :=
  match l with d :: _ => 48 <= d <= 57 | [] => False end.

Lemma pos_digits_head_acc : forall f n acc, 0 <= n -> head_digit acc -> head_digit (pos_digits f n acc).
Proof.
  induction f as [|f IH]; intros n acc Hn Ha; cbn [pos_digits]; auto.
  destruct (Z.ltb_spec n 10).
  - unfold head_digit. lia.
  - apply IH; [lia|]. unfold head_digit. lia.
Qed.

Lemma pos_digits_head f n acc : 0 <= n -> head_digit (pos_digits (S f) n acc).
Proof.
  intros Hn. cbn [pos_digits]. destruct (Z.ltb_spec n 10).
  - unfold head_digit. lia.
  - apply pos_digits_head_acc; [lia|]. unfold head_digit. lia.
Qed.

Lemma parse_int_nondash d r : d <> 45 -> parse_int (d :: r) = parse_digits (d :: r) 0.
Proof.
  intros H. unfold parse_int.
  destruct d as [|p|p]; try reflexivity.
  do 6 (try (destruct p as [p|p|]; try reflexivity)). congruence.
Qed.

Lemma parse_int_dash d r : parse_int (45 :: d :: r) =
  match parse_digits (d :: r) 0 with Some v => Some (- v) | None => None end.
Proof. reflexivity. Qed.

Lemma fuel_enough z : 0 <= z -> 0 <= z < 10 ^ Z.of_nat (Z.to_nat (Z.log2 z) + 1).
Proof.
  intros Hz. split; [exact Hz|].
  pose proof (Z.log2_nonneg z) as L.
  rewrite Nat2Z.inj_add, Z2Nat.id by exact L. cbn [Z.of_nat Pos.of_succ_nat].
  destruct (Z.eq_dec z 0) as [->|NZ].
  - cbn. lia.
  - assert (z < 2 ^ (Z.log2 z + 1)).
    { pose proof (Z.log2_spec z ltac:(lia)) as S. unfold Z.succ in S. lia. }
    assert (2 ^ (Z.log2 z + 1) <= 10 ^ (Z.log2 z + 1)).
    { apply Z.pow_le_mono_l. lia. }
    lia.
Qed.

Lemma decimal_nonneg z : 0 <= z -> parse_int (decimal z) = Some z.
Proof.
  intros Hz. unfold decimal. replace (z <? 0) with false by lia.
  replace (Z.to_nat (Z.log2 z) + 1)%nat with (S (Z.to_nat (Z.log2 z))) by lia.
  pose proof (pos_digits_head (Z.to_nat (Z.log2 z)) z [] Hz) as HD.
  pose proof (parse_pos_digits (S (Z.to_nat (Z.log2 z))) z []) as PP.
  destruct (pos_digits (S (Z.to_nat (Z.log2 z))) z []) as [|d r]; [destruct HD|].
  unfold head_digit in HD. rewrite parse_int_nondash by lia. rewrite PP; [reflexivity|].
  replace (S (Z.to_nat (Z.log2 z))) with (Z.to_nat (Z.log2 z) + 1)%nat by lia.
  now apply fuel_enough.
Qed.

Lemma decimal_neg z : z < 0 -> parse_int (decimal z) = Some z.
Proof.
  intros Hz. unfold decimal. replace (z <? 0) with true by lia.
  assert (Hn : 0 <= - z) by lia. set (n := - z) in *.
  replace (Z.to_nat (Z.log2 n) + 1)%nat with (S (Z.to_nat (Z.log2 n))) by lia.
  pose proof (pos_digits_head (Z.to_nat (Z.log2 n)) n [] Hn) as HD.
  pose proof (parse_pos_digits (S (Z.to_nat (Z.log2 n))) n []) as PP.
  destruct (pos_digits (S (Z.to_nat (Z.log2 n))) n []) as [|d r]; [destruct HD|].
  rewrite parse_int_dash, PP.
  - cbn [parse_digits]. f_equal. lia.
  - replace (S (Z.to_nat (Z.log2 n))) with (Z.to_nat (Z.log2 n) + 1)%nat by lia.
    now apply fuel_enough.
Qed.

Lemma decimal_roundtrip : S_decimal_roundtrip.
Proof.
  intros z. destruct (Z_lt_le_dec z 0); [now apply decimal_neg | now apply decimal_nonneg].
Qed.

(* hexadecimal text (ints of more than MAX_DECIMAL_BITS bits) *)
Lemma hex_value_digit d : 0 <= d < 16 -> hex_value (hex_digit d) = Some d.
Proof.
  intros H. unfold hex_value, hex_digit. destruct (d <? 10) eqn:E.
  - replace ((48 <=? 48 + d) && (48 + d <=? 57)) with true by lia. f_equal. lia.
  - replace ((48 <=? 87 + d) && (87 + d <=? 57)) with false by lia.
    replace ((97 <=? 87 + d) && (87 + d <=? 102)) with true by lia. f_equal. lia.
Qed.

Lemma parse_hex_digits : forall f n acc,
  0 <= n < 16 ^ Z.of_nat f ->
  parse_hex (hex_digits f n acc) 0 = parse_hex acc n.
Proof.
  induction f as [|f IH]; intros n acc H.
  - cbn in H. assert (n = 0) by lia. subst. reflexivity.
  - cbn [hex_digits]. destruct (Z.ltb_spec n 16) as [L|L].
    + cbn [parse_hex]. rewrite hex_value_digit by lia. f_equal.
    + assert (Es : Z.shiftr n 4 = n / 16) by (rewrite Z.shiftr_div_pow2 by lia; reflexivity).
      assert (El : Z.land n 15 = n mod 16) by (change 15 with (Z.ones 4); rewrite Z.land_ones by lia; reflexivity).
      rewrite Es, El. rewrite IH.
      * cbn [parse_hex]. rewrite hex_value_digit by lia. f_equal. rewrite Z.shiftl_mul_pow2 by lia. change (2 ^ 4) with 16. lia.
      * rewrite Nat2Z.inj_succ, Z.pow_succ_r in H by lia. lia.
Qed.

Lemma hex_fuel_enough z : 0 <= z -> 0 <= z < 16 ^ Z.of_nat (Z.to_nat (Z.log2 z) + 1).
Proof.
  intros Hz. split; [exact Hz|].
  pose proof (Z.log2_nonneg z) as L.
  rewrite Nat2Z.inj_add, Z2Nat.id by exact L. cbn [Z.of_nat Pos.of_succ_nat].
  destruct (Z.eq_dec z 0) as [->|NZ].
  - cbn. lia.
  - assert (z < 2 ^ (Z.log2 z + 1)).
    { pose proof (Z.log2_spec z ltac:(lia)) as S. unfold Z.succ in S. lia. }
    assert (2 ^ (Z.log2 z + 1) <= 16 ^ (Z.log2 z + 1)).
    { apply Z.pow_le_mono_l. lia. }
    lia.
Qed.

Lemma hex_roundtrip_nonneg z : 0 <= z ->
  parse_hex (hex_digits (Z.to_nat (Z.log2 z) + 1) z []) 0 = Some z.
Proof. intros Hz. rewrite parse_hex_digits by (now apply hex_fuel_enough). reflexivity. Qed.

Lemma hex_digits_acc_nonempty : forall f n acc, acc <> [] -> hex_digits f n acc <> [].
Proof.
  induction f as [|f IH]; intros n acc H; cbn [hex_digits]; [exact H|].
  destruct (n <? 16); [discriminate|]. apply IH. discriminate.
Qed.
Lemma hex_digits_nonempty : forall f n acc, hex_digits (S f) n acc <> [].
Proof.
  intros f n acc. cbn [hex_digits]. destruct (n <? 16); [discriminate|].
  apply hex_digits_acc_nonempty. discriminate.
Qed.

Definition is_digit (d : Z) : bool := (48 <=? d) && (d <=? 57).
Lemma pos_digits_all : forall f n acc, 0 <= n -> forallb is_digit acc = true -> forallb is_digit (pos_digits f n acc) = true.
Proof.
  induction f as [|f IH]; intros n acc Hn Ha; cbn [pos_digits]; [exact Ha|].
  destruct (Z.ltb_spec n 10).
  - cbn [forallb]. rewrite Ha. unfold is_digit. lia.
  - apply IH; [lia|]. cbn [forallb]. rewrite Ha. unfold is_digit. lia.
Qed.
Lemma digits_not_0x s : forallb is_digit s = true -> starts_0x s = false.
Proof.
  destruct s as [|a [|b r]]; cbn [starts_0x forallb]; try reflexivity.
  unfold is_digit. intros H. lia.
Qed.
Lemma decimal_text_plain z : parse_int_text (decimal z) = parse_int (decimal z).
Proof.
  unfold decimal. destruct (z <? 0) eqn:E.
  - set (d := pos_digits _ _ _).
    assert (Hd : forallb is_digit d = true) by (apply pos_digits_all; [lia|reflexivity]).
    unfold parse_int_text. cbn [starts_0x].
    destruct d as [|a r] eqn:Ed; [reflexivity|].
    replace (starts_0x (45 :: a :: r)) with false by (cbn [starts_0x]; lia).
    replace ((45 =? 45) && starts_0x (a :: r)) with false; [reflexivity|].
    rewrite (digits_not_0x _ Hd). reflexivity.
  - set (d := pos_digits _ _ _).
    assert (Hd : forallb is_digit d = true) by (apply pos_digits_all; [lia|reflexivity]).
    unfold parse_int_text. rewrite (digits_not_0x _ Hd).
    destruct d as [|a r]; [reflexivity|].
    cbn [forallb] in Hd. unfold is_digit in Hd. replace (a =? 45) with false by lia. reflexivity.
Qed.

Lemma hex_text_roundtrip z : parse_int_text (hex_text z) = Some z.
Proof.
  unfold hex_text. destruct (z <? 0) eqn:E.
  - unfold parse_int_text. cbn [starts_0x]. replace ((45 =? 48) && (48 =? 120)) with false by reflexivity.
    replace ((45 =? 45) && ((48 =? 48) && (120 =? 120))) with true by reflexivity. cbn [skipn].
    replace (Z.to_nat (Z.log2 (- z)) + 1)%nat with (S (Z.to_nat (Z.log2 (- z)))) by lia.
    pose proof (hex_digits_nonempty (Z.to_nat (Z.log2 (- z))) (- z) []) as Hne.
    pose proof (hex_roundtrip_nonneg (- z) ltac:(lia)) as Hr.
    replace (Z.to_nat (Z.log2 (- z)) + 1)%nat with (S (Z.to_nat (Z.log2 (- z)))) in Hr by lia.
    destruct (hex_digits (S (Z.to_nat (Z.log2 (- z)))) (- z) []) as [|a r]; [congruence|].
    rewrite Hr. cbn [option_map]. f_equal. lia.
  - unfold parse_int_text. cbn [starts_0x]. replace ((48 =? 48) && (120 =? 120)) with true by reflexivity. cbn [skipn].
    replace (Z.to_nat (Z.log2 z) + 1)%nat with (S (Z.to_nat (Z.log2 z))) by lia.
    pose proof (hex_digits_nonempty (Z.to_nat (Z.log2 z)) z []) as Hne.
    pose proof (hex_roundtrip_nonneg z ltac:(lia)) as Hr.
    replace (Z.to_nat (Z.log2 z) + 1)%nat with (S (Z.to_nat (Z.log2 z))) in Hr by lia.
    destruct (hex_digits (S (Z.to_nat (Z.log2 z))) z []) as [|a r]; [congruence|].
    exact Hr.
Qed.

Theorem int_text_roundtrip z : parse_int_text (int_text z) = Some z.
Proof.
  unfold int_text. destruct (bit_length z >? MAX_DECIMAL_BITS).
  - apply hex_text_roundtrip.
  - rewrite decimal_text_plain. apply decimal_roundtrip.
Qed.

(* the decimal form is only used for ints of at most 617 digits: below the smallest limit that
   sys.set_int_max_str_digits accepts (640), so str() / int() never refuse it *)
Lemma decimal_only_below_640_digits z :
  (bit_length z >? MAX_DECIMAL_BITS) = false -> Z.abs z < 10 ^ 617.
Proof.
  unfold bit_length, MAX_DECIMAL_BITS. intros H. destruct (z =? 0) eqn:E0.
  - assert (z = 0) by lia. subst. reflexivity.
  - assert (Hl : Z.log2 (Z.abs z) < 2048) by lia.
    assert (Hz : 0 < Z.abs z) by lia.
    apply Z.log2_lt_pow2 in Hl; [|exact Hz].
    assert (Hc : 2 ^ 2048 < 10 ^ 617) by (vm_compute; reflexivity).
    lia.
Qed.

(* ------------------------------------------------------------------ *)
(* 2. inner constants                                                   *)

Ltac vmr := vm_compute; reflexivity.

Definition QNANJ : Z := 9221120237041090560.
Definition canon_bits (b : Z) : Z := if float_is_nan b then QNANJ else b.
Fixpoint canon_i (k : iconst) : iconst :=
  match k with
  | IFloat b => IFloat (canon_bits b)
  | IComplex r i => IComplex (canon_bits r) (canon_bits i)
  | ITuple l => ITuple (map canon_i l)
  | IFrozenset l => IFrozenset (map canon_i l)
  | _ => k
  end.

Lemma float_rt b : float_from_json (float_to_json b) = OK (canon_bits b).
Proof.
  unfold float_to_json, canon_bits.
  destruct (float_is_inf b) eqn:I.
  - unfold float_is_inf in I. apply orb_true_iff in I.
    destruct I as [I|I]; apply Z.eqb_eq in I; rewrite I; vmr.
  - destruct (float_is_nan b) eqn:N; [vmr | reflexivity].
Qed.

Lemma as_const_float b :
  as_const (interp_json (float_to_json b)) = OK (IFloat (canon_bits b)).
Proof.
  assert (E : forall j, (exists x, j = JFloat x) \/ (exists s, j = JObj [(lit "float", JStr s)]) ->
    as_const (interp_json j) = match float_from_json j with OK x => OK (IFloat x) | Err e => Err e end).
  { intros j [[x ->]|[s ->]]; vmr. }
  rewrite E, float_rt; [reflexivity|].
  unfold float_to_json. destruct (float_is_inf b); [right; eauto|].
  destruct (float_is_nan b); [right|left]; eauto.
Qed.

Lemma as_const_int_obj s :
  as_const (interp_json (JObj [(lit "int", JStr s)])) =
  match parse_int_text s with Some z => OK (IInt z) | None => Err ValueError end.
Proof. vmr. Qed.

Lemma as_const_int z : as_const (interp_json (int_to_json z)) = OK (IInt z).
Proof.
  unfold int_to_json. destruct (_ || _); [|reflexivity].
  rewrite as_const_int_obj, int_text_roundtrip. reflexivity.
Qed.

Lemma as_const_str s : as_const (interp_json (str_to_json s)) = OK (IStr s).
Proof. unfold str_to_json. destruct (has_surrogate s); vmr. Qed.

Lemma as_const_complex a b :
  as_const (interp_json (JObj [(lit "real", a); (lit "imag", b)])) =
  match float_from_json a, float_from_json b with
  | OK x, OK y => OK (IComplex x y)
  | _, _ => Err TypeError
  end.
Proof. vmr. Qed.

Lemma as_const_bytes s : as_const (interp_json (JObj [(lit "bytes", JStr s)])) = OK (IBytes s).
Proof. vmr. Qed.

Lemma as_const_ellipsis : as_const (interp_json (JObj [(lit "type", JStr (lit "ellipsis"))])) = OK IEllipsis.
Proof. vmr. Qed.

Lemma as_const_frozenset v :
  as_const (interp_json (JObj [(lit "frozenset", v)])) =
  match as_const (interp_json v) with
  | OK (ITuple l) => OK (IFrozenset l) | OK _ => Err TypeError | Err e => Err e end.
Proof. vmr. Qed.

Lemma as_const_list l :
  as_const (interp_json (JList l)) =
  match mapM as_const (map interp_json l) with OK ks => OK (ITuple ks) | Err e => Err e end.
Proof. reflexivity. Qed.

Lemma mapM_cons {A B} (f : A -> res B) x xs :
  mapM f (x :: xs) = match f x with
                     | Err e => Err e
                     | OK y => match mapM f xs with Err e => Err e | OK ys => OK (y :: ys) end
                     end.
Proof. reflexivity. Qed.

Lemma mapM_map_ok {A B C} (g : A -> B) (p : B -> res C) (h : A -> C) l :
  Forall (fun x => p (g x) = OK (h x)) l -> mapM p (map g l) = OK (map h l).
Proof.
  induction 1 as [|x xs Hx _ IH]; [reflexivity|].
  cbn [map]. rewrite mapM_cons, Hx, IH. reflexivity.
Qed.

Lemma iconst_rt : forall k, as_const (interp_json (iconst_to_json k)) = OK (canon_i k).
Proof.
  induction k as [ |b|z|f|r i|s|b| |l IH|l IH] using iconst_ind'; cbn [iconst_to_json canon_i].
  - reflexivity.
  - reflexivity.
  - apply as_const_int.
  - apply as_const_float.
  - rewrite as_const_complex, !float_rt. reflexivity.
  - apply as_const_str.
  - apply as_const_bytes.
  - apply as_const_ellipsis.
  - rewrite as_const_list, map_map.
    rewrite (mapM_map_ok (fun x => interp_json (iconst_to_json x)) as_const canon_i); auto.
  - rewrite as_const_frozenset, as_const_list, map_map.
    rewrite (mapM_map_ok (fun x => interp_json (iconst_to_json x)) as_const canon_i); auto.
Qed.

Lemma canon_bits_key b : float_key_eqb b (canon_bits b) = true.
Proof.
  unfold canon_bits. destruct (float_is_nan b) eqn:N.
  - unfold float_key_eqb. rewrite N. reflexivity.
  - apply float_key_eqb_refl.
Qed.

Lemma leqb_map_r {A} (e : A -> A -> bool) (h : A -> A) l :
  Forall (fun x => e x (h x) = true) l -> leqb e l (map h l) = true.
Proof. induction 1 as [|x xs Hx _ IH]; cbn; auto. now rewrite Hx, IH. Qed.

Lemma fs_eqb_map_r {A} (e : A -> A -> bool) (h : A -> A) l :
  Forall (fun x => e x (h x) = true) l -> fs_eqb e l (map h l) = true.
Proof.
  intros H. rewrite Forall_forall in H. apply fs_eqb_true. split.
  - intros p Hp. exists (h p). split; [now apply in_map | now apply H].
  - intros q Hq. apply in_map_iff in Hq as (p & <- & Hp). exists p. split; auto.
Qed.

Lemma canon_i_key : forall k, ikey_eqb k (canon_i k) = true.
Proof.
  induction k as [ |b|z|f|r i|s|b| |l IH|l IH] using iconst_ind'; cbn [canon_i];
    try apply ikey_eqb_refl.
  - cbn [ikey_eqb]. apply canon_bits_key.
  - cbn [ikey_eqb]. now rewrite !canon_bits_key.
  - rewrite ikey_eqb_tuple. now apply leqb_map_r.
  - rewrite ikey_eqb_frozenset. now apply fs_eqb_map_r.
Qed.

Lemma iconst_roundtrip : S_iconst_roundtrip.
Proof. intros k. exists (canon_i k). split; [apply iconst_rt | apply canon_i_key]. Qed.

(* ------------------------------------------------------------------ *)
(* 5. the JSON form is strict JSON                                      *)

Definition plainf (f : list (str * json)) : bool := forallb (fun kv => json_plain (snd kv)) f.

Lemma json_plain_obj f : json_plain (JObj f) = plainf f.
Proof.
  induction f as [|[k v] r IH]; [reflexivity|].
  change (json_plain (JObj ((k, v) :: r))) with (json_plain v && json_plain (JObj r)).
  rewrite IH. reflexivity.
Qed.

Lemma json_plain_list l : json_plain (JList l) = forallb json_plain l.
Proof.
  induction l as [|x r IH]; [reflexivity|].
  change (json_plain (JList (x :: r))) with (json_plain x && json_plain (JList r)).
  rewrite IH. reflexivity.
Qed.

Lemma plainf_app a b : plainf (a ++ b) = plainf a && plainf b.
Proof. apply forallb_app. Qed.

Lemma plainf_cons k v r : plainf ((k, v) :: r) = json_plain v && plainf r.
Proof. reflexivity. Qed.

Lemma plain_list_map {A} (f : A -> json) l :
  Forall (fun x => json_plain (f x) = true) l -> json_plain (JList (map f l)) = true.
Proof.
  intros H. rewrite json_plain_list, forallb_forall. intros j Hj.
  apply in_map_iff in Hj as (x & <- & Hx). rewrite Forall_forall in H. now apply H.
Qed.

Lemma plainf_opt_field {A} n (f : A -> json) o :
  (forall x, json_plain (f x) = true) -> plainf (opt_field n f o) = true.
Proof. intros H. destruct o; cbn; auto. now rewrite H. Qed.

Lemma plainf_list_field_F {A} n (f : A -> json) l :
  Forall (fun x => json_plain (f x) = true) l -> plainf (list_field n f l) = true.
Proof.
  intros H. destruct l as [|x r]; [reflexivity|].
  unfold list_field. rewrite plainf_cons, plain_list_map by exact H. reflexivity.
Qed.

Lemma plainf_list_field {A} n (f : A -> json) l :
  (forall x, json_plain (f x) = true) -> plainf (list_field n f l) = true.
Proof. intros H. apply plainf_list_field_F. apply Forall_forall. auto. Qed.

Lemma plainf_bool_field n b : plainf (bool_field n b) = true.
Proof. now destruct b. Qed.

Lemma plain_int z : json_plain (int_to_json z) = true.
Proof.
  unfold int_to_json. destruct (_ || _) eqn:E; [reflexivity|].
  cbn [json_plain]. unfold small. lia.
Qed.

Lemma plain_float b : json_plain (float_to_json b) = true.
Proof.
  unfold float_to_json. destruct (float_is_inf b) eqn:I; [reflexivity|].
  destruct (float_is_nan b) eqn:N; [reflexivity|]. cbn [json_plain]. now rewrite I, N.
Qed.

Lemma plain_str s : json_plain (str_to_json s) = true.
Proof. unfold str_to_json. now destruct (has_surrogate s). Qed.

Lemma plain_iconst : forall k, json_plain (iconst_to_json k) = true.
Proof.
  induction k as [ |b|z|f|r i|s|b| |l IH|l IH] using iconst_ind'; cbn [iconst_to_json];
    try reflexivity.
  - apply plain_int.
  - apply plain_float.
  - rewrite json_plain_obj, !plainf_cons, !plain_float. reflexivity.
  - apply plain_str.
  - now apply plain_list_map.
  - rewrite json_plain_obj, plainf_cons, plain_list_map by exact IH. reflexivity.
Qed.

Lemma plain_args a : json_plain (args_to_json a) = true.
Proof.
  unfold args_to_json. rewrite json_plain_obj, !plainf_app,
    !plainf_list_field, !plainf_opt_field by apply plain_str. reflexivity.
Qed.

Lemma plain_function f : json_plain (function_to_json f) = true.
Proof.
  unfold function_to_json. rewrite json_plain_obj, !plainf_app.
  rewrite plainf_opt_field by apply plain_str.
  rewrite plainf_opt_field by reflexivity.
  destruct (args_is_default (fn_args f)); [reflexivity|].
  rewrite plainf_cons, plain_args. reflexivity.
Qed.

Lemma plain_addline a : json_plain (addline_to_json a) = true.
Proof.
  unfold addline_to_json. rewrite json_plain_obj, plainf_cons.
  rewrite plainf_list_field by apply plain_int.
  destruct (al_line a); [now rewrite plain_int | reflexivity].
Qed.

Section PlainData.
  Context {C : Type} (cj : C -> json).
  Let PC (c : C) : Prop := json_plain (cj c) = true.

  Lemma plain_arg a : argP PC a -> json_plain (arg_to_json cj a) = true.
  Proof.
    destruct a; cbn [arg_to_json argP]; intros H; try apply plain_int;
      rewrite json_plain_obj, ?plainf_cons, ?plain_int, ?plain_str, ?plainf_bool_field,
        ?plainf_opt_field by apply plain_int; try reflexivity.
    - rewrite H. reflexivity.
    - destruct (z =? 0); [reflexivity|]. now rewrite plainf_cons, plain_int.
  Qed.

  Lemma plain_instr i : instrP PC i -> json_plain (instr_to_json cj i) = true.
  Proof.
    intros H. unfold instr_to_json. rewrite json_plain_obj, plainf_cons, !plainf_app.
    rewrite !plainf_opt_field by apply plain_int.
    rewrite plainf_list_field by apply plain_int.
    destruct (arg_is_default (i_arg i)); [reflexivity|].
    rewrite plainf_cons, plain_arg by exact H. reflexivity.
  Qed.

  Lemma plain_cd d : cdP PC d -> json_plain (cd_to_json_with cj d) = true.
  Proof.
    intros [HB HA]. unfold cd_to_json_with. rewrite json_plain_obj, !plainf_app.
    rewrite !plainf_cons, !plain_int, !plain_str.
    rewrite plainf_opt_field by apply plain_function.
    rewrite plainf_list_field by apply plain_str.
    rewrite !plainf_bool_field.
    rewrite plainf_opt_field by apply plain_addline.
    rewrite plainf_list_field_F.
    2:{ eapply Forall_impl; [|exact HA]. apply plain_arg. }
    rewrite plain_list_map; [reflexivity|].
    eapply Forall_impl; [|exact HB]. intros b Hb. apply plain_list_map.
    eapply Forall_impl; [|exact Hb]. apply plain_instr.
  Qed.
End PlainData.

Lemma plain_const : forall k, json_plain (const_to_json k) = true.
Proof.
  induction k as [i|d IH] using const_ind'; cbn [const_to_json].
  - apply plain_iconst.
  - now apply plain_cd.
Qed.

(* holds for every CodeData: big ints and special floats are always written as objects *)
Theorem json_plain_all d : json_plain (code_data_to_json d) = true.
Proof. apply (plain_cd const_to_json). apply cdP_all. exact plain_const. Qed.

Theorem json_plain_thm : S_json_plain.
Proof. intros d _. apply json_plain_all. Qed.

(* ------------------------------------------------------------------ *)
(* 3. CodeData: objects with hidden defaults                            *)

(* a field that is present or hidden *)
Definition ofield (n : string) (o : option json) : list (str * json) :=
  match o with Some j => [(lit n, j)] | None => [] end.
Definition lfo {A} (f : A -> json) (l : list A) : option json :=
  match l with [] => None | _ => Some (JList (map f l)) end.
Definition bfo (b : bool) : option json := if b then Some (JBool true) else None.

Lemma opt_field_ofield {A} n (f : A -> json) o : opt_field n f o = ofield n (option_map f o).
Proof. now destruct o. Qed.
Lemma list_field_ofield {A} n (f : A -> json) l : list_field n f l = ofield n (lfo f l).
Proof. now destruct l. Qed.
Lemma bool_field_ofield n b : bool_field n b = ofield n (bfo b).
Proof. now destruct b. Qed.
Lemma if_ofield (c : bool) n v :
  (if c then [] else [(lit n, v)]) = ofield n (if c then None else Some v).
Proof. now destruct c. Qed.

(* the readers of such fields *)
Definition omapM {A} (p : json -> res A) (o : option json) : res (option A) :=
  match o with
  | None => OK None
  | Some j => match p j with OK v => OK (Some v) | Err e => Err e end
  end.
Definition odef {A} (p : json -> res A) (d : A) (o : option json) : res A :=
  match o with None => OK d | Some j => p j end.
Definition boolp (j : json) : res bool := match j with JBool b => OK b | _ => Err TypeError end.

(* reading an object, field values abstract *)
Lemma args_read a b c d e :
  args_from_json (JObj (ofield "positional_only" a ++ ofield "positional_or_keyword" b
                        ++ ofield "var_positional" c ++ ofield "keyword_only" d
                        ++ ofield "var_keyword" e)) =
  match odef strings_from_json [] a, odef strings_from_json [] b, omapM string_from_json c,
        odef strings_from_json [] d, omapM string_from_json e with
  | OK a, OK b, OK c, OK d, OK e =>
      OK {| a_posonly := a; a_poskw := b; a_varpos := c; a_kwonly := d; a_varkw := e |}
  | _, _, _, _, _ => Err TypeError
  end.
Proof. destruct a, b, c, d, e; vmr. Qed.

Lemma function_read a d t :
  function_from_json (JObj (ofield "args" a ++ ofield "docstring" d ++ ofield "type" t)) =
  match odef args_from_json empty_args a, omapM string_from_json d, omapM fntype_from_json t with
  | OK a, OK d, OK t => OK (mkFunction a d t)
  | _, _, _ => Err TypeError
  end.
Proof. destruct a, d, t; vmr. Qed.

Lemma addline_read l o :
  addline_from_json (JObj ((lit "line", l) :: ofield "additional_offsets" o)) =
  match l with
  | JNull => match odef ints_from_json [] o with OK o => OK (mkAddline None o) | Err e => Err e end
  | JInt l => match odef ints_from_json [] o with OK o => OK (mkAddline (Some l) o) | Err e => Err e end
  | _ => Err TypeError
  end.
Proof. destruct o; vmr. Qed.

Definition is_code (raw : json) : bool :=
  match raw with JObj g => jhas g "filename" | _ => false end.

Lemma arg_read_int z : as_arg (interp_json (JInt z)) = OK (AInt z).
Proof. reflexivity. Qed.

Lemma arg_read_jump t ro :
  as_arg (interp_json (JObj ((lit "target", JInt t) :: ofield "relative" ro))) =
  match odef boolp false ro with OK r => OK (AJump t r) | Err _ => Err TypeError end.
Proof. destruct ro; vmr. Qed.

Lemma arg_read_name sj ov :
  as_arg (interp_json (JObj ((lit "name", sj) :: ofield "_index_override" ov))) =
  match string_from_json sj, omapM int_from_json ov with
  | OK s, OK ov => OK (AName s ov) | _, _ => Err TypeError end.
Proof. destruct ov; vmr. Qed.

Lemma arg_read_varname sj ov :
  as_arg (interp_json (JObj ((lit "varname", sj) :: ofield "_index_override" ov))) =
  match string_from_json sj, omapM int_from_json ov with
  | OK s, OK ov => OK (AVarname s ov) | _, _ => Err TypeError end.
Proof. destruct ov; vmr. Qed.

Lemma arg_read_cellvar sj ov :
  as_arg (interp_json (JObj ((lit "cellvar", sj) :: ofield "_index_override" ov))) =
  match string_from_json sj, omapM int_from_json ov with
  | OK s, OK ov => OK (ACellvar s ov) | _, _ => Err TypeError end.
Proof. destruct ov; vmr. Qed.

Lemma arg_read_freevar sj :
  as_arg (interp_json (JObj [(lit "freevar", sj)])) =
  match string_from_json sj with OK s => OK (AFreevar s) | Err _ => Err TypeError end.
Proof. vmr. Qed.

Lemma arg_read_noarg z : as_arg (interp_json (JObj [(lit "_arg", JInt z)])) = OK (ANoArg z).
Proof. vmr. Qed.

Lemma arg_read_const raw ov :
  as_arg (interp_json (JObj ((lit "constant", raw) :: ofield "_index_override" ov))) =
  match omapM int_from_json ov with
  | OK ov =>
      if is_code raw
      then match as_cd (interp_json raw) with OK d => OK (AConst (KCode d) ov) | Err e => Err e end
      else match as_const (interp_json raw) with OK k => OK (AConst (KInner k) ov) | Err e => Err e end
  | Err _ => Err TypeError
  end.
Proof. destruct ov; vmr. Qed.

Lemma instr_read nm argo nargs line offs :
  as_instr (interp_json (JObj ((lit "name", nm) :: ofield "arg" argo
                               ++ ofield "_n_args_override" nargs ++ ofield "line_number" line
                               ++ ofield "_line_offsets_override" offs))) =
  match nm with
  | JStr [n] =>
      match (match argo with Some c => as_arg (interp_json c) | None => OK (ANoArg 0) end),
            omapM int_from_json nargs, omapM int_from_json line, odef ints_from_json [] offs with
      | OK a, OK n_, OK l, OK o => OK (mkInstr n a n_ l o)
      | Err e, _, _, _ => Err e
      | _, _, _, _ => Err TypeError
      end
  | _ => Err TypeError
  end.
Proof. destruct argo, nargs, line, offs; vmr. Qed.

(* the readings of the fields of an object *)
Definition imap (f : list (str * json)) : list (str * interp) :=
  map (fun kv => (fst kv, interp_json (snd kv))) f.

Lemma interp_obj f :
  interp_json (JObj f) =
  mkInterp (const_of_obj f (imap f)) (arg_of_obj f (imap f)) (instr_of_obj f (imap f))
           (cd_of_obj f (imap f)) (Err TypeError) (Err TypeError) (Err TypeError).
Proof.
  cbn [interp_json].
  match goal with |- context [const_of_obj f ?g] => assert (E : g = imap f) end.
  { induction f as [|[k v] r IH]; [reflexivity|]. cbn [imap map fst snd]. f_equal. exact IH. }
  rewrite E. reflexivity.
Qed.

Lemma iget_imap f k : iget (imap f) k = option_map interp_json (jget f k).
Proof.
  induction f as [|[k' v] r IH]; [reflexivity|].
  cbn [imap map fst snd iget jget]. destruct (str_eqb k' k); [reflexivity | exact IH].
Qed.

Lemma cd_read b fnm fl nm ss ty fv fa ne al aa :
  as_cd (interp_json (JObj ([(lit "blocks", b); (lit "filename", fnm);
                             (lit "first_line_number", JInt fl); (lit "name", nm);
                             (lit "stacksize", JInt ss)]
                            ++ ofield "type" ty ++ ofield "freevars" fv
                            ++ ofield "future_annotations" fa ++ ofield "_nested" ne
                            ++ ofield "_additional_line" al ++ ofield "_additional_args" aa))) =
  match as_blocks (interp_json b), string_from_json fnm, string_from_json nm,
        omapM function_from_json ty, odef strings_from_json [] fv, odef boolp false fa,
        odef boolp false ne, omapM addline_from_json al,
        (match aa with Some c => as_args (interp_json c) | None => OK [] end) with
  | OK blocks, OK filename, OK name, OK tp, OK fv, OK fa, OK ne, OK al, OK aa =>
      OK (mkCD blocks filename fl name ss tp fv fa ne al aa)
  | Err e, _, _, _, _, _, _, _, _ => Err e
  | _, _, _, _, _, _, _, _, Err e => Err e
  | _, _, _, _, _, _, _, _, _ => Err TypeError
  end.
Proof.
  rewrite interp_obj. cbn [as_cd].
  match goal with |- cd_of_obj ?g _ = _ => remember g as f eqn:Ef end.
  assert (K : keys_within f ["blocks"; "filename"; "first_line_number"; "name"; "stacksize"; "type";
                          "freevars"; "future_annotations"; "_nested"; "_additional_line";
                          "_additional_args"]%string = true)
    by (rewrite Ef; destruct ty, fv, fa, ne, al, aa; vmr).
  assert (G1 : jget f (lit "blocks") = Some b) by (rewrite Ef; vmr).
  assert (G2 : jget f (lit "filename") = Some fnm) by (rewrite Ef; vmr).
  assert (G3 : jget f (lit "first_line_number") = Some (JInt fl)) by (rewrite Ef; vmr).
  assert (G4 : jget f (lit "name") = Some nm) by (rewrite Ef; vmr).
  assert (G5 : jget f (lit "stacksize") = Some (JInt ss)) by (rewrite Ef; vmr).
  assert (G6 : jget f (lit "type") = ty) by (rewrite Ef; destruct ty, fv, fa, ne, al, aa; vmr).
  assert (G7 : jget f (lit "freevars") = fv) by (rewrite Ef; destruct ty, fv, fa, ne, al, aa; vmr).
  assert (G8 : jget f (lit "future_annotations") = fa) by (rewrite Ef; destruct ty, fv, fa, ne, al, aa; vmr).
  assert (G9 : jget f (lit "_nested") = ne) by (rewrite Ef; destruct ty, fv, fa, ne, al, aa; vmr).
  assert (G10 : jget f (lit "_additional_line") = al)
    by (rewrite Ef; destruct ty, fv, fa, ne, al, aa; vmr).
  assert (G11 : jget f (lit "_additional_args") = aa)
    by (rewrite Ef; destruct ty, fv, fa, ne, al, aa; vmr).
  clear Ef. unfold cd_of_obj, opt_get, def_get.
  rewrite K, !iget_imap, G1, G2, G3, G4, G5, G6, G7, G8, G9, G10, G11.
  cbn [negb option_map]. destruct aa; reflexivity.
Qed.

(* ------------------------------------------------------------------ *)
(* field values                                                         *)

Lemma string_rt s : string_from_json (str_to_json s) = OK s.
Proof. unfold str_to_json. destruct (has_surrogate s); vmr. Qed.

Lemma mapM_ok_id {A} (g : A -> json) (p : json -> res A) l :
  Forall (fun x => p (g x) = OK x) l -> mapM p (map g l) = OK l.
Proof.
  intros H. rewrite (mapM_map_ok g p (fun x => x)) by exact H. now rewrite map_id.
Qed.

Lemma strings_rt l : odef strings_from_json [] (lfo str_to_json l) = OK l.
Proof.
  destruct l as [|x r]; [reflexivity|]. unfold lfo, odef, strings_from_json.
  apply mapM_ok_id. apply Forall_forall. intros; apply string_rt.
Qed.

Lemma ostring_rt o : omapM string_from_json (option_map str_to_json o) = OK o.
Proof. destruct o; cbn [option_map omapM]; [now rewrite string_rt | reflexivity]. Qed.

Lemma int_small z : small z = true -> int_to_json z = JInt z.
Proof.
  unfold small, int_to_json. intros H.
  replace ((z <? MIN_INTEGER) || (z >? MAX_INTEGER)) with false by lia. reflexivity.
Qed.

Lemma oint_rt o : small_opt o = true -> omapM int_from_json (option_map int_to_json o) = OK o.
Proof. destruct o; cbn [option_map omapM small_opt]; intros H; [now rewrite int_small | reflexivity]. Qed.

Lemma ints_rt l : forallb small l = true -> odef ints_from_json [] (lfo int_to_json l) = OK l.
Proof.
  intros H. destruct l as [|x r]; [reflexivity|]. unfold lfo, odef, ints_from_json.
  apply mapM_ok_id. apply Forall_forall. intros z Hz.
  rewrite forallb_forall in H. now rewrite int_small by auto.
Qed.

Lemma bool_rt b : odef boolp false (bfo b) = OK b.
Proof. now destruct b. Qed.

Lemma args_is_default_true a : args_is_default a = true -> a = empty_args.
Proof.
  destruct a as [[|? ?] [|? ?] [?|] [|? ?] [?|]]; cbn; intros H; try discriminate H; reflexivity.
Qed.

Lemma args_rt a : args_from_json (args_to_json a) = OK a.
Proof.
  unfold args_to_json. rewrite !list_field_ofield, !opt_field_ofield, args_read,
    !strings_rt, !ostring_rt. now destruct a.
Qed.

Lemma fntype_rt t : fntype_from_json (JStr (fntype_name t)) = OK t.
Proof. destruct t; vmr. Qed.

Lemma function_rt f : function_from_json (function_to_json f) = OK f.
Proof.
  unfold function_to_json. rewrite if_ofield, !opt_field_ofield, function_read, ostring_rt.
  assert (E1 : odef args_from_json empty_args
                 (if args_is_default (fn_args f) then None else Some (args_to_json (fn_args f)))
               = OK (fn_args f)).
  { destruct (args_is_default (fn_args f)) eqn:D; cbn [odef].
    - now rewrite (args_is_default_true _ D).
    - apply args_rt. }
  assert (E2 : omapM fntype_from_json (option_map (fun t => JStr (fntype_name t)) (fn_type f))
               = OK (fn_type f)).
  { destruct (fn_type f); cbn [option_map omapM]; [now rewrite fntype_rt | reflexivity]. }
  rewrite E1, E2. now destruct f.
Qed.

Lemma ofunction_rt o : omapM function_from_json (option_map function_to_json o) = OK o.
Proof. destruct o; cbn [option_map omapM]; [now rewrite function_rt | reflexivity]. Qed.

Lemma addline_rt a :
  small_opt (al_line a) = true -> forallb small (al_offs a) = true ->
  addline_from_json (addline_to_json a) = OK a.
Proof.
  intros H1 H2. unfold addline_to_json. rewrite list_field_ofield, addline_read.
  rewrite ints_rt by exact H2. destruct a as [[l|] o]; cbn [al_line al_offs] in *.
  - cbn [small_opt] in H1. now rewrite int_small.
  - reflexivity.
Qed.

(* ------------------------------------------------------------------ *)
(* the loaded value: the original with every NaN replaced by the canonical one *)

Definition map_arg {C D} (f : C -> D) (a : arg_ C) : arg_ D :=
  match a with
  | AInt z => AInt z
  | AJump t r => AJump t r
  | AName s o => AName s o
  | AVarname s o => AVarname s o
  | AConst c o => AConst (f c) o
  | AFreevar s => AFreevar s
  | ACellvar s o => ACellvar s o
  | ANoArg z => ANoArg z
  end.
Definition map_instr {C D} (f : C -> D) (i : instr_ C) : instr_ D :=
  mkInstr (i_name i) (map_arg f (i_arg i)) (i_nargs i) (i_line i) (i_lineoffs i).
Definition map_cd {C D} (f : C -> D) (d : code_data_ C) : code_data_ D :=
  mkCD (map (map (map_instr f)) (cd_blocks d)) (cd_filename d) (cd_firstline d) (cd_name d)
       (cd_stacksize d) (cd_type d) (cd_freevars d) (cd_future_annotations d) (cd_nested d)
       (cd_addline d) (map (map_arg f) (cd_addargs d)).

Fixpoint canon_const (k : const) : const :=
  match k with
  | KInner i => KInner (canon_i i)
  | KCode d => KCode (map_cd canon_const d)
  end.
Definition canon_cd : code_data -> code_data := map_cd canon_const.
