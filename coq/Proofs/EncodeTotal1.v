(* C03, totality, part 1: every stage of blocks_to_bytes succeeds on well-formed blocks without
   private override fields whose free-variable operands are declared.
   - the operand tables (FromArgs) only ever append at the next index, so no __setitem__ collides and
     to_tuple finds the indices 0..n-1 ([keys_from], [tbl_ok], [from_arg_ok], [first_args_ok]);
   - the table of local names starts with the parameters, whatever they are ([enc_init_ok]: the
     assertion of to_code on the co_varnames prefix can never fail, duplicates or not);
   - a round of the jump relaxation raises only on a jump to a missing block ([uj_ok]), so with
     RelaxProofs.relax_terminates the loop returns ([relax_err_fuel]);
   - the assembler raises only on an opcode without a name ([assemble_ok]).
   [b2b_total] composes them. *)
From Coq Require Import ZArith List Bool Lia ZifyBool.
From PCD Require Import Base.PyBase Base.Cfg Model.Flags Model.Args Model.Data Model.Consts
  Model.LineTable Model.Blocks Model.CodeData Spec.Lnotab Spec.Dis Model.ViewSer
  Proofs.C02_Statements Proofs.C11_Statements Proofs.C01_Statements Proofs.C03_Statements
  Proofs.C03b_Statements Proofs.C03c_Statements.
From PCD Require Proofs.TablesReplay Proofs.RelaxProofs Proofs.EncodeView Proofs.EncodeCorrect.
Import ListNotations. Open Scope Z_scope.

Module TR := TablesReplay.
Module RP := RelaxProofs.
Module EVw := EncodeView.
Module EC := EncodeCorrect.

(* ------------------------------------------------------------------ *)
(** * 1. Dictionaries whose keys are s, s+1, s+2, ... in insertion order *)

Section SeqDict.
  Context {T : Type}.

  Fixpoint keys_from (s : Z) (d : odict T) : Prop :=
    match d with
    | [] => True
    | (k, _) :: r => k = s /\ keys_from (s + 1) r
    end.

  Lemma zlen_cons {A} (x : A) r : zlen (x :: r) = 1 + zlen r.
  Proof. unfold zlen. cbn [length]. lia. Qed.

  Lemma zlen_nonneg {A} (l : list A) : 0 <= zlen l.
  Proof. unfold zlen. lia. Qed.

  Lemma kf_oget_out : forall (d : odict T) s k,
    keys_from s d -> k < s \/ s + zlen d <= k -> oget d k = None.
  Proof.
    induction d as [|[k0 v0] r IH]; intros s k H Hk; [reflexivity|].
    cbn [keys_from] in H. destruct H as [-> H]. cbn [oget].
    rewrite zlen_cons in Hk. pose proof (zlen_nonneg r).
    destruct (s =? k) eqn:E; [lia|]. apply (IH (s + 1)); [exact H|lia].
  Qed.

  Lemma kf_oget_in : forall (d : odict T) s k,
    keys_from s d -> (k < length d)%nat -> oget d (s + Z.of_nat k) = nth_error (map snd d) k.
  Proof.
    induction d as [|[k0 v0] r IH]; intros s k H Hk; [cbn [length] in Hk; lia|].
    cbn [keys_from] in H. destruct H as [-> H]. cbn [oget map snd].
    destruct k as [|k].
    - replace (s + Z.of_nat 0) with s by lia. rewrite Z.eqb_refl. reflexivity.
    - destruct (s =? s + Z.of_nat (S k)) eqn:E; [lia|]. cbn [nth_error].
      replace (s + Z.of_nat (S k)) with (s + 1 + Z.of_nat k) by lia.
      apply IH; [exact H|cbn [length] in Hk; lia].
  Qed.

  Lemma kf_snoc : forall (d : odict T) s v,
    keys_from s d ->
    oset d (s + zlen d) v = d ++ [(s + zlen d, v)] /\ keys_from s (d ++ [(s + zlen d, v)]).
  Proof.
    induction d as [|[k0 v0] r IH]; intros s v H.
    - replace (s + zlen (@nil (Z * T))) with s by (unfold zlen; cbn [length]; lia).
      cbn [oset app keys_from]. auto.
    - cbn [keys_from] in H. destruct H as [-> H].
      replace (s + zlen ((s, v0) :: r)) with (s + 1 + zlen r) by (rewrite zlen_cons; lia).
      destruct (IH (s + 1) v H) as [E1 E2]. pose proof (zlen_nonneg r).
      cbn [oset app keys_from].
      destruct (s =? s + 1 + zlen r) eqn:E; [lia|].
      rewrite E1. split; [reflexivity|]. split; [reflexivity|exact E2].
  Qed.

  Lemma collect_of_nth (d : odict T) : forall n i l,
    length l = n ->
    (forall k, (k < n)%nat -> oget d (i + Z.of_nat k) = nth_error l k) ->
    collect d n i = Some l.
  Proof.
    induction n as [|n IH]; intros i l Hl Hn.
    - destruct l; [reflexivity|discriminate].
    - destruct l as [|x l]; [discriminate|]. cbn [collect].
      pose proof (Hn 0%nat ltac:(lia)) as H0. replace (i + Z.of_nat 0) with i in H0 by lia.
      cbn [nth_error] in H0. rewrite H0.
      rewrite (IH (i + 1) l).
      + reflexivity.
      + cbn [length] in Hl. lia.
      + intros k Hk. specialize (Hn (S k) ltac:(lia)). cbn [nth_error] in Hn. rewrite <- Hn.
        f_equal. lia.
  Qed.

  (* to_tuple of a dictionary with keys 0..n-1 never raises *)
  Lemma kf_to_tuple (st : fromargs T) :
    keys_from 0 (fa_items st) -> fa_to_tuple st = OK (map snd (fa_items st)).
  Proof.
    intros H. unfold fa_to_tuple.
    rewrite (collect_of_nth _ _ 0 (map snd (fa_items st))).
    - reflexivity.
    - apply map_length.
    - intros k Hk. apply (kf_oget_in _ 0 k H Hk).
  Qed.
End SeqDict.

(* ------------------------------------------------------------------ *)
(** * 2. One operand table *)

Section Table.
  Context {T : Type} (keq : T -> T -> bool).

  (* keys 0..n-1 in order; a remembered key implies a stored value *)
  Definition tbl_ok (st : fromargs T) : Prop :=
    keys_from 0 (fa_items st) /\ (fa_items st = [] -> fa_index st = []).

  Lemma tbl_ok_empty : tbl_ok fromargs_empty.
  Proof. split; [exact I|reflexivity]. Qed.

  (* storing at the next index never collides *)
  Lemma setitem_next (st : fromargs T) a :
    keys_from 0 (fa_items st) ->
    exists st', fa_setitem keq st (zlen (fa_items st)) a = OK st' /\ tbl_ok st' /\
                fa_items st' = fa_items st ++ [(zlen (fa_items st), a)].
  Proof.
    intros H. unfold fa_setitem.
    rewrite (kf_oget_out _ 0 _ H) by lia.
    destruct (kf_snoc _ 0 a H) as [E1 E2]. rewrite Z.add_0_l in E1, E2.
    eexists. split; [reflexivity|]. unfold tbl_ok. cbn [fa_items fa_index]. rewrite E1.
    split; [|reflexivity]. split; [exact E2|]. intros E. destruct (fa_items st); discriminate.
  Qed.

  (* add without an index override never raises *)
  Lemma fa_add_none_ok (st : fromargs T) a :
    tbl_ok st ->
    exists i st', fa_add keq st a None = OK (i, st') /\ tbl_ok st' /\ fa_items st' <> [] /\
                  exists r, map snd (fa_items st') = map snd (fa_items st) ++ r.
  Proof.
    intros [H1 H2]. unfold fa_add.
    destruct (key_lookup keq (fa_index st) a) as [i|] eqn:E.
    - exists i, st. split; [reflexivity|]. split; [split; assumption|]. split.
      + intros E0. rewrite (H2 E0) in E. cbn in E. discriminate.
      + exists []. now rewrite app_nil_r.
    - destruct (setitem_next st a H1) as (st' & -> & Hok & Hi).
      exists (zlen (fa_items st)), st'. split; [reflexivity|]. split; [exact Hok|]. split.
      + rewrite Hi. destruct (fa_items st); discriminate.
      + rewrite Hi, map_app. eexists. reflexivity.
  Qed.

  (* for i, k in enumerate(names): table[i] = k *)
  Lemma set_all_ok : forall (l : list T) (t : fromargs T),
    tbl_ok t ->
    exists t', TR.set_all keq l (zlen (fa_items t)) t = OK t' /\ tbl_ok t' /\
               map snd (fa_items t') = map snd (fa_items t) ++ l.
  Proof.
    induction l as [|k r IH]; intros t Ht.
    - exists t. cbn [TR.set_all]. rewrite app_nil_r. auto.
    - cbn [TR.set_all]. destruct (setitem_next t k (proj1 Ht)) as (t1 & -> & Hok & Hi).
      destruct (IH t1 Hok) as (t' & E & Hok' & Hm).
      assert (Hz : zlen (fa_items t1) = zlen (fa_items t) + 1).
      { rewrite Hi. unfold zlen. rewrite app_length. cbn [length]. lia. }
      rewrite Hz in E. exists t'. split; [exact E|]. split; [exact Hok'|].
      rewrite Hm, Hi, map_app. cbn [map snd]. rewrite <- app_assoc. reflexivity.
  Qed.
End Table.

(* ------------------------------------------------------------------ *)
(** * 3. The four tables; first evaluation of the operands *)

Definition is_cell {C} (a : arg_ C) : bool := match a with ACellvar _ _ => true | _ => false end.
Definition has_cell {C} (blocks : list (list (instr_ C))) : bool :=
  existsb (existsb (fun i : instr_ C => is_cell (i_arg i))) blocks.

Lemma existsb_concat {A} (P : A -> bool) : forall ls, existsb (existsb P) ls = existsb P (concat ls).
Proof.
  induction ls as [|l r IH]; [reflexivity|]. cbn [existsb concat]. now rewrite existsb_app, IH.
Qed.

Lemma index_of_existsb s : forall fv, existsb (str_eqb s) fv = true -> exists i, index_of str_eqb s fv = Some i.
Proof.
  induction fv as [|x r IH]; intros H; [discriminate|]. cbn [existsb] in H. cbn [index_of].
  destruct (str_eqb s x); [eauto|]. cbn [orb] in H. destruct (IH H) as [i ->]. eauto.
Qed.

Section EncTotal.
  Context {C : Type} (keq : C -> C -> bool) (is_str : C -> bool) (none_c : C) (str_c : str -> C).

  Definition est_ok (st : encstate C) : Prop :=
    tbl_ok (e_names st) /\ tbl_ok (e_varnames st) /\ tbl_ok (e_cellvars st) /\ tbl_ok (e_consts st).

  Definition vn_of (st : encstate C) : list str := map snd (fa_items (e_varnames st)).
  Definition cv_of (st : encstate C) : list str := map snd (fa_items (e_cellvars st)).
  Definition est_ext (st st' : encstate C) : Prop :=
    (exists r, vn_of st' = vn_of st ++ r) /\ (exists r, cv_of st' = cv_of st ++ r).

  (* no index override; a free variable is declared *)
  Definition arg_good (fv : list str) (a : arg_ C) : Prop :=
    match a with
    | AName _ ov | AVarname _ ov | ACellvar _ ov | AConst _ ov => ov = None
    | AFreevar s => exists i, index_of str_eqb s fv = Some i
    | _ => True
    end.

  Lemma est_ext_refl st : est_ext st st.
  Proof. split; exists []; now rewrite app_nil_r. Qed.

  Lemma est_ext_trans s1 s2 s3 : est_ext s1 s2 -> est_ext s2 s3 -> est_ext s1 s3.
  Proof.
    intros [[r1 E1] [q1 F1]] [[r2 E2] [q2 F2]]. split.
    - exists (r1 ++ r2). rewrite E2, E1, app_assoc. reflexivity.
    - exists (q1 ++ q2). rewrite F2, F1, app_assoc. reflexivity.
  Qed.

  Lemma est_ext_cv s1 s2 : est_ext s1 s2 -> cv_of s1 <> [] -> cv_of s2 <> [].
  Proof. intros [_ [q F]] H E. rewrite F in E. apply app_eq_nil in E as [E _]. contradiction. Qed.

  Lemma doc_pre_ok (cs0 : fromargs C) (b : bool) :
    tbl_ok cs0 -> (b = true -> fa_items cs0 = []) ->
    exists cs, (if b then fa_setitem keq cs0 0 none_c else OK cs0) = OK cs /\ tbl_ok cs.
  Proof.
    intros Hk Hb. destruct b; [|exists cs0; auto].
    unfold fa_setitem. rewrite (Hb eq_refl). cbn [oget oset].
    eexists. split; [reflexivity|]. unfold tbl_ok. cbn [fa_items fa_index keys_from].
    split; [auto|discriminate].
  Qed.

  Lemma from_arg_ok a bt fv st :
    est_ok st -> arg_good fv a ->
    exists v st', from_arg keq is_str none_c a bt fv st = OK (v, st') /\ est_ok st' /\ est_ext st st' /\
                  (is_cell a = true -> cv_of st' <> []).
  Proof.
    intros (Hn & Hv & Hc & Hk) Hg. pose proof (est_ext_refl st) as Hrefl.
    destruct a as [z|t r|s ov|s ov|k ov|s|s ov|z]; cbn [from_arg arg_good is_cell] in *.
    - exists z, st. split; [reflexivity|]. split; [unfold est_ok; auto|]. split; [exact Hrefl|discriminate].
    - exists 1, st. split; [reflexivity|]. split; [unfold est_ok; auto|]. split; [exact Hrefl|discriminate].
    - subst ov. destruct (fa_add_none_ok str_eqb (e_names st) s Hn) as (i & t' & -> & Hok & _ & _).
      exists i, (mkEnc t' (e_varnames st) (e_cellvars st) (e_consts st)). split; [reflexivity|].
      split; [unfold est_ok; cbn [e_names e_varnames e_cellvars e_consts]; auto|].
      split; [exact Hrefl|discriminate].
    - subst ov. destruct (fa_add_none_ok str_eqb (e_varnames st) s Hv) as (i & t' & -> & Hok & _ & Hr).
      exists i, (mkEnc (e_names st) t' (e_cellvars st) (e_consts st)). split; [reflexivity|].
      split; [unfold est_ok; cbn [e_names e_varnames e_cellvars e_consts]; auto|].
      split; [|discriminate].
      split; [exact Hr|exists []; unfold cv_of; cbn [e_cellvars]; now rewrite app_nil_r].
    - subst ov. cbv zeta.
      match goal with
      | |- context [if ?b then fa_setitem keq (e_consts st) 0 none_c else OK (e_consts st)] =>
          destruct (doc_pre_ok (e_consts st) b Hk) as (cs & -> & Hcs)
      end.
      { intros Hb. apply andb_true_iff in Hb as [Hb _]. apply andb_true_iff in Hb as [Hb _].
        apply andb_true_iff in Hb as [_ Hb]. destruct (fa_items (e_consts st)); [reflexivity|discriminate]. }
      destruct (fa_add_none_ok keq cs k Hcs) as (i & t' & -> & Hok & _ & _).
      exists i, (mkEnc (e_names st) (e_varnames st) (e_cellvars st) t'). split; [reflexivity|].
      split; [unfold est_ok; cbn [e_names e_varnames e_cellvars e_consts]; auto|].
      split; [exact Hrefl|discriminate].
    - destruct Hg as [i ->]. exists i, st. split; [reflexivity|]. split; [unfold est_ok; auto|].
      split; [exact Hrefl|discriminate].
    - subst ov. destruct (fa_add_none_ok str_eqb (e_cellvars st) s Hc) as (i & t' & -> & Hok & Hne & Hr).
      exists i, (mkEnc (e_names st) (e_varnames st) t' (e_consts st)). split; [reflexivity|].
      split; [unfold est_ok; cbn [e_names e_varnames e_cellvars e_consts]; auto|].
      split.
      + split; [exists []; unfold vn_of; cbn [e_varnames]; now rewrite app_nil_r|exact Hr].
      + intros _ E. unfold cv_of in E. cbn [e_cellvars] in E. apply map_eq_nil in E. contradiction.
    - exists z, st. split; [reflexivity|]. split; [unfold est_ok; auto|]. split; [exact Hrefl|discriminate].
  Qed.

  Lemma first_args_ok bt fv : forall l st,
    est_ok st -> Forall (fun i : instr_ C => arg_good fv (i_arg i)) l ->
    exists vals st', first_args keq is_str none_c l bt fv st = OK (vals, st') /\ est_ok st' /\
      est_ext st st' /\ length vals = length l /\
      (existsb (fun i : instr_ C => is_cell (i_arg i)) l = true -> cv_of st' <> []).
  Proof.
    induction l as [|i r IH]; intros st Hst Hl.
    - exists [], st. cbn [first_args existsb length]. split; [reflexivity|]. split; [exact Hst|].
      split; [apply est_ext_refl|]. split; [reflexivity|discriminate].
    - inversion Hl as [|? ? Hi Hr]; subst.
      destruct (from_arg_ok (i_arg i) bt fv st Hst Hi) as (v & st1 & E1 & Hst1 & Hx1 & Hc1).
      destruct (IH st1 Hst1 Hr) as (vs & st2 & E2 & Hst2 & Hx2 & Hlen & Hc2).
      exists (v :: vs), st2. cbn [first_args]. rewrite E1, E2. split; [reflexivity|].
      split; [exact Hst2|]. split; [eapply est_ext_trans; eauto|]. split; [cbn [length]; lia|].
      cbn [existsb]. intros H. apply orb_true_iff in H as [H|H].
      + eapply est_ext_cv; [exact Hx2|]. apply Hc1, H.
      + apply Hc2, H.
  Qed.

  Definition params (bt : option function) : list str :=
    match bt with Some f => args_to_varnames (fn_args f) | None => [] end.

  (* the initial tables: the parameters are the first local names, in order *)
  Lemma enc_init_ok bt :
    exists st0, enc_init keq str_c bt = OK st0 /\ est_ok st0 /\ vn_of st0 = params bt.
  Proof.
    pose proof (@tbl_ok_empty str) as Es. pose proof (@tbl_ok_empty C) as Ec.
    unfold enc_init. destruct bt as [f|].
    2:{ eexists. split; [reflexivity|]. split; [|reflexivity].
        unfold est_ok. cbn [e_names e_varnames e_cellvars e_consts]. auto. }
    match goal with
    | |- exists st0, match ?X with OK _ => _ | Err _ => _ end = _ /\ _ =>
        change X with (TR.set_all str_eqb (args_to_varnames (fn_args f)) 0 fromargs_empty)
    end.
    destruct (set_all_ok str_eqb (args_to_varnames (fn_args f)) fromargs_empty Es) as (vn & Ev & Hvn & Hm).
    change (zlen (fa_items (@fromargs_empty str))) with 0 in Ev.
    cbn [fromargs_empty fa_items map app] in Hm.
    rewrite Ev. destruct (fn_doc f) as [dstr|].
    - unfold fa_setitem. cbn [fromargs_empty fa_items fa_index oget oset key_set].
      eexists. split; [reflexivity|]. split; [|exact Hm].
      unfold est_ok. cbn [e_names e_varnames e_cellvars e_consts].
      split; [exact Es|]. split; [exact Hvn|]. split; [exact Es|].
      unfold tbl_ok. cbn [fa_items fa_index keys_from]. split; [auto|discriminate].
    - eexists. split; [reflexivity|]. split; [|exact Hm].
      unfold est_ok. cbn [e_names e_varnames e_cellvars e_consts]. auto.
  Qed.

  (* ---------------------------------------------------------------- *)
  (** * 4. Relaxation and assembling *)

  Lemma bo_length : forall (blocks : list (list (instr_ C))) vals cur,
    length (block_offsets blocks vals cur) = length blocks.
  Proof.
    induction blocks as [|b r IH]; intros vals cur; [reflexivity|].
    cbn [block_offsets]. cbv zeta. cbn [length]. now rewrite IH.
  Qed.

  (* a round raises only when a jump designates a missing block *)
  Lemma uj_ok c : forall (l : list (instr_ C)) vals offs cur,
    (length l <= length vals)%nat ->
    (forall i t r, In i l -> i_arg i = AJump t r -> 0 <= t < Z.of_nat (length offs)) ->
    exists out ch, update_jumps c l vals offs cur = OK (out, ch).
  Proof.
    induction l as [|i r IH]; intros vals offs cur Hl Hj.
    - exists [], false. reflexivity.
    - destruct vals as [|v vs]; [cbn [length] in Hl; lia|].
      cbn [update_jumps]. cbv zeta.
      destruct (IH vs offs (cur + n_units (i_nargs i) v)) as (rest & ch' & E).
      { cbn [length] in Hl. lia. }
      { intros j t rl Hin. apply Hj. right. exact Hin. }
      destruct (i_arg i) as [z|t rl|s ov|s ov|k ov|s|s ov|z] eqn:Ea;
        try (rewrite E; do 2 eexists; reflexivity).
      destruct (Hj i t rl (or_introl eq_refl) Ea) as [H0 H1].
      unfold py_index_dict. destruct (t <? 0) eqn:Et; [lia|].
      destruct (nth_error offs (Z.to_nat t)) as [toff|] eqn:En.
      + rewrite E. do 2 eexists. reflexivity.
      + apply nth_error_None in En. lia.
  Qed.

  Lemma relax_err_fuel c (blocks : list (list (instr_ C))) :
    (forall i t r, In i (concat blocks) -> i_arg i = AJump t r -> 0 <= t < zlen blocks) ->
    forall fuel vals e, length vals = length (concat blocks) ->
      relax fuel c blocks vals = Err e -> e = OutOfFuel.
  Proof.
    intros Hj. induction fuel as [|f IH]; intros vals e Hl H.
    - cbn [relax] in H. inversion H. reflexivity.
    - rewrite RP.relax_S in H.
      destruct (uj_ok c (concat blocks) vals (block_offsets blocks vals 0) 0) as (out & ch & E).
      { lia. }
      { intros i t r Hi Ha. rewrite bo_length. apply (Hj i t r Hi Ha). }
      rewrite E in H. destruct ch; [|discriminate].
      apply (IH out e); [|exact H]. eapply RP.uj_length; exact E.
  Qed.

  Lemma assemble_ok c : forall (l : list (instr_ C)) vals o lm,
    (length l <= length vals)%nat ->
    Forall (fun i : instr_ C => zmem (i_name i) (cfg_opcodes c) = true) l ->
    exists code lm', assemble c l vals o lm = OK (code, lm').
  Proof.
    induction l as [|i r IH]; intros vals o lm Hl Hop.
    - exists [], lm. reflexivity.
    - destruct vals as [|v vs]; [cbn [length] in Hl; lia|].
      inversion Hop as [|? ? Hi Hr]; subst.
      cbn [assemble]. rewrite Hi. cbn [negb]. cbv zeta.
      match goal with
      | |- context [assemble c r vs ?o' ?lm'] => destruct (IH vs o' lm') as (rest & lm2 & E)
      end.
      { cbn [length] in Hl. lia. }
      { exact Hr. }
      rewrite E. do 2 eexists. reflexivity.
  Qed.

  (* ---------------------------------------------------------------- *)
  (** * 5. blocks_to_bytes returns *)

  Lemma fits_basic c (i : instr_ C) : instr_fits c i = true ->
    zmem (i_name i) (cfg_opcodes c) = true /\ i_nargs i = None /\ i_lineoffs i = [].
  Proof.
    unfold instr_fits. cbv zeta. intros H.
    apply andb_true_iff in H as [H _]. apply andb_true_iff in H as [H HF].
    apply andb_true_iff in H as [H HE]. apply andb_true_iff in H as [H _].
    apply andb_true_iff in H as [H _]. apply andb_true_iff in H as [HA _].
    split; [exact HA|]. split.
    - destruct (i_nargs i); [discriminate|reflexivity].
    - destruct (i_lineoffs i); [reflexivity|discriminate].
  Qed.

  (* well-formed operands carry no index override *)
  Lemma fits_arg_good c fv (i : instr_ C) : instr_fits c i = true ->
    match i_arg i with AFreevar s => existsb (str_eqb s) fv | _ => true end = true ->
    arg_good fv (i_arg i).
  Proof.
    unfold instr_fits. cbv zeta. intros H Hf. apply andb_true_iff in H as [_ H].
    destruct (i_arg i) as [z|t r|s ov|s ov|k ov|s|s ov|z]; cbn [arg_good]; try exact I;
      try (apply andb_true_iff in H as [_ H]; destruct ov; [discriminate|reflexivity]).
    apply index_of_existsb. exact Hf.
  Qed.

  Theorem b2b_total c (blocks : list (list (instr_ C))) fv bt :
    blocks_wf c blocks = true ->
    Forall (fun i : instr_ C => arg_good fv (i_arg i)) (concat blocks) ->
    exists code vals names varnames cellvars consts,
      blocks_to_bytes keq is_str none_c str_c c blocks [] fv bt
      = OK (code, {| lm_lines := lines_of_layout (layout_of (concat blocks) vals 0); lm_adds := [] |},
            names, varnames, cellvars, consts) /\
      length vals = length (concat blocks) /\
      (exists r, varnames = params bt ++ r) /\
      (has_cell blocks = true -> cellvars <> []).
  Proof.
    intros Hwf Hg.
    pose proof (EVw.wf_fits c blocks Hwf) as Hfits.
    assert (Hnov : Forall EVw.nov (concat blocks)).
    { eapply Forall_impl; [|exact Hfits]. intros i Hi. apply fits_basic in Hi.
      destruct Hi as (_ & H1 & H2). split; assumption. }
    pose proof (EVw.wf_jumps c blocks Hwf) as Hjmp.
    destruct (enc_init_ok bt) as (st0 & Ei & Hst0 & Hvn0).
    destruct (first_args_ok bt fv (concat blocks) st0 Hst0 Hg) as (vals0 & st & Ef & Hst & Hx & Hlen0 & Hcell).
    unfold blocks_to_bytes. rewrite Ei. cbv zeta. rewrite Ef. cbn [add_additional].
    set (vals1 := add_freevar_offset _ (concat blocks) vals0).
    assert (Hl1 : length vals1 = length (concat blocks)).
    { unfold vals1, add_freevar_offset. rewrite map_length, combine_length. lia. }
    destruct (relax (3 * length (concat blocks) + 2) c blocks vals1) as [vals|e] eqn:Er.
    2:{ exfalso. assert (e = OutOfFuel).
        { eapply (relax_err_fuel c blocks); [|exact Hl1|exact Er].
          intros i t r Hi Ha. apply In_nth_error in Hi as [k Hk].
          exact (proj1 (EVw.jumps_ok_nth blocks 0 (zlen blocks) k i t r Hjmp Hk Ha)). }
        subst e. revert Er. apply RP.relax_terminates.
        - exact Hl1.
        - apply EC.afo_jumps. eapply EC.first_args_jumps. exact Ef.
        - intros i n Hi Hn. rewrite Forall_forall in Hnov. destruct (Hnov i Hi) as [Hnone _].
          rewrite Hnone in Hn. discriminate. }
    destruct (RP.relax_consistent _ _ _ _ _ _ Er) as [Hlv _].
    destruct (assemble_ok c (concat blocks) vals 0 empty_linemap) as (code & lm & Ea).
    { lia. }
    { eapply Forall_impl; [|exact Hfits]. intros i Hi. apply fits_basic in Hi. apply Hi. }
    rewrite Ea.
    destruct (EVw.asm_spec c (concat blocks) vals 0 empty_linemap code lm Hnov (Forall_nil _) Ea)
      as (_ & Hlm & _).
    destruct Hst as (Hn & Hv & Hc & Hk).
    rewrite (kf_to_tuple (e_names st) (proj1 Hn)), (kf_to_tuple (e_varnames st) (proj1 Hv)),
      (kf_to_tuple (e_cellvars st) (proj1 Hc)), (kf_to_tuple (e_consts st) (proj1 Hk)).
    exists code, vals, (map snd (fa_items (e_names st))), (vn_of st), (cv_of st),
      (map snd (fa_items (e_consts st))).
    split; [subst lm; reflexivity|]. split; [exact Hlv|]. split.
    - destruct Hx as [[r Hr] _]. exists r. rewrite Hr, Hvn0. reflexivity.
    - intros H. apply Hcell. unfold has_cell in H. rewrite existsb_concat in H. exact H.
  Qed.
End EncTotal.
