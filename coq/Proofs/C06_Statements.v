(* Statements for C06 (normal form is canonical) - the parts that do not need the encoder. *)
From PCD Require Import Base.PyBase Base.Cfg Model.Flags Model.Args Model.Data Model.Consts
  Model.LineTable Model.Blocks Model.CodeData Model.Json Spec.Lnotab Spec.Dis Model.ViewSer
  Proofs.C02_Statements Proofs.C07_Statements.

Definition S_nz_idempotent : Prop := forall d, normalize (normalize d) = normalize d.

(* normalize respects equality of data (so it is well defined on values, not on representations) *)
Definition S_nz_congruence : Prop := forall a b, cd_eqb a b = true -> cd_eqb (normalize a) (normalize b) = true.

(* normalizing keeps the JSON-loadability premises *)
Definition S_nz_wfj : Prop := forall d, wfj_cd d = true -> wfj_cd (normalize d) = true.

(* a JSON round trip followed by normalize is normalize *)
Definition S_nz_json_stable : Prop := forall d,
  wfj_cd d = true ->
  exists d', code_data_from_json (code_data_to_json d) = OK d' /\
             cd_eqb (normalize d') (normalize d) = true.

(* any history over {JSON round trip, normalize} - of any length - leaves the normal form unchanged *)
Inductive hop6 := H_json | H_normalize.
Definition apply6 (o : hop6) (d : code_data) : res code_data :=
  match o with
  | H_json => code_data_from_json (code_data_to_json d)
  | H_normalize => OK (normalize d)
  end.
Fixpoint run6 (ops : list hop6) (d : code_data) : res code_data :=
  match ops with
  | [] => OK d
  | o :: r => match apply6 o d with OK d' => run6 r d' | Err e => Err e end
  end.
Definition S_history_stable : Prop := forall ops d,
  wfj_cd d = true ->
  exists d', run6 ops d = OK d' /\ cd_eqb (normalize d') (normalize d) = true.

(** * Canonicity: the normal form of decoded data is a function of CPython's reading of the code *)

(* rebuild normalized blocks from a flat symbolic view: cut at the first instruction and at every
   jump-targeted instruction, jump targets become block indices *)
Section Rebuild.
  Context {K : Type}.
  Definition view_targets (v : list (vinstr K)) : list Z :=
    sorted_set (0 :: flat_map (fun x => match v_val x with DJump t _ => [t] | _ => [] end) v).
  Definition view_arg (targets : list Z) (x : vinstr K) : arg_ K :=
    match v_val x with
    | DNoArg => ANoArg 0
    | DInt z => AInt z
    | DName s => AName s None
    | DLocal s => AVarname s None
    | DCell s => ACellvar s None
    | DFree s => AFreevar s
    | DConst k => AConst k None
    | DJump t rel => AJump (match index_of Z.eqb t targets with Some k => k | None => -1 end) rel
    | DBad => ANoArg 0
    end.
  Fixpoint cut_blocks (targets : list Z) (v : list (vinstr K)) (i : Z) (cur : list (instr_ K))
    : list (list (instr_ K)) :=
    match v with
    | [] => match cur with [] => [] | _ => [rev cur] end
    | x :: r =>
        let ins := mkInstr (v_op x) (view_arg targets x) None (v_line x) [] in
        if zmem i targets && negb (match cur with [] => true | _ => false end)
        then rev cur :: cut_blocks targets r (i + 1) [ins]
        else cut_blocks targets r (i + 1) (ins :: cur)
    end.
  Definition blocks_of_view (v : list (vinstr K)) : list (list (instr_ K)) :=
    cut_blocks (view_targets v) v 0 [].
End Rebuild.

Definition map_view {K L} (f : K -> L) (v : list (vinstr K)) : list (vinstr L) :=
  map (fun x => mkV (v_op x)
                    (match v_val x with
                     | DConst k => DConst (f k)
                     | DNoArg => DNoArg | DInt z => DInt z | DName s => DName s | DLocal s => DLocal s
                     | DCell s => DCell s | DFree s => DFree s | DJump t r => DJump t r | DBad => DBad
                     end) (v_line x)) v.

(* the normalized blocks of decoded data are rebuilt from dis's view alone (constants normalized) *)
Definition S_nz_of_view : Prop := forall c code ks d,
  view_wf c code ks = true ->
  decode_code c code ks = OK d ->
  co_code code <> [] ->
  cd_blocks (normalize d)
  = blocks_of_view (map_view normalize_const
      (dis_view c (co_code code) (co_names code) (co_varnames code) (co_freevars code)
                (co_cellvars code) ks (raw_entries (co_linetable code)) (co_firstlineno code))).

(* hence: two code objects that CPython reads as the same instruction stream (same opcodes, same
   resolved operands, same jump structure, same lines) and that agree on the header fields the data
   keeps, normalize to equal data - whatever the order of their tables, unreferenced entries,
   redundant EXTENDED_ARG prefixes or the CO_NESTED flag *)
Definition S_canonical : Prop := forall c code1 ks1 d1 code2 ks2 d2,
  view_wf c code1 ks1 = true -> view_wf c code2 ks2 = true ->
  decode_code c code1 ks1 = OK d1 -> decode_code c code2 ks2 = OK d2 ->
  co_code code1 <> [] -> co_code code2 <> [] ->
  map_view normalize_const
    (dis_view c (co_code code1) (co_names code1) (co_varnames code1) (co_freevars code1) (co_cellvars code1)
              ks1 (raw_entries (co_linetable code1)) (co_firstlineno code1))
  = map_view normalize_const
    (dis_view c (co_code code2) (co_names code2) (co_varnames code2) (co_freevars code2) (co_cellvars code2)
              ks2 (raw_entries (co_linetable code2)) (co_firstlineno code2)) ->
  cd_type d1 = cd_type d2 -> cd_freevars d1 = cd_freevars d2 ->
  cd_filename d1 = cd_filename d2 -> cd_name d1 = cd_name d2 -> cd_firstline d1 = cd_firstline d2 ->
  cd_stacksize d1 = cd_stacksize d2 -> cd_future_annotations d1 = cd_future_annotations d2 ->
  normalize d1 = normalize d2.
