(* Tie of the translation of code_data/_cli.py:main (Gen/SrcCli.v, regenerated on every run) to Model/Cli.v. *)
From PCD Require Import Base.PyBase Model.Cli.
From PCD Require Gen.SrcCli.

(* the source accepts a command line exactly when the model does: the sources are counted by presence, whether or not
   their value is empty *)
Lemma accepts_tie : forall file cmd mod_ eval_ : bool * bool,
  SrcCli.accepts file cmd mod_ eval_ = cli_accepts (fst file) (fst cmd) (fst mod_) (fst eval_).
Proof. intros [[] []] [[] []] [[] []] [[] []]; vm_compute; reflexivity. Qed.

(* what main prints, in order, and the value shown at each point *)
Lemma actions_tie : forall show_dis show_source show_dis_after no_normalize json has_source,
  SrcCli.actions show_dis show_source show_dis_after no_normalize json has_source
  = cli_actions show_dis show_source show_dis_after no_normalize json has_source.
Proof. intros [] [] [] [] [] []; vm_compute; reflexivity. Qed.

Definition action_value (a : action) : option dval :=
  match a with APrint v | AJson v | ADisAfter v => Some v | _ => None end.

(* every section of the output that shows data shows the same value: cli_data of the decoded data *)
Lemma actions_show_cli_data : forall {D} (normalize : D -> D) show_dis show_source show_dis_after no_normalize json has_source a v d,
  In a (SrcCli.actions show_dis show_source show_dis_after no_normalize json has_source) ->
  action_value a = Some v -> dval_denote normalize v d = cli_data normalize no_normalize d.
Proof.
  intros D normalize sd ss sda nn js hs a v d Hin Hv. rewrite actions_tie in Hin.
  assert (Hall : forall a', In a' (cli_actions sd ss sda nn js hs) -> forall v', action_value a' = Some v' -> v' = cli_value nn).
  { intros a' Hin'. unfold cli_actions in Hin'.
    repeat (apply in_app_or in Hin'; destruct Hin' as [Hin'|Hin']);
      repeat match goal with H : In _ (if ?b then _ else _) |- _ => destruct b end;
      simpl in Hin'; try contradiction;
      repeat match goal with H : _ \/ _ |- _ => destruct H end; try contradiction; subst; simpl; intros v' E; congruence. }
  rewrite (Hall a Hin v Hv). unfold cli_value, cli_data. destruct nn; reflexivity.
Qed.

(* the order of the sections: source, dis, data, JSON, dis-after - and the data is always printed, exactly once *)
Lemma actions_always_print : forall show_dis show_source show_dis_after no_normalize json has_source,
  zlen (filter (fun a => match a with APrint _ => true | _ => false end)
          (SrcCli.actions show_dis show_source show_dis_after no_normalize json has_source)) = 1%Z.
Proof. intros [] [] [] [] [] []; vm_compute; reflexivity. Qed.
