(* C03, last clause: decoding the code object emitted for well-formed data gives data equal to the
   input up to normalization - for HAND-BUILT well-formed data whose blocks are cut at the jump-target
   partition (not only for the normal form of decoded data, which is C06_code_roundtrip_corrected). *)
From Coq Require Import ZArith List Bool Lia ZifyBool.
From PCD Require Import Base.PyBase Base.Cfg Model.Flags Model.Args Model.Data Model.Consts
  Model.LineTable Model.Blocks Model.CodeData Spec.Lnotab Spec.Dis Model.ViewSer
  Proofs.C02_Statements Proofs.C11_Statements Proofs.C01_Statements Proofs.C03_Statements
  Proofs.C03b_Statements Proofs.C03c_Statements Proofs.C06_Statements Proofs.C03d_Statements.
From PCD Require Proofs.ConstsProofs Proofs.EncodeView Proofs.EncodeCorrect Proofs.Redecode
  Proofs.NormalizeProofs Proofs.JsonProofs1 Proofs.CodeRoundTrip1 Proofs.CodeRoundTrip2
  Proofs.CodeRoundTrip.
From PCD Require Gen.Cfg39 Gen.Cfg310.
Import ListNotations. Open Scope Z_scope.

Module EVw := EncodeView.
Module ECo := EncodeCorrect.
Module RD := Redecode.
Module CP := ConstsProofs.
Module NP := NormalizeProofs.
Module H := CodeRoundTrip1.
Module B := CodeRoundTrip2.
Module CRT := CodeRoundTrip.

(* ------------------------------------------------------------------ *)
(** * 1. The library-level data behind paired data; canonical blocks *)

(* every constant pair (k, p) replaced by k *)
Definition proj_cd (d : code_data_ pconst) : code_data := JsonProofs1.map_cd fst d.

(* every block but the first is the target of some jump: with the premises of data_wf (no empty
   block, jumps designate existing blocks) this says the blocks are exactly the jump-target partition
   of the instruction stream, which is how the decoder cuts them *)
Definition blocks_canonical {C} (blocks : list (list (instr_ C))) : Prop :=
  forall k, 0 < k < zlen blocks ->
    exists i rel, In i (concat blocks) /\ i_arg i = AJump k rel.

(* boolean version *)
Definition targeted {C} (blocks : list (list (instr_ C))) (k : Z) : bool :=
  existsb (fun i : instr_ C => match i_arg i with AJump t _ => t =? k | _ => false end) (concat blocks).
Definition blocks_canonical_b {C} (blocks : list (list (instr_ C))) : bool :=
  forallb (targeted blocks) (map Z.of_nat (seq 1 (length blocks - 1))).

Lemma blocks_canonical_b_spec {C} (blocks : list (list (instr_ C))) :
  blocks_canonical_b blocks = true -> blocks_canonical blocks.
Proof.
  unfold blocks_canonical_b, blocks_canonical. intros Hb k Hk. rewrite forallb_forall in Hb.
  assert (Hin : In k (map Z.of_nat (seq 1 (length blocks - 1)))).
  { clear Hb. unfold zlen in Hk. apply in_map_iff. exists (Z.to_nat k). split; [apply Z2Nat.id; lia|]. apply in_seq. lia. }
  specialize (Hb k Hin). unfold targeted in Hb. apply existsb_exists in Hb as [i [Hi Ht]].
  destruct (i_arg i) as [z|t rel|s ov|s ov|k0 ov|s|s ov|z] eqn:E; try discriminate Ht.
  exists i, rel. split; [exact Hi|]. cbv beta iota in Ht. apply Z.eqb_eq in Ht. now subst.
Qed.

Lemma wf_well_partitioned c (blocks : list (list (instr_ pconst))) :
  blocks_wf c blocks = true -> blocks_canonical blocks -> NP.well_partitioned blocks.
Proof.
  intros Hbw Hc. unfold blocks_wf in Hbw.
  apply andb_true_iff in Hbw as [Hbw _]. apply andb_true_iff in Hbw as [Hbw Hj].
  apply andb_true_iff in Hbw as [Hne _].
  split; [|split; [|exact Hc]].
  - unfold NP.nonempty_blocks. apply Forall_forall. intros b Hb. rewrite forallb_forall in Hne.
    specialize (Hne b Hb). destruct b; [discriminate|discriminate].
  - intros i t rel Hi Ea. apply In_nth_error in Hi as [k Hk].
    exact (proj1 (EVw.jumps_ok_nth blocks 0 (zlen blocks) k i t rel Hj Hk Ea)).
Qed.

(* normalizing the projected data = normalizing with the projection composed in *)
Lemma norm_proj_blocks (d : code_data_ pconst) :
  cd_blocks (normalize (proj_cd d))
  = map (map (map_instr_norm (fun kp : pconst => normalize_const (fst kp)))) (cd_blocks d).
Proof.
  unfold normalize, proj_cd, JsonProofs1.map_cd, map_cd_norm. cbn [cd_blocks].
  rewrite map_map. apply map_ext. intros b. rewrite map_map. apply map_ext. intros i.
  destruct i as [nm a na ln lo]. unfold map_instr_norm, JsonProofs1.map_instr. cbn [i_name i_arg i_line].
  f_equal. destruct a; reflexivity.
Qed.

(* ------------------------------------------------------------------ *)
(** * 2. The theorem *)

Definition S_C03_redecode_normal_form : Prop := forall c (d : code_data_ pconst) code,
  flags_wf (cfg_flags c) = true -> flag_value (cfg_flags c) NOFREE <> None ->
  data_wf c d = true ->
  blocks_canonical (cd_blocks d) ->
  encode_code c d = OK code ->
  zlen (co_code code) < 1073741824 ->
  exists kst : list pconst,
    map snd kst = co_consts code /\
    forall d2, decode_code c code (map fst kst) = OK d2 ->
      cd_eqb (normalize d2) (normalize (proj_cd d)) = true.

Theorem C03_redecode_normal_form : S_C03_redecode_normal_form.
Proof.
  intros c d code Hfwf Hnofree Hdw Hcan Henc Hlen.
  destruct (flag_value (cfg_flags c) NOFREE) as [nf|] eqn:Enf; [clear Hnofree|now destruct Hnofree].
  destruct (CRT.wf_no_ov c d Hdw) as (Hal & Haa & Hov).
  destruct (H.header_back c d code nf Hfwf Enf Hal Haa Hov Henc)
    as (code0 & lm0 & names & varnames & cellvars & constants & HB & Hconsts & Hhdr).
  destruct (CRT.emitted_facts_k c d code code0 lm0 names varnames cellvars constants Hdw Henc Hlen HB)
    as (Hagree & Hvwf & Hne').
  exists constants. split; [symmetry; exact Hconsts|].
  intros d2 Hdec2.
  destruct (Hhdr d2 Hdec2) as (T0 & T1 & T2 & T3 & T4 & T5 & T6).
  (* blocks of the second decode, from the view of the emitted code *)
  pose proof (NP.nz_of_view c code (map fst constants) d2 Hvwf Hdec2 Hne') as E2.
  rewrite RD.dis_view_map in E2.
  (* blocks of the input, from its own view *)
  assert (Hbw : blocks_wf c (cd_blocks d) = true).
  { unfold data_wf in Hdw. do 6 (apply andb_true_iff in Hdw as [Hdw _]).
    apply andb_true_iff in Hdw as [_ Hdw]. exact Hdw. }
  pose proof (NP.core_rebuild (fun kp : pconst => normalize_const (fst kp)) (cd_blocks d)
                (wf_well_partitioned c _ Hbw Hcan)) as E1.
  rewrite <- norm_proj_blocks in E1.
  pose proof (B.map_view_compose (@fst const pyconst) normalize_const (data_view (cd_blocks d))) as Ec.
  match type of E2 with _ = blocks_of_view ?X =>
    match type of Ec with _ = ?R =>
      assert (Hag : view_agrees key_eqb R X = true)
    end
  end.
  { rewrite <- Ec. apply B.view_agrees_map; [exact NP.normalize_const_congr|].
    rewrite RD.view_agrees_fst. exact Hagree. }
  apply (B.blocks_of_view_agree key_eqb) in Hag.
  unfold cd_eqb. apply CP.cd_eqb_with_true.
  split; [rewrite E1, E2; exact Hag|].
  unfold normalize, map_cd_norm, proj_cd, JsonProofs1.map_cd.
  cbn [cd_type cd_future_annotations cd_freevars cd_stacksize cd_firstline cd_name cd_filename
       cd_nested cd_addline cd_addargs leqb].
  repeat split; assumption.
Qed.

(* for a configuration whose flag table is fine (CodeRoundTrip.cfg_flags_ok; true of Cfg37..Cfg310) *)
Corollary C03_redecode_normal_form_cfg : forall c (d : code_data_ pconst) code,
  CRT.cfg_flags_ok c = true ->
  data_wf c d = true ->
  blocks_canonical (cd_blocks d) ->
  encode_code c d = OK code ->
  zlen (co_code code) < 1073741824 ->
  exists kst : list pconst,
    map snd kst = co_consts code /\
    forall d2, decode_code c code (map fst kst) = OK d2 ->
      cd_eqb (normalize d2) (normalize (proj_cd d)) = true.
Proof.
  intros c d code Hc. destruct (CRT.cfg_flags_ok_spec c Hc) as [H1 H2].
  intros. eapply C03_redecode_normal_form; eauto.
Qed.

(* ------------------------------------------------------------------ *)
(** * 3. Non-vacuity: hand-built functions with a jump, 3.9 and 3.10 *)

Definition KI (z : Z) : pconst := (KInner (IInt z), PInner (IInt z)).
Definition KS (s : str) : pconst := (KInner (IStr s), PInner (IStr s)).
Definition ins (op : Z) (a : arg_ pconst) (line : Z) : instr_ pconst := mkInstr op a None (Some line) [].

(* def f(x):            (no docstring; the first constant used is a string, so to_code puts None first)
       if x: return "a"
       return 2 *)
Definition ex_fn : function :=
  mkFunction {| a_posonly := []; a_poskw := [[120]]; a_varpos := None; a_kwonly := []; a_varkw := None |} None None.
Definition ex_d : code_data_ pconst :=
  mkCD [[ins 124 (AVarname [120] None) 2; ins 114 (AJump 1 false) 2; ins 100 (AConst (KS [97]) None) 2;
         ins 83 (ANoArg 0) 2];
        [ins 100 (AConst (KI 2) None) 3; ins 83 (ANoArg 0) 3]]
       [60] 1 [102] 1 (Some ex_fn) [] false true None [].

(* encode, decode again with the emitted constants table, normalize both, compare *)
Definition redecode_check (c : cfg) (d : code_data_ pconst) : bool :=
  data_wf c d && blocks_canonical_b (cd_blocks d) &&
  match encode_code c d, ECo.b2b c d with
  | OK code, OK (_, _, _, _, _, kst) =>
      (zlen (co_code code) <? 1073741824) &&
      match decode_code c code (map fst kst) with
      | OK d2 => cd_eqb (normalize d2) (normalize (proj_cd d))
      | Err _ => false
      end
  | _, _ => false
  end.

Example redecode_example_39 :
  redecode_check Cfg39.cfg ex_d = true /\
  (match encode_code Cfg39.cfg ex_d with OK code => co_consts code | Err _ => [] end)
  = [PInner INone; PInner (IStr [97]); PInner (IInt 2)].
Proof. split; vm_compute; reflexivity. Qed.

Example redecode_example_310 : redecode_check Cfg310.cfg ex_d = true.
Proof. vm_compute; reflexivity. Qed.

(* the premises of the theorem are satisfiable: the theorem applied to the example *)
Example redecode_theorem_applies :
  exists code, encode_code Cfg39.cfg ex_d = OK code /\
  exists kst : list pconst,
    map snd kst = co_consts code /\
    forall d2, decode_code Cfg39.cfg code (map fst kst) = OK d2 ->
      cd_eqb (normalize d2) (normalize (proj_cd ex_d)) = true.
Proof.
  destruct (encode_code Cfg39.cfg ex_d) as [code|] eqn:E; [|vm_compute in E; discriminate].
  exists code. split; [reflexivity|].
  apply (C03_redecode_normal_form_cfg Cfg39.cfg ex_d code).
  - vm_compute; reflexivity.
  - vm_compute; reflexivity.
  - apply blocks_canonical_b_spec. vm_compute; reflexivity.
  - exact E.
  - vm_compute in E. inversion E; subst code. vm_compute; reflexivity.
Qed.

(* ------------------------------------------------------------------ *)
(** * 4. The premise on the blocks is needed *)

(* module-level [return None] cut into two blocks without any jump: well-formed data; the decoder
   cuts at jump targets only, so the second decode has one block *)
Definition nc_d : code_data_ pconst :=
  mkCD [[ins 100 (AConst (KInner INone, PInner INone) None) 1]; [ins 83 (ANoArg 0) 1]]
       [60] 1 [109] 1 None [] false false None [].
Definition nc_code : pycode :=
  Eval vm_compute in match encode_code Cfg39.cfg nc_d with OK code => code | Err _ => CRT.dflt_code end.

Theorem C03_redecode_needs_canonical :
  ~ (forall c (d : code_data_ pconst) code,
       flags_wf (cfg_flags c) = true -> flag_value (cfg_flags c) NOFREE <> None ->
       data_wf c d = true ->
       encode_code c d = OK code ->
       zlen (co_code code) < 1073741824 ->
       exists kst : list pconst,
         map snd kst = co_consts code /\
         forall d2, decode_code c code (map fst kst) = OK d2 ->
           cd_eqb (normalize d2) (normalize (proj_cd d)) = true).
Proof.
  intros HS.
  destruct (HS Cfg39.cfg nc_d nc_code) as (kst & Hk & Hall).
  - vm_compute; reflexivity.
  - vm_compute; discriminate.
  - vm_compute; reflexivity.
  - vm_compute; reflexivity.
  - vm_compute; reflexivity.
  - vm_compute in Hk. destruct kst as [|[k0 p0] [|? ?]]; try discriminate Hk.
    assert (Hd : exists d2, decode_code Cfg39.cfg nc_code (map fst [(k0, p0)]) = OK d2 /\
                            cd_eqb (normalize d2) (normalize (proj_cd nc_d)) = false).
    { destruct k0 as [[]|]; (eexists; split; [vm_compute; reflexivity|vm_compute; reflexivity]). }
    destruct Hd as (d2 & Hd2 & Hf). rewrite (Hall d2 Hd2) in Hf. discriminate.
Qed.

Print Assumptions C03_redecode_normal_form.
Print Assumptions C03_redecode_normal_form_cfg.
Print Assumptions redecode_example_39.
Print Assumptions redecode_example_310.
Print Assumptions redecode_theorem_applies.
Print Assumptions C03_redecode_needs_canonical.
