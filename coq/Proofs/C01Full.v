(* C01 in one statement: on the domain total_wf_deep (a boolean on the code object alone, all nesting
   levels: Proofs/DecodeTotal.v) from_code succeeds AND to_code gives back the identical code object.
   Composition of DecodeTotal.to_code_data_total_nc, total_wf_deep_premises and RoundTrip.C01_roundtrip_x. *)
From PCD Require Import Base.PyBase Base.Cfg Model.Data Model.Consts Model.Blocks Model.CodeData
  Proofs.C01_Statements Proofs.RoundTrip Proofs.Total_Statements Proofs.DecodeTotal1 Proofs.DecodeTotal.

Theorem C01_full : forall c code,
  total_wf_deep c (PCode code) = true ->
  exists d, to_code_data c code = OK d /\ from_code_data c d = OK code.
Proof.
  intros c code H.
  destruct (to_code_data_total_nc c code H) as [d D].
  exists d. split; [exact D|].
  destruct (total_wf_deep_premises c (PCode code) H) as (Hw & Hx & _).
  apply (C01_roundtrip_x c code d); [|exact D].
  rewrite Hw, Hx. reflexivity.
Qed.
Print Assumptions C01_full.
