(* Statements for C14 (iteration) and C09 (no redundant overrides) at the level of decoded code objects. *)
From PCD Require Import Base.PyBase Base.Cfg Model.Flags Model.Args Model.Data Model.Consts
  Model.LineTable Model.Blocks Model.CodeData Spec.Lnotab Spec.Dis Model.ViewSer
  Proofs.C02_Statements Proofs.C11_Statements Proofs.C01_Statements.

(** * C14 *)
(* every code object reachable through the constants, the object itself first (pre-order, table order) *)
Fixpoint walk_codes (k : pyconst) : list pycode :=
  match k with
  | PInner _ => []
  | PCode c => c :: (fix go (l : list pyconst) : list pycode :=
                       match l with [] => [] | x :: r => walk_codes x ++ go r end) (co_consts c)
  end.
Fixpoint depth_const (k : pyconst) : nat :=
  match k with
  | PInner _ => 0%nat
  | PCode c => S ((fix go (l : list pyconst) : nat :=
                     match l with [] => 0%nat | x :: r => Nat.max (depth_const x) (go r) end) (co_consts c))
  end.
Definition codes_of (ks : list const) : list code_data :=
  flat_map (fun k => match k with KCode d => [d] | KInner _ => [] end) ks.

(* iterating decoded data yields its directly nested code objects: the code entries of the constants
   table, each once, in table order - referenced by instructions or not *)
Definition S_C14_iter : Prop := forall c code ks d,
  rt_wf c code ks = true ->
  decode_code c code ks = OK d ->
  iter_code_data d = OK (codes_of ks).

(* all_code_data yields the object itself followed by one object for every code object reachable
   through the original's constants, each equal to what decoding that nested code object gives *)
Definition S_C14_all : Prop := forall c code d fuel,
  rt_wf_deep c (PCode code) = true ->
  to_code_data c code = OK d ->
  (depth_const (PCode code) <= fuel)%nat ->
  exists ds, all_code_data fuel d = OK ds /\
             Forall2 (fun x k => to_code_data c k = OK x) ds (walk_codes (PCode code)).

(** * C09 *)
(* the operand indices an instruction stream makes into one table, in order *)
Definition uses_of (cls : list Z) (keep : Z -> bool) (ps : list pinstr) : list Z :=
  map p_arg (filter (fun p => zmem (p_op p) cls && keep (p_arg p)) ps).

(* symbolic operands of one kind in a decoded instruction stream / additional args, as (value, override) *)
Definition names_in {C} (l : list (arg_ C)) : list (str * option Z) :=
  flat_map (fun a => match a with AName s ov => [(s, ov)] | _ => [] end) l.
Definition varnames_in {C} (l : list (arg_ C)) : list (str * option Z) :=
  flat_map (fun a => match a with AVarname s ov => [(s, ov)] | _ => [] end) l.
Definition cellvars_in {C} (l : list (arg_ C)) : list (str * option Z) :=
  flat_map (fun a => match a with ACellvar s ov => [(s, ov)] | _ => [] end) l.
Definition consts_in {C} (l : list (arg_ C)) : list (C * option Z) :=
  flat_map (fun a => match a with AConst k ov => [(k, ov)] | _ => [] end) l.
