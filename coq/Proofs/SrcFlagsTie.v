(* Tie between Model/Flags.v and code_data/_flags_data.py as re-translated on every run (Gen/SrcFlags.v). *)
From PCD Require Import Base.PyBase Base.PyImp Base.Cfg Model.Flags.
From PCD Require Gen.SrcFlags.

Lemma fold_snoc_map {A B} (f : A -> B) : forall (l : list A) (acc : list B),
  fold_left (fun acc x => acc ++ [f x]) l acc = acc ++ map f l.
Proof.
  induction l as [|x r IH]; intros acc; cbn [fold_left map]; [rewrite app_nil_r; reflexivity|].
  rewrite IH, <- app_assoc. reflexivity.
Qed.

Theorem to_flags_data_tie : forall c flags, PCD.Gen.SrcFlags.to_flags_data c flags = to_flags_data c flags.
Proof.
  intros c flags. unfold PCD.Gen.SrcFlags.to_flags_data, to_flags_data.
  destruct (flags =? 0); [reflexivity|]. destruct (decompose c flags) as [members nc].
  destruct (negb (nc =? 0)); [reflexivity|]. rewrite fold_snoc_map. reflexivity.
Qed.

Lemma from_gen : forall c fs acc,
  foldM (fun flags f => match flag_value (cfg_flags c) f with Some v => OK (Z.lor flags v) | None => Err AttributeError end) fs acc
  = match from_flags_data c fs with OK w => OK (Z.lor acc w) | Err e => Err e end.
Proof.
  intros c. induction fs as [|f r IH]; intros acc; cbn [foldM from_flags_data].
  - rewrite Z.lor_0_r. reflexivity.
  - destruct (flag_value (cfg_flags c) f) as [v|]; [|reflexivity]. rewrite IH.
    destruct (from_flags_data c r) as [w|]; [|reflexivity]. rewrite Z.lor_assoc. reflexivity.
Qed.

Theorem from_flags_data_tie : forall c fs, PCD.Gen.SrcFlags.from_flags_data c fs = from_flags_data c fs.
Proof.
  intros c fs. unfold PCD.Gen.SrcFlags.from_flags_data. rewrite from_gen.
  destruct (from_flags_data c fs); reflexivity.
Qed.
Print Assumptions to_flags_data_tie.
Print Assumptions from_flags_data_tie.
