(* C07: the JSON form of CodeData loads back to equal data -- main theorems. *)
From Coq Require Import ZArith List Bool Lia ZifyBool String.
From PCD Require Import Base.PyBase Base.Cfg Model.Flags Model.Args Model.Data Model.Consts Model.Json
  Proofs.ConstsProofs Proofs.C07_Statements Proofs.JsonProofs1.
Import ListNotations. Open Scope Z_scope. Open Scope list_scope.

(* ------------------------------------------------------------------ *)
(* nested code is told from inner constants by the "filename" key       *)

Lemma is_code_single n v :
  str_eqb (lit n) (lit "filename") = false -> is_code (JObj [(lit n, v)]) = false.
Proof. intros H. unfold is_code, jhas. cbn [jget]. rewrite H. reflexivity. Qed.

Lemma is_code_iconst i : is_code (iconst_to_json i) = false.
Proof.
  destruct i; cbn [iconst_to_json]; unfold int_to_json, float_to_json, str_to_json;
    repeat match goal with |- context [if ?c then _ else _] => destruct c end;
    try reflexivity; try (apply is_code_single; vmr).
Qed.

Lemma is_code_cd {C} (cj : C -> json) d : is_code (cd_to_json_with cj d) = true.
Proof. reflexivity. Qed.

(* ------------------------------------------------------------------ *)
(* round trip                                                           *)

Definition cd_ok (d : code_data) : Prop :=
  as_cd (interp_json (cd_to_json_with const_to_json d)) = OK (canon_cd d).
Definition RT (k : const) : Prop :=
  match k with KInner _ => True | KCode d => wfj_cd d = true -> cd_ok d end.

Lemma arg_rt a :
  argP RT a -> wfj_arg wfj_const a = true -> arg_is_default a = false ->
  as_arg (interp_json (arg_to_json const_to_json a)) = OK (map_arg canon_const a).
Proof.
  destruct a as [z|t r|s ov|s ov|c ov|s|s ov|z];
    cbn [argP wfj_arg arg_to_json map_arg arg_is_default]; intros HP W D.
  - rewrite int_small by exact W. reflexivity.
  - rewrite int_small by exact W. rewrite bool_field_ofield, arg_read_jump, bool_rt. reflexivity.
  - rewrite opt_field_ofield, arg_read_name, string_rt, oint_rt by exact W. reflexivity.
  - rewrite opt_field_ofield, arg_read_varname, string_rt, oint_rt by exact W. reflexivity.
  - apply andb_true_iff in W as [Wc Wo].
    rewrite opt_field_ofield, arg_read_const, oint_rt by exact Wo.
    destruct c as [i|d]; cbn [const_to_json canon_const].
    + rewrite is_code_iconst, iconst_rt. reflexivity.
    + rewrite is_code_cd. cbn [RT] in HP. rewrite (HP Wc). reflexivity.
  - rewrite arg_read_freevar, string_rt. reflexivity.
  - rewrite opt_field_ofield, arg_read_cellvar, string_rt, oint_rt by exact W. reflexivity.
  - rewrite D, int_small by exact W. apply arg_read_noarg.
Qed.

Lemma instr_rt i :
  instrP RT i -> wfj_instr wfj_const i = true ->
  as_instr (interp_json (instr_to_json const_to_json i)) = OK (map_instr canon_const i).
Proof.
  intros HP W. unfold wfj_instr in W. rewrite !andb_true_iff in W.
  destruct W as [[[W1 W2] W3] W4].
  unfold instr_to_json.
  rewrite if_ofield, !opt_field_ofield, list_field_ofield, instr_read.
  rewrite !oint_rt, ints_rt by assumption.
  destruct (arg_is_default (i_arg i)) eqn:D.
  - unfold map_instr. destruct (i_arg i) eqn:E; cbn [arg_is_default] in D; try discriminate D.
    apply Z.eqb_eq in D. subst. reflexivity.
  - rewrite arg_rt by assumption. reflexivity.
Qed.

Lemma as_instrs_list l : as_instrs (interp_json (JList l)) = mapM as_instr (map interp_json l).
Proof. reflexivity. Qed.
Lemma as_blocks_list l : as_blocks (interp_json (JList l)) = mapM as_instrs (map interp_json l).
Proof. reflexivity. Qed.
Lemma as_args_list l : as_args (interp_json (JList l)) = mapM as_arg (map interp_json l).
Proof. reflexivity. Qed.

Lemma Forall_forallb_and {A} (P Q : A -> Prop) (w : A -> bool) l :
  (forall x, P x -> w x = true -> Q x) -> Forall P l -> forallb w l = true -> Forall Q l.
Proof.
  intros H HP W. rewrite forallb_forall in W. rewrite Forall_forall in *. auto.
Qed.

Lemma block_rt b :
  Forall (instrP RT) b -> forallb (wfj_instr wfj_const) b = true ->
  as_instrs (interp_json (JList (map (instr_to_json const_to_json) b))) =
  OK (map (map_instr canon_const) b).
Proof.
  intros HP W. rewrite as_instrs_list, map_map.
  apply (mapM_map_ok (fun x => interp_json (instr_to_json const_to_json x)) as_instr).
  eapply Forall_forallb_and; [|exact HP|exact W]. intros; now apply instr_rt.
Qed.

Lemma blocks_rt bl :
  Forall (Forall (instrP RT)) bl -> forallb (forallb (wfj_instr wfj_const)) bl = true ->
  as_blocks (interp_json (JList (map (fun b => JList (map (instr_to_json const_to_json) b)) bl))) =
  OK (map (map (map_instr canon_const)) bl).
Proof.
  intros HP W. rewrite as_blocks_list, map_map.
  apply (mapM_map_ok (fun b => interp_json (JList (map (instr_to_json const_to_json) b))) as_instrs).
  eapply Forall_forallb_and; [|exact HP|exact W]. intros; now apply block_rt.
Qed.

Lemma addargs_rt l :
  Forall (argP RT) l -> forallb (wfj_addarg wfj_const) l = true ->
  match lfo (arg_to_json const_to_json) l with
  | Some c => as_args (interp_json c) | None => OK [] end = OK (map (map_arg canon_const) l).
Proof.
  intros HP W. destruct l as [|a r]; [reflexivity|]. unfold lfo.
  rewrite as_args_list, map_map.
  apply (mapM_map_ok (fun x => interp_json (arg_to_json const_to_json x)) as_arg).
  eapply Forall_forallb_and; [|exact HP|exact W]. intros x Hx Wx.
  unfold wfj_addarg in Wx. apply andb_true_iff in Wx as [W1 W2].
  apply arg_rt; auto. destruct x; try discriminate W2; reflexivity.
Qed.

Lemma cd_rt d : cdP RT d -> wfj_cd d = true -> cd_ok d.
Proof.
  intros [HB HA] W. unfold wfj_cd, wfj_cd_with in W. rewrite !andb_true_iff in W.
  destruct W as [[[[W1 W2] W3] W4] W5].
  unfold cd_ok, cd_to_json_with.
  rewrite (int_small _ W2), (int_small _ W3).
  rewrite !opt_field_ofield, !list_field_ofield, !bool_field_ofield, cd_read.
  rewrite blocks_rt, !string_rt, ofunction_rt, strings_rt, !bool_rt, addargs_rt by assumption.
  assert (E : omapM addline_from_json (option_map addline_to_json (cd_addline d)) = OK (cd_addline d)).
  { destruct (cd_addline d) as [al|]; cbn [option_map omapM]; [|reflexivity].
    apply andb_true_iff in W4 as [W41 W42]. now rewrite addline_rt. }
  rewrite E. reflexivity.
Qed.

Lemma RT_all : forall k, RT k.
Proof.
  induction k as [i|d IH] using const_ind'; cbn [RT]; [exact I|].
  intros W. now apply cd_rt.
Qed.

Lemma from_json_to_json d :
  code_data_from_json (code_data_to_json d) =
  as_cd (interp_json (cd_to_json_with const_to_json d)).
Proof. reflexivity. Qed.

(* the loaded value is the original with canonical NaNs *)
Theorem json_roundtrip_canon d :
  wfj_cd d = true -> code_data_from_json (code_data_to_json d) = OK (canon_cd d).
Proof.
  intros W. rewrite from_json_to_json. apply cd_rt; [|exact W]. apply cdP_all. exact RT_all.
Qed.

(* ------------------------------------------------------------------ *)
(* canonical NaNs do not change the equality class                      *)

Definition KP (c : const) : Prop := key_eqb c (canon_const c) = true.

Lemma arg_eqb_canon a : argP KP a -> arg_eqb key_eqb a (map_arg canon_const a) = true.
Proof.
  unfold KP. destruct a; cbn [argP map_arg arg_eqb]; intros H;
    rewrite ?Z.eqb_refl, ?str_eqb_refl, ?(proj2 (oz_eqb_spec _ _) eq_refl), ?H; auto.
  now destruct relative.
Qed.

Lemma instr_eqb_canon i : instrP KP i -> instr_eqb key_eqb i (map_instr canon_const i) = true.
Proof.
  intros H. apply instr_eqb_true. cbn [map_instr i_name i_arg i_nargs i_line i_lineoffs].
  repeat split; auto. now apply arg_eqb_canon.
Qed.

Lemma cd_eqb_canon d : cdP KP d -> cd_eqb_with key_eqb d (map_cd canon_const d) = true.
Proof.
  intros [HB HA]. apply cd_eqb_with_true. unfold map_cd.
  cbn [cd_blocks cd_filename cd_firstline cd_name cd_stacksize cd_type cd_freevars
       cd_future_annotations cd_nested cd_addline cd_addargs].
  repeat split; auto.
  - apply leqb_map_r. eapply Forall_impl; [|exact HB]. intros b Hb.
    apply leqb_map_r. eapply Forall_impl; [|exact Hb]. apply instr_eqb_canon.
  - apply leqb_map_r. eapply Forall_impl; [|exact HA]. apply arg_eqb_canon.
Qed.

Lemma canon_const_key : forall k, KP k.
Proof.
  induction k as [i|d IH] using const_ind'; unfold KP; cbn [canon_const key_eqb].
  - apply canon_i_key.
  - now apply cd_eqb_canon.
Qed.

Lemma canon_cd_eqb d : cd_eqb d (canon_cd d) = true.
Proof. apply cd_eqb_canon. apply cdP_all. exact canon_const_key. Qed.

Theorem json_roundtrip : S_json_roundtrip.
Proof.
  intros d W. exists (canon_cd d). split; [now apply json_roundtrip_canon | apply canon_cd_eqb].
Qed.

(* ------------------------------------------------------------------ *)
(* 4. without NaN constants the loaded value is identical               *)

Lemma canon_bits_id b : float_is_nan b = false -> canon_bits b = b.
Proof. unfold canon_bits. now intros ->. Qed.

Lemma nanfree_i_tuple l : nanfree_i (ITuple l) = forallb nanfree_i l.
Proof.
  induction l as [|x r IH]; [reflexivity|].
  change (nanfree_i (ITuple (x :: r))) with (nanfree_i x && nanfree_i (ITuple r)).
  now rewrite IH.
Qed.
Lemma nanfree_i_frozenset l : nanfree_i (IFrozenset l) = forallb nanfree_i l.
Proof.
  induction l as [|x r IH]; [reflexivity|].
  change (nanfree_i (IFrozenset (x :: r))) with (nanfree_i x && nanfree_i (IFrozenset r)).
  now rewrite IH.
Qed.

Lemma map_id_F {A} (h : A -> A) (w : A -> bool) l :
  Forall (fun x => w x = true -> h x = x) l -> forallb w l = true -> map h l = l.
Proof.
  induction 1 as [|x xs Hx _ IH]; [reflexivity|]. cbn [forallb map]. intros W.
  apply andb_true_iff in W as [W1 W2]. now rewrite Hx, IH.
Qed.

Lemma canon_i_id : forall k, nanfree_i k = true -> canon_i k = k.
Proof.
  induction k as [ |b|z|f|r i|s|b| |l IH|l IH] using iconst_ind'; cbn [canon_i]; intros H; auto.
  - cbn [nanfree_i] in H. apply negb_true_iff in H. now rewrite canon_bits_id.
  - cbn [nanfree_i] in H. apply andb_true_iff in H as [H1 H2].
    apply negb_true_iff in H1, H2. now rewrite !canon_bits_id.
  - rewrite nanfree_i_tuple in H. f_equal. eapply map_id_F; eauto.
  - rewrite nanfree_i_frozenset in H. f_equal. eapply map_id_F; eauto.
Qed.

Definition NP (c : const) : Prop := nanfree_const c = true -> canon_const c = c.

Lemma map_arg_id a : argP NP a -> nanfree_arg nanfree_const a = true -> map_arg canon_const a = a.
Proof. destruct a; cbn [argP nanfree_arg map_arg]; intros H W; auto. now rewrite H. Qed.

Lemma map_instr_id i :
  instrP NP i -> nanfree_arg nanfree_const (i_arg i) = true -> map_instr canon_const i = i.
Proof. intros H W. unfold map_instr. rewrite map_arg_id by assumption. now destruct i. Qed.

Lemma map_cd_id d :
  cdP NP d ->
  forallb (forallb (fun i => nanfree_arg nanfree_const (i_arg i))) (cd_blocks d) = true ->
  forallb (nanfree_arg nanfree_const) (cd_addargs d) = true ->
  map_cd canon_const d = d.
Proof.
  intros [HB HA] W1 W2. unfold map_cd.
  rewrite (map_id_F (map (map_instr canon_const))
             (forallb (fun i => nanfree_arg nanfree_const (i_arg i))) (cd_blocks d)); [| |exact W1].
  - rewrite (map_id_F (map_arg canon_const) (nanfree_arg nanfree_const) (cd_addargs d)); [| |exact W2].
    + now destruct d.
    + eapply Forall_impl; [|exact HA]. apply map_arg_id.
  - eapply Forall_impl; [|exact HB]. intros b Hb. apply map_id_F.
    eapply Forall_impl; [|exact Hb]. apply map_instr_id.
Qed.

Lemma nanfree_code d :
  nanfree_const (KCode d) =
  forallb (forallb (fun i => nanfree_arg nanfree_const (i_arg i))) (cd_blocks d)
  && forallb (nanfree_arg nanfree_const) (cd_addargs d).
Proof. reflexivity. Qed.

Lemma canon_const_id : forall k, NP k.
Proof.
  induction k as [i|d IH] using const_ind'; unfold NP; cbn [canon_const]; intros W.
  - f_equal. now apply canon_i_id.
  - rewrite nanfree_code in W. apply andb_true_iff in W as [W1 W2].
    f_equal. now apply map_cd_id.
Qed.

Theorem json_roundtrip_exact : S_json_roundtrip_exact.
Proof.
  intros d W N. rewrite json_roundtrip_canon by exact W. f_equal.
  rewrite nanfree_code in N. apply andb_true_iff in N as [N1 N2].
  apply map_cd_id; auto. apply cdP_all. exact canon_const_id.
Qed.

(* ------------------------------------------------------------------ *)
Theorem C07_all :
  S_decimal_roundtrip /\ S_iconst_roundtrip /\ S_json_roundtrip /\ S_json_roundtrip_exact /\ S_json_plain.
Proof.
  repeat split.
  - exact decimal_roundtrip.
  - exact iconst_roundtrip.
  - exact json_roundtrip.
  - exact json_roundtrip_exact.
  - exact json_plain_thm.
Qed.

Print Assumptions decimal_roundtrip.
Print Assumptions iconst_roundtrip.
Print Assumptions json_roundtrip.
Print Assumptions json_roundtrip_exact.
Print Assumptions json_plain_thm.
Print Assumptions json_roundtrip_canon.
Print Assumptions C07_all.
