(* Tie of the prologue of bytes_to_blocks (Gen/SrcIter.v, dec_init: regenerated from code_data/_blocks.py on every run). *)
From PCD Require Import Base.PyBase Base.PyImp Base.Cfg Model.Flags Model.Args Model.Data Model.Consts Model.LineTable
  Model.Blocks Model.CodeData.
From PCD Require Gen.SrcIter.

(* the prologue of bytes_to_blocks: Gen/SrcIter.v dec_init is the state the model's bytes_to_blocks starts decoding from *)
From PCD Require Gen.SrcTables Proofs.SrcTablesTie.
Section D.
  Context {C : Type} (keq : C -> C -> bool).

  Definition model_dec_init (names varnames cellvars : list str) (constants : list C) (block_type : option function) (a : args)
    : res (decstate C) :=
    let st0 := mkDec (toargs_init names 0) (toargs_init varnames (args_len a))
                     (toargs_init cellvars 0) (toargs_init constants 0) in
    if has_docstring block_type then
      match found_index keq (d_consts st0) 0 with
      | OK (_, _, t) => OK (mkDec (d_names st0) (d_varnames st0) (d_cellvars st0) t)
      | Err e => Err e
      end
    else OK st0.

  Theorem dec_init_tie : forall names varnames cellvars constants bt a,
    PCD.Gen.SrcIter.dec_init keq names varnames cellvars constants bt a
    = model_dec_init names varnames cellvars constants bt a.
  Proof.
    intros. unfold PCD.Gen.SrcIter.dec_init, model_dec_init, has_docstring. cbv zeta.
    rewrite SrcTablesTie.found_index_tie.
    destruct bt as [f|]; [|reflexivity]. destruct (fn_doc f); reflexivity.
  Qed.

  (* and bytes_to_blocks is: that state, then the loops *)
  Definition decode_from (c : cfg) (b : list Z) (lm : linemap) (freevars : list str) (st1 : decstate C)
    : res (list (list (instr_ C)) * list (arg_ C) * linemap) :=
    match parse_bytes c b 0 0 0 with
    | Err e => Err e
    | OK ps =>
        match decode_instrs keq c ps freevars lm st1 with
        | Err e => Err e
        | OK (ois, lm', st2) =>
            match split_blocks (sorted_set (0 :: jump_targets ois)) ois [] false with
            | Err e => Err e
            | OK blocks =>
                match additional_args str_eqb (d_names st2) with
                | Err e => Err e
                | OK an =>
                match additional_args str_eqb (d_varnames st2) with
                | Err e => Err e
                | OK av =>
                match additional_args str_eqb (d_cellvars st2) with
                | Err e => Err e
                | OK ac =>
                match additional_args keq (d_consts st2) with
                | Err e => Err e
                | OK ak =>
                    OK (blocks,
                        arg_of_additional AName an ++ arg_of_additional AVarname av
                        ++ arg_of_additional ACellvar ac ++ arg_of_additional AConst ak, lm')
                end end end end
            end
        end
    end.
  Lemma bytes_to_blocks_starts_from_dec_init : forall c b lm names varnames freevars cellvars constants bt a,
    bytes_to_blocks keq c b lm names varnames freevars cellvars constants bt a
    = match model_dec_init names varnames cellvars constants bt a with
      | Err e => Err e
      | OK st1 => decode_from c b lm freevars st1
      end.
  Proof. intros. reflexivity. Qed.

  (* the end of bytes_to_blocks: the entries no instruction referred to, per table and under its constructor, in this order *)
  Theorem additional_of_tie : forall st2 : decstate C,
    PCD.Gen.SrcIter.additional_of keq st2 =
    match additional_args str_eqb (d_names st2) with
    | Err e => Err e
    | OK an =>
    match additional_args str_eqb (d_varnames st2) with
    | Err e => Err e
    | OK av =>
    match additional_args str_eqb (d_cellvars st2) with
    | Err e => Err e
    | OK ac =>
    match additional_args keq (d_consts st2) with
    | Err e => Err e
    | OK ak => OK (arg_of_additional AName an ++ arg_of_additional AVarname av
                   ++ arg_of_additional ACellvar ac ++ arg_of_additional AConst ak)
    end end end end.
  Proof.
    intros st2. unfold PCD.Gen.SrcIter.additional_of. rewrite !SrcTablesTie.additional_args_tie.
    destruct (additional_args str_eqb (d_names st2)); cbn [bind]; [|reflexivity].
    destruct (additional_args str_eqb (d_varnames st2)); cbn [bind]; [|reflexivity].
    destruct (additional_args str_eqb (d_cellvars st2)); cbn [bind]; [|reflexivity].
    destruct (additional_args keq (d_consts st2)); cbn [bind]; reflexivity.
  Qed.
End D.
