(* Tie of the prologue of blocks_to_bytes (Gen/SrcIter.v, enc_init: regenerated from code_data/_blocks.py on every run) to
   Model/Blocks.enc_init. *)
From PCD Require Import Base.PyBase Base.PyImp Base.Cfg Model.Flags Model.Args Model.Data Model.Consts Model.LineTable
  Model.Blocks Model.CodeData.
From PCD Require Gen.SrcIter.
From Coq Require Import Lia.

Section P.
  Context {C : Type} (keq : C -> C -> bool) (str_c : str -> C).

  (* the prologue of blocks_to_bytes *)
  Lemma set_all_fold : forall (l : list str) n (t : fromargs str),
    (fix go (l : list str) (i : Z) (t : fromargs str) {struct l} : res (fromargs str) :=
       match l with
       | [] => OK t
       | k :: r => match fa_setitem str_eqb t i k with OK t' => go r (i + 1)%Z t' | Err e => Err e end
       end) l (Z.of_nat n) t
    = foldM (fun t ik => fa_setitem str_eqb t (fst ik) (snd ik)) (combine (map Z.of_nat (seq n (length l))) l) t.
  Proof.
    induction l as [|k r IH]; intros n t; [reflexivity|].
    cbn [length seq map combine foldM fst snd].
    destruct (fa_setitem str_eqb t (Z.of_nat n) k) as [t'|e]; [|reflexivity].
    replace (Z.of_nat n + 1)%Z with (Z.of_nat (S n)) by lia. apply IH.
  Qed.

  Theorem enc_init_tie : forall bt,
    PCD.Gen.SrcIter.enc_init keq str_c bt = enc_init keq str_c bt.
  Proof.
    intros [f|]; [|reflexivity]. unfold PCD.Gen.SrcIter.enc_init, enc_init. cbv zeta.
    pose proof (set_all_fold (args_to_varnames (fn_args f)) 0 fromargs_empty) as Hs. change (Z.of_nat 0) with 0%Z in Hs.
    rewrite Hs. clear Hs.
    destruct (foldM _ _ _) as [vn|e]; cbn [bind]; [|reflexivity].
    destruct (fn_doc f) as [d|]; [|reflexivity].
    destruct (fa_setitem keq fromargs_empty 0 (str_c d)); reflexivity.
  Qed.
End P.
