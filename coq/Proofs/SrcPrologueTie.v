(* Tie of the prologue of blocks_to_bytes (Gen/SrcIter.v, enc_init: regenerated from code_data/_blocks.py on every run) to
   Model/Blocks.enc_init. *)
From PCD Require Import Base.PyBase Base.PyImp Base.Cfg Model.Flags Model.Args Model.Data Model.Consts Model.LineTable
  Model.Blocks Model.CodeData.
From PCD Require Gen.SrcIter.
From Coq Require Import Lia.

Section P.
  Context {C : Type} (keq : C -> C -> bool) (str_c : str -> C).

  (* the prologue of blocks_to_bytes *)
  Lemma set_all_fold : forall (l : list str) n (t : fromargs str),
    (fix go (l : list str) (i : Z) (t : fromargs str) {struct l} : res (fromargs str) :=
       match l with
       | [] => OK t
       | k :: r => match fa_setitem str_eqb t i k with OK t' => go r (i + 1)%Z t' | Err e => Err e end
       end) l (Z.of_nat n) t
    = foldM (fun t ik => fa_setitem str_eqb t (fst ik) (snd ik)) (combine (map Z.of_nat (seq n (length l))) l) t.
  Proof.
    induction l as [|k r IH]; intros n t; [reflexivity|].
    cbn [length seq map combine foldM fst snd].
    destruct (fa_setitem str_eqb t (Z.of_nat n) k) as [t'|e]; [|reflexivity].
    replace (Z.of_nat n + 1)%Z with (Z.of_nat (S n)) by lia. apply IH.
  Qed.

  Theorem enc_init_tie : forall bt,
    PCD.Gen.SrcIter.enc_init keq str_c bt = enc_init keq str_c bt.
  Proof.
    intros [f|]; [|reflexivity]. unfold PCD.Gen.SrcIter.enc_init, enc_init. cbv zeta.
    pose proof (set_all_fold (args_to_varnames (fn_args f)) 0 fromargs_empty) as Hs. change (Z.of_nat 0) with 0%Z in Hs.
    rewrite Hs. clear Hs.
    destruct (foldM _ _ _) as [vn|e]; cbn [bind]; [|reflexivity].
    destruct (fn_doc f) as [d|]; [|reflexivity].
    destruct (fa_setitem keq fromargs_empty 0 (str_c d)); reflexivity.
  Qed.
End P.

(* blocks_to_bytes between its prologue and the relaxation loop *)
From PCD Require Gen.SrcFromArg Proofs.SrcFromArgTie.
Section F.
  Context {C : Type} (keq : C -> C -> bool) (is_str : C -> bool) (none_c : C) (str_c : str -> C).

  Lemma foldM_app' {S A} (f : S -> A -> res S) l1 l2 s :
    foldM f (l1 ++ l2) s = do s' <- foldM f l1 s; foldM f l2 s'.
  Proof. revert s; induction l1 as [|x r IH]; intros s; [reflexivity|]. cbn [foldM app]. destruct (f s x); [apply IH | reflexivity]. Qed.
  Lemma foldM_concat' {S A} (f : S -> A -> res S) (ls : list (list A)) s :
    foldM (fun s l => foldM f l s) ls s = foldM f (concat ls) s.
  Proof.
    revert s; induction ls as [|l r IH]; intros s; [reflexivity|]. cbn [foldM concat]. rewrite foldM_app'.
    destruct (foldM f l s); cbn [bind]; [apply IH | reflexivity].
  Qed.

  Definition fp_step (bt : option function) (fv : list str) (acc : list Z * encstate C) (instruction : instr_ C) : res (list Z * encstate C) :=
    do v <- PCD.Gen.SrcFromArg.from_arg keq is_str none_c (i_arg instruction) bt fv (snd acc); OK (fst acc ++ [fst v], snd v).

  Lemma fold_fp_step : forall bt fv l acc st,
    foldM (fp_step bt fv) l (acc, st)
    = match first_args keq is_str none_c l bt fv st with Err e => Err e | OK (vs, st') => OK (acc ++ vs, st') end.
  Proof.
    intros bt fv. induction l as [|i r IH]; intros acc st.
    - cbn [foldM first_args]. rewrite app_nil_r. reflexivity.
    - cbn [foldM first_args]. unfold fp_step at 1. cbn [snd fst]. rewrite SrcFromArgTie.from_arg_tie.
      destruct (from_arg keq is_str none_c (i_arg i) bt fv st) as [[v st1]|e]; cbn [bind fst snd]; [|reflexivity].
      rewrite IH. destruct (first_args keq is_str none_c r bt fv st1) as [[vs st2]|e]; [|reflexivity].
      rewrite <- app_assoc. reflexivity.
  Qed.

  Lemma fold_additional : forall bt fv l st,
    foldM (fun st arg => do v <- PCD.Gen.SrcFromArg.from_arg keq is_str none_c arg bt fv st; OK (snd v)) l st
    = add_additional keq is_str none_c l bt fv st.
  Proof.
    intros bt fv. induction l as [|a r IH]; intros st; [reflexivity|].
    cbn [foldM add_additional]. rewrite SrcFromArgTie.from_arg_tie.
    destruct (from_arg keq is_str none_c a bt fv st) as [[v st1]|e]; cbn [bind snd]; [apply IH | reflexivity].
  Qed.

  Theorem first_pass_tie : forall blocks additional fv bt st0,
    PCD.Gen.SrcIter.first_pass keq is_str none_c blocks additional fv bt st0 =
    match first_args keq is_str none_c (concat blocks) bt fv st0 with
    | Err e => Err e
    | OK (vals0, st1) =>
        match add_additional keq is_str none_c additional bt fv st1 with
        | Err e => Err e
        | OK st2 => OK (add_freevar_offset (zlen (fa_items (e_cellvars st2))) (concat blocks) vals0, st2)
        end
    end.
  Proof.
    intros blocks additional fv bt st0. unfold PCD.Gen.SrcIter.first_pass.
    change (fun (acc : list Z * encstate C) (instruction : instr_ C) =>
              do v <- PCD.Gen.SrcFromArg.from_arg keq is_str none_c (i_arg instruction) bt fv (snd acc); OK (fst acc ++ [fst v], snd v))
      with (fp_step bt fv).
    rewrite (foldM_concat' (fp_step bt fv)). rewrite fold_fp_step.
    destruct (first_args keq is_str none_c (concat blocks) bt fv st0) as [[vals0 st1]|e]; cbn [bind app fst snd]; [|reflexivity].
    rewrite fold_additional.
    destruct (add_additional keq is_str none_c additional bt fv st1) as [st2|e]; cbn [bind]; reflexivity.
  Qed.
End F.

(* blocks_to_bytes is: the translated prologue, the translated first pass, the relaxation (SrcRelaxTie: the iteration of the
   translated step), the assembly (SrcAssembleTie: the translated step) and four translated to_tuple calls *)
Section B.
  Context {C : Type} (keq : C -> C -> bool) (is_str : C -> bool) (none_c : C) (str_c : str -> C).
  Theorem blocks_to_bytes_outline : forall c blocks additional freevars bt,
    blocks_to_bytes keq is_str none_c str_c c blocks additional freevars bt =
    match PCD.Gen.SrcIter.enc_init keq str_c bt with
    | Err e => Err e
    | OK st0 =>
        match PCD.Gen.SrcIter.first_pass keq is_str none_c blocks additional freevars bt st0 with
        | Err e => Err e
        | OK (vals1, st2) =>
            match relax (3 * length (concat blocks) + 2) c blocks vals1 with
            | Err e => Err e
            | OK vals2 =>
                match assemble c (concat blocks) vals2 0 empty_linemap with
                | Err e => Err e
                | OK (code, lm) =>
                    match fa_to_tuple (e_names st2), fa_to_tuple (e_varnames st2),
                          fa_to_tuple (e_cellvars st2), fa_to_tuple (e_consts st2) with
                    | OK n, OK v, OK cv, OK k => OK (code, lm, n, v, cv, k)
                    | Err e, _, _, _ => Err e
                    | _, Err e, _, _ => Err e
                    | _, _, Err e, _ => Err e
                    | _, _, _, Err e => Err e
                    end
                end
            end
        end
    end.
  Proof.
    intros c blocks additional freevars bt. unfold blocks_to_bytes. cbv zeta.
    rewrite enc_init_tie. destruct (enc_init keq str_c bt) as [st0|e]; [|reflexivity].
    rewrite first_pass_tie.
    destruct (first_args keq is_str none_c (concat blocks) bt freevars st0) as [[vals0 st1]|e]; [|reflexivity].
    destruct (add_additional keq is_str none_c additional bt freevars st1) as [st2|e]; reflexivity.
  Qed.
End B.
