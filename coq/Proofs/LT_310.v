(* C10, co_linetable (Python 3.10) half: assembler images, reader, composition. *)
From Coq Require Import ZArith List Bool Lia ZifyBool.
From PCD Require Import Base.PyBase Model.LineTable Spec.Lnotab Proofs.C10_Statements.
Import ListNotations.
Open Scope Z_scope.
Ltac Zify.zify_post_hook ::= Z.to_euclidean_division_equations.

(** * Arithmetic helpers *)

Lemma even_mod2 x : Z.even x = true <-> x mod 2 = 0.
Proof.
  split; intros H.
  - apply Z.even_spec in H. destruct H as [k Hk]. lia.
  - apply Z.even_spec. exists (x / 2). lia.
Qed.

Lemma nsplit_127 v :
  (v <= 127 /\ nsplit v 127 = 0) \/
  (127 < v /\ 1 <= nsplit v 127 /\ 0 < v - nsplit v 127 * 127 <= 127).
Proof. unfold nsplit. destruct (v >? 127) eqn:E; [right|left]; lia. Qed.

Lemma nsplit_254 v :
  (v <= 254 /\ nsplit v 254 = 0) \/
  (254 < v /\ 1 <= nsplit v 254 /\ 0 < v - nsplit v 254 * 254 <= 254).
Proof. unfold nsplit. destruct (v >? 254) eqn:E; [right|left]; lia. Qed.

Lemma zrepeat_0 {A} (x : A) n : n <= 0 -> zrepeat x n = [].
Proof. intros H. unfold zrepeat. replace (Z.to_nat n) with 0%nat by lia. reflexivity. Qed.

Lemma zrepeat_zero {A} (x : A) : zrepeat x 0 = [].
Proof. reflexivity. Qed.

Lemma zrepeat_S {A} (x : A) n : 0 < n -> zrepeat x n = x :: zrepeat x (n - 1).
Proof.
  intros H. unfold zrepeat. replace (Z.to_nat n) with (S (Z.to_nat (n - 1))) by lia. reflexivity.
Qed.

Lemma forallb_zrepeat {A} (f : A -> bool) x n : f x = true -> forallb f (zrepeat x n) = true.
Proof.
  intros H. unfold zrepeat. induction (Z.to_nat n) as [|k IH]; cbn [repeat forallb].
  - reflexivity.
  - now rewrite H, IH.
Qed.

Lemma option_eqb_refl o : option_eqb Z.eqb o o = true.
Proof. destruct o; cbn [option_eqb]; [apply Z.eqb_refl | reflexivity]. Qed.

Lemma option_eqb_sym a b : option_eqb Z.eqb a b = option_eqb Z.eqb b a.
Proof. destruct a, b; cbn [option_eqb]; try reflexivity. apply Z.eqb_sym. Qed.

Lemma ranges_ok_cons bd line r :
  ranges_ok ((bd, line) :: r) = true ->
  0 < bd /\ bd mod 2 = 0 /\ ranges_ok r = true /\
  match r with [] => True | (_, l') :: _ => option_eqb Z.eqb line l' = false end.
Proof.
  cbn [ranges_ok]. intros H.
  apply andb_true_iff in H. destruct H as [H H4].
  apply andb_true_iff in H. destruct H as [H H3].
  apply andb_true_iff in H. destruct H as [H1 H2].
  apply even_mod2 in H2.
  repeat split; try lia; try assumption.
  destruct r as [|[b l'] r']; [exact I|].
  now apply negb_true_iff in H3.
Qed.

(** * expand_deltas *)

Ltac fin :=
  cbn [lineval opt_is_zero Z.eqb negb orb app]; rewrite ?orb_true_r; cbn [orb app];
  rewrite ?zrepeat_zero; cbn [app];
  rewrite <- ?app_comm_cons, <- ?app_assoc; cbn [app];
  rewrite ?Z.mul_0_l, ?Z.add_0_r, ?Z.sub_0_r; reflexivity.

Lemma expand_item_emit bd line prev :
  0 < bd ->
  expand_item true (match line with Some l => Some (l - prev) | None => None end, bd)
  = emit_310 bd line prev.
Proof.
  intros Hbd.
  destruct (nsplit_254 bd) as [[Hb1 Hb2]|[Hb1 [Hb2 Hb3]]].
  - (* no bytecode split *)
    destruct line as [l|].
    + unfold expand_item, emit_310, expand_line, expand_bytecode.
      cbn [fst snd min_line max_bc].
      change (- -127) with 127.
      set (ld := l - prev).
      destruct (nsplit_127 ld) as [[Hp1 Hp2]|[Hp1 [Hp2 Hp3]]];
        destruct (nsplit_127 (- ld)) as [[Hn1 Hn2]|[Hn1 [Hn2 Hn3]]]; try lia.
      * rewrite Hp2, Hn2, Hb2. cbn [Z.eqb negb app lineval opt_is_zero orb].
        rewrite Hb2. cbn [Z.eqb].
        rewrite ?zrepeat_zero. cbn [app].
        replace (bd =? 0) with false by lia.
        rewrite orb_true_r. cbn [orb].
        cbn [lineval]. rewrite ?Z.mul_0_l, ?Z.add_0_r, ?Z.sub_0_r. reflexivity.
      * rewrite Hp2. cbn [Z.eqb negb].
        replace (nsplit (- ld) 127 =? 0) with false by lia. cbn [negb].
        rewrite Hb2. cbn [Z.eqb app lineval].
        replace (bd =? 0) with false by lia.
        rewrite orb_true_r. cbn [orb].
        rewrite (zrepeat_S _ (nsplit (- ld) 127)) by lia.
        rewrite ?zrepeat_zero. cbn [app].
        cbn [lineval]. rewrite ?Z.mul_0_l, ?Z.add_0_r, ?Z.sub_0_r. reflexivity.
      * replace (nsplit ld 127 =? 0) with false by lia. cbn [negb].
        rewrite Hb2. cbn [Z.eqb app lineval].
        replace (bd =? 0) with false by lia.
        rewrite orb_true_r. cbn [orb].
        rewrite (zrepeat_S _ (nsplit ld 127)) by lia.
        rewrite Hn2. rewrite ?zrepeat_zero. cbn [app].
        cbn [lineval]. rewrite ?Z.mul_0_l, ?Z.add_0_r, ?Z.sub_0_r. reflexivity.
    + unfold expand_item, emit_310, expand_line, expand_bytecode.
      cbn [fst snd min_line max_bc].
      rewrite Hb2. cbn [Z.eqb app lineval opt_is_zero negb orb].
      rewrite ?zrepeat_zero. cbn [app]. reflexivity.
  - (* bytecode split *)
    assert (Hnb : (nsplit bd 254 =? 0) = false) by lia.
    assert (Hlast : (bd - nsplit bd 254 * 254 =? 0) = false) by lia.
    destruct line as [l|].
    + unfold expand_item, emit_310, expand_line, expand_bytecode.
      cbn [fst snd min_line max_bc].
      change (- -127) with 127.
      set (ld := l - prev).
      destruct (nsplit_127 ld) as [[Hp1 Hp2]|[Hp1 [Hp2 Hp3]]];
        destruct (nsplit_127 (- ld)) as [[Hn1 Hn2]|[Hn1 [Hn2 Hn3]]]; try lia.
      * rewrite Hp2, Hn2. cbn [Z.eqb negb].
        rewrite Hnb, Hlast. fin.
      * rewrite Hp2. cbn [Z.eqb negb].
        replace (nsplit (- ld) 127 =? 0) with false by lia. cbn [negb].
        rewrite Hnb, Hlast.
        rewrite (zrepeat_S _ (nsplit (- ld) 127)) by lia. fin.
      * replace (nsplit ld 127 =? 0) with false by lia. cbn [negb].
        rewrite Hnb, Hlast.
        rewrite (zrepeat_S _ (nsplit ld 127)) by lia.
        rewrite Hn2. fin.
    + unfold expand_item, emit_310, expand_line, expand_bytecode.
      cbn [fst snd min_line max_bc].
      rewrite Hnb. fin.
Qed.

Lemma expand_deltas : S_expand_deltas.
Proof.
  unfold S_expand_deltas. intros p. induction p as [|[bd line] r IH]; intros prev Hok.
  - reflexivity.
  - apply ranges_ok_cons in Hok. destruct Hok as [Hbd [Hev [Hr _]]].
    cbn [deltas asm_310]. unfold expand_items. cbn [flat_map].
    replace (bd =? 0) with false by lia.
    rewrite expand_item_emit by assumption.
    f_equal. apply IH. assumption.
Qed.

(** * asm_310_raw *)

Lemma emit_310_raw bd line prev :
  0 < bd -> bd mod 2 = 0 ->
  raw_ok true (emit_310 bd line prev) = true /\ raw_even (emit_310 bd line prev) = true.
Proof.
  intros Hbd Hev. unfold raw_ok, raw_even, emit_310.
  rewrite !forallb_app.
  rewrite !forallb_zrepeat by reflexivity.
  cbn [andb].
  set (ld0 := match line with Some l => l - prev | None => -128 end).
  set (np := match line with Some _ => nsplit ld0 127 | None => 0 end).
  set (nn := match line with Some _ => nsplit (- ld0) 127 | None => 0 end).
  set (cont := match line with Some _ => 0 | None => -128 end).
  assert (Hld1 : -128 <= ld0 - np * 127 + nn * 127 <= 127).
  { subst np nn. destruct line as [l|].
    - destruct (nsplit_127 ld0) as [[Hp1 Hp2]|[Hp1 [Hp2 Hp3]]];
        destruct (nsplit_127 (- ld0)) as [[Hn1 Hn2]|[Hn1 [Hn2 Hn3]]]; lia.
    - subst ld0. lia. }
  assert (Hcont : cont = 0 \/ cont = -128) by (subst cont; destruct line; lia).
  destruct (nsplit_254 bd) as [[Hb1 Hb2]|[Hb1 [Hb2 Hb3]]].
  - rewrite Hb2. cbn [Z.eqb forallb].
    unfold raw_entry_ok, max_bc. cbn [fst snd].
    rewrite (proj2 (even_mod2 bd)) by assumption. split; lia.
  - replace (nsplit bd 254 =? 0) with false by lia.
    cbn [forallb]. rewrite !forallb_app. cbn [forallb].
    assert (E1 : raw_entry_ok true (cont, 254) = true)
      by (unfold raw_entry_ok, max_bc; cbn [fst snd]; lia).
    rewrite !forallb_zrepeat by (assumption || reflexivity).
    unfold raw_entry_ok, max_bc. cbn [fst snd].
    rewrite (proj2 (even_mod2 (bd - nsplit bd 254 * 254))) by lia.
    change (Z.even 254) with true.
    split; lia.
Qed.

Lemma asm_310_raw : S_asm_310_raw.
Proof.
  unfold S_asm_310_raw. intros p. induction p as [|[bd line] r IH]; intros prev Hok.
  - split; reflexivity.
  - apply ranges_ok_cons in Hok. destruct Hok as [Hbd [Hev [Hr _]]].
    cbn [asm_310]. replace (bd =? 0) with false by lia.
    unfold raw_ok, raw_even. rewrite !forallb_app.
    destruct (emit_310_raw bd line prev Hbd Hev) as [E1 E2].
    destruct (IH (match line with Some l => l | None => prev end) Hr) as [E3 E4].
    unfold raw_ok, raw_even in E1, E2, E3, E4.
    rewrite E1, E2, E3, E4. split; reflexivity.
Qed.

(** * range2 *)

Definition wfw (w : Z) : Prop := 0 <= w /\ w mod 2 = 0.

Lemma range2_fuel_eq a w : wfw w -> range2 a (a + w) = range2_fuel (Z.to_nat (w / 2)) a.
Proof.
  intros [H0 H2]. unfold range2. destruct (a + w <=? a) eqn:E.
  - replace (Z.to_nat (w / 2)) with 0%nat by lia. reflexivity.
  - f_equal. lia.
Qed.

Lemma range2_nil a : range2 a (a + 0) = [].
Proof. unfold range2. replace (a + 0 <=? a) with true by lia. reflexivity. Qed.

Lemma range2_fuel_app n1 n2 a :
  range2_fuel (n1 + n2) a = range2_fuel n1 a ++ range2_fuel n2 (a + 2 * Z.of_nat n1).
Proof.
  revert a. induction n1 as [|k IH]; intros a.
  - cbn [Nat.add range2_fuel app]. f_equal. lia.
  - cbn [Nat.add range2_fuel app]. f_equal. rewrite IH. f_equal. f_equal. lia.
Qed.

Lemma range2_split a w1 w2 :
  wfw w1 -> wfw w2 -> range2 a (a + (w1 + w2)) = range2 a (a + w1) ++ range2 (a + w1) (a + w1 + w2).
Proof.
  intros H1 H2.
  assert (H12 : wfw (w1 + w2)) by (unfold wfw in *; lia).
  rewrite !range2_fuel_eq by assumption.
  replace (Z.to_nat ((w1 + w2) / 2)) with (Z.to_nat (w1 / 2) + Z.to_nat (w2 / 2))%nat
    by (unfold wfw in *; lia).
  rewrite range2_fuel_app. f_equal. f_equal. unfold wfw in *. lia.
Qed.

Lemma In_range2_fuel n : forall a k,
  In k (range2_fuel n a) <-> a <= k < a + 2 * Z.of_nat n /\ (k - a) mod 2 = 0.
Proof.
  induction n as [|n IH]; intros a k; cbn [range2_fuel In].
  - lia.
  - rewrite IH. lia.
Qed.

Lemma In_range2 a w k : wfw w -> In k (range2 a (a + w)) <-> a <= k < a + w /\ (k - a) mod 2 = 0.
Proof.
  intros Hw. rewrite range2_fuel_eq by assumption. rewrite In_range2_fuel.
  unfold wfw in Hw. lia.
Qed.

Lemma last_cons {A} (x : A) l d : last (x :: l) d = last l x.
Proof.
  revert x d. induction l as [|y l IH]; intros x d.
  - reflexivity.
  - change (last (x :: y :: l) d) with (last (y :: l) d). rewrite !IH. reflexivity.
Qed.

Lemma last_range2_fuel n : forall a, last (range2_fuel n (a + 2)) a = a + 2 * Z.of_nat n.
Proof.
  induction n as [|n IH]; intros a; cbn [range2_fuel].
  - cbn [last]. lia.
  - rewrite last_cons. rewrite IH. lia.
Qed.

(** * items_of_mapping_310 *)

Lemma walk_range line ks : forall rest sec_bo lsl diff lk,
  mapping_to_items_lt (map (fun o => (o, line)) ks ++ rest) sec_bo line lsl diff lk
  = mapping_to_items_lt rest sec_bo line lsl diff (last ks lk).
Proof.
  induction ks as [|k ks IH]; intros rest sec_bo lsl diff lk.
  - reflexivity.
  - cbn [map app mapping_to_items_lt]. rewrite option_eqb_refl. rewrite IH.
    rewrite last_cons. reflexivity.
Qed.

Lemma items_lt_ranges p : forall a sec_bo sec_line lsl diff lk,
  ranges_ok p = true ->
  match p with [] => True | (_, l') :: _ => option_eqb Z.eqb sec_line l' = false end ->
  lk + 2 = a ->
  mapping_to_items_lt (mapping_of_ranges p a) sec_bo sec_line lsl diff lk
  = (diff, a - sec_bo) :: deltas p lsl.
Proof.
  induction p as [|[bd line] r IH]; intros a sec_bo sec_line lsl diff lk Hok Hne Hlk.
  - cbn [mapping_of_ranges mapping_to_items_lt deltas]. rewrite Hlk. reflexivity.
  - apply ranges_ok_cons in Hok. destruct Hok as [Hbd [Hev [Hr Hne']]].
    assert (Hw : wfw bd) by (unfold wfw; lia).
    cbn [mapping_of_ranges deltas].
    rewrite range2_fuel_eq by assumption.
    replace (Z.to_nat (bd / 2)) with (S (Z.to_nat (bd / 2 - 1))) by lia.
    cbn [range2_fuel map app mapping_to_items_lt].
    rewrite option_eqb_sym, Hne.
    f_equal. rewrite walk_range. rewrite last_range2_fuel.
    rewrite IH; try assumption; try lia.
    f_equal. f_equal. lia.
Qed.

Lemma items_of_mapping_310 : S_items_of_mapping_310.
Proof.
  unfold S_items_of_mapping_310. intros p Hok Hne.
  destruct p as [|[bd line] r]; [congruence|].
  apply ranges_ok_cons in Hok. destruct Hok as [Hbd [Hev [Hr Hne']]].
  assert (Hw : wfw bd) by (unfold wfw; lia).
  unfold mapping_to_items. cbn [lm_lines mapping_of_ranges deltas].
  rewrite range2_fuel_eq by assumption.
  replace (Z.to_nat (bd / 2)) with (S (Z.to_nat (bd / 2 - 1))) by lia.
  cbn [range2_fuel map app].
  f_equal. rewrite walk_range. rewrite last_range2_fuel.
  rewrite items_lt_ranges; try assumption; try lia.
  destruct line as [l|]; rewrite ?Z.sub_0_r; f_equal; f_equal; lia.
Qed.

(** * Denotation of a list of collapsed items: offset -> line, in order *)

Definition cells (a w : Z) (v : option Z) : odict (option Z) :=
  map (fun o => (o, v)) (range2 a (a + w)).

Fixpoint sem (c : list citem) (cur a : Z) : odict (option Z) :=
  match c with
  | [] => []
  | (il, ib) :: r =>
      let cur' := match il with Some d => cur + d | None => cur end in
      let v := match il with Some _ => Some cur' | None => None end in
      cells a ib v ++ sem r cur' (a + ib)
  end.

Definition wfi (c : citem) : Prop := wfw (snd c).

Lemma cells_0 a v : cells a 0 v = [].
Proof. unfold cells. rewrite range2_nil. reflexivity. Qed.

Lemma cells_app a w1 w2 v :
  wfw w1 -> wfw w2 -> cells a (w1 + w2) v = cells a w1 v ++ cells (a + w1) w2 v.
Proof. intros H1 H2. unfold cells. rewrite range2_split by assumption. apply map_app. Qed.

Definition fresh (m : odict (option Z)) (a : Z) : Prop := forall k, In k (map fst m) -> k < a.

Lemma oset_fresh (m : odict (option Z)) k v :
  ~ In k (map fst m) -> oset m k v = m ++ [(k, v)].
Proof.
  induction m as [|[k' v'] m IH]; intros Hn.
  - reflexivity.
  - cbn [oset app]. cbn [map fst In] in Hn.
    destruct (k' =? k) eqn:E.
    + exfalso. apply Hn. left. lia.
    + f_equal. apply IH. intros Hin. apply Hn. right. exact Hin.
Qed.

Lemma fold_oset_fuel v n : forall a m,
  fresh m a ->
  fold_left (fun acc i => oset acc i v) (range2_fuel n a) m
  = m ++ map (fun o => (o, v)) (range2_fuel n a).
Proof.
  induction n as [|n IH]; intros a m Hf; cbn [range2_fuel fold_left map].
  - now rewrite app_nil_r.
  - rewrite oset_fresh.
    + rewrite IH.
      * rewrite <- app_assoc. reflexivity.
      * intros k. rewrite map_app, in_app_iff. cbn [map fst In].
        intros [H|[H|[]]]; [apply Hf in H; lia | lia].
    + intros H. apply Hf in H. lia.
Qed.

Lemma mapping_sem c : Forall wfi c -> forall cur a m,
  fresh m a -> items_to_mapping_lt c cur a m = m ++ sem c cur a.
Proof.
  induction 1 as [|[il ib] c Hx Hc IH]; intros cur a m Hf.
  - cbn [items_to_mapping_lt sem]. now rewrite app_nil_r.
  - cbn [items_to_mapping_lt sem]. unfold wfi in Hx. cbn [snd] in Hx.
    unfold cells.
    rewrite range2_fuel_eq by assumption.
    rewrite fold_oset_fuel by assumption.
    rewrite IH.
    + rewrite <- app_assoc. reflexivity.
    + intros k. rewrite map_app, in_app_iff, map_map. cbn [fst]. rewrite map_id.
      intros [H|H]; [apply Hf in H; unfold wfw in Hx; lia|].
      apply In_range2_fuel in H. unfold wfw in Hx. lia.
Qed.

(** collapse preserves the denotation *)

Lemma collapse_step_wf prev acc :
  wfi prev -> Forall wfi acc -> Forall wfi (collapse_step true prev acc).
Proof.
  intros Hp Ha. unfold collapse_step. destruct acc as [|item tl].
  - constructor; [assumption|constructor].
  - destruct (bytecode_offset_split true prev item || line_offset_split true prev item).
    + inversion Ha as [|x l Hi Ht]; subst. constructor; [|assumption].
      destruct prev as [pl pb], item as [il ib]. unfold wfi, wfw in *.
      cbn [merge_items snd] in *. lia.
    + constructor; assumption.
Qed.

Lemma sem_collapse_step prev acc cur a :
  wfi prev -> Forall wfi acc ->
  sem (collapse_step true prev acc) cur a = sem (prev :: acc) cur a.
Proof.
  intros Hp Ha. unfold collapse_step. destruct acc as [|item tl]; [reflexivity|].
  inversion Ha as [|x l Hi Ht]; subst.
  destruct prev as [pl pb], item as [il ib]. unfold wfi in Hp, Hi. cbn [snd] in Hp, Hi.
  destruct (bytecode_offset_split true (pl, pb) (il, ib)) eqn:E1; cbn [orb].
  - unfold bytecode_offset_split in E1.
    destruct il as [i|], pl as [p|]; cbn [opt_is_zero opt_is_some max_bc] in E1; try lia.
    assert (Hi0 : i = 0) by lia. subst i.
    cbn [merge_items Z.eqb sem].
    rewrite cells_app by assumption.
    rewrite <- app_assoc. rewrite !Z.add_0_r, !Z.add_assoc. reflexivity.
  - destruct (line_offset_split true (pl, pb) (il, ib)) eqn:E2; [|reflexivity].
    unfold line_offset_split in E2.
    destruct pl as [p|]; [|lia].
    destruct il as [i|]; [|lia].
    cbn [min_line] in E2.
    assert (Hpb : pb = 0) by lia. subst pb.
    assert (Hi0 : (i =? 0) = false) by (destruct (p >? 0); lia).
    cbn [merge_items sem]. rewrite Hi0.
    rewrite cells_0. cbn [app].
    rewrite !Z.add_0_r, !Z.add_0_l, !Z.add_assoc. reflexivity.
Qed.

Lemma sem_collapse c :
  Forall wfi c ->
  Forall wfi (fold_right (collapse_step true) [] c) /\
  forall cur a, sem (fold_right (collapse_step true) [] c) cur a = sem c cur a.
Proof.
  induction 1 as [|[il ib] c Hx Hc [IH1 IH2]].
  - split; [constructor | reflexivity].
  - cbn [fold_right]. split.
    + apply collapse_step_wf; assumption.
    + intros cur a. rewrite sem_collapse_step by assumption.
      cbn [sem]. rewrite IH2. reflexivity.
Qed.

Lemma raw_wf t :
  raw_ok true t = true -> raw_even t = true -> Forall wfi (map (to_citem true) t).
Proof.
  induction t as [|[ld bd] t IH]; intros H1 H2; cbn [map].
  - constructor.
  - unfold raw_ok in H1. unfold raw_even in H2. cbn [forallb] in H1, H2.
    apply andb_true_iff in H1. destruct H1 as [H1 H1'].
    apply andb_true_iff in H2. destruct H2 as [H2 H2'].
    constructor; [|apply IH; assumption].
    unfold wfi, wfw, to_citem. cbn [snd] in *. apply even_mod2 in H2.
    unfold raw_entry_ok in H1. cbn [fst snd] in H1. lia.
Qed.

Lemma mapping_collapse t :
  raw_ok true t = true -> raw_even t = true ->
  items_to_mapping_lt (collapse_items true t) 0 0 [] = sem (map (to_citem true) t) 0 0.
Proof.
  intros H1 H2. pose proof (raw_wf t H1 H2) as Hw.
  destruct (sem_collapse _ Hw) as [Hw' Hs].
  unfold collapse_items. rewrite mapping_sem; [|assumption|intros k []].
  cbn [app]. apply Hs.
Qed.

(** * denotation of the assembler output *)

Lemma sem_zero_rep d n : forall r cur a,
  sem (repeat (Some d, 0) n ++ r) cur a = sem r (cur + d * Z.of_nat n) a.
Proof.
  induction n as [|n IH]; intros r cur a; cbn [repeat app].
  - f_equal. lia.
  - cbn [sem]. rewrite cells_0, Z.add_0_r. cbn [app]. rewrite IH. f_equal. lia.
Qed.

Lemma sem_zrepeat0 d n r cur a :
  0 <= n -> sem (zrepeat (Some d, 0) n ++ r) cur a = sem r (cur + d * n) a.
Proof.
  intros Hn. unfold zrepeat. rewrite sem_zero_rep.
  replace (Z.of_nat (Z.to_nat n)) with n by lia. reflexivity.
Qed.

Lemma sem_cont il n : forall r cur a,
  il = Some 0 \/ il = None ->
  sem (repeat (il, 254) n ++ r) cur a
  = cells a (254 * Z.of_nat n) (match il with Some _ => Some cur | None => None end)
    ++ sem r cur (a + 254 * Z.of_nat n).
Proof.
  assert (W : wfw 254) by (unfold wfw; lia).
  induction n as [|n IH]; intros r cur a Hil; cbn [repeat app].
  - change (254 * Z.of_nat 0) with 0. rewrite cells_0, Z.add_0_r. reflexivity.
  - replace (254 * Z.of_nat (S n)) with (254 + 254 * Z.of_nat n) by lia.
    rewrite cells_app by (unfold wfw in *; lia).
    rewrite <- app_assoc, Z.add_assoc.
    destruct Hil as [-> | ->]; cbn [sem]; rewrite ?Z.add_0_r;
      rewrite IH by (auto); reflexivity.
Qed.

Lemma map_zrepeat {A B} (f : A -> B) x n : map f (zrepeat x n) = zrepeat (f x) n.
Proof.
  unfold zrepeat. induction (Z.to_nat n) as [|k IH]; cbn [repeat map]; [reflexivity|].
  now rewrite IH.
Qed.

Lemma sem_emit bd line prev r a :
  0 < bd -> bd mod 2 = 0 ->
  sem (map (to_citem true) (emit_310 bd line prev) ++ r) prev a
  = cells a bd line ++ sem r (match line with Some l => l | None => prev end) (a + bd).
Proof.
  intros Hbd Hev.
  assert (W : wfw 254) by (unfold wfw; lia).
  unfold emit_310.
  set (ld0 := match line with Some l => l - prev | None => -128 end).
  set (np := match line with Some _ => nsplit ld0 127 | None => 0 end).
  set (nn := match line with Some _ => nsplit (- ld0) 127 | None => 0 end).
  set (cont := match line with Some _ => 0 | None => -128 end).
  set (ld1 := ld0 - np * 127 + nn * 127).
  assert (Hnp : 0 <= np).
  { subst np. destruct line; [|lia]. destruct (nsplit_127 ld0); lia. }
  assert (Hnn : 0 <= nn).
  { subst nn. destruct line; [|lia]. destruct (nsplit_127 (- ld0)); lia. }
  rewrite !map_app, !map_zrepeat, <- !app_assoc.
  change (to_citem true (127, 0)) with (Some 127, 0).
  change (to_citem true (-127, 0)) with (Some (-127), 0).
  rewrite sem_zrepeat0 by assumption.
  rewrite sem_zrepeat0 by assumption.
  (* the first real entry *)
  set (il1 := fst (to_citem true (ld1, 0))).
  set (cur0 := prev + 127 * np + -127 * nn).
  assert (Hcur : match il1 with Some d => cur0 + d | None => cur0 end
                 = match line with Some l => l | None => prev end
                 /\ match il1 with
                    | Some _ => Some (match il1 with Some d => cur0 + d | None => cur0 end)
                    | None => None end = line).
  { subst il1 cur0 ld1 np nn ld0. unfold to_citem. cbn [fst andb].
    destruct line as [l|].
    - destruct (nsplit_127 (l - prev)) as [[Hp1 Hp2]|[Hp1 [Hp2 Hp3]]];
        destruct (nsplit_127 (- (l - prev))) as [[Hn1 Hn2]|[Hn1 [Hn2 Hn3]]]; try lia;
        (match goal with |- context [if ?b then _ else _] => replace b with false by lia end);
        (split; [lia | f_equal; lia]).
    - cbn. split; [lia | reflexivity]. }
  destruct Hcur as [Hcur Hval].
  assert (Hcont : fst (to_citem true (cont, 0)) = Some 0 /\ line <> None
                  \/ fst (to_citem true (cont, 0)) = None /\ line = None).
  { subst cont. destruct line; [left|right]; split; try reflexivity. congruence. }
  destruct (nsplit_254 bd) as [[Hb1 Hb2]|[Hb1 [Hb2 Hb3]]].
  - rewrite Hb2. cbn [Z.eqb map app].
    change (to_citem true (ld1, bd)) with (il1, bd).
    cbn [sem]. fold cur0. rewrite Hval, Hcur. reflexivity.
  - replace (nsplit bd 254 =? 0) with false by lia.
    set (nb := nsplit bd 254) in *.
    cbn [map app]. rewrite map_app, map_zrepeat. cbn [map].
    change (to_citem true (ld1, 254)) with (il1, 254).
    change (to_citem true (cont, 254)) with (fst (to_citem true (cont, 0)), 254).
    change (to_citem true (cont, bd - nb * 254))
      with (fst (to_citem true (cont, 0)), bd - nb * 254).
    set (ilc := fst (to_citem true (cont, 0))) in *.
    cbn [sem]. fold cur0. rewrite Hval, Hcur.
    rewrite <- app_assoc. unfold zrepeat.
    rewrite sem_cont by (destruct Hcont as [[H _]|[H _]]; auto).
    cbn [app sem].
    assert (Hv : match ilc with
                 | Some _ => Some (match line with Some l => l | None => prev end)
                 | None => None end = line).
    { destruct Hcont as [[-> H]|[-> ->]]; [|reflexivity]. destruct line; congruence. }
    assert (Hc : match ilc with
                 | Some d => match line with Some l => l | None => prev end + d
                 | None => match line with Some l => l | None => prev end end
                 = match line with Some l => l | None => prev end).
    { destruct Hcont as [[-> H]|[-> ->]]; [lia|reflexivity]. }
    rewrite Hc, Hv.
    replace (Z.of_nat (Z.to_nat (nb - 1))) with (nb - 1) by lia.
    replace bd with (254 + (254 * (nb - 1) + (bd - nb * 254))) at 3 4 by lia.
    rewrite !cells_app by (unfold wfw in *; lia).
    rewrite <- !app_assoc.
    rewrite !Z.add_assoc. reflexivity.
Qed.

Lemma sem_asm p : forall prev a,
  ranges_ok p = true ->
  sem (map (to_citem true) (asm_310 p prev)) prev a = mapping_of_ranges p a.
Proof.
  induction p as [|[bd line] r IH]; intros prev a Hok.
  - reflexivity.
  - apply ranges_ok_cons in Hok. destruct Hok as [Hbd [Hev [Hr _]]].
    cbn [asm_310 mapping_of_ranges]. replace (bd =? 0) with false by lia.
    rewrite map_app. rewrite sem_emit by assumption.
    rewrite IH by assumption. reflexivity.
Qed.

Lemma mapping_of_asm310 : S_mapping_of_asm310.
Proof.
  unfold S_mapping_of_asm310. intros p n Hok.
  destruct (asm_310_raw p 0 Hok) as [H1 H2].
  unfold items_to_mapping. rewrite mapping_collapse by assumption.
  rewrite sem_asm by assumption. reflexivity.
Qed.

(** * reader_310 *)

Lemma oget_app {V} (l1 l2 : odict V) k :
  oget (l1 ++ l2) k = match oget l1 k with Some v => Some v | None => oget l2 k end.
Proof.
  induction l1 as [|[k' v'] l1 IH]; cbn [app oget].
  - reflexivity.
  - destruct (k' =? k); [reflexivity | apply IH].
Qed.

Lemma oget_map_in {V} (v : V) ks k : In k ks -> oget (map (fun o => (o, v)) ks) k = Some v.
Proof.
  induction ks as [|x ks IH]; intros H; cbn [map oget].
  - destruct H.
  - destruct (x =? k) eqn:E; [reflexivity|].
    destruct H as [H|H]; [lia | now apply IH].
Qed.

Lemma oget_map_notin {V} (v : V) ks k : ~ In k ks -> oget (map (fun o => (o, v)) ks) k = None.
Proof.
  induction ks as [|x ks IH]; intros H; cbn [map oget].
  - reflexivity.
  - destruct (x =? k) eqn:E.
    + exfalso. apply H. left. lia.
    + apply IH. intros Hin. apply H. right. exact Hin.
Qed.

Lemma sem_colines t : forall a line o x,
  raw_ok true t = true -> raw_even t = true ->
  a mod 2 = 0 -> o mod 2 = 0 ->
  colines_from t a line o = Some x ->
  oget (sem (map (to_citem true) t) line a) o = Some x.
Proof.
  induction t as [|[ld bd] t IH]; intros a line o x H1 H2 Ha Ho Hc.
  - discriminate Hc.
  - unfold raw_ok in H1. unfold raw_even in H2. cbn [forallb] in H1, H2.
    apply andb_true_iff in H1. destruct H1 as [H1 H1'].
    apply andb_true_iff in H2. destruct H2 as [H2 H2'].
    cbn [snd] in H2. apply even_mod2 in H2.
    unfold raw_entry_ok in H1. cbn [fst snd] in H1.
    assert (Hw : wfw bd) by (unfold wfw; lia).
    cbn [colines_from] in Hc. cbn [map to_citem sem andb].
    rewrite oget_app. unfold cells.
    destruct ((a <=? o) && (o <? a + bd)) eqn:E2.
    + rewrite oget_map_in by (apply In_range2; [assumption | lia]).
      destruct (ld =? -128); congruence.
    + rewrite oget_map_notin by (rewrite In_range2 by assumption; lia).
      destruct (ld =? -128); apply IH; try assumption; lia.
Qed.

Lemma reader_310 : S_reader_310.
Proof.
  unfold S_reader_310. intros t n m H1 H2 Hm o x Ho Hc.
  unfold items_to_mapping in Hm. injection Hm as <-. cbn [lm_lines].
  rewrite mapping_collapse by assumption.
  apply even_mod2 in Ho.
  apply sem_colines; try assumption. reflexivity.
Qed.

(** * composition *)

Lemma raw_ok_true_false t : raw_ok true t = true -> raw_ok false t = true.
Proof.
  unfold raw_ok. induction t as [|e t IH]; cbn [forallb]; [reflexivity|].
  intros H. apply andb_true_iff in H. destruct H as [He Ht].
  rewrite IH by assumption. rewrite andb_true_r.
  unfold raw_entry_ok, max_bc in *. lia.
Qed.

Lemma C10_310_from : S_items_bytes -> S_bytes_items -> S_C10_310.
Proof.
  intros Hib _. unfold S_C10_310. intros p n Hok Hne. set (t := asm_310 p 0).
  destruct (asm_310_raw p 0 Hok) as [H1 H2]. fold t in H1, H2.
  destruct (Hib t (raw_ok_true_false t H1)) as [b [Hb1 [Hb2 Hb3]]].
  exists b. exists {| lm_lines := mapping_of_ranges p 0; lm_adds := [] |}.
  assert (Hto : to_line_mapping true b n
                = OK {| lm_lines := mapping_of_ranges p 0; lm_adds := [] |}).
  { unfold to_line_mapping. rewrite Hb3. unfold t. exact (mapping_of_asm310 p n Hok). }
  split; [assumption|]. split; [assumption|]. split.
  - unfold from_line_mapping. rewrite (items_of_mapping_310 p Hok Hne).
    rewrite (expand_deltas p 0 Hok). exact Hb1.
  - intros o x Ho Hc.
    unfold to_line_mapping in Hto. rewrite Hb3 in Hto.
    exact (reader_310 t n _ H1 H2 Hto o x Ho Hc).
Qed.

Print Assumptions expand_deltas.
Print Assumptions mapping_of_asm310.
Print Assumptions items_of_mapping_310.
Print Assumptions asm_310_raw.
Print Assumptions reader_310.
Print Assumptions C10_310_from.
