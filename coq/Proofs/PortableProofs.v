(* C15: the JSON form is portable -- a loaded document re-serializes to the identical document, and
   normalize commutes with the dump / load cycle. *)
From Coq Require Import ZArith List Bool Lia String.
From PCD Require Import Base.PyBase Base.Cfg Model.Flags Model.Args Model.Data Model.Consts
  Model.CodeData Model.Json
  Proofs.ConstsProofs Proofs.C07_Statements Proofs.C15_Statements Proofs.JsonProofs1 Proofs.JsonProofs2.
Import ListNotations. Open Scope Z_scope. Open Scope list_scope.

(* ------------------------------------------------------------------ *)
(* floats: every NaN is written as the same object                      *)

Lemma qnan_is_nan : float_is_nan QNANJ = true.
Proof. vm_compute. reflexivity. Qed.
Lemma qnan_not_inf : float_is_inf QNANJ = false.
Proof. vm_compute. reflexivity. Qed.

Lemma nan_not_inf b : float_is_nan b = true -> float_is_inf b = false.
Proof.
  intros N. destruct (float_is_inf b) eqn:I; [|reflexivity].
  unfold float_is_inf in I. apply orb_true_iff in I.
  destruct I as [I|I]; apply Z.eqb_eq in I; subst b; vm_compute in N; discriminate N.
Qed.

Lemma float_to_json_canon b : float_to_json (canon_bits b) = float_to_json b.
Proof.
  unfold canon_bits. destruct (float_is_nan b) eqn:N; [|reflexivity].
  unfold float_to_json. rewrite qnan_not_inf, qnan_is_nan, (nan_not_inf b N), N. reflexivity.
Qed.

(* ------------------------------------------------------------------ *)
(* generic list helper                                                  *)

Lemma map_ext_F {A B} (f g : A -> B) l : Forall (fun x => f x = g x) l -> map f l = map g l.
Proof. induction 1 as [|x xs Hx _ IH]; [reflexivity|]. cbn [map]. now rewrite Hx, IH. Qed.

(* ------------------------------------------------------------------ *)
(* inner constants                                                      *)

Lemma iconst_to_json_canon : forall k, iconst_to_json (canon_i k) = iconst_to_json k.
Proof.
  induction k as [ |b|z|f|r i|s|b| |l IH|l IH] using iconst_ind';
    cbn [canon_i iconst_to_json]; try reflexivity.
  - apply float_to_json_canon.
  - now rewrite !float_to_json_canon.
  - rewrite map_map. f_equal. now apply map_ext_F.
  - rewrite map_map. do 4 f_equal. now apply map_ext_F.
Qed.

(* ------------------------------------------------------------------ *)
(* the data classes, for any change of constants that keeps their document *)

Section MapJson.
  Context {C D : Type} (f : C -> D) (cj : D -> json) (cj' : C -> json).
  Let Q (c : C) : Prop := cj (f c) = cj' c.

  Lemma arg_is_default_map (a : arg_ C) : arg_is_default (map_arg f a) = arg_is_default a.
  Proof. now destruct a. Qed.

  Lemma arg_to_json_map a : argP Q a -> arg_to_json cj (map_arg f a) = arg_to_json cj' a.
  Proof.
    destruct a; cbn [argP map_arg arg_to_json]; intros H; try reflexivity.
    unfold Q in H. now rewrite H.
  Qed.

  Lemma instr_to_json_map i : instrP Q i -> instr_to_json cj (map_instr f i) = instr_to_json cj' i.
  Proof.
    intros H. unfold instr_to_json, map_instr. cbn [i_name i_arg i_nargs i_line i_lineoffs].
    rewrite arg_is_default_map, arg_to_json_map by exact H. reflexivity.
  Qed.

  Lemma cd_to_json_map d : cdP Q d -> cd_to_json_with cj (map_cd f d) = cd_to_json_with cj' d.
  Proof.
    intros [HB HA]. unfold cd_to_json_with, map_cd.
    cbn [cd_blocks cd_filename cd_firstline cd_name cd_stacksize cd_type cd_freevars
         cd_future_annotations cd_nested cd_addline cd_addargs].
    assert (EB : map (fun b => JList (map (instr_to_json cj) b)) (map (map (map_instr f)) (cd_blocks d))
                 = map (fun b => JList (map (instr_to_json cj') b)) (cd_blocks d)).
    { rewrite map_map. apply map_ext_F. eapply Forall_impl; [|exact HB]. intros b Hb.
      cbv beta. rewrite map_map. f_equal. apply map_ext_F.
      eapply Forall_impl; [|exact Hb]. intros i Hi. now apply instr_to_json_map. }
    assert (EA : list_field "_additional_args" (arg_to_json cj) (map (map_arg f) (cd_addargs d))
                 = list_field "_additional_args" (arg_to_json cj') (cd_addargs d)).
    { unfold list_field. destruct (cd_addargs d) as [|a r] eqn:E; [reflexivity|].
      rewrite <- E in *. destruct (map (map_arg f) (cd_addargs d)) eqn:E2.
      - rewrite E in E2. discriminate E2.
      - rewrite <- E2. rewrite map_map. do 3 f_equal. apply map_ext_F.
        eapply Forall_impl; [|exact HA]. intros x Hx. now apply arg_to_json_map. }
    rewrite EB, EA. reflexivity.
  Qed.
End MapJson.

(* ------------------------------------------------------------------ *)
(* 1. canonical NaNs do not change the document                         *)

Lemma const_to_json_canon : forall k, const_to_json (canon_const k) = const_to_json k.
Proof.
  induction k as [i|d IH] using const_ind'; cbn [canon_const const_to_json].
  - apply iconst_to_json_canon.
  - now apply cd_to_json_map.
Qed.

Lemma code_data_to_json_canon d : code_data_to_json (canon_cd d) = code_data_to_json d.
Proof.
  unfold code_data_to_json, canon_cd. apply cd_to_json_map. apply cdP_all.
  exact const_to_json_canon.
Qed.

Theorem reserialize : S_reserialize.
Proof.
  intros d W. exists (canon_cd d). split.
  - now apply json_roundtrip_canon.
  - apply code_data_to_json_canon.
Qed.

(* ------------------------------------------------------------------ *)
(* 2. normalize commutes with canonicalisation                          *)

Section NormMap.
  Context (n c : const -> const).
  Let Q (k : const) : Prop := n (c k) = c (n k).

  Lemma arg_norm_map a : argP Q a -> map_arg_norm n (map_arg c a) = map_arg c (map_arg_norm n a).
  Proof.
    destruct a; cbn [argP map_arg map_arg_norm]; intros H; try reflexivity.
    unfold Q in H. now rewrite H.
  Qed.

  Lemma instr_norm_map i :
    instrP Q i -> map_instr_norm n (map_instr c i) = map_instr c (map_instr_norm n i).
  Proof.
    intros H. unfold map_instr_norm, map_instr. cbn [i_name i_arg i_nargs i_line i_lineoffs].
    now rewrite arg_norm_map.
  Qed.

  Lemma cd_norm_map d : cdP Q d -> map_cd_norm n (map_cd c d) = map_cd c (map_cd_norm n d).
  Proof.
    intros [HB _]. unfold map_cd_norm, map_cd.
    cbn [cd_blocks cd_filename cd_firstline cd_name cd_stacksize cd_type cd_freevars
         cd_future_annotations cd_nested cd_addline cd_addargs map].
    f_equal. rewrite !map_map. apply map_ext_F. eapply Forall_impl; [|exact HB]. intros b Hb.
    cbv beta. rewrite !map_map. apply map_ext_F.
    eapply Forall_impl; [|exact Hb]. intros i Hi. now apply instr_norm_map.
  Qed.
End NormMap.

Lemma normalize_const_canon : forall k,
  normalize_const (canon_const k) = canon_const (normalize_const k).
Proof.
  induction k as [i|d IH] using const_ind'; cbn [canon_const normalize_const].
  - reflexivity.
  - f_equal. now apply cd_norm_map.
Qed.

Lemma normalize_canon d : normalize (canon_cd d) = canon_cd (normalize d).
Proof.
  unfold normalize, canon_cd. apply cd_norm_map. apply cdP_all. exact normalize_const_canon.
Qed.

Theorem normalize_portable : S_normalize_portable.
Proof.
  intros d W. exists (canon_cd d). split.
  - now apply json_roundtrip_canon.
  - rewrite normalize_canon. apply code_data_to_json_canon.
Qed.

Theorem C15_all : S_reserialize /\ S_normalize_portable.
Proof. split; [exact reserialize | exact normalize_portable]. Qed.

Print Assumptions reserialize.
Print Assumptions normalize_portable.
