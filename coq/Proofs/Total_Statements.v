(* Statements for the "succeeds" / "returns" clauses: decoding a well-formed code object succeeds (C01),
   encoding well-formed data returns a code object (C03). *)
From PCD Require Import Base.PyBase Base.Cfg Model.Flags Model.Args Model.Data Model.Consts
  Model.LineTable Model.Blocks Model.CodeData Spec.Lnotab Spec.Dis Model.ViewSer
  Proofs.C02_Statements Proofs.C11_Statements Proofs.C01_Statements Proofs.C03_Statements
  Proofs.C03b_Statements Proofs.C03c_Statements Proofs.RoundTrip.

(* C01, one level: from_code succeeds on a code object in the round-trip domain whose header is
   decodable ([hdr_ok]: a boolean on the header only, to be defined by the proof file; it must not
   mention decode_code / to_code_data) *)
Definition S_decode_total (hdr_ok : cfg -> pycode -> list const -> bool) : Prop :=
  forall c code ks,
    rt_wf c code ks && rt_extra c code && hdr_ok c code ks = true ->
    exists d, decode_code c code ks = OK d.

(* C01, all nesting levels *)
Definition S_to_code_data_total (hdr_ok_deep : cfg -> pyconst -> bool) : Prop :=
  forall c code,
    rt_wf_deep c (PCode code) && rt_extra_deep c (PCode code) && hdr_ok_deep c (PCode code) = true ->
    exists d, to_code_data c code = OK d.

(* C03, one level: to_code returns a code object for well-formed data (plus [enc_ok], a boolean on the
   datum and the configuration only - sizes within CPython's limits and the like - to be defined by the
   proof file; it must not mention encode_code / blocks_to_bytes) *)
Definition S_encode_total (enc_ok : cfg -> code_data_ pconst -> bool) : Prop :=
  forall c (d : code_data_ pconst),
    data_wf c d && enc_ok c d = true ->
    exists code, encode_code c d = OK code.
