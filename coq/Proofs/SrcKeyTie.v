(* Tie between Model/Consts.ikey_eqb (the model of Constant.__eq__ on inner constants) and the key function
   re-translated from code_data/_constants.py on every run (Gen/SrcKey.v): Python's == on the keys the source
   builds IS the model's equality, for all pairs of constants at any nesting. *)
From PCD Require Import Base.PyBase Base.Cfg Model.Flags Model.Args Model.Data Model.Consts Model.PyVal
  Proofs.ConstsProofs.
From PCD Require Gen.SrcKey.
From Coq Require Import ZifyBool.

Module K := PCD.Gen.SrcKey.

Lemma pv_eqb_tuple x y : pv_eqb (PTuple x) (PTuple y) = leqb pv_eqb x y.
Proof. cbn [pv_eqb]. revert y. induction x as [|p ps IH]; intros [|q qs]; cbn; auto. Qed.

Lemma pv_eqb_frozenset x y : pv_eqb (PFrozenset x) (PFrozenset y) = fs_eqb pv_eqb x y.
Proof.
  cbn [pv_eqb]. unfold fs_eqb. f_equal.
  induction x as [|p ps IH]; cbn; auto. rewrite IH. reflexivity.
Qed.

(* no key is a type object, so a key that starts with a type object is never a tuple / frozenset key *)
Lemma key_not_type_r t x : pv_eqb (PType t) (K.key x) = false.
Proof. destruct x; reflexivity. Qed.
Lemma key_not_type_l t x : pv_eqb (K.key x) (PType t) = false.
Proof. destruct x; try reflexivity. Qed.

Lemma typed_vs_tuple_r t rest l : pv_eqb (PTuple (PType t :: rest)) (PTuple (map K.key l)) = false.
Proof. rewrite pv_eqb_tuple. destruct l as [|x r]; cbn [map leqb]; [reflexivity|]. rewrite key_not_type_r. reflexivity. Qed.
Lemma typed_vs_tuple_l t rest l : pv_eqb (PTuple (map K.key l)) (PTuple (PType t :: rest)) = false.
Proof. rewrite pv_eqb_tuple. destruct l as [|x r]; cbn [map leqb]; [reflexivity|]. rewrite key_not_type_l. reflexivity. Qed.

(* one float part: (replace_nan(x), is_neg_zero(x)) == (replace_nan(y), is_neg_zero(y)) *)
Lemma float_parts x y :
  pv_eqb (replace_nan x) (replace_nan y) && pv_eqb (is_neg_zero x) (is_neg_zero y) = float_key_eqb x y.
Proof.
  unfold replace_nan, is_neg_zero, float_key_eqb. cbn [pv_eqb].
  destruct (float_is_nan x) eqn:Nx, (float_is_nan y) eqn:Ny; cbn [pv_eqb andb orb].
  - (* both NaN: neither is -0.0 *)
    assert (float_is_neg_zero x = false).
    { unfold float_is_neg_zero. destruct (x =? 9223372036854775808) eqn:E; [|reflexivity].
      assert (x = 9223372036854775808) by lia. subst. discriminate Nx. }
    assert (float_is_neg_zero y = false).
    { unfold float_is_neg_zero. destruct (y =? 9223372036854775808) eqn:E; [|reflexivity].
      assert (y = 9223372036854775808) by lia. subst. discriminate Ny. }
    rewrite H, H0. reflexivity.
  - symmetry. destruct (x =? y) eqn:E; [|reflexivity]. assert (x = y) by lia. subst. congruence.
  - symmetry. destruct (x =? y) eqn:E; [|reflexivity]. assert (x = y) by lia. subst. congruence.
  - unfold float_val_eqb. rewrite Nx, Ny. cbn [orb]. unfold f_is_zero, float_is_neg_zero.
    destruct (x =? y) eqn:E.
    + assert (x = y) by lia. subst. cbn [orb]. destruct (y =? 9223372036854775808); reflexivity.
    + cbn [orb]. destruct (x =? 0) eqn:X0, (x =? 9223372036854775808) eqn:X1, (y =? 0) eqn:Y0, (y =? 9223372036854775808) eqn:Y1;
        cbn; try reflexivity; lia.
Qed.

Theorem key_eq_tie : forall a b, pv_eqb (K.key a) (K.key b) = ikey_eqb a b.
Proof.
  induction a as [ |x|x|x|r i|x|x| |l IH|l IH] using iconst_ind';
    intros [ |y|y|y|r' i'|y|y| |l'|l'];
    try reflexivity;
    try (cbn [K.key]; first [apply typed_vs_tuple_r | apply typed_vs_tuple_l]).
  - (* bool *) cbn. rewrite andb_true_r. reflexivity.
  - (* int *) cbn. rewrite andb_true_r. reflexivity.
  - (* float *)
    cbn [K.key ikey_eqb]. rewrite pv_eqb_tuple. cbn [leqb]. cbn [pv_eqb]. change (T_FLOAT =? T_FLOAT) with true.
    cbn [andb]. rewrite andb_true_r. apply float_parts.
  - (* complex *)
    cbn [K.key ikey_eqb]. rewrite pv_eqb_tuple. cbn [leqb]. change (pv_eqb (PType T_COMPLEX) (PType T_COMPLEX)) with true.
    cbn [andb]. rewrite andb_true_r. rewrite <- (float_parts r r'), <- (float_parts i i').
    destruct (pv_eqb (replace_nan r) (replace_nan r')), (pv_eqb (replace_nan i) (replace_nan i')),
      (pv_eqb (is_neg_zero r) (is_neg_zero r')), (pv_eqb (is_neg_zero i) (is_neg_zero i')); reflexivity.
  - (* tuple *)
    cbn [K.key]. rewrite pv_eqb_tuple, ikey_eqb_tuple, leqb_map. apply leqb_ext_F. exact IH.
  - (* frozenset *)
    cbn [K.key]. rewrite pv_eqb_frozenset, ikey_eqb_frozenset, fs_eqb_map. apply fs_eqb_ext_F. exact IH.
Qed.

Print Assumptions key_eq_tie.
