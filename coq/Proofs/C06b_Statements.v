(* Statement for the code-round-trip clause of C06: the normal form of decoded data is stable under
   to_code followed by from_code (up to the equality of CodeData values, C08). *)
From PCD Require Import Base.PyBase Base.Cfg Model.Flags Model.Args Model.Data Model.Consts
  Model.LineTable Model.Blocks Model.CodeData Spec.Lnotab Spec.Dis Model.ViewSer
  Proofs.C02_Statements Proofs.C11_Statements Proofs.C01_Statements Proofs.C03_Statements
  Proofs.C03b_Statements Proofs.C03c_Statements Proofs.C06_Statements Proofs.NormalFormWf.

(* code (view_wf) --decode--> d --normalize--> n --encode--> code' --decode--> d2:
   normalize d2 is equal (cd_eqb: the library's ==) to n.  kst is the constants table of code' with
   the library-level constant each entry encodes. *)
Definition S_C06_code_roundtrip : Prop := forall c code ks d d' code',
  view_wf c code ks && ops_known c (co_code code) = true -> co_code code <> [] ->
  zlen (co_freevars code) < 1073741824 -> zlen (co_varnames code) < 1073741824 ->
  nodup_str (co_freevars code) = true ->
  (0 <=? cfg_extended_arg c) && (cfg_extended_arg c <? 256) = true ->
  decode_code c code ks = OK d ->
  mapM_cd (fun k' => match from_const c k' with OK p => OK (k', p) | Err e => Err e end) (normalize d) = OK d' ->
  encode_code c d' = OK code' ->
  zlen (co_code code') < 1073741824 ->
  exists kst : list pconst,
    map snd kst = co_consts code' /\
    forall d2, decode_code c code' (map fst kst) = OK d2 ->
      cd_eqb (normalize d2) (normalize d) = true.
